#!/usr/bin/env python3
"""tools/prepare_round.py <root dir> <prop> [<prop> ...]: one scratch worktree of /repo HEAD and one prompt file per property (tools/mutation_prompt.txt)"""
import sys, json, subprocess, os
root = sys.argv[1]
os.makedirs(root, exist_ok=True)
props = {}
for l in open('/verif/properties.jsonl'):
    d = json.loads(l)
    props[d['id']] = d
tmpl = open('/verif/tools/mutation_prompt.txt').read()
for pid in sys.argv[2:]:
    d = props[pid]
    block = "Property %s: %s\n\nStatement: %s\n\nQuantified over: %s\n\nWhy the existing tests cannot settle it: %s\n\nCode it is anchored in: %s\n" % (
        pid, d['title'], d['statement'], d['quantifier']['text'], d['why_tests_cant'], ', '.join(d['anchors']['files']))
    wd = os.path.join(root, pid)
    open(os.path.join(root, pid + '.prompt.txt'), 'w').write(tmpl.replace('@DIR@', wd).replace('@ROOT@', root).replace('@PROPERTY@', block))
    r = subprocess.run(['git', '-C', '/repo', 'worktree', 'add', '--detach', wd, 'HEAD'], capture_output=True, text=True)
    print(pid, r.returncode, r.stderr.strip()[-60:])
