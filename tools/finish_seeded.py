#!/usr/bin/env python3
"""tools/finish_seeded.py <seeded id> <new id> <needs_to_manifest> <detection>  - completes the meta of a triaged seeded change"""
import sys, os, json
old, new, needs, det = sys.argv[1:5]
root = '/verif/seeded'
if old != new:
    os.rename(os.path.join(root, old), os.path.join(root, new))
p = os.path.join(root, new, 'meta.json')
m = json.load(open(p))
m['id'] = new
m['breaks'] = m['property']
m['needs_to_manifest'] = needs
m['detection'] = det
m['what_i_ran'] = ('tools/try_mutation.py: test-suite in the worktree with the change (1987 passed), demo.py with / without the change, '
                   'git -C /repo apply patch.diff; ./check <id> quick; git -C /repo checkout -- .')
json.dump(m, open(p, 'w'), indent=1)
print(new, m['checks'])
