import json, jsonschema, glob, sys
jsonschema.validate(json.load(open('/verif/MANIFEST.json')), json.load(open('/root/.vp/MANIFEST.schema.json')))
print('manifest ok')
sch = json.load(open('/root/.vp/EVIDENCE.schema.json'))
for f in sorted(glob.glob('/verif/evidence/*.json')):
    try:
        jsonschema.validate(json.load(open(f)), sch); print(f, 'ok')
    except Exception as e:
        print(f, 'INVALID', str(e)[:300])
