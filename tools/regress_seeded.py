#!/usr/bin/env python3
"""re-applies every seeded change under seeded/ to /repo (one at a time), runs the quick check of the property it was aimed at and
reports the ones that are no longer caught; /repo is restored after each."""
import json, os, subprocess, sys
ROOT = '/verif'
only = sys.argv[1:]
missed = []
for d in sorted(os.listdir(os.path.join(ROOT, 'seeded'))):
    if only and not any(o in d for o in only):
        continue
    meta = json.load(open(os.path.join(ROOT, 'seeded', d, 'meta.json')))
    if meta.get('neutralised_by'):
        print(d, 'skipped (neutralised by a later fix of parso)'); continue
    prop = meta.get('property') or meta.get('breaks', '')[:3]
    extra = [p for p in meta.get('checks', {}) if p != prop and meta['checks'][p].get('exit') == 1]
    if subprocess.run('git -C /repo status --porcelain', shell=True, capture_output=True, text=True).stdout.strip():
        print('/repo not clean'); sys.exit(2)
    a = subprocess.run('git -C /repo apply %s/seeded/%s/patch.diff' % (ROOT, d), shell=True, capture_output=True, text=True)
    if a.returncode:
        print(d, 'DOES NOT APPLY'); missed.append(d); continue
    try:
        caught = False
        for p in [prop] + extra:
            r = subprocess.run('./check %s quick' % p, shell=True, cwd=ROOT, capture_output=True, text=True)
            if r.returncode == 1 and 'VIOLATION' in r.stdout:
                caught = True
                print(d, 'caught by', p)
                break
        if not caught:
            print(d, 'MISSED by', [prop] + extra); missed.append(d)
    finally:
        subprocess.run('git -C /repo checkout -- .', shell=True)
print('missed:', missed)
