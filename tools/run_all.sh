#!/bin/bash
# runs every registered check once (quick by default) and summarises
cd "$(dirname "$0")/.."
tier=${1:-quick}
for p in C01 C02 C03 C04 C05 C06 C07 C08 C09 C10 C11 C12 C13 C14 C15 C16 C17 C18 C19 C20; do
  VERIF_SEED=${VERIF_SEED:-0} ./check $p $tier 2>&1 | grep -v "^KNOWN-FINDING" | tail -3 | cut -c1-220
done
