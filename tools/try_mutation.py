#!/usr/bin/env python3
"""tools/try_mutation.py <worktree dir> <seeded id> <target property> [other properties to run...]
Confirms a seeded change (test-suite passes, demo fails with / passes without), stores it under seeded/<id>/,
applies it to /repo, runs the checks, undoes it, and records which checks caught it."""
import sys, os, subprocess, json, shutil, time
d, sid, target = sys.argv[1], sys.argv[2], sys.argv[3]
others = sys.argv[4:]
ROOT = '/verif'
out = os.path.join(ROOT, 'seeded', sid)
os.makedirs(out, exist_ok=True)
env = dict(os.environ, PYTHONPATH=d, PYTHONHASHSEED='0')


def sh(cmd, cwd=None, env=None, timeout=3000):
    p = subprocess.run(cmd, shell=True, cwd=cwd, env=env, capture_output=True, text=True, timeout=timeout)
    return p.returncode, (p.stdout + p.stderr)


meta = dict(id=sid, property=target, confirmed={}, checks={})
# the agent's patch.diff is the source of truth (worktrees share one git stash, so the working tree may have been disturbed)
pd = os.path.join(d, 'patch.diff')
if os.path.exists(pd) and open(pd).read().strip():
    sh('git checkout -- parso', cwd=d)
    rc, o = sh('git apply patch.diff', cwd=d)
    if rc != 0:
        print('agent patch does not apply to its own worktree:', o); sys.exit(1)
rc, diff = sh('git diff -- parso', cwd=d)
if not diff.strip():
    print('no diff in', d); sys.exit(1)
open(os.path.join(out, 'patch.diff'), 'w').write(diff)
shutil.copy(os.path.join(d, 'demo.py'), os.path.join(out, 'demo.py'))
# 1. suite with the change
rc, o = sh('/venv/bin/python -m pytest -q -p no:cacheprovider -x 2>&1 | tail -2', cwd=d, env=env)
meta['confirmed']['suite_with_change'] = o.strip().split('\n')[-1]
rc1, o1 = sh('/venv/bin/python demo.py', cwd=d, env=env)
meta['confirmed']['demo_with_change_exit'] = rc1
meta['confirmed']['demo_with_change_output'] = o1[-600:]
sh('git apply -R %s' % os.path.join(out, 'patch.diff'), cwd=d)     # never git stash: the stash is shared by all worktrees
rc2, o2 = sh('/venv/bin/python demo.py', cwd=d, env=env)
sh('git apply %s' % os.path.join(out, 'patch.diff'), cwd=d)
meta['confirmed']['demo_without_change_exit'] = rc2
ok = '1987 passed' in meta['confirmed']['suite_with_change'] and rc1 != 0 and rc2 == 0
meta['confirmed']['ok'] = ok
print('confirmed:', ok, meta['confirmed']['suite_with_change'], 'demo with/without:', rc1, rc2)
if ok:
    rc, o = sh('git -C /repo status --porcelain')
    if o.strip():
        print('/repo not clean!', o); sys.exit(2)
    rc, o = sh('git -C /repo apply %s' % os.path.join(out, 'patch.diff'))
    if rc != 0:
        print('patch does not apply', o); sys.exit(2)
    try:
        for p in [target] + others:
            t = time.time()
            rc, o = sh('./check %s quick' % p, cwd=ROOT)
            lines = [l for l in o.split('\n') if l.startswith('VIOLATION')]
            sigs = []
            for l in lines:
                rp = l.split('replay=')[1].split()[0]
                try:
                    sigs.append(json.load(open(rp)).get('signature'))
                except Exception:
                    pass
            meta['checks'][p] = dict(exit=rc, violations=len(lines), signatures=sigs[:6], no_input=sum('no-failing-input-found' in l for l in lines),
                                     wall=round(time.time() - t, 1))
            print(p, 'exit', rc, 'violations', len(lines), sigs[:4])
    finally:
        sh('git -C /repo checkout -- .')
        rc, o = sh('git -C /repo status --porcelain')
        print('repo restored:', not o.strip())
json.dump(meta, open(os.path.join(out, 'meta.json'), 'w'), indent=1)
