#!/bin/bash
# independent re-check of every compiled file of the development (and all they depend on) with coqchk; prints the axiom summary
cd "$(dirname "$0")/../coq"
mods=$(grep -v '^-' _CoqProject | sed 's/\.v$//; s#/#.#g; s/^/PV./')
timeout ${COQCHK_TIMEOUT:-7200} coqchk -o -silent -R . PV $mods 2>&1 | tail -20
