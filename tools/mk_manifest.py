#!/usr/bin/env python3
"""Regenerates MANIFEST.json from the per-property modules (harness/props/Cxx.py)."""
import json, os, re, sys, importlib.util, ast
ROOT = os.path.dirname(os.path.dirname(os.path.abspath(__file__)))
props = [json.loads(l) for l in open(os.path.join(ROOT, 'properties.jsonl'))]
CAT = {'proof': 'proof', 'other': 'other', 'translation_validation': 'translation_validation', 'model_checking': 'model_checking',
       'exploration': 'exploration', 'fault_enumeration': 'fault_enumeration'}


def consts(path):
    out = {}
    tree = ast.parse(open(path).read())
    for n in tree.body:
        if isinstance(n, ast.Assign) and len(n.targets) == 1 and isinstance(n.targets[0], ast.Name):
            try:
                out[n.targets[0].id] = ast.literal_eval(n.value)
            except Exception:
                pass
    return out


checks, na = [], []
for p in props:
    pid = p['id']
    mp = os.path.join(ROOT, 'harness', 'props', pid + '.py')
    if not os.path.exists(mp):
        na.append(dict(property_id=pid, reason='check not built yet in this round (see DESIGN.md section 6 for the plan)'))
        continue
    c = consts(mp)
    if c.get('NOT_APPLICABLE'):
        na.append(dict(property_id=pid, reason=c['NOT_APPLICABLE']))
        continue
    checks.append(dict(
        property_id=pid,
        quick_cmd='./check %s quick' % pid,
        thorough_cmd='./check %s thorough' % pid,
        evidence_file='/verif/evidence/%s.json' % pid,
        replay_cmd_template='./check %s --replay {path}' % pid,
        engine='coq-model+correspondence',
        level_claimed=dict(category=CAT[c.get('LEVEL', 'other')], text=c.get('LEVEL_TEXT', c.get('EXPLANATION', '')),
                           design_ref='DESIGN.md section 6, ' + pid),
        level_note=c.get('LEVEL_NOTE', 'Trusted: Coq 8.16.1 kernel (vm_compute, no native_compute), translator, extraction (ExtrOcamlBasic) + OCaml driver, '
                         'correspondence harness, hand transcription of the modelled functions; no axioms declared. ' + ' '.join(c.get('ASSUMPTIONS', []))),
        technique=c.get('TECHNIQUE', 'Coq theorems on a Gallina model + regenerated table obligations + model/implementation correspondence + predicate search'),
    ))
man = dict(
    version=1,
    setup_cmd='./setup.sh',
    hooks=dict(guard='PARSO_VERIF', enable='no source hooks are needed: every observation goes through public functions or wrappers installed inside the harness process',
               baseline_off_cmd='cd /repo && /venv/bin/python -m pytest -q -p no:cacheprovider', source_commits=[], add_only=True),
    engines=[dict(name='coq-model+correspondence', path='/verif/check', serves_properties=[c['property_id'] for c in checks],
                  kind_free_text='Coq 8.16.1 development (coq/), translator regenerating tables from /repo (harness/translator.py), extracted OCaml model (ocaml/), '
                                 'Python correspondence + search harness (harness/)')],
    checks=checks,
    notes='See DESIGN.md. fix: commits in /repo and known findings are listed in known_findings.json.',
    not_applicable=na,
)
json.dump(man, open(os.path.join(ROOT, 'MANIFEST.json'), 'w'), indent=1)
print('checks:', [c['property_id'] for c in checks], 'n/a:', [x['property_id'] for x in na])
