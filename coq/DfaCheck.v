From Coq Require Import List NArith Bool Lia.
Import ListNotations.
Require Import Deriv.
Open Scope N_scope.

(* A rule automaton as dumped from parso: states 0..n-1, state 0 is the start. *)
Record dfa := { arcs : list (N * N * N);      (* (from, label, to) *)
                finals : list N }.

Definition step (d:dfa) (q:N) (a:N) : option N :=
  match find (fun '(p,l,_) => (p =? q) && (l =? a)) (arcs d) with
  | Some (_,_,t) => Some t | None => None end.
Definition ostep (d:dfa) (q:option N) (a:N) : option N :=
  match q with Some q => step d q a | None => None end.
Definition is_final (d:dfa) (q:option N) : bool :=
  match q with Some q => existsb (N.eqb q) (finals d) | None => false end.

Fixpoint run (d:dfa) (q:option N) (w:list N) : bool :=
  match w with [] => is_final d q | a::w => run d (ostep d q a) w end.

Definition pair := (rx * option N)%type.
Definition pair_eqb (p1 p2:pair) : bool :=
  rx_eqb (fst p1) (fst p2) &&
  match snd p1, snd p2 with Some a, Some b => a =? b | None, None => true | _, _ => false end.
Lemma pair_eqb_eq p1 p2 : pair_eqb p1 p2 = true <-> p1 = p2.
Proof.
  destruct p1 as [r1 q1], p2 as [r2 q2]; unfold pair_eqb; simpl. rewrite andb_true_iff, rx_eqb_eq.
  split.
  - intros [-> H]. destruct q1, q2; try discriminate; [apply N.eqb_eq in H; subst|]; reflexivity.
  - intros H; inversion H; subst. split; [reflexivity|]. destruct q2; [apply N.eqb_refl|reflexivity].
Qed.
Definition mem (p:pair) (l:list pair) : bool := existsb (pair_eqb p) l.
Lemma mem_In p l : mem p l = true <-> In p l.
Proof.
  unfold mem. rewrite existsb_exists. split.
  - intros (x & Hx & E). apply pair_eqb_eq in E; subst; exact Hx.
  - intros H; exists p; split; [exact H|apply pair_eqb_eq; reflexivity].
Qed.

Fixpoint syms (r:rx) : list N :=
  match r with
  | Empty | Eps => [] | Sym a => [a]
  | Cat r s | Alt r s => syms r ++ syms s
  | Star r => syms r end.

Definition succs (d:dfa) (sigma:list N) (p:pair) : list pair :=
  map (fun a => (deriv a (fst p), ostep d (snd p) a)) sigma.

Fixpoint explore (d:dfa) (sigma:list N) (fuel:nat) (todo seen:list pair) : option (list pair) :=
  match fuel with
  | O => None
  | S f =>
    match todo with
    | [] => Some seen
    | p :: rest =>
        if mem p seen then explore d sigma f rest seen
        else if Bool.eqb (nullable (fst p)) (is_final d (snd p))
             then explore d sigma f (succs d sigma p ++ rest) (p :: seen)
             else None
    end
  end.

Definition sigma_of (r:rx) (d:dfa) : list N := syms r ++ map (fun '(_,l,_) => l) (arcs d).

Definition check_rule (fuel:nat) (r:rx) (d:dfa) : bool :=
  match explore d (sigma_of r d) fuel [(r, Some 0)] [] with Some _ => true | None => false end.

(* ---------- soundness ---------- *)

Definition consistent (d:dfa) (p:pair) : Prop := nullable (fst p) = is_final d (snd p).
Definition closed (d:dfa) (sigma:list N) (seen todo:list pair) : Prop :=
  forall p, In p seen -> consistent d p /\ forall a, In a sigma -> In (deriv a (fst p), ostep d (snd p) a) (seen ++ todo).

Lemma explore_inv d sigma fuel : forall todo seen res,
  closed d sigma seen todo ->
  explore d sigma fuel todo seen = Some res ->
  closed d sigma res [] /\ (forall p, In p seen \/ In p todo -> In p res).
Proof.
  induction fuel as [|f IH]; intros todo seen res Hc H; simpl in H; [discriminate|].
  destruct todo as [|p rest].
  - inversion H; subst. split; [exact Hc|]. intros p [Hp|[]]; exact Hp.
  - destruct (mem p seen) eqn:M.
    + apply mem_In in M.
      assert (Hc': closed d sigma seen rest).
      { intros x Hx. destruct (Hc x Hx) as [C1 C2]. split; [exact C1|].
        intros a Ha. specialize (C2 a Ha). apply in_app_or in C2 as [C2|C2]; apply in_or_app; [left; exact C2|].
        destruct C2 as [<-|C2]; [left; exact M|right; exact C2]. }
      destruct (IH _ _ _ Hc' H) as [R1 R2]. split; [exact R1|].
      intros x [Hx|[<-|Hx]]; apply R2; auto.
    + destruct (Bool.eqb (nullable (fst p)) (is_final d (snd p))) eqn:E; [|discriminate].
      apply Bool.eqb_prop in E.
      assert (Hc': closed d sigma (p :: seen) (succs d sigma p ++ rest)).
      { intros x [<-|Hx].
        - split; [exact E|]. intros a Ha. apply in_or_app; right. apply in_or_app; left.
          unfold succs. apply in_map_iff. exists a; split; [reflexivity|exact Ha].
        - destruct (Hc x Hx) as [C1 C2]. split; [exact C1|].
          intros a Ha. specialize (C2 a Ha). apply in_app_or in C2 as [C2|C2].
          + apply in_or_app; left; right; exact C2.
          + destruct C2 as [<-|C2]; [apply in_or_app; left; left; reflexivity|].
            apply in_or_app; right. apply in_or_app; right; exact C2. }
      destruct (IH _ _ _ Hc' H) as [R1 R2]. split; [exact R1|].
      intros x [Hx|[<-|Hx]]; apply R2.
      * left; right; exact Hx.
      * left; left; reflexivity.
      * right; apply in_or_app; right; exact Hx.
Qed.

Lemma deriv_not_sym a r : ~ In a (syms r) -> deriv a r = Empty.
Proof.
  induction r as [| |b|r1 IH1 r2 IH2|r1 IH1 r2 IH2|r IH]; simpl; intros H; try reflexivity.
  - destruct (N.eqb_spec a b) as [->|]; [exfalso; apply H; left; reflexivity|reflexivity].
  - rewrite IH1, IH2 by (intros X; apply H; apply in_or_app; auto).
    destruct (nullable r1); reflexivity.
  - rewrite IH1, IH2 by (intros X; apply H; apply in_or_app; auto). reflexivity.
  - rewrite IH by exact H. reflexivity.
Qed.

Lemma step_label d q a t : step d q a = Some t -> In a (map (fun '(_,l,_) => l) (arcs d)).
Proof.
  unfold step. destruct (find _ (arcs d)) as [[[p l] t']|] eqn:F; [|discriminate].
  intros _. apply find_some in F as [Hin Hb]. apply andb_true_iff in Hb as [_ Hl].
  apply N.eqb_eq in Hl; subst. apply in_map_iff. exists (p, a, t'); split; [reflexivity|exact Hin].
Qed.

Lemma run_dead d w : run d None w = false.
Proof. induction w; simpl; auto. Qed.

Lemma matches_empty_false w : matches Empty w -> False. Proof. apply empty_inv. Qed.

Theorem closed_bisim d sigma res :
  closed d sigma res [] ->
  (forall r q, In (r,q) res -> incl (syms r) sigma) ->
  (forall a t q, ostep d q a = Some t -> In a sigma) ->
  forall w r q, In (r, q) res -> (matches r w <-> run d q w = true).
Proof.
  intros Hc Hs Hl. induction w as [|a w IH]; intros r q Hin.
  - destruct (Hc _ Hin) as [C _]. unfold consistent in C; simpl in *.
    rewrite <- C. symmetry. apply nullable_ok.
  - simpl. destruct (in_dec N.eq_dec a sigma) as [Ha|Hna].
    + destruct (Hc _ Hin) as [_ C]. specialize (C a Ha). rewrite app_nil_r in C. simpl in C.
      rewrite <- (IH _ _ C). symmetry. apply deriv_ok.
    + assert (D: deriv a r = Empty).
      { apply deriv_not_sym. intros X. apply Hna. eapply Hs; eauto. }
      assert (O: ostep d q a = None).
      { destruct (ostep d q a) eqn:E; [|reflexivity]. exfalso. apply Hna. eapply Hl; eauto. }
      rewrite O, run_dead. split; [|discriminate].
      intros H. apply deriv_ok in H. rewrite D in H. apply empty_inv in H; contradiction.
Qed.

(* symbols of derivatives stay inside the symbols of the original expression *)
Lemma syms_cat r s : incl (syms (cat r s)) (syms r ++ syms s).
Proof.
  unfold cat; destruct r; destruct s; simpl; intros x Hx; try contradiction; auto;
    try (rewrite app_nil_r in *; auto); try (apply in_or_app; auto).
Qed.
Lemma syms_insert_leaf r s :
  incl (syms (if rx_eqb r s then s else match rx_cmp r s with Lt => Alt r s | _ => Alt s r end)) (syms r ++ syms s).
Proof.
  destruct (rx_eqb r s); [intros x Hx; apply in_or_app; right; exact Hx|].
  destruct (rx_cmp r s); simpl; intros x Hx; try exact Hx;
    apply in_app_or in Hx as [Hx|Hx]; apply in_or_app; auto.
Qed.
Lemma syms_insert r s : incl (syms (insert r s)) (syms r ++ syms s).
Proof.
  induction s as [| |b|s1 IH1 s2 IH2|s1 IH1 s2 IH2|s IH].
  - simpl. intros x Hx. apply in_or_app; left; exact Hx.
  - apply syms_insert_leaf.
  - apply syms_insert_leaf.
  - apply syms_insert_leaf.
  - simpl. destruct (rx_eqb r s1); [intros x Hx; apply in_or_app; right; exact Hx|].
    assert (G: incl (syms (Alt s1 (insert r s2))) (syms r ++ syms s1 ++ syms s2)).
    { simpl. intros x Hx. apply in_app_or in Hx as [Hx|Hx].
      - apply in_or_app; right; apply in_or_app; left; exact Hx.
      - apply IH2 in Hx. apply in_app_or in Hx as [Hx|Hx]; apply in_or_app; [left; exact Hx|right; apply in_or_app; right; exact Hx]. }
    destruct (rx_cmp r s1); [exact G|simpl; intros x Hx; exact Hx|exact G].
  - apply syms_insert_leaf.
Qed.
Lemma syms_alt r s : incl (syms (alt r s)) (syms r ++ syms s).
Proof.
  revert s. induction r as [| |b|r1 IH1 r2 IH2|r1 IH1 r2 IH2|r IH]; intros s.
  - simpl. intros x Hx; exact Hx.
  - apply syms_insert.
  - apply syms_insert.
  - apply syms_insert.
  - simpl. intros x Hx. apply IH1 in Hx. apply in_app_or in Hx as [Hx|Hx].
    + apply in_or_app; left; apply in_or_app; left; exact Hx.
    + apply IH2 in Hx. apply in_app_or in Hx as [Hx|Hx]; apply in_or_app; [left; apply in_or_app; right; exact Hx|right; exact Hx].
  - apply syms_insert.
Qed.
Lemma syms_deriv a r : incl (syms (deriv a r)) (syms r).
Proof.
  induction r as [| |b|r1 IH1 r2 IH2|r1 IH1 r2 IH2|r IH]; simpl; intros x Hx.
  - contradiction.
  - contradiction.
  - destruct (a =? b); simpl in Hx; contradiction.
  - destruct (nullable r1).
    + apply syms_alt in Hx. apply in_app_or in Hx as [Hx|Hx].
      * apply syms_cat in Hx. apply in_app_or in Hx as [Hx|Hx]; apply in_or_app; [left; apply IH1|right]; exact Hx.
      * apply in_or_app; right; apply IH2; exact Hx.
    + apply syms_cat in Hx. apply in_app_or in Hx as [Hx|Hx]; apply in_or_app; [left; apply IH1|right]; exact Hx.
  - apply syms_alt in Hx. apply in_app_or in Hx as [Hx|Hx]; apply in_or_app; [left; apply IH1|right; apply IH2]; exact Hx.
  - apply syms_cat in Hx. apply in_app_or in Hx as [Hx|Hx]; [apply IH; exact Hx|exact Hx].
Qed.

Lemma explore_syms d sigma fuel : forall todo seen res,
  (forall p, In p seen \/ In p todo -> incl (syms (fst p)) sigma) ->
  explore d sigma fuel todo seen = Some res ->
  forall p, In p res -> incl (syms (fst p)) sigma.
Proof.
  induction fuel as [|f IH]; intros todo seen res Hs H; simpl in H; [discriminate|].
  destruct todo as [|p rest].
  - inversion H; subst. intros x Hx. apply Hs; left; exact Hx.
  - destruct (mem p seen).
    + eapply IH; [|exact H]. intros x [Hx|Hx]; apply Hs; [left|right; right]; exact Hx.
    + destruct (Bool.eqb _ _); [|discriminate].
      eapply IH; [|exact H]. intros x [[<-|Hx]|Hx].
      * apply Hs; right; left; reflexivity.
      * apply Hs; left; exact Hx.
      * apply in_app_or in Hx as [Hx|Hx].
        -- unfold succs in Hx. apply in_map_iff in Hx as (a & <- & _). simpl.
           intros y Hy. apply syms_deriv in Hy. eapply Hs; [right; left; reflexivity|exact Hy].
        -- apply Hs; right; right; exact Hx.
Qed.

Theorem check_rule_sound fuel r d :
  check_rule fuel r d = true -> forall w, matches r w <-> run d (Some 0) w = true.
Proof.
  unfold check_rule. destruct (explore d (sigma_of r d) fuel [(r, Some 0)] []) as [res|] eqn:E; [|discriminate].
  intros _ w.
  assert (Hc0: closed d (sigma_of r d) [] [(r, Some 0)]) by (intros p []).
  destruct (explore_inv _ _ _ _ _ _ Hc0 E) as [Hc Hin].
  eapply closed_bisim with (res := res) (sigma := sigma_of r d).
  - exact Hc.
  - intros r' q' H'.
    assert (S0: forall p, In p [] \/ In p [(r, Some 0)] -> incl (syms (fst p)) (sigma_of r d)).
    { intros p [[]|[<-|[]]]. simpl. unfold sigma_of. intros x Hx; apply in_or_app; left; exact Hx. }
    exact (explore_syms _ _ _ _ _ _ S0 E (r', q') H').
  - intros a t q Hq. destruct q as [q|]; [|discriminate]. simpl in Hq.
    unfold sigma_of. apply in_or_app; right. eapply step_label; eauto.
  - apply Hin. right; left; reflexivity.
Qed.
Print Assumptions check_rule_sound.
