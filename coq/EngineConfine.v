From Coq Require Import List NArith ZArith Bool Lia.
Import ListNotations.
Require Import Regex Tok Engine ParseKeeps.
Open Scope N_scope.

(* C05, second sentence: error nodes / error leaves occur only where a statement or block is expected.

   H is a set of rules (the "holders").  good t: in every rule node of t that has an error node or error leaf among its
   CHILDREN the rule is in H; a param node never has one; (and a child rule in H implies the parent rule in H - the
   closure that makes the statement an invariant).  Error nodes themselves may contain anything that was on the stack.

   Theorem errors_confined: for every grammar G, transition table TR and rule set H that pass the boolean check
   confine_ok (plans keep the rule of the state they leave and push only chains r1 r2 ... with "ri in H -> the rule below
   in H"; arcs stay inside their rule; file_input and suite are in H; parameters / lambdef are not) every tree the engine
   returns - strict or recovering, any token list - is good, provided the start rule is in H.

   The per-version files instantiate H with the least such set computed from the regenerated automata and show (by
   vm_compute) what it contains: file_input, suite, stmt, compound_stmt and the compound statements - no expression and
   no simple statement rule. *)

Definition is_marker (t : tree) : bool :=
  match t with Leaf (KErrorLeaf _) _ _ _ _ => true | Node KErrorNode _ => true | _ => false end.

(* the least holder set of a grammar: file_input, suite and every rule with an arc labelled by a holder *)
Definition has_arc_to (G : gram) (Hs : list N) (r : N) : bool :=
  existsb (fun d => (d_rule d =? r) &&
                    existsb (fun a : sym * N => match fst a with NT h => existsb (N.eqb h) Hs | T _ => false end) (d_arcs d)) (g_states G).
Fixpoint grow (G : gram) (fuel : nat) (Hs : list N) : list N :=
  match fuel with
  | O => Hs
  | S f => match filter (fun r => negb (existsb (N.eqb r) Hs) && has_arc_to G Hs r) (map fst (g_start G)) with
           | [] => Hs
           | new => grow G f (Hs ++ new)
           end
  end.
Definition holders (G : gram) : list N := grow G (length (g_start G)) [r_file_input G; r_suite G].

Section Confine.
Variable G : gram.
Variable TR : list (N * list (label * plan)).
Variable H : list N.

Definition inH (r : N) : bool := existsb (N.eqb r) H.

Definition kid_ok (p : N) (c : tree) : bool :=
  (negb (is_marker c) || inH p) && match node_rule c with Some r => implb (inH r) (inH p) | None => true end.
Definition kids_ok (p : N) (cs : list tree) : bool := forallb (kid_ok p) cs.

Fixpoint good (t : tree) : bool :=
  match t with
  | Leaf _ _ _ _ _ => true
  | Node k cs => (fix all (l : list tree) : bool := match l with [] => true | c :: r => good c && all r end) cs &&
                 match k with
                 | KRule p => kids_ok p cs
                 | KErrorNode => true
                 | KParam => negb (existsb is_marker cs)
                 end
  end.
Definition goods (l : list tree) : bool := forallb good l.
Lemma good_node k cs : good (Node k cs) = goods cs && match k with KRule p => kids_ok p cs | KErrorNode => true | KParam => negb (existsb is_marker cs) end.
Proof.
  assert (E: (fix all (l : list tree) : bool := match l with [] => true | c :: r => good c && all r end) cs = goods cs).
  { induction cs as [|c r IH]; [reflexivity|]. simpl. rewrite IH. reflexivity. }
  simpl. rewrite E. reflexivity.
Qed.

(* ---------- generic list facts ---------- *)
Lemma fa_app {A} (f : A -> bool) a b : forallb f (a ++ b) = forallb f a && forallb f b.
Proof. apply forallb_app. Qed.
Lemma fa_removelast {A} (f : A -> bool) l : forallb f l = true -> forallb f (removelast l) = true.
Proof.
  induction l as [|x r IH]; [reflexivity|]. intros X. simpl in X. apply andb_true_iff in X as [Hx Hr].
  destruct r as [|y r']; [reflexivity|]. change (forallb f (x :: removelast (y :: r')) = true). simpl. rewrite Hx. apply IH. exact Hr.
Qed.
Lemma fa_tl {A} (f : A -> bool) l : forallb f l = true -> forallb f (tl l) = true.
Proof. destruct l; [reflexivity|]. simpl. intros X. apply andb_true_iff in X. tauto. Qed.
Lemma fa_firstn {A} (f : A -> bool) n l : forallb f l = true -> forallb f (firstn n l) = true.
Proof. revert l. induction n as [|n IH]; intros [|x r] X; try reflexivity. simpl in *. apply andb_true_iff in X as [Hx Hr]. rewrite Hx. apply IH. exact Hr. Qed.
Lemma fa_skipn {A} (f : A -> bool) n l : forallb f l = true -> forallb f (skipn n l) = true.
Proof. revert l. induction n as [|n IH]; intros [|x r] X; try reflexivity; [exact X|]. simpl in *. apply andb_true_iff in X as [Hx Hr]. apply IH. exact Hr. Qed.
Lemma fa_last {A} (f : A -> bool) l x r : rev l = x :: r -> forallb f l = true -> f x = true.
Proof.
  intros RV X. apply rev_head_last in RV. subst l. rewrite fa_app in X. apply andb_true_iff in X as [_ X]. simpl in X. rewrite andb_true_r in X. exact X.
Qed.
Lemma fa_hd {A} (f : A -> bool) x l : forallb f (x :: l) = true -> f x = true.
Proof. simpl. intros X. apply andb_true_iff in X. tauto. Qed.

(* with p outside H: no marker among the children and no child rule in H *)
Definition plain (c : tree) : bool := negb (is_marker c) && match node_rule c with Some r => negb (inH r) | None => true end.
Lemma kid_ok_notH p c : inH p = false -> kid_ok p c = plain c.
Proof. intros X. unfold kid_ok, plain. rewrite X, orb_false_r. destruct (node_rule c) as [r|]; [|reflexivity]. destruct (inH r); reflexivity. Qed.
Lemma kids_ok_notH p cs : inH p = false -> kids_ok p cs = forallb plain cs.
Proof. intros X. unfold kids_ok. induction cs as [|c r IH]; [reflexivity|]. simpl. rewrite IH, (kid_ok_notH _ _ X). reflexivity. Qed.
Lemma plain_kid p c : plain c = true -> kid_ok p c = true.
Proof.
  unfold plain, kid_ok. intros X. apply andb_true_iff in X as [A B]. rewrite A. cbn [orb andb].
  destruct (node_rule c) as [r|]; [|reflexivity]. apply negb_true_iff in B. rewrite B. reflexivity.
Qed.
Lemma plains_kids p cs : forallb plain cs = true -> kids_ok p cs = true.
Proof. unfold kids_ok. induction cs as [|c r IH]; [reflexivity|]. simpl. intros X. apply andb_true_iff in X as [A B]. rewrite (plain_kid _ _ A). apply IH. exact B. Qed.
Lemma plains_nomarker cs : forallb plain cs = true -> existsb is_marker cs = false.
Proof.
  induction cs as [|c r IH]; [reflexivity|]. simpl. intros X. apply andb_true_iff in X as [A B]. unfold plain in A. apply andb_true_iff in A as [A _].
  apply negb_true_iff in A. rewrite A. apply IH. exact B.
Qed.
Lemma kparam_plain pc : plain (Node KParam pc) = true.
Proof. reflexivity. Qed.

(* ---------- _create_params ---------- *)
Lemma split_params_good : forall cs cur,
  goods cs = true -> forallb plain cs = true -> goods cur = true -> forallb plain cur = true ->
  goods (split_params cs cur) = true /\ forallb plain (split_params cs cur) = true.
Proof.
  assert (FL: forall pc, goods pc = true -> forallb plain pc = true ->
     goods (match pc with
            | [] => []
            | p0 :: rest => if (is_op p0 star && match rest with [] => true | p1 :: _ => is_op p1 comma end) || is_op p0 slash
                            then pc else [Node KParam pc] end) = true /\
     forallb plain (match pc with
            | [] => []
            | p0 :: rest => if (is_op p0 star && match rest with [] => true | p1 :: _ => is_op p1 comma end) || is_op p0 slash
                            then pc else [Node KParam pc] end) = true).
  { intros [|p0 rest] X Y; [split; reflexivity|]. destruct ((is_op p0 star && _) || is_op p0 slash); [split; assumption|].
    split; [|reflexivity]. unfold goods. cbn [forallb]. rewrite good_node. fold (goods (p0 :: rest)). rewrite X, (plains_nomarker _ Y). reflexivity. }
  induction cs as [|c t IH]; intros cur G1 P1 G2 P2; cbn [split_params].
  - apply FL; assumption.
  - unfold goods in G1. cbn [forallb] in G1, P1. apply andb_true_iff in G1 as [Gc Gt]. apply andb_true_iff in P1 as [Pc Pt].
    assert (GC: goods (cur ++ [c]) = true) by (unfold goods; rewrite fa_app; fold (goods cur); rewrite G2; simpl; rewrite Gc; reflexivity).
    assert (PC: forallb plain (cur ++ [c]) = true) by (rewrite fa_app, P2; simpl; rewrite Pc; reflexivity).
    destruct (is_op c comma).
    + destruct (FL _ GC PC) as [A B]. destruct (IH [] Gt Pt eq_refl eq_refl) as [A2 B2].
      split; [unfold goods in *; rewrite fa_app, A, A2; reflexivity|rewrite fa_app, B, B2; reflexivity].
    + apply IH; assumption.
Qed.

Lemma good_children k cs : good (Node k cs) = true -> goods cs = true.
Proof. rewrite good_node. intros X. apply andb_true_iff in X. tauto. Qed.

(* the single element of l is a child of a node of rule p outside H *)
Lemma create_params_good l np :
  create_params G l = POk np -> goods l = true -> forallb plain l = true -> existsb is_param l = false ->
  goods np = true /\ forallb plain np = true.
Proof.
  unfold create_params. destruct l as [|first rest]; [intros X; inversion X; split; reflexivity|].
  destruct rest as [|x rest]; [|discriminate]. cbn [is_nil_t negb]. intros X GD PL NP.
  unfold goods in GD. cbn [forallb existsb] in GD, PL, NP. rewrite andb_true_r in GD, PL. rewrite orb_false_r in NP.
  assert (WRAP: goods [Node KParam [first]] = true /\ forallb plain [Node KParam [first]] = true).
  { split; [|reflexivity]. unfold goods. cbn [forallb]. rewrite good_node. unfold goods. cbn [forallb existsb]. rewrite GD.
    unfold plain in PL. apply andb_true_iff in PL as [PL _]. apply negb_true_iff in PL. rewrite PL. reflexivity. }
  destruct (is_name first || match node_rule first with Some r => r =? r_fpdef G | None => false end); [inversion X; exact WRAP|].
  destruct (is_op first star); [inversion X; split; [unfold goods; cbn [forallb]; rewrite GD; reflexivity|cbn [forallb]; rewrite PL; reflexivity]|].
  destruct first as [k v p l c|k cs]; [discriminate|].
  destruct k as [r| |]; cbn [node_rule] in X.
  - destruct (r =? r_tfpdef G).
    + inversion X. cbn [split_params app]. cbn [is_op]. cbn [andb orb]. exact WRAP.
    + inversion X. pose proof (good_children _ _ GD) as GC.
      rewrite good_node in GD. apply andb_true_iff in GD as [_ KD].
      unfold plain in PL. cbn [is_marker node_rule negb andb] in PL. apply negb_true_iff in PL.
      rewrite (kids_ok_notH _ _ PL) in KD.
      apply split_params_good; [exact GC|exact KD|reflexivity|reflexivity].
  - discriminate.
  - cbn [is_param] in NP. discriminate.
Qed.

Lemma regroup_func_good : forall cs cs' p,
  regroup_func G cs = POk cs' -> goods cs = true -> kids_ok p cs = true -> inH (r_parameters G) = false ->
  goods cs' = true /\ kids_ok p cs' = true.
Proof.
  induction cs as [|c t IH]; intros cs' p X GD KD NP; simpl in X; [discriminate|].
  unfold goods in GD. unfold kids_ok in KD. cbn [forallb] in GD, KD. apply andb_true_iff in GD as [Gc Gt]. apply andb_true_iff in KD as [Kc Kt].
  assert (REC: forall c0, good c0 = true -> kid_ok p c0 = true -> forall t', regroup_func G t = POk t' -> goods (c0 :: t') = true /\ kids_ok p (c0 :: t') = true).
  { intros c0 G0 K0 t' E. destruct (IH t' p E Gt Kt NP) as [A B]. split; [unfold goods in *; cbn [forallb]; rewrite G0, A; reflexivity|unfold kids_ok in *; cbn [forallb]; rewrite K0, B; reflexivity]. }
  destruct c as [k v pf l c0|k pcs].
  - destruct (regroup_func G t) as [t'|] eqn:E; [|discriminate]. inversion X; subst. apply REC; [exact Gc|exact Kc|reflexivity].
  - destruct k as [pr| |].
    + destruct (pr =? r_parameters G) eqn:PR.
      * apply N.eqb_eq in PR. subst pr.
        destruct (existsb is_param (removelast (tl pcs))) eqn:EP.
        { inversion X; subst. split; [unfold goods; cbn [forallb]; rewrite Gc; exact Gt|unfold kids_ok; cbn [forallb]; rewrite Kc; exact Kt]. }
        destruct (create_params G (removelast (tl pcs))) as [np|] eqn:CP; [|discriminate].
        pose proof (good_children _ _ Gc) as GP.
        assert (PP: forallb plain pcs = true).
        { rewrite good_node in Gc. apply andb_true_iff in Gc as [_ KK]. rewrite (kids_ok_notH _ _ NP) in KK. exact KK. }
        destruct (create_params_good _ _ CP (fa_removelast _ _ (fa_tl _ _ GP)) (fa_removelast _ _ (fa_tl _ _ PP)) EP) as [GN PN].
        destruct pcs as [|p0 [|p1 pr2]]; [discriminate|discriminate|].
        destruct (rev (p0 :: p1 :: pr2)) as [|pl rr] eqn:RV; [discriminate|]. inversion X; subst. clear X.
        pose proof (fa_last good _ _ _ RV GP) as GL. pose proof (fa_last _ _ _ _ RV PP) as PLs.
        pose proof (fa_hd good p0 (p1 :: pr2) GP) as G0. pose proof (fa_hd _ _ _ PP) as P0.
        assert (GNEW: goods (p0 :: np ++ [pl]) = true) by (unfold goods in *; cbn [forallb]; rewrite G0, fa_app, GN; cbn [forallb]; rewrite GL; reflexivity).
        assert (PNEW: forallb plain (p0 :: np ++ [pl]) = true) by (cbn [forallb]; rewrite P0, fa_app, PN; cbn [forallb]; rewrite PLs; reflexivity).
        split.
        -- unfold goods. cbn [forallb]. rewrite good_node, GNEW, (plains_kids _ _ PNEW). exact Gt.
        -- unfold kids_ok. cbn [forallb]. rewrite Kt, andb_true_r. unfold kid_ok in *. cbn [is_marker node_rule] in *. exact Kc.
      * destruct (regroup_func G t) as [t'|] eqn:E; [|discriminate]. inversion X; subst. apply REC; [exact Gc|exact Kc|reflexivity].
    + destruct (regroup_func G t) as [t'|] eqn:E; [|discriminate]. inversion X; subst. apply REC; [exact Gc|exact Kc|reflexivity].
    + destruct (regroup_func G t) as [t'|] eqn:E; [|discriminate]. inversion X; subst. apply REC; [exact Gc|exact Kc|reflexivity].
Qed.

(* ---------- convert_node ---------- *)
Definition t4 : Prop := inH (r_parameters G) = false /\ inH (r_lambdef G) = false /\ inH (r_lambdef_nocond G) = false.

Lemma convert_node_good r ns t :
  convert_node G r ns = POk t -> goods ns = true -> kids_ok r ns = true -> t4 ->
  good t = true /\ is_marker t = false /\ exists r', node_rule t = Some r' /\ (r' = r \/ inH r' = false).
Proof.
  unfold convert_node. intros X GD KD (T1 & T2 & T3). destruct (r =? r_suite G).
  - destruct ns as [|c0 [|c1 rest]]; [discriminate| |].
    + inversion X. split; [rewrite good_node, GD, KD; reflexivity|split; [reflexivity|exists r; split; [reflexivity|left; reflexivity]]].
    + destruct (blank c1 && match rev rest with [] => true | cl :: _ => blank cl end); [|discriminate]. inversion X.
      split; [|split; [reflexivity|exists r; split; [reflexivity|left; reflexivity]]].
      rewrite good_node. unfold goods, kids_ok in *. cbn [forallb] in *.
      apply andb_true_iff in GD as [G0 GD]. apply andb_true_iff in GD as [_ GR].
      apply andb_true_iff in KD as [K0 KD]. apply andb_true_iff in KD as [_ KR].
      rewrite G0, K0, (fa_removelast _ _ GR), (fa_removelast _ _ KR). reflexivity.
  - destruct (r =? r_funcdef G).
    + destruct (regroup_func G ns) as [cs|] eqn:E; [|discriminate]. inversion X.
      destruct (regroup_func_good _ _ _ E GD KD T1) as [A B].
      split; [rewrite good_node, A, B; reflexivity|split; [reflexivity|exists r; split; [reflexivity|left; reflexivity]]].
    + destruct ((r =? r_lambdef G) || (r =? r_lambdef_nocond G)) eqn:LM.
      * assert (NH: inH r = false).
        { apply orb_true_iff in LM as [LM|LM]; apply N.eqb_eq in LM; subst r; assumption. }
        rewrite (kids_ok_notH _ _ NH) in KD.
        destruct ns as [|kw rest]; [discriminate|].
        unfold goods in GD. cbn [forallb] in GD, KD. apply andb_true_iff in GD as [Gk Gr]. apply andb_true_iff in KD as [Pk Pr].
        destruct (existsb is_param (firstn (length rest - 2) rest)) eqn:EP.
        { inversion X. split; [|split; [reflexivity|exists (r_lambdef G); split; [reflexivity|right; exact T2]]].
          rewrite good_node. unfold goods. cbn [forallb]. rewrite Gk, Gr. cbn [andb].
          apply plains_kids. cbn [forallb]. rewrite Pk, Pr. reflexivity. }
        destruct (create_params G (firstn (length rest - 2) rest)) as [np|] eqn:CP; [|discriminate].
        destruct (create_params_good _ _ CP (fa_firstn _ _ _ Gr) (fa_firstn _ _ _ Pr) EP) as [GN PN].
        inversion X. split; [|split; [reflexivity|exists (r_lambdef G); split; [reflexivity|right; exact T2]]].
        rewrite good_node. unfold goods in *. cbn [forallb]. rewrite Gk, fa_app, GN, (fa_skipn _ _ _ Gr). cbn [andb].
        apply plains_kids. cbn [forallb]. rewrite Pk, fa_app, PN, (fa_skipn _ _ _ Pr). reflexivity.
      * inversion X. split; [rewrite good_node, GD, KD; reflexivity|split; [reflexivity|exists r; split; [reflexivity|left; reflexivity]]].
Qed.

(* ---------- the stack ---------- *)
Definition rule (fr : frame) : N := rule_of G (f_dfa fr).
Definition frame_ok (fr : frame) : bool := goods (f_nodes fr) && kids_ok (rule fr) (f_nodes fr).
Fixpoint chainR (l : list N) : bool :=
  match l with
  | a :: r => match r with b :: _ => implb (inH a) (inH b) && chainR r | [] => true end
  | [] => true
  end.
Definition stack_ok (s : list frame) : bool :=
  forallb frame_ok s && chainR (map rule s) && inH (last (map rule s) 0).

Lemma kid_ok_mono a b x : kid_ok a x = true -> implb (inH a) (inH b) = true -> kid_ok b x = true.
Proof.
  unfold kid_ok. intros X I. apply andb_true_iff in X as [X1 X2]. destruct (inH a) eqn:A.
  - cbn [implb] in I. rewrite I, orb_true_r. cbn [andb]. destruct (node_rule x) as [r|]; [|reflexivity]. destruct (inH r); reflexivity.
  - rewrite orb_false_r in X1. rewrite X1. cbn [orb andb]. destruct (node_rule x) as [r|]; [|reflexivity].
    destruct (inH r); [discriminate|reflexivity].
Qed.

(* table checks *)
Definition plan_ok (q : N) (pl : plan) : bool :=
  (rule_of G (p_next pl) =? rule_of G q) && chainR (map (rule_of G) (rev (p_pushes pl)) ++ [rule_of G q]).
Definition tr_ok : bool := forallb (fun e : N * list (label * plan) => forallb (fun lp : label * plan => plan_ok (fst e) (snd lp)) (snd e)) TR.
Definition arcs_ok : bool := forallb (fun d => forallb (fun a : sym * N => rule_of G (snd a) =? d_rule d) (d_arcs d)) (g_states G).
Definition confine_ok : bool :=
  tr_ok && arcs_ok && inH (r_file_input G) && inH (r_suite G) &&
  negb (inH (r_parameters G)) && negb (inH (r_lambdef G)) && negb (inH (r_lambdef_nocond G)).

Lemma assocN_in {A} k (l : list (N * A)) v : assocN k l = Some v -> In (k, v) l.
Proof. induction l as [|[a x] r IH]; simpl; [discriminate|]. destruct (a =? k) eqn:E; [intros X; inversion X; apply N.eqb_eq in E; subst; left; reflexivity|intros X; right; apply IH; exact X]. Qed.
Lemma assocL_in {A} k (l : list (label * A)) v : assocL k l = Some v -> exists k', In (k', v) l.
Proof. induction l as [|[a x] r IH]; simpl; [discriminate|]. destruct (label_eqb a k); [intros X; inversion X; exists a; left; reflexivity|intros X; destruct (IH X) as (k' & I); exists k'; right; exact I]. Qed.
Lemma trans_ok q l pl : tr_ok = true -> trans TR q l = Some pl -> plan_ok q pl = true.
Proof.
  unfold tr_ok, trans. intros T X. destruct (assocN q TR) as [tr|] eqn:E; [|discriminate].
  apply assocN_in in E. destruct (assocL_in _ _ _ X) as (k' & I).
  rewrite forallb_forall in T. specialize (T _ E). cbn [fst snd] in T. rewrite forallb_forall in T. exact (T _ I).
Qed.
Lemma find_state_in l q d : find_state l q = Some d -> In d l.
Proof. induction l as [|x r IH]; simpl; [discriminate|]. destruct (d_id x =? q); [intros X; inversion X; left; reflexivity|intros X; right; apply IH; exact X]. Qed.
Lemma arc_nt_rule q r q' : arcs_ok = true -> arc_nt G q r = Some q' -> rule_of G q' = rule_of G q.
Proof.
  intros A X. unfold arcs_ok in A. unfold arc_nt in X. change (rule_of G q) with (match st_of G q with Some d => d_rule d | None => 0 end). unfold st_of in *.
  destruct (find_state (g_states G) q) as [d|] eqn:E; [|discriminate].
  apply find_state_in in E. rewrite forallb_forall in A. specialize (A _ E). rewrite forallb_forall in A.
  assert (K: forall l, (forall a, In a l -> (rule_of G (snd a) =? d_rule d) = true) ->
             (fix go (l : list (sym * N)) := match l with [] => None | (NT r', nx) :: t => if r' =? r then Some nx else go t | _ :: t => go t end) l = Some q' ->
             rule_of G q' = d_rule d).
  { induction l as [|[sy nx] t IH]; intros F Y; [discriminate|]. destruct sy as [lb|r'].
    - apply IH; [intros a I; apply F; right; exact I|exact Y].
    - destruct (r' =? r); [inversion Y; subst; apply N.eqb_eq; apply (F (NT r', q')); left; reflexivity|apply IH; [intros a I; apply F; right; exact I|exact Y]]. }
  apply (K _ A X).
Qed.

Lemma chainR_cons a l : chainR (a :: l) = match l with b :: _ => implb (inH a) (inH b) | [] => true end && chainR l.
Proof. destruct l; [reflexivity|reflexivity]. Qed.
Lemma chainR_app_one l a : l <> [] -> chainR (l ++ [a]) = chainR l && implb (inH (last l 0)) (inH a).
Proof.
  induction l as [|x r IH]; intros NE; [contradiction|]. destruct r as [|y r'].
  - cbn. rewrite andb_true_r. reflexivity.
  - change ((x :: y :: r') ++ [a]) with (x :: ((y :: r') ++ [a])). rewrite chainR_cons, IH by discriminate.
    rewrite (chainR_cons x (y :: r')). change (last (x :: y :: r') 0) with (last (y :: r') 0). cbn [app]. rewrite andb_assoc. reflexivity.
Qed.
Lemma chainR_app a b : chainR (a ++ b) = true -> chainR b = true.
Proof. induction a as [|x r IH]; [intros X; exact X|]. intros X. apply IH. cbn [app] in X. rewrite chainR_cons in X. apply andb_true_iff in X. tauto. Qed.
Lemma chainR_join a x b : chainR (a ++ [x]) = true -> chainR (x :: b) = true -> chainR (a ++ x :: b) = true.
Proof.
  induction a as [|y r IH]; intros X Y; [exact Y|]. cbn [app] in *. rewrite chainR_cons in *. apply andb_true_iff in X as [X1 X2].
  rewrite (IH X2 Y), andb_true_r. destruct r; exact X1.
Qed.
Lemma last_app_cons {A} (a : list A) x b d : last (a ++ x :: b) d = last (x :: b) d.
Proof.
  induction a as [|y r IH]; [reflexivity|]. rewrite <- IH. cbn [app]. destruct (r ++ x :: b) eqn:E; [destruct r; discriminate|reflexivity].
Qed.

Lemma fold_push_eq ch : forall base, fold_left (fun st q => mkFr q [] :: st) ch base = map (fun q => mkFr q []) (rev ch) ++ base.
Proof. induction ch as [|q ch IH]; intros base; [reflexivity|]. cbn [fold_left rev]. rewrite IH, map_app, <- app_assoc. reflexivity. Qed.

Definition SOK (s : list frame) : Prop :=
  forallb frame_ok s = true /\ chainR (map rule s) = true /\ inH (last (map rule s) 0) = true.

Hypothesis OK : confine_ok = true.
Lemma ok_parts : tr_ok = true /\ arcs_ok = true /\ inH (r_file_input G) = true /\ inH (r_suite G) = true /\ t4.
Proof.
  pose proof OK as X. unfold confine_ok in X. repeat (apply andb_true_iff in X; destruct X as [X ?]).
  repeat match goal with Hn : negb _ = true |- _ => apply negb_true_iff in Hn end.
  unfold t4. repeat split; assumption.
Qed.

Lemma SOK_tail fr y r : SOK (fr :: y :: r) -> SOK (y :: r).
Proof.
  intros (A & B & C). cbn [forallb map] in *. apply andb_true_iff in A as [_ A]. rewrite chainR_cons in B. apply andb_true_iff in B as [_ B].
  split; [exact A|split; [exact B|exact C]].
Qed.
Lemma SOK_retarget top r q : SOK (top :: r) -> rule_of G q = rule top -> SOK (mkFr q (f_nodes top) :: r).
Proof.
  intros (A & B & C) E. unfold SOK. cbn [forallb map] in *. unfold rule at 1 2 3. cbn [f_dfa]. fold (rule top) in E. rewrite E.
  split; [|split; [exact B|exact C]]. apply andb_true_iff in A as [A1 A2]. rewrite A2, andb_true_r. unfold frame_ok in *. unfold rule at 1. cbn [f_dfa f_nodes]. rewrite E. exact A1.
Qed.
Lemma SOK_append top r x : SOK (top :: r) -> good x = true -> kid_ok (rule top) x = true -> SOK (mkFr (f_dfa top) (f_nodes top ++ [x]) :: r).
Proof.
  intros (A & B & C) GX KX. unfold SOK. cbn [forallb map] in *. change (rule (mkFr (f_dfa top) (f_nodes top ++ [x]))) with (rule top).
  split; [|split; [exact B|exact C]]. apply andb_true_iff in A as [A1 A2]. rewrite A2, andb_true_r.
  unfold frame_ok in *. change (rule (mkFr (f_dfa top) (f_nodes top ++ [x]))) with (rule top). cbn [f_nodes].
  apply andb_true_iff in A1 as [A1 A3]. unfold goods, kids_ok in *. rewrite !fa_app, A1, A3. cbn [forallb]. rewrite GX, KX. reflexivity.
Qed.

Lemma pop_ok s s' : pop G s = POk s' -> SOK s -> SOK s'.
Proof.
  destruct ok_parts as (_ & _ & _ & _ & T4).
  unfold pop. destruct s as [|tos [|below rest]]; [discriminate|discriminate|]. intros X S.
  pose proof (SOK_tail _ _ _ S) as SB. destruct S as (A & B & _). cbn [forallb map] in A, B.
  apply andb_true_iff in A as [A1 _]. rewrite chainR_cons in B. apply andb_true_iff in B as [IM _].
  unfold frame_ok in A1. apply andb_true_iff in A1 as [GT KT].
  destruct (f_nodes tos) as [|x [|y r]] eqn:FN.
  - destruct (convert_node G (rule_of G (f_dfa tos)) []) as [nd|] eqn:CV; [|discriminate]. inversion X; subst.
    destruct (convert_node_good _ _ _ CV GT KT T4) as (GN & MN & r' & NR & RR).
    apply SOK_append; [exact SB|exact GN|]. unfold kid_ok. rewrite MN, NR. cbn [negb orb andb].
    destruct RR as [->|RR]; [exact IM|rewrite RR; reflexivity].
  - inversion X; subst. unfold goods, kids_ok in GT, KT. cbn [forallb] in GT, KT. rewrite andb_true_r in GT, KT.
    apply SOK_append; [exact SB|exact GT|]. eapply kid_ok_mono; [exact KT|exact IM].
  - destruct (convert_node G (rule_of G (f_dfa tos)) (x :: y :: r)) as [nd|] eqn:CV; [|discriminate]. inversion X; subst.
    destruct (convert_node_good _ _ _ CV GT KT T4) as (GN & MN & r' & NR & RR).
    apply SOK_append; [exact SB|exact GN|]. unfold kid_ok. rewrite MN, NR. cbn [negb orb andb].
    destruct RR as [->|RR]; [exact IM|rewrite RR; reflexivity].
Qed.

Lemma convert_leaf_kid p t : good (convert_leaf G t) = true /\ kid_ok p (convert_leaf G t) = true.
Proof. unfold convert_leaf. split; [reflexivity|]. unfold kid_ok. cbn [node_rule]. rewrite andb_true_r. destruct (ty t); try reflexivity. destruct (assoc (ts t) (g_reserved G)); reflexivity. Qed.

Lemma shift_ok tos rest pl top r :
  SOK (tos :: rest) -> plan_ok (f_dfa tos) pl = true ->
  fold_left (fun st q => mkFr q [] :: st) (p_pushes pl) (mkFr (p_next pl) (f_nodes tos) :: rest) = top :: r ->
  SOK (top :: r).
Proof.
  intros S P FL. unfold plan_ok in P. apply andb_true_iff in P as [P1 P2]. apply N.eqb_eq in P1.
  pose proof (SOK_retarget _ _ _ S P1) as S1. rewrite fold_push_eq in FL. rewrite <- FL. clear FL.
  destruct S1 as (A & B & C). unfold SOK. rewrite forallb_app, map_app, map_map.
  assert (E: map (fun q => rule (mkFr q [])) (rev (p_pushes pl)) = map (rule_of G) (rev (p_pushes pl))) by reflexivity.
  rewrite E. clear E. split; [|split].
  - rewrite A, andb_true_r. apply forallb_forall. intros fr I. apply in_map_iff in I as (q & <- & _). reflexivity.
  - cbn [map]. apply chainR_join; [|exact B]. change (rule (mkFr (p_next pl) (f_nodes tos))) with (rule_of G (p_next pl)). rewrite P1. exact P2.
  - cbn [map]. rewrite last_app_cons. exact C.
Qed.

Lemma flat_goods (l : list frame) : forallb frame_ok l = true -> goods (flat_map f_nodes l) = true.
Proof.
  induction l as [|fr r IH]; [reflexivity|]. cbn [forallb flat_map]. intros X. apply andb_true_iff in X as [X1 X2].
  unfold goods. rewrite fa_app. unfold frame_ok in X1. apply andb_true_iff in X1 as [X1 _]. unfold goods in X1. rewrite X1. apply IH. exact X2.
Qed.
Lemma fa_rev {A} (f : A -> bool) l : forallb f (rev l) = forallb f l.
Proof. induction l as [|x r IH]; [reflexivity|]. cbn [rev forallb]. rewrite fa_app, IH. cbn [forallb]. rewrite andb_true_r, andb_comm. reflexivity. Qed.

Lemma SOK_skipn : forall k s fr r, SOK s -> skipn k s = fr :: r -> SOK (fr :: r).
Proof.
  induction k as [|k IH]; intros s fr r S E; [cbn in E; subst; exact S|].
  destruct s as [|x [|y t]]; [discriminate|destruct k; discriminate|]. cbn [skipn] in E. eapply IH; [apply (SOK_tail _ _ _ S)|exact E].
Qed.

Lemma current_suite_H : forall s fr r, SOK s -> skipn (current_suite G s) s = fr :: r -> inH (rule fr) = true.
Proof.
  destruct ok_parts as (_ & _ & FI & SU & _).
  induction s as [|x rest IH]; intros fr r S E; [discriminate|]. destruct rest as [|y rest'].
  - cbn in E. inversion E; subst. destruct S as (_ & _ & C). exact C.
  - cbn [current_suite] in E. destruct (rule_of G (f_dfa x) =? r_file_input G) eqn:E1.
    + cbn in E. inversion E; subst. apply N.eqb_eq in E1. unfold rule. rewrite E1. exact FI.
    + destruct ((rule_of G (f_dfa x) =? r_suite G) && negb (Nat.eqb (length (f_nodes x)) 1)) eqn:E2.
      * cbn in E. inversion E; subst. apply andb_true_iff in E2 as [E2 _]. apply N.eqb_eq in E2. unfold rule. rewrite E2. exact SU.
      * cbn [skipn] in E. eapply IH; [apply (SOK_tail _ _ _ S)|exact E].
Qed.

Lemma stack_removal_ok s s1 b : s <> [] -> stack_removal s (current_suite G s) = (s1, b) -> SOK s ->
  s1 <> [] /\ SOK s1 /\ (b = false -> match s1 with top :: _ => inH (rule top) = true | [] => True end).
Proof.
  intros NE X S. unfold stack_removal in X.
  pose proof (current_suite_lt G s NE) as LT.
  destruct (skipn (current_suite G s) s) as [|below r] eqn:SK.
  { exfalso. assert (L: length (skipn (current_suite G s) s) = 0%nat) by (rewrite SK; reflexivity). rewrite skipn_length in L. lia. }
  pose proof (SOK_skipn _ _ _ _ S SK) as SB. pose proof (current_suite_H _ _ _ S SK) as HB.
  destruct (flat_map f_nodes (rev (firstn (current_suite G s) s))) as [|n ns] eqn:AN.
  - inversion X; subst. split; [discriminate|split; [exact SB|intros _; exact HB]].
  - inversion X; subst. split; [discriminate|split; [|discriminate]].
    apply SOK_append; [exact SB| |].
    + rewrite good_node, andb_true_r. rewrite <- AN. apply flat_goods. rewrite fa_rev. apply fa_firstn. destruct S as (A & _). exact A.
    + unfold kid_ok. cbn [is_marker negb orb node_rule]. rewrite HB. reflexivity.
Qed.

Lemma add_token_ok : forall fuel recover p t p', add_token G TR fuel recover p t = POk p' -> SOK (stack p) -> SOK (stack p').
Proof.
  destruct ok_parts as (TRK & ARK & _ & _ & _).
  induction fuel as [|f IH]; intros recover p t p' X S; [discriminate|]. cbn [add_token] in X.
  destruct (stack p) as [|tos rest] eqn:SP; [discriminate|].
  destruct (trans TR (f_dfa tos) (token_label G t)) as [pl|] eqn:TRN.
  - destruct (fold_left (fun st q => mkFr q [] :: st) (p_pushes pl) (mkFr (p_next pl) (f_nodes tos) :: rest)) as [|top r] eqn:FL; [discriminate|].
    inversion X; subst. cbn [stack]. pose proof (shift_ok _ _ _ _ _ S (trans_ok _ _ _ TRK TRN) FL) as S1.
    destruct (convert_leaf_kid (rule top) t) as [GL KL]. apply SOK_append; assumption.
  - destruct (final G (f_dfa tos)).
    + destruct (pop G (tos :: rest)) as [s'|] eqn:P; [|discriminate].
      eapply IH; [exact X|]. cbn [stack]. eapply pop_ok; [exact P|exact S].
    + match type of X with context [match ?sp with POk _ => _ | PErr _ => _ end] => destruct sp as [[p1|]|] eqn:SPC; [| |discriminate] end.
      * inversion X; subst p1. clear X.
        revert SPC. match goal with |- context [match ?c with POk _ => _ | PErr _ => _ end] => destruct c as [[|]|]; try discriminate end.
        destruct (rule_of G (f_dfa tos) =? r_simple_stmt G); [|discriminate].
        destruct (trans TR (f_dfa tos) (LType NEWLINE)) as [pl|] eqn:TN; [|discriminate].
        destruct (final G (p_next pl) && match p_pushes pl with [] => true | _ => false end); [|discriminate].
        destruct (add_token G TR f recover (mkP (mkFr (p_next pl) (f_nodes tos) :: rest) (omit p) (icount p)) t) as [p2|] eqn:A; [|discriminate].
        intros Y; inversion Y; subst p2. eapply IH; [exact A|]. cbn [stack].
        pose proof (trans_ok _ _ _ TRK TN) as PK. unfold plan_ok in PK. apply andb_true_iff in PK as [PK _]. apply N.eqb_eq in PK.
        apply SOK_retarget; [exact S|exact PK].
      * destruct (negb recover); [discriminate|].
        destruct (stack_removal (tos :: rest) (current_suite G (tos :: rest))) as [s1 removed] eqn:SR.
        assert (NE0: tos :: rest <> []) by discriminate.
        destruct (stack_removal_ok _ _ _ NE0 SR S) as (N1 & S1 & H1).
        match type of X with context [match ?af with POk _ => _ | PErr _ => _ end] => destruct af as [p2|] eqn:AF; [|discriminate] end.
        assert (S2: SOK (stack p2)).
        { destruct removed.
          - eapply IH; [exact AF|exact S1].
          - destruct s1 as [|top r]; [contradiction|]. inversion AF; subst p2. cbn [stack].
            apply SOK_append; [exact S1|reflexivity|]. unfold kid_ok. cbn [node_rule]. rewrite (H1 eq_refl), orb_true_r. reflexivity. }
        destruct (stack p2) as [|top r] eqn:SP2; [discriminate|].
        destruct (rule_of G (f_dfa top) =? r_suite G).
        -- destruct (arc_nt G (f_dfa top) (r_stmt G)) as [q|] eqn:AR; inversion X; subst; cbn [stack]; [|rewrite SP2; exact S2].
           apply SOK_retarget; [exact S2|]. apply (arc_nt_rule _ _ _ ARK AR).
        -- inversion X; subst. rewrite SP2. exact S2.
Qed.

Lemma feed_ok : forall toks recover p p', feed G TR recover p toks = POk p' -> SOK (stack p) -> SOK (stack p').
Proof.
  induction toks as [|t toks IH]; intros recover p p' X SS; cbn [feed] in X; [inversion X; subst; exact SS|].
  match type of X with context [match ?st with Some _ => _ | None => _ end] => destruct st as [p1|] eqn:STEP end.
  - assert (SP: stack p1 = stack p).
    { destruct recover; [|inversion STEP; reflexivity].
      destruct (ty t); try (inversion STEP; reflexivity).
      destruct (last_z (omit p)) as [o|]; [destruct (o =? icount p)%Z; [discriminate|]|]; inversion STEP; reflexivity. }
    destruct (add_token G TR (S (S (2 * length (stack p1)))) recover p1 t) as [p2|] eqn:A; [|discriminate].
    eapply IH; [exact X|]. eapply add_token_ok; [exact A|rewrite SP; exact SS].
  - eapply IH; [exact X|exact SS].
Qed.

Lemma finish_ok : forall fuel s t, finish G fuel s = POk t -> SOK s -> good t = true.
Proof.
  destruct ok_parts as (_ & _ & _ & _ & T4).
  induction fuel as [|f IH]; intros s t X S; [discriminate|]. cbn [finish] in X.
  destruct s as [|tos rest]; [discriminate|]. destruct (negb (final G (f_dfa tos))); [discriminate|].
  destruct rest as [|below rest].
  - destruct S as (A & _). cbn [forallb] in A. rewrite andb_true_r in A. unfold frame_ok in A. apply andb_true_iff in A as [A1 A2].
    destruct (convert_node_good _ _ _ X A1 A2 T4) as (GN & _). exact GN.
  - destruct (pop G (tos :: below :: rest)) as [s'|] eqn:P; [|discriminate]. eapply IH; [exact X|]. eapply pop_ok; [exact P|exact S].
Qed.

Theorem errors_confined : forall recover start q0 toks t,
  assocN start (g_start G) = Some q0 -> inH (rule_of G q0) = true ->
  parse G TR recover start toks = POk t -> good t = true.
Proof.
  intros recover start q0 toks t Q HQ X. unfold parse in X. rewrite Q in X.
  destruct (feed G TR recover (mkP [mkFr q0 []] [] 0%Z) toks) as [p|] eqn:F; [|discriminate].
  eapply finish_ok; [exact X|]. eapply feed_ok; [exact F|]. cbn [stack]. split; [reflexivity|split; [reflexivity|exact HQ]].
Qed.
End Confine.
Print Assumptions errors_confined.
