From Coq Require Import List NArith ZArith Bool Lia.
Import ListNotations.
Require Import Regex RegexFacts Tok TokFacts TokTiles.
Open Scope N_scope.

(* C03 / C09: token positions are true.
   `lc o (l, c)` is an arbitrary relation "text offset o is at line l, column c"; the per-line lemmas only use that
   it holds along the current line.  wfp o toks: walking toks from text offset o, every token that is not a zero-width
   block token (INDENT / DEDENT / ERROR_DEDENT) starts - after its prefix - at the offset its (line, column) names. *)

Lemma len_app (a b : str) : len (a ++ b) = len a + len b.
Proof. unfold len. rewrite app_length. lia. Qed.
Lemma len_nil : len [] = 0.
Proof. reflexivity. Qed.
Lemma len_cons (c : N) (s : str) : len (c :: s) = 1 + len s.
Proof. unfold len. simpl length. lia. Qed.
Lemma len_from_le s a : a <= len s -> len (from s a) + a = len s.
Proof. intros H. rewrite len_from. lia. Qed.
Lemma len_sub s a b : a <= b -> b <= len s -> len (sub s a b) = b - a.
Proof. intros H1 H2. unfold sub, len in *. rewrite firstn_length, skipn_length. lia. Qed.
Lemma len_upto s b : len (upto s b) <= len s /\ len (upto s b) <= b.
Proof. unfold upto, len. rewrite firstn_length. lia. Qed.

Definition hide (P : Prop) : Prop := P.
Lemma hide_in (P : Prop) : P -> hide P. Proof. exact (fun p => p). Qed.
Lemma hide_out (P : Prop) : hide P -> P. Proof. exact (fun p => p). Qed.

Definition blockish (t : Token) : bool := match ty t with INDENT | DEDENT | ERROR_DEDENT => true | _ => false end.

Section Pos.
Variable lc : N -> N * N -> Prop.

Fixpoint wfp (o : N) (toks : list Token) : Prop :=
  match toks with
  | [] => True
  | t :: r => (if blockish t then emit1 t = [] else lc (o + len (tpre t)) (tline t, tcol t)) /\ wfp (o + len (emit1 t)) r
  end.

Lemma emit_cons t r : emit (t :: r) = emit1 t ++ emit r.
Proof. reflexivity. Qed.
Lemma wfp_app : forall a o b, wfp o (a ++ b) <-> wfp o a /\ wfp (o + len (emit a)) b.
Proof.
  induction a as [|t a IH]; intros o b; simpl.
  - rewrite emit_nil, len_nil, N.add_0_r. tauto.
  - rewrite IH, emit_cons, len_app, N.add_assoc. tauto.
Qed.
Lemma wfp_one o t : wfp o [t] <-> (if blockish t then emit1 t = [] else lc (o + len (tpre t)) (tline t, tcol t)).
Proof. simpl. tauto. Qed.

Definition blocks (toks : list Token) : Prop := forall t, In t toks -> blockish t = true /\ emit1 t = [].
Lemma blocks_wfp : forall toks o, blocks toks -> wfp o toks /\ emit toks = [].
Proof.
  induction toks as [|t r IH]; intros o H; [split; [exact I|reflexivity]|].
  destruct (H t (or_introl eq_refl)) as [B E]. destruct (IH (o + len (emit1 t)) (fun x Hx => H x (or_intror Hx))) as [W Z].
  split; [simpl; rewrite B; split; assumption|rewrite emit_cons, E, Z; reflexivity].
Qed.
Lemma blocks_app a b : blocks a -> blocks b -> blocks (a ++ b).
Proof. intros A B t I. apply in_app_or in I as [I|I]; [apply A|apply B]; exact I. Qed.
Lemma blocks_nil : blocks [].
Proof. intros t []. Qed.
Lemma blocks_one t : blockish t = true -> emit1 t = [] -> blocks [t].
Proof. intros B E x [<-|[]]. split; assumption. Qed.

Lemma dedent_loop_blocks : forall fuel start lnum spos inds acc inds' toks,
  dedent_loop fuel start lnum spos inds acc = Ok (inds', toks) -> blocks acc -> blocks toks.
Proof.
  induction fuel as [|f IH]; intros start lnum spos inds acc inds' toks H A; [discriminate|]. simpl in H.
  destruct (last_opt inds) as [top|]; [|discriminate].
  destruct (start <? top).
  - destruct (last_opt (removelast inds)) as [second|]; [|discriminate].
    destruct (second <? start).
    + inversion H; subst. apply blocks_app; [exact A|apply blocks_one; reflexivity].
    + eapply IH; [exact H|]. apply blocks_app; [exact A|apply blocks_one; reflexivity].
  - inversion H; subst. exact A.
Qed.
Lemma dedent_blocks start lnum spos inds inds' toks :
  dedent_if_necessary start lnum spos inds = Ok (inds', toks) -> blocks toks.
Proof. unfold dedent_if_necessary. intros H. eapply dedent_loop_blocks; [exact H|apply blocks_nil]. Qed.

Section Ident.
Variable isident : str -> bool.
(* _split_illegal_unicode_name: pieces are located at consecutive columns *)
Lemma split_illegal_pos : forall chars i found illegal pos pfx sl sc o,
  lc (o + len pfx) pos ->
  (forall j, i <= j -> j <= i + len chars -> lc (o + len pfx + len found + (j - i)) (sl, sc + j)) ->
  wfp o (split_illegal isident chars i found illegal pos pfx sl sc).
Proof.
  induction chars as [|c rest IH]; intros i found illegal pos pfx sl sc o L0 LJ; destruct pos as [pl pc].
  - simpl. destruct found; [exact I|]. simpl. destruct illegal; (split; [exact L0|exact I]).
  - assert (NEXT: forall f', len f' = len found + 1 -> forall j, i + 1 <= j -> j <= i + 1 + len rest -> lc (o + len pfx + len f' + (j - (i + 1))) (sl, sc + j)).
    { intros f' Ef j J1 J2. rewrite len_cons in LJ. replace (o + len pfx + len f' + (j - (i + 1))) with (o + len pfx + len found + (j - i)) by lia. apply LJ; lia. }
    assert (FRESH: forall j, i + 1 <= j -> j <= i + 1 + len rest -> lc (o + len (pfx ++ found) + len ([] : str) + len [c] + (j - (i + 1))) (sl, sc + j)).
    { intros j J1 J2. rewrite len_cons in LJ. rewrite len_app, len_nil, len_cons, len_nil.
      replace (o + (len pfx + len found) + 0 + (1 + 0) + (j - (i + 1))) with (o + len pfx + len found + (j - i)) by lia. apply LJ; lia. }
    assert (HERE: lc (o + len (pfx ++ found) + len ([] : str)) (sl, sc + i)).
    { rewrite len_app, len_nil. replace (o + (len pfx + len found) + 0) with (o + len pfx + len found + (i - i)) by lia. apply LJ; [lia|rewrite len_cons; lia]. }
    cbn [split_illegal]. destruct illegal.
    + destruct (isident [c]).
      * cbn [wfp]. split; [destruct found; exact L0|]. unfold emit1 at 1. cbn [tpre ts].
        apply IH; [exact HERE|exact FRESH].
      * apply IH; [exact L0|]. apply NEXT. rewrite len_app. reflexivity.
    + destruct (isident (found ++ [c])).
      * apply IH; [exact L0|]. apply NEXT. rewrite len_app. reflexivity.
      * destruct found as [|x f].
        -- apply IH; [exact L0|]. apply NEXT. reflexivity.
        -- cbn [wfp]. split; [exact L0|]. unfold emit1 at 1. cbn [tpre ts].
           apply IH; [exact HERE|exact FRESH].
Qed.
End Ident.

(* ---------- the tokenizer proper ---------- *)
Variable C : coll.
Variable isident : str -> bool.
Variable isspace : N -> bool.
Hypothesis shape : shape12 (pseudo C) = true.

Definition PInv (o : N) (s : st) : Prop :=
  (contstr s <> [] -> lc (o + len (prefix s)) (contstr_start s)) /\
  (forall tos, last_opt (fstack s) = Some tos -> prev_lines tos <> [] ->
     lc (o + len (addp s) + len (fpend (removelast (fstack s)))) (last_start tos)).

Lemma fpend_nil_last fs tos : fpend fs = [] -> last_opt fs = Some tos -> prev_lines tos = [].
Proof. intros F L. rewrite (fpend_last _ _ L) in F. apply app_eq_nil in F. tauto. Qed.
Lemma PInv_quiet o s : contstr s = [] -> fpend (fstack s) = [] -> PInv o s.
Proof.
  intros c f. split; [intros X; rewrite c in X; contradiction|]. intros tos L P. rewrite (fpend_nil_last _ _ f L) in P. contradiction.
Qed.
Lemma last_opt_set_last {A} (l : list A) x : last_opt (set_last l x) = Some x.
Proof. unfold set_last. induction (removelast l) as [|a r IH]; [reflexivity|]. simpl. destruct (r ++ [x]) eqn:E; [destruct r; discriminate|exact IH]. Qed.
Lemma removelast_set_last {A} (l : list A) x : removelast (set_last l x) = removelast l.
Proof. unfold set_last. apply removelast_last. Qed.

Section Line.
Variable line : str.
Variables B ln : N.
Hypothesis Hline : forall c, c <= len line -> lc (B + c) (ln, c).

Lemma ffs_pos : forall stack tos lnum pos string pos' tos',
  find_fstring_string C stack tos line lnum pos = Ok (string, pos', tos') -> pos <= len line ->
  pos' <= len line /\ pos <= pos' /\
  (prev_lines tos <> [] -> last_start tos' = last_start tos) /\
  (prev_lines tos = [] -> pos < pos' -> last_start tos' = (lnum, pos)).
Proof.
  intros stack tos lnum pos string pos' tos' H PL. unfold find_fstring_string in H.
  match type of H with context [rmatch_at ?r line pos] => destruct (rmatch_at r line pos) as [[e cs]|] eqn:M end.
  - set (tos1 := match prev_lines tos with [] => _ | _ => tos end) in *.
    assert (T1: (prev_lines tos <> [] -> last_start tos1 = last_start tos) /\ (prev_lines tos = [] -> last_start tos1 = (lnum, pos))).
    { unfold tos1. destruct (prev_lines tos).
      - split; intros X; [exfalso; apply X; reflexivity|reflexivity].
      - split; intros X; [reflexivity|discriminate]. }
    destruct (trunc_by_quotes C stack (sub line pos e)) as [string0|] eqn:TQ; [|discriminate].
    destruct (trunc_prefix _ _ _ _ TQ) as (z & Hz).
    destruct (rmatch_le_len _ _ _ _ _ M PL) as [GE LE].
    assert (LS: len string0 <= e - pos).
    { rewrite <- (len_sub line pos e GE LE), Hz, len_app. lia. }
    destruct T1 as [T1 T2].
    destruct (ends_nl string0); inversion H; subst; cbn [last_start]; (split; [lia|split; [lia|split; [exact T1|intros X _; exact (T2 X)]]]).
  - inversion H; subst. split; [exact PL|split; [lia|split; [reflexivity|intros _ X; lia]]].
Qed.

Lemma fs_text_pos : forall s tos pos s1 toks oe p o,
  fs_text C s tos line pos = Ok (s1, toks, oe, p) -> last_opt (fstack s) = Some tos -> contstr s = [] -> pos <= len line ->
  lnum s = ln -> o + len (pend s) = B + pos -> PInv o s ->
  wfp o toks /\ PInv (o + len (emit toks)) s1 /\ p <= len line.
Proof.
  intros s tos pos s1 toks oe p o H L CS PL LN AB PI. unfold fs_text in H.
  destruct (negb (in_expr tos)).
  2:{ inversion H; subst. rewrite emit_nil, len_nil, N.add_0_r. split; [exact I|split; assumption]. }
  destruct (find_fstring_string C (fstack s) tos line (lnum s) pos) as [[[string pos'] tos']|] eqn:FF; [|discriminate].
  destruct (ffs_pos _ _ _ _ _ _ _ FF PL) as (B1 & B2 & LS1 & LS2).
  destruct (ffs_spec _ _ _ _ _ _ _ _ _ FF) as (s0 & F & D).
  assert (S0: pos < pos' \/ s0 = []).
  { destruct s0 as [|x s0]; [right; reflexivity|left]. apply (f_equal len) in F. rewrite len_app, len_cons, !len_from in F. lia. }
  unfold pend in AB. rewrite CS, (fpend_last _ _ L), !len_app in AB.
  (* where the pending text of the top frame starts *)
  assert (START: prev_lines tos' <> [] \/ string <> [] -> lc (o + len (addp s) + len (fpend (removelast (fstack s)))) (last_start tos')).
  { intros NE. destruct (prev_lines tos) as [|y pl] eqn:PT.
    - assert (pos < pos').
      { destruct S0 as [S0|S0]; [exact S0|]. subst s0. exfalso. destruct D as [[D1 D2]|[D1 D2]]; rewrite ?app_nil_r in *; destruct NE as [NE|NE]; try (apply NE; congruence). }
      rewrite (LS2 eq_refl H0), LN. rewrite len_nil in AB. replace (o + len (addp s) + len (fpend (removelast (fstack s)))) with (B + pos) by lia. apply Hline. exact PL.
    - rewrite LS1 by discriminate. destruct PI as [_ PI]. apply PI; [exact L|rewrite PT; discriminate]. }
  destruct string as [|x string].
  - assert (P1: PInv o (upd_f s (upd_top (fstack s) tos'))).
    { split; [cbn [contstr upd_f]; intros X; rewrite CS in X; contradiction|].
      cbn [fstack upd_f addp]. unfold upd_top. intros t Lt Pt. rewrite last_opt_set_last in Lt. inversion Lt; subst t.
      rewrite removelast_set_last. apply START. left. exact Pt. }
    destruct (pos' =? max_ s); inversion H; subst; rewrite emit_nil, len_nil, N.add_0_r; (split; [exact I|split; [exact P1|exact B1]]).
  - destruct (is_nil (addp s) && no_pending (removelast (fstack s))) eqn:G; [|discriminate].
    apply andb_true_iff in G as [G1 G2]. destruct (addp s) eqn:AP; [|discriminate]. apply no_pending_fpend in G2.
    inversion H; subst. clear H.
    split; [|split; [|exact B1]].
    + apply wfp_one. cbn [blockish ty tpre tline tcol]. rewrite len_nil, N.add_0_r.
      assert (NEs: x :: string <> []) by discriminate.
      specialize (START (or_intror NEs)). rewrite G2, !len_nil, !N.add_0_r in START.
      destruct (last_start tos'). exact START.
    + apply PInv_quiet; [exact CS|]. cbn [fstack upd_f]. rewrite (fpend_upd_top _ _ _ L), G2. reflexivity.
Qed.

Lemma lstrip_le : forall r, lstrip_len isspace r <= len r.
Proof. induction r as [|c r IH]; cbn [lstrip_len]; [rewrite len_nil; lia|]. rewrite len_cons. destruct (isspace c); lia. Qed.

Lemma close_pos : forall stack before rest lnum col ap tok qlen remaining,
  close_fstring isspace before stack rest lnum col ap = Ok (Some (tok, qlen, remaining)) ->
  exists k, k <= qlen /\ qlen <= len rest /\ blockish tok = false /\ len (tpre tok) = len ap + k /\ tline tok = lnum /\ tcol tok = col + k.
Proof.
  induction stack as [|n t IH]; intros before rest lnum col ap tok qlen remaining H; simpl in H; [discriminate|].
  destruct (starts_with (quote n) (from rest (lstrip_len isspace rest))) eqn:SW.
  - destruct (prev_lines n); [|discriminate]. destruct (forallb _ (before ++ t)); [|discriminate].
    inversion H; subst. clear H. apply starts_with_app in SW as (r & Hr).
    exists (lstrip_len isspace rest). pose proof (lstrip_le rest) as LL.
    apply (f_equal len) in Hr. rewrite len_app, len_from in Hr.
    cbn [blockish ty tpre tline tcol]. rewrite len_app.
    assert (U: len (upto rest (lstrip_len isspace rest)) = lstrip_len isspace rest).
    { unfold upto, len in *. rewrite firstn_length. lia. }
    rewrite U.
    repeat split; try reflexivity; try lia.
  - eapply IH. exact H.
Qed.

Ltac lens E := apply (f_equal len) in E; rewrite ?len_app, ?len_from in E.

Lemma fs_part_pos : forall s pos s1 toks oe p o,
  fs_part C isspace s line pos = Ok (s1, toks, oe, p) -> contstr s = [] -> pos <= len line ->
  lnum s = ln -> o + len (pend s) = B + pos -> PInv o s ->
  wfp o toks /\ PInv (o + len (emit toks)) s1 /\ p <= len line /\ o + len (emit toks) + len (pend s1) = B + p.
Proof.
  intros s pos s1 toks oe p o H CS PL LN AB PI.
  assert (FIN: p <= len line -> o + len (emit toks) + len (pend s1) = B + p).
  { intros PB. destruct (fs_part_tiles _ _ _ _ _ _ _ _ _ H CS) as (E & _). lens E. lia. }
  unfold fs_part in H.
  destruct (last_opt (fstack s)) as [tos|] eqn:L.
  2:{ inversion H; subst. rewrite emit_nil, len_nil, N.add_0_r in *. split; [exact I|split; [exact PI|split; [exact PL|apply FIN; exact PL]]]. }
  destruct (fs_text C s tos line pos) as [[[[s1' toks'] oe'] p']|] eqn:FT; [|discriminate].
  destruct (fs_text_pos _ _ _ _ _ _ _ _ FT L CS PL LN AB PI) as (W1 & P1 & B1).
  destruct (fs_text_tiles _ _ _ _ _ _ _ _ _ FT L CS) as (E1 & C1 & M1 & L1 & _).
  destruct oe' as [e|]; [inversion H; subst; split; [exact W1|split; [exact P1|split; [exact B1|apply FIN; exact B1]]]|].
  destruct (close_fstring isspace [] (fstack s1') (from line p') (lnum s1') p' (addp s1')) as [[[[tok qlen] remaining]|]|] eqn:CL; [| |discriminate].
  - pose proof (hide_in _ LN) as HLN. clear LN. inversion H; subst. clear H. pose proof (hide_out _ HLN) as LN.
    destruct (close_spec _ _ _ _ _ _ _ _ _ _ CL) as (X1 & X2 & X3). simpl in X2.
    destruct (close_pos _ _ _ _ _ _ _ _ _ CL) as (k & K1 & K2 & K3 & K4 & K5 & K6).
    rewrite len_from in K2.
    assert (A1: o + len (emit toks') + len (addp s1') = B + p').
    { lens E1. unfold pend in E1, AB |- *. rewrite C1, X2, app_nil_r in E1. rewrite CS in E1. rewrite CS in AB. rewrite !len_app in *. lia. }
    assert (PB: p' + qlen <= len line) by lia.
    split; [|split; [|split; [exact PB|apply FIN; exact PB]]].
    + apply wfp_app. split; [exact W1|]. apply wfp_one. rewrite K3, K4, K5, K6, L1, LN.
      replace (o + len (emit toks') + (len (addp s1') + k)) with (B + (p' + k)) by lia. apply Hline. lia.
    + apply PInv_quiet; [exact C1|exact X3].
  - inversion H; subst. split; [exact W1|split; [exact P1|split; [exact B1|apply FIN; exact B1]]].
Qed.

Lemma rmatch_max r s pos e cs : rmatch r s pos = Some (e, cs) -> e <= N.max pos (len s).
Proof. intros H. apply rmatch_bounds in H. unfold len. rewrite skipn_length in H. lia. Qed.

Lemma pm_info_bounds : forall s1 pos pfx a2 b2 token has3 start initial,
  pm_info C s1 line pos = Ok (Some (pfx, a2, b2, token, has3), start, initial) -> pos <= len line -> b2 <= len line.
Proof.
  intros s1 pos pfx a2 b2 token has3 start initial H PL. unfold pm_info in H.
  match type of H with context [match ?sl with Ok _ => _ | Err _ => _ end] => destruct sl as [slen|]; [|discriminate] end.
  destruct (rmatch_at (pseudo C) (upto line slen) pos) as [[e cs]|] eqn:M.
  - destruct (shape12_spans _ _ _ _ _ shape M) as (j & G1 & G2 & L1 & L2). rewrite G1, G2 in H.
    inversion H; subst. apply rmatch_max in M. pose proof (len_upto line slen). lia.
  - destruct (rmatch_at (whitespace C) line pos) as [[e cs]|]; [|discriminate]. destruct (nth_error line (N.to_nat e)); discriminate.
Qed.

Lemma nth_error_lt (l : str) e c : nth_error l (N.to_nat e) = Some c -> e < len l.
Proof. intros H. assert (X: nth_error l (N.to_nat e) <> None) by (rewrite H; discriminate). apply nth_error_Some in X. unfold len. lia. Qed.

Lemma indent_part_blocks : forall s2 is_pm initial start spos s3 toks2,
  indent_part s2 is_pm initial start spos = Ok (s3, toks2) -> blocks toks2.
Proof.
  intros s2 is_pm initial start spos s3 toks2 H. unfold indent_part in H.
  destruct (new_line s2 && negb (chr_in initial [cr; nl; hash]) && (negb (initial =? bsl) || negb is_pm)); [|inversion H; subst; apply blocks_nil].
  cbn [paren fstack indents] in H.
  destruct ((paren s2 =? 0) && match fstack s2 with [] => true | _ => false end); [|inversion H; subst; apply blocks_nil].
  destruct (last_opt (indents s2)) as [top|]; [|discriminate].
  destruct (top <? start).
  - destruct (dedent_if_necessary start _ spos (indents s2 ++ [start])) as [[inds' t1]|] eqn:D; [|discriminate].
    inversion H; subst. apply (blocks_app [_]); [apply blocks_one; reflexivity|eapply dedent_blocks; exact D].
  - destruct (dedent_if_necessary start _ spos (indents s2)) as [[inds' t1]|] eqn:D; [|discriminate].
    inversion H; subst. eapply dedent_blocks. exact D.
Qed.

Lemma error_token_pos : forall s3 toks pos spos s' out le o,
  error_token C s3 toks line pos spos = Ok (s', out, le) -> contstr s3 = [] -> fpend (fstack s3) = [] -> pos <= len line ->
  lnum s3 = ln -> wfp o toks -> o + len (emit toks) + len (addp s3) = B + pos ->
  wfp o out /\ PInv (o + len (emit out)) s' /\ lnum s' = ln /\ (forall p', le = Continue p' -> p' <= len line).
Proof.
  intros s3 toks pos spos s' out le o H CS FP PL LN W AB. unfold error_token in H.
  destruct (rmatch_at (whitespace C) line pos) as [[e cs]|] eqn:M; [|discriminate].
  match type of H with context [match ?dd with Ok _ => _ | Err _ => _ end] => destruct dd as [[inds t3]|] eqn:D; [|discriminate] end.
  destruct (nth_error line (N.to_nat e)) as [c|] eqn:NT; [|discriminate].
  pose proof (hide_in _ LN) as HLN. clear LN. inversion H; subst. clear H. pose proof (hide_out _ HLN) as LN.
  assert (B3: blocks t3).
  { destruct (new_line s3 && (paren s3 =? 0) && match fstack s3 with [] => true | _ => false end); [eapply dedent_blocks; exact D|inversion D; apply blocks_nil]. }
  pose proof (nth_error_lt _ _ _ NT) as EL. pose proof (rmatch_ge_pos _ _ _ _ _ M) as GE.
  split; [|split; [|split; [exact LN|intros p' X; inversion X; lia]]].
  - apply wfp_app. split; [exact W|]. apply wfp_app. destruct (blocks_wfp t3 (o + len (emit toks)) B3) as [W3 Z3]. split; [exact W3|].
    apply wfp_one. cbn [blockish ty tpre tline tcol]. rewrite Z3, len_nil, N.add_0_r, len_app, len_sub by lia. rewrite LN.
    replace (o + len (emit toks) + (len (addp s3) + (e - pos))) with (B + e) by lia. apply Hline. lia.
  - apply PInv_quiet; [exact CS|exact FP].
Qed.

Lemma classify_pos : forall s3 toks pfx start epos token has3 initial s' out le o,
  classify C isident s3 toks line pfx start epos token has3 initial (ln, start) = Ok (s', out, le) ->
  contstr s3 = [] -> fpend (fstack s3) = [] -> prefix s3 = pfx -> lnum s3 = ln ->
  token = sub line start epos -> start < epos -> epos <= len line ->
  wfp o toks -> o + len (emit toks) + len pfx = B + start ->
  wfp o out /\ PInv (o + len (emit out)) s' /\ lnum s' = ln /\ (forall p', le = Continue p' -> p' <= len line).
Proof.
  intros s3 toks pfx start epos token has3 initial s' out le o H CS FP PF LN TK LT EL W AB.
  assert (HERE: lc (o + len (emit toks) + len pfx) (ln, start)) by (rewrite AB; apply Hline; lia).
  (* one token at (ln, start) with prefix pfx, going on at q *)
  assert (STD: forall t tk st0 q, blockish (mkTok t tk ln start pfx) = false -> contstr st0 = [] -> fpend (fstack st0) = [] -> lnum st0 = ln -> q <= len line ->
     wfp o (toks ++ [mkTok t tk ln start pfx]) /\ PInv (o + len (emit (toks ++ [mkTok t tk ln start pfx]))) st0 /\ lnum st0 = ln /\
     (forall p', Continue q = Continue p' -> p' <= len line)).
  { intros t tk st0 q BK c0 f0 l0 QL. split; [|split; [apply PInv_quiet; assumption|split; [exact l0|intros p' X; inversion X; subst; exact QL]]].
    apply wfp_app. split; [exact W|]. apply wfp_one. rewrite BK. exact HERE. }
  (* nothing emitted *)
  assert (NOP: forall st0 (l0 : loop_end), contstr st0 = [] -> fpend (fstack st0) = [] -> lnum st0 = ln -> (forall p', l0 = Continue p' -> p' <= len line) ->
     wfp o toks /\ PInv (o + len (emit toks)) st0 /\ lnum st0 = ln /\ (forall p', l0 = Continue p' -> p' <= len line)).
  { intros st0 l0 c0 f0 ll0 Q. split; [exact W|split; [apply PInv_quiet; assumption|split; assumption]]. }
  (* a string that continues on the next line *)
  assert (CONT: forall st0, contstr_start st0 = (ln, start) -> prefix st0 = pfx -> fpend (fstack st0) = [] -> lnum st0 = ln ->
     wfp o toks /\ PInv (o + len (emit toks)) st0 /\ lnum st0 = ln /\ (forall p', Break = Continue p' -> p' <= len line)).
  { intros st0 c0 p0 f0 l0. split; [exact W|split; [|split; [exact l0|intros p' X; discriminate]]].
    split; [intros _; rewrite c0, p0; exact HERE|]. intros tos L P. rewrite (fpend_nil_last _ _ f0 L) in P. contradiction. }
  pose proof (hide_in _ LN) as HLN. pose proof (hide_in _ PF) as HPF.
  unfold classify in H. cbn [fst snd] in H.
  destruct (chr_in initial digits || ((initial =? dot) && negb (str_eqb token [dot]) && negb (str_eqb token [dot; dot; dot]))).
  { inversion H; subst s' out le. apply STD; auto. }
  destruct has3.
  { match type of H with context [match ?brk with Ok _ => _ | Err _ => _ end] => destruct brk as [[s4 t4]|] eqn:BRK; [|discriminate] end.
    assert (X: blocks t4 /\ contstr s4 = [] /\ fpend (fstack s4) = [] /\ lnum s4 = ln).
    { destruct (mem_str token (always_break C) && (negb match fstack s3 with [] => true | _ => false end || negb (paren s3 =? 0))).
      - destruct (rmatch_at (ws_dollar C) (upto line start) 0) as [[e cs]|].
        + destruct (dedent_if_necessary e _ (ln, start) _) as [[inds t]|] eqn:D; [|discriminate]. inversion BRK; subst s4 t4.
          split; [eapply dedent_blocks; exact D|]. cbn [contstr fstack lnum]. repeat split; assumption.
        + inversion BRK; subst s4 t4. split; [apply blocks_nil|]. cbn [contstr fstack lnum]. repeat split; assumption.
      - inversion BRK; subst s4 t4. split; [apply blocks_nil|]. repeat split; assumption. }
    destruct X as (X1 & X2 & X3 & X4). destruct (blocks_wfp t4 (o + len (emit toks)) X1) as [W4 Z4].
    destruct (isident token); inversion H; subst s' out le.
    - split; [|split; [apply PInv_quiet; assumption|split; [exact X4|intros p' X; inversion X; subst; exact EL]]].
      apply wfp_app. split; [exact W|]. apply wfp_app. split; [exact W4|]. apply wfp_one. cbn [blockish ty tpre tline tcol].
      rewrite Z4, len_nil, N.add_0_r. exact HERE.
    - split; [|split; [apply PInv_quiet; assumption|split; [exact X4|intros p' X; inversion X; subst; exact EL]]].
      apply wfp_app. split; [exact W|]. apply wfp_app. split; [exact W4|]. rewrite Z4, len_nil, N.add_0_r.
      apply split_illegal_pos; [exact HERE|]. intros j J1 J2. rewrite TK, len_sub in J2 by lia. rewrite len_nil.
      replace (o + len (emit toks) + len pfx + 0 + (j - 0)) with (B + (start + j)) by lia. apply Hline. lia. }
  destruct (chr_in initial [cr; nl]).
  { set (fs := if existsb (fun f => negb (allow_multiline f)) (fstack s3) then [] else fstack s3) in *.
    assert (FS: fpend fs = []) by (unfold fs; destruct (existsb _ (fstack s3)); [reflexivity|exact FP]).
    destruct (negb (new_line s3) && (paren s3 =? 0) && match fs with [] => true | _ => false end); inversion H; subst s' out le; [apply STD|apply NOP]; auto.
    intros p' X; inversion X; subst; exact EL. }
  destruct (initial =? hash).
  { destruct (match last_opt (fstack s3) with Some f => in_expr f | None => false end); inversion H; subst s' out le; [apply STD; auto; lia|apply NOP; auto]. intros p' X; inversion X; subst; exact EL. }
  destruct (mem_str token (triple_quoted C)).
  { destruct (endpat C token) as [r|]; [|discriminate]. destruct (rmatch_at r line epos) as [[e cs]|] eqn:M; inversion H; subst s' out le.
    - apply STD; auto. apply (rmatch_le_len _ _ _ _ _ M EL).
    - apply CONT; auto. }
  destruct (mem_str [initial] (single_quoted C) || mem_str (upto token 2) (single_quoted C) || mem_str (upto token 3) (single_quoted C)).
  { destruct (match last_chr token with Some c => chr_in c [cr; nl] | None => false end); inversion H; subst s' out le; [apply CONT; auto|apply STD; auto]. }
  destruct (assoc token (fstring_map C)) as [q|].
  { inversion H; subst s' out le. apply STD; auto. cbn [upd_f fstack]. rewrite fpend_app, FP, fpend_one. reflexivity. }
  destruct ((initial =? bsl) && (str_eqb (from line start) [bsl; nl] || str_eqb (from line start) [bsl; cr; nl] || str_eqb (from line start) [bsl; cr])).
  { inversion H; subst s' out le. apply NOP; auto. intros p' X; discriminate. }
  destruct (last_opt (fstack s3)) as [f|] eqn:LO.
  - destruct (is_substr token [40; 91; 123]).
    { inversion H; subst s' out le. apply STD; auto. cbn [upd_f fstack]. rewrite (fpend_upd_same _ f _ LO) by reflexivity. exact FP. }
    destruct (is_substr token [41; 93; 125]).
    { inversion H; subst s' out le. apply STD; auto. cbn [upd_f fstack]. rewrite (fpend_upd_same _ f _ LO); [exact FP|]. destruct ((parens f - 1 =? 0)%Z); [reflexivity|]. destruct ((parens f - 1 <? spec_count f)%Z); reflexivity. }
    destruct (starts_with [colon] token && (parens f - spec_count f =? 1)%Z).
    + inversion H; subst s' out le. apply STD; auto; [|lia]. cbn [upd_f fstack]. rewrite (fpend_upd_same _ f _ LO) by reflexivity. exact FP.
    + inversion H; subst s' out le. apply STD; auto.
  - destruct (is_substr token [40; 91; 123]); [inversion H; subst s' out le; apply STD; auto|].
    destruct (is_substr token [41; 93; 125]); inversion H; subst s' out le; apply STD; auto.
Qed.

Lemma sub_cons_lt (l : str) a b c r : sub l a b = c :: r -> a < b.
Proof. unfold sub. intros H. destruct (N.to_nat (b - a)) eqn:E; [discriminate|lia]. Qed.
Lemma len_upto_le (l : str) b : b <= len l -> len (upto l b) = b.
Proof. unfold upto, len. intros H. rewrite firstn_length. lia. Qed.

Lemma body_pos : forall s pos s' toks le o,
  body C isident isspace s line pos = Ok (s', toks, le) -> contstr s = [] -> max_ s = len line -> pos <= len line -> lnum s = ln ->
  o + len (pend s) = B + pos -> PInv o s ->
  wfp o toks /\ PInv (o + len (emit toks)) s' /\ lnum s' = ln /\ (forall p', le = Continue p' -> p' <= len line).
Proof.
  intros s pos s' toks le o H CS MX PL LN AB PI. unfold Tok.body in H.
  destruct (fs_part C isspace s line pos) as [[[[s1 toks1] oe] p]|] eqn:FS; [|discriminate].
  destruct (fs_part_pos _ _ _ _ _ _ _ FS CS PL LN AB PI) as (W1 & P1 & B1 & A1).
  destruct (fs_part_tiles _ _ _ _ _ _ _ _ _ FS CS) as (E1 & C1 & M1 & L1 & _ & Q1).
  assert (LN1: lnum s1 = ln) by (rewrite L1; exact LN).
  destruct oe as [e|].
  { inversion H; subst s' toks le. split; [exact W1|split; [exact P1|split; [exact LN1|intros p' X; rewrite (Q1 p' (f_equal Some X)); exact B1]]]. }
  destruct (negb (no_pending (fstack s1))) eqn:G9; [discriminate|]. apply negb_false_iff in G9. apply no_pending_fpend in G9.
  assert (PE: pend s1 = addp s1) by (unfold pend; rewrite C1, G9, app_nil_r; reflexivity). rewrite PE in A1.
  destruct (pm_info C s1 line p) as [[[pmi start] initial]|] eqn:PM; [|discriminate].
  destruct pmi as [[[[[pfx a2] epos] token] has3]|].
  - destruct (pm_info_spec _ shape _ _ _ _ _ _ _ _ _ _ PM) as (ws & Hp & F1 & F2 & Hs & Ht & Hle & Hi).
    pose proof (pm_info_bounds _ _ _ _ _ _ _ _ _ PM B1) as EB.
    destruct token as [|c tk].
    + destruct pfx as [|x pfx']; [discriminate|]. destruct (epos =? len line); [|discriminate].
      inversion H; subst s' toks le.
      split; [exact W1|split; [apply PInv_quiet; [exact C1|exact G9]|split; [exact LN1|intros p' X; discriminate]]].
    + set (s2 := mkSt (paren s1) (indents s1) (contstr s1) (contstr_start s1) (endprog s1) (new_line s1) pfx [] (fstack s1) (lnum s1) (max_ s1)) in *.
      destruct (indent_part s2 true initial start (lnum s2, start)) as [[s3 toks2]|] eqn:IP; [|discriminate].
      destruct (indent_part_spec _ _ _ _ _ _ _ IP) as (I1 & I2 & I3 & I4 & I5 & I6 & I7).
      pose proof (indent_part_blocks _ _ _ _ _ _ _ IP) as BK. destruct (blocks_wfp toks2 (o + len (emit toks1)) BK) as [W2 Z2].
      cbn [lnum s2] in H. rewrite LN1 in H. subst start.
      pose proof (sub_cons_lt _ _ _ _ _ (eq_sym Ht)) as LT.
      eapply classify_pos; [exact H|rewrite I2; exact C1|rewrite I4; exact G9|rewrite I6; reflexivity|rewrite I7; exact LN1|exact Ht|exact LT|exact EB| |].
      * apply wfp_app. split; assumption.
      * rewrite emit_app, I1, app_nil_r. lens F1. rewrite Hp, len_app. lia.
  - destruct (indent_part s1 false initial start (lnum s1, start)) as [[s3 toks2]|] eqn:IP; [|discriminate].
    destruct (indent_part_spec _ _ _ _ _ _ _ IP) as (I1 & I2 & I3 & I4 & I5 & I6 & I7).
    pose proof (indent_part_blocks _ _ _ _ _ _ _ IP) as BK. destruct (blocks_wfp toks2 (o + len (emit toks1)) BK) as [W2 Z2].
    eapply error_token_pos; [exact H|rewrite I2; exact C1|rewrite I4; exact G9|exact B1|rewrite I7; exact LN1| |].
    + apply wfp_app. split; assumption.
    + rewrite emit_app, I1, app_nil_r, I3. exact A1.
Qed.

Lemma scan_pos : forall fuel s pos acc s' out o0,
  scan C isident isspace fuel s line pos acc = Ok (s', out) -> contstr s = [] -> max_ s = len line -> pos <= len line -> lnum s = ln ->
  wfp o0 acc -> o0 + len (emit acc) + len (pend s) = B + pos -> PInv (o0 + len (emit acc)) s ->
  wfp o0 out /\ PInv (o0 + len (emit out)) s' /\ lnum s' = ln /\ o0 + len (emit out) + len (pend s') = B + len line /\ max_ s' = len line.
Proof.
  induction fuel as [|f IH]; intros s pos acc s' out o0 H CS MX PL LN W AB PI; [discriminate|]. cbn [Tok.scan] in H.
  destruct (pos <? max_ s) eqn:LT.
  - destruct (body C isident isspace s line pos) as [[[s1 toks] le]|] eqn:BD; [|discriminate].
    destruct (body_pos _ _ _ _ _ _ BD CS MX PL LN AB PI) as (W1 & P1 & L1 & Q1).
    destruct (body_tiles _ _ _ shape _ _ _ _ _ _ BD CS MX) as (E & M & CC & CI).
    assert (WA: wfp o0 (acc ++ toks)) by (apply wfp_app; split; assumption).
    destruct le as [pos'|].
    + specialize (Q1 pos' eq_refl). cbn [tail_of] in E. lens E.
      eapply IH; [exact H|apply CC; discriminate|rewrite M; exact MX|exact Q1|exact L1|exact WA| |].
      * rewrite emit_app, len_app. lia.
      * rewrite emit_app, len_app, N.add_assoc. exact P1.
    + inversion H; subst s' out. cbn [tail_of] in E. rewrite app_nil_r in E. lens E.
      rewrite emit_app, len_app, N.add_assoc. split; [exact WA|split; [exact P1|split; [exact L1|split; [lia|rewrite M; exact MX]]]].
  - inversion H; subst s' out. apply N.ltb_ge in LT. split; [exact W|split; [exact PI|split; [exact LN|split; [|exact MX]]]]. rewrite AB. f_equal. lia.
Qed.

Lemma line_core_pos : forall sB s' toks o,
  line_core C isident isspace sB line 0 = Ok (s', toks) -> CInv sB -> max_ sB = len line -> lnum sB = ln ->
  o + len (pend sB) = B -> PInv o sB ->
  wfp o toks /\ PInv (o + len (emit toks)) s' /\ lnum s' = ln /\ o + len (emit toks) + len (pend s') = B + len line /\ max_ s' = len line.
Proof.
  intros sB s' toks o H CI MX LN AB PI. unfold line_core in H.
  destruct (contstr sB) as [|cc ct] eqn:CB.
  - eapply (scan_pos _ _ _ [] _ _ o) in H; [exact H|exact CB|exact MX|lia|exact LN|exact I| |].
    + rewrite emit_nil, len_nil. lia.
    + rewrite emit_nil, len_nil, N.add_0_r. exact PI.
  - destruct (endprog sB) as [r|]; [|discriminate].
    destruct (CI ltac:(rewrite CB; discriminate)) as [A0 F0].
    unfold pend in AB. rewrite CB, F0, app_nil_r, len_app in AB.
    destruct PI as [PI1 PI2]. specialize (PI1 ltac:(rewrite CB; discriminate)).
    destruct (rmatch_at r line 0) as [[e cs]|] eqn:M.
    + destruct (rmatch_le_len _ _ _ _ _ M ltac:(lia)) as [_ EL].
      set (tok := mkTok STRING ((cc :: ct) ++ upto line e) (fst (contstr_start sB)) (snd (contstr_start sB)) (prefix sB)) in *.
      assert (ET: len (emit [tok]) = len (prefix sB) + len (cc :: ct) + e).
      { rewrite emit_one. cbn [tpre ts tok]. rewrite !len_app, (len_upto_le _ _ EL). lia. }
      eapply (scan_pos _ _ _ [tok] _ _ o) in H; [exact H|reflexivity|exact MX|exact EL|exact LN| | |].
      * apply wfp_one. cbn [blockish ty tok tpre tline tcol]. destruct (contstr_start sB). exact PI1.
      * unfold pend. cbn [contstr addp fstack]. rewrite A0, F0. cbn [app]. rewrite len_nil. lia.
      * apply PInv_quiet; [reflexivity|exact F0].
    + inversion H; subst s' toks. rewrite emit_nil, len_nil, N.add_0_r.
      split; [exact I|split; [|split; [exact LN|split; [|exact MX]]]].
      * split; [intros _; exact PI1|exact PI2].
      * unfold pend. cbn [contstr prefix fstack]. rewrite ?CB, F0. cbn [app]. rewrite app_nil_r, !len_app, ?len_cons, ?len_app. rewrite ?len_cons in AB. lia.
Qed.
End Line.
End Pos.

(* ---------- whole input: positions relative to the list of lines ---------- *)
Section Global.
Variable C : coll.
Variable isident : str -> bool.
Variable isspace : N -> bool.
Hypothesis shape : shape12 (pseudo C) = true.
Variable lines : list str.
Variable sl : N.
Variable is_first : bool.

Definition has_bom : bool := is_first && match lines with (c :: _) :: _ => c =? bom | _ => false end.
Definition bw (i : nat) : N := match i with O => if has_bom then 1 else 0 | S _ => 0 end.
Definition before (i : nat) : N := len (concat (firstn i lines)).
(* text offset o is at (line, column): line i of the input (numbered from sl), column counted after a leading BOM *)
Definition loc (o : N) (p : N * N) : Prop :=
  exists i l, nth_error lines i = Some l /\ fst p = sl + N.of_nat i /\ o = before i + bw i + snd p /\ bw i + snd p <= len l.

Lemma firstn_S_nth {A} : forall (l : list A) i x, nth_error l i = Some x -> firstn (S i) l = firstn i l ++ [x].
Proof.
  induction l as [|a l IH]; intros i x H; [destruct i; discriminate|].
  destruct i as [|i]; simpl in H; [inversion H; reflexivity|]. cbn [firstn]. rewrite (IH i x H) at 1. reflexivity.
Qed.
Lemma before_S i l : nth_error lines i = Some l -> before (S i) = before i + len l.
Proof. intros H. unfold before. rewrite (firstn_S_nth _ _ _ H), concat_app, len_app. simpl. rewrite app_nil_r. reflexivity. Qed.
Lemma before_0 : before 0 = 0.
Proof. reflexivity. Qed.

Notation PInvL := (PInv loc).
Notation wfpL := (wfp loc).

Lemma line_step_pos : forall i l s first s' toks o,
  nth_error lines i = Some l -> first = is_first && Nat.eqb i 0 ->
  line_step C isident isspace s l first 0 = Ok (s', toks) -> CInv s ->
  (first = true -> contstr s = [] /\ addp s = [] /\ fpend (fstack s) = []) ->
  lnum s + 1 = sl + N.of_nat i -> o + len (pend s) = before i -> PInvL o s ->
  wfpL o toks /\ PInvL (o + len (emit toks)) s' /\ lnum s' = sl + N.of_nat i /\
  o + len (emit toks) + len (pend s') = before (S i) /\ CInv s' /\ loc (before (S i)) (lnum s', max_ s').
Proof.
  intros i l s first s' toks o NT FE H CI FI LN AB PI.
  destruct (line_step_tiles _ _ _ shape _ _ _ _ _ H CI FI) as (_ & CI').
  rewrite (before_S _ _ NT).
  (* the common part: the effective line, its base offset *)
  assert (CORE: forall sB line w, line_core C isident isspace sB line 0 = Ok (s', toks) -> CInv sB -> max_ sB = len line -> lnum sB = sl + N.of_nat i ->
     bw i = w -> len l = w + len line -> o + len (pend sB) = before i + w -> PInvL o sB ->
     wfpL o toks /\ PInvL (o + len (emit toks)) s' /\ lnum s' = sl + N.of_nat i /\
     o + len (emit toks) + len (pend s') = before i + len l /\ CInv s' /\ loc (before i + len l) (lnum s', max_ s')).
  { intros sB line w HC CIB MXB LNB BW LL ABB PIB.
    assert (Hline: forall c, c <= len line -> loc (before i + w + c) (sl + N.of_nat i, c)).
    { intros c Hc. exists i, l. cbn [fst snd]. rewrite BW. repeat split; [exact NT|lia]. }
    destruct (line_core_pos loc C isident isspace shape line (before i + w) (sl + N.of_nat i) Hline _ _ _ _ HC CIB MXB LNB ABB PIB) as (W & P & L & A & M).
    split; [exact W|split; [exact P|split; [exact L|split; [lia|split; [exact CI'|]]]]].
    rewrite L, M. replace (before i + len l) with (before i + w + len line) by lia. apply Hline. lia. }
  unfold Tok.line_step in H.
  set (sA := mkSt (paren s) (indents s) (contstr s) (contstr_start s) (endprog s) (new_line s) (prefix s) (addp s) (fstack s) (lnum s + 1) (len l)) in *.
  assert (PA: pend sA = pend s) by reflexivity.
  destruct first.
  - (* the first line *)
    symmetry in FE. apply andb_true_iff in FE as [IF I0]. apply Nat.eqb_eq in I0. subst i.
    destruct (FI eq_refl) as (F1 & F2 & F3).
    assert (Q: forall a m, CInv (mkSt (paren sA) (indents sA) (contstr sA) (contstr_start sA) (endprog sA) (new_line sA) (prefix sA) a (fstack sA) (lnum sA) m)).
    { intros a m X. cbn [contstr] in X. unfold sA in X. cbn [contstr] in X. rewrite F1 in X. contradiction. }
    assert (QP: forall a m o', PInvL o' (mkSt (paren sA) (indents sA) (contstr sA) (contstr_start sA) (endprog sA) (new_line sA) (prefix sA) a (fstack sA) (lnum sA) m)).
    { intros a m o'. apply PInv_quiet; [exact F1|exact F3]. }
    assert (PE: pend s = []) by (unfold pend; rewrite F1, F2, F3; reflexivity). rewrite PE, len_nil in AB.
    destruct l as [|c t].
    + cbn [repeat N.to_nat app] in H. eapply (CORE _ [] 0) in H; [exact H|apply Q|reflexivity|exact LN| |reflexivity| |apply QP].
      * unfold bw, has_bom. destruct lines as [|[|x y] r]; try discriminate; rewrite ?andb_false_r; reflexivity.
      * unfold pend. cbn [contstr addp fstack sA]. rewrite F1, F2, F3. cbn [app]. rewrite len_nil. lia.
    + destruct (c =? bom) eqn:BM.
      * cbn [repeat N.to_nat app upd_addp paren indents contstr contstr_start endprog new_line prefix addp fstack lnum] in H.
        eapply (CORE _ t 1) in H; [exact H|apply Q|cbn [max_]; lia|exact LN| |rewrite len_cons; reflexivity| |apply QP].
        -- unfold bw, has_bom. rewrite IF. destruct lines as [|[|x y] r]; try discriminate. inversion NT; subst. rewrite BM. reflexivity.
        -- unfold pend. cbn [contstr addp fstack sA]. rewrite F1, F3. cbn [app]. rewrite len_cons, len_nil. lia.
      * cbn [repeat N.to_nat app] in H.
        eapply (CORE _ (c :: t) 0) in H; [exact H|apply Q|cbn [max_]; lia|exact LN| |reflexivity| |apply QP].
        -- unfold bw, has_bom. rewrite IF. destruct lines as [|[|x y] r]; try discriminate. inversion NT; subst. rewrite BM. reflexivity.
        -- unfold pend. cbn [contstr addp fstack sA]. rewrite F1, F2, F3. cbn [app]. rewrite len_nil. lia.
  - eapply (CORE _ l 0) in H; [exact H|exact CI|reflexivity|exact LN| |reflexivity|rewrite PA; lia|exact PI].
    unfold bw, has_bom. destruct i as [|i]; [|reflexivity]. rewrite Nat.eqb_refl, andb_true_r in FE. rewrite <- FE. reflexivity.
Qed.

Lemma skipn_cons_nth {A} : forall (l : list A) i x r, skipn i l = x :: r -> nth_error l i = Some x /\ skipn (S i) l = r.
Proof.
  induction l as [|a l IH]; intros i x r H; [destruct i; discriminate|].
  destruct i as [|i]; simpl in H; [inversion H; split; reflexivity|]. apply IH in H. exact H.
Qed.

Lemma lines_loop_pos : forall rest i s first acc s' out,
  skipn i lines = rest -> (i <= length lines)%nat -> first = is_first && Nat.eqb i 0 ->
  lines_loop C isident isspace s rest first 0 acc = Ok (s', out) -> CInv s ->
  (first = true -> contstr s = [] /\ addp s = [] /\ fpend (fstack s) = []) ->
  lnum s + 1 = sl + N.of_nat i -> wfpL 0 acc -> len (emit acc) + len (pend s) = before i -> PInvL (len (emit acc)) s ->
  (i <> O -> loc (before i) (lnum s, max_ s)) ->
  wfpL 0 out /\ PInvL (len (emit out)) s' /\ len (emit out) + len (pend s') = len (concat lines) /\ CInv s' /\
  (lines <> [] -> loc (len (concat lines)) (lnum s', max_ s')).
Proof.
  induction rest as [|l rest IH]; intros i s first acc s' out SK IL FE H CI FI LN W AB PI EL; cbn [Tok.lines_loop] in H.
  - inversion H; subst s' out.
    assert (I: i = length lines).
    { apply (f_equal (@length str)) in SK. rewrite skipn_length in SK. simpl in SK. lia. }
    assert (BE: before i = len (concat lines)) by (unfold before; rewrite I, firstn_all; reflexivity).
    rewrite <- BE. split; [exact W|split; [exact PI|split; [exact AB|split; [exact CI|]]]].
    intros NE. apply EL. rewrite I. destruct lines; [contradiction|discriminate].
  - destruct (skipn_cons_nth _ _ _ _ SK) as [NT SK'].
    destruct (line_step C isident isspace s l first 0) as [[s1 toks]|] eqn:LS; [|discriminate].
    assert (AB0: 0 + len (emit acc) + len (pend s) = before i) by lia.
    destruct (line_step_pos _ _ _ _ _ _ (0 + len (emit acc)) NT FE LS CI FI LN ltac:(lia) ltac:(rewrite N.add_0_l; exact PI)) as (W1 & P1 & L1 & A1 & C1 & E1).
    rewrite N.add_0_l in *.
    assert (IL': (S i <= length lines)%nat).
    { assert (X: nth_error lines i <> None) by (rewrite NT; discriminate). apply nth_error_Some in X. lia. }
    eapply (IH (S i)) in H; [exact H|exact SK'|exact IL'|rewrite andb_false_r; reflexivity|exact C1|discriminate| | | | |].
    + rewrite L1. lia.
    + apply wfp_app. split; [exact W|rewrite N.add_0_l; exact W1].
    + rewrite emit_app, len_app. exact A1.
    + rewrite emit_app, len_app. exact P1.
    + intros _. exact E1.
Qed.

(* ---------- the theorem ---------- *)
Theorem tok_positions : forall inds toks,
  tokenize_lines C isident isspace lines inds sl 0 is_first = Ok toks -> 1 <= sl -> lines <> [] -> wfpL 0 toks.
Proof.
  intros inds toks H SL NE. unfold tokenize_lines in H.
  set (s0 := mkSt 0 inds [] (0, 0) None true [] [] [] (sl - 1) 0) in *.
  destruct (lines_loop C isident isspace s0 lines is_first 0 []) as [[s out]|] eqn:LL; [|discriminate].
  destruct (lines_loop_pos lines O s0 is_first [] s out eq_refl ltac:(lia) ltac:(rewrite andb_true_r; reflexivity) LL (CInv_nil s0 eq_refl)
              (fun _ => conj eq_refl (conj eq_refl eq_refl)) ltac:(cbn [lnum s0]; lia) I eq_refl (PInv_quiet loc _ s0 eq_refl eq_refl) ltac:(intros X; contradiction))
    as (W & PI & AB & CI & EL).
  specialize (EL NE).
  match type of H with (if ?g then _ else _) = _ => destruct g eqn:G7; [|discriminate] end.
  inversion H; subst toks. clear H.
  apply andb_true_iff in G7 as [G7a G7b]. apply no_pending_fpend in G7a.
  set (t3 := map (fun _ => mkTok DEDENT [] (lnum s) (max_ s) []) (tl (indents s))).
  assert (B3: blocks t3).
  { unfold t3. induction (tl (indents s)) as [|x r IHr]; [apply blocks_nil|]. cbn [map]. apply (blocks_app [_]); [apply blocks_one; reflexivity|exact IHr]. }
  destruct PI as [PI1 PI2]. unfold pend in AB.
  apply wfp_app. split; [exact W|]. rewrite N.add_0_l.
  destruct (contstr s) as [|cc ct] eqn:CS.
  - cbn [app]. destruct (last_opt (fstack s)) as [f|] eqn:LO.
    + rewrite (fpend_last _ f LO), G7a in AB. cbn [app] in AB. destruct (prev_lines f) as [|y pl] eqn:PL.
      * cbn [app]. apply wfp_app. destruct (blocks_wfp loc t3 (len (emit out)) B3) as [W3 Z3]. split; [exact W3|].
        apply wfp_one. cbn [blockish ty tpre tline tcol]. rewrite Z3, len_nil, N.add_0_r. rewrite app_nil_r in AB. rewrite AB. exact EL.
      * destruct (addp s) eqn:AP; [|discriminate]. specialize (PI2 f eq_refl ltac:(rewrite PL; discriminate)).
        rewrite G7a, len_nil, !N.add_0_r in PI2. cbn [app wfp]. cbn [blockish ty tpre tline tcol]. rewrite len_nil, N.add_0_r.
        split; [destruct (last_start f); exact PI2|]. unfold emit1 at 1. cbn [tpre ts app].
        apply wfp_app. destruct (blocks_wfp loc t3 (len (emit out) + len (y :: pl)) B3) as [W3 Z3]. split; [exact W3|].
        apply wfp_one. cbn [blockish ty tpre tline tcol]. rewrite Z3, !len_nil, !N.add_0_r. cbn [app] in AB. rewrite AB. exact EL.
    + rewrite (last_opt_none _ LO) in AB. cbn [app fpend map concat] in AB. rewrite app_nil_r in AB. cbn [app].
      apply wfp_app. destruct (blocks_wfp loc t3 (len (emit out)) B3) as [W3 Z3]. split; [exact W3|].
      apply wfp_one. cbn [blockish ty tpre tline tcol]. rewrite Z3, len_nil, N.add_0_r, AB. exact EL.
  - destruct (CI ltac:(rewrite CS; discriminate)) as [A0 F0]. specialize (PI1 ltac:(discriminate)).
    assert (T2: match last_opt (fstack s) with Some f => match prev_lines f with [] => [] | _ :: _ => [mkTok FSTRING_STRING (prev_lines f) (fst (last_start f)) (snd (last_start f)) []] end | None => [] end = []).
    { destruct (last_opt (fstack s)) as [f|] eqn:LO; [|reflexivity]. rewrite (fpend_nil_last _ _ F0 LO). reflexivity. }
    rewrite T2. cbn [app wfp]. cbn [blockish ty tpre tline tcol].
    split; [destruct (contstr_start s); exact PI1|]. unfold emit1 at 1. cbn [tpre ts].
    apply wfp_app. destruct (blocks_wfp loc t3 (len (emit out) + len (prefix s ++ cc :: ct)) B3) as [W3 Z3]. split; [exact W3|].
    apply wfp_one. cbn [blockish ty tpre tline tcol]. rewrite Z3, len_nil, N.add_0_r, A0, len_nil, N.add_0_r.
    rewrite F0, app_nil_r in AB. rewrite AB. exact EL.
Qed.
End Global.
Print Assumptions tok_positions.
