From Coq Require Import List NArith ZArith Bool Lia.
Import ListNotations.
Require Import Regex Tok Engine ParseKeeps.
Open Scope N_scope.

(* C02, shape of the result: every interior node of the tree the engine returns has at least one child.
   For all tables, both modes, every start rule and every token list that ends with a token the recovery
   tokenizer does not swallow (the ENDMARKER). *)

Fixpoint ne (t : tree) : bool :=
  match t with
  | Leaf _ _ _ _ _ => true
  | Node _ cs => match cs with [] => false | _ => true end &&
                 (fix all (l : list tree) : bool := match l with [] => true | c :: r => ne c && all r end) cs
  end.
Definition nes (l : list tree) : bool := forallb ne l.
Lemma ne_node k cs : ne (Node k cs) = match cs with [] => false | _ => true end && nes cs.
Proof.
  assert (E: (fix all (l : list tree) : bool := match l with [] => true | c :: r => ne c && all r end) cs = nes cs).
  { induction cs as [|c r IH]; [reflexivity|]. simpl. rewrite IH. reflexivity. }
  simpl. rewrite E. reflexivity.
Qed.
Lemma nes_app a b : nes (a ++ b) = nes a && nes b.
Proof. apply forallb_app. Qed.
Lemma nes_one x : nes [x] = ne x.
Proof. unfold nes. cbn [forallb]. apply andb_true_r. Qed.
Lemma nes_cons x l : nes (x :: l) = ne x && nes l.
Proof. reflexivity. Qed.
Lemma ne_node_cons k c cs : nes (c :: cs) = true -> ne (Node k (c :: cs)) = true.
Proof. intros H. rewrite ne_node. exact H. Qed.

Section Shape.
Variable G : gram.
Variable TR : list (N * list (label * plan)).

Lemma split_params_ne : forall cs cur, nes cs = true -> nes cur = true -> nes (split_params cs cur) = true.
Proof.
  assert (FL: forall pc, nes pc = true -> nes (match pc with
                                 | [] => []
                                 | p0 :: rest => if (is_op p0 star && match rest with [] => true | p1 :: _ => is_op p1 comma end) || is_op p0 slash
                                                 then pc else [Node KParam pc] end) = true).
  { intros [|p0 rest] H; [reflexivity|]. destruct ((is_op p0 star && _) || is_op p0 slash); [exact H|]. rewrite nes_one. apply ne_node_cons. exact H. }
  induction cs as [|c t IH]; intros cur H1 H2; cbn [split_params].
  - apply FL. exact H2.
  - rewrite nes_cons in H1. apply andb_true_iff in H1 as [Hc Ht]. destruct (is_op c comma).
    + rewrite nes_app. rewrite FL by (rewrite nes_app, H2, nes_one; exact Hc). apply IH; [exact Ht|reflexivity].
    + apply IH; [exact Ht|rewrite nes_app, H2, nes_one; exact Hc].
Qed.

Lemma ne_children k cs : ne (Node k cs) = true -> nes cs = true.
Proof. rewrite ne_node. intros H. apply andb_true_iff in H. tauto. Qed.

Lemma create_params_ne l np : create_params G l = POk np -> nes l = true -> nes np = true.
Proof.
  unfold create_params. destruct l as [|first rest]; [intros H; inversion H; reflexivity|].
  destruct rest as [|x rest]; [|discriminate]. cbn [is_nil_t negb]. intros H NE. rewrite nes_one in NE.
  destruct (is_name first || match node_rule first with Some r => r =? r_fpdef G | None => false end).
  { inversion H. rewrite nes_one. apply ne_node_cons. rewrite nes_one. exact NE. }
  destruct (is_op first star); [inversion H; rewrite nes_one; exact NE|].
  destruct first as [k v p l c|k cs]; [discriminate|].
  assert (K: forall np0, POk (split_params cs []) = POk np0 -> nes np0 = true).
  { intros np0 E. inversion E. apply split_params_ne; [eapply ne_children; exact NE|reflexivity]. }
  destruct k as [r| |]; cbn [node_rule] in H.
  - destruct (r =? r_tfpdef G); [|apply K; exact H]. inversion H. rewrite nes_one. apply ne_node_cons. rewrite nes_one. exact NE.
  - discriminate.
  - apply K. exact H.
Qed.

Lemma nes_removelast l : nes l = true -> nes (removelast l) = true.
Proof.
  induction l as [|x r IH]; [reflexivity|]. intros H. simpl in H. apply andb_true_iff in H as [Hx Hr].
  destruct r as [|y r']; [reflexivity|]. cbn [removelast]. change (nes (x :: removelast (y :: r')) = true). simpl. rewrite Hx. apply IH. exact Hr.
Qed.
Lemma nes_tl l : nes l = true -> nes (tl l) = true.
Proof. destruct l; [reflexivity|]. simpl. intros H. apply andb_true_iff in H. tauto. Qed.
Lemma nes_firstn n l : nes l = true -> nes (firstn n l) = true.
Proof. revert l. induction n as [|n IH]; intros [|x r] H; try reflexivity. simpl in *. apply andb_true_iff in H as [Hx Hr]. rewrite Hx. apply IH. exact Hr. Qed.
Lemma nes_skipn n l : nes l = true -> nes (skipn n l) = true.
Proof. revert l. induction n as [|n IH]; intros [|x r] H; try reflexivity; [exact H|]. simpl in *. apply andb_true_iff in H as [Hx Hr]. apply IH. exact Hr. Qed.
Lemma nes_last l x r : rev l = x :: r -> nes l = true -> ne x = true.
Proof.
  intros RV H. apply rev_head_last in RV. subst l. rewrite nes_app in H. apply andb_true_iff in H as [_ H]. simpl in H. rewrite andb_true_r in H. exact H.
Qed.

Lemma regroup_func_ne : forall cs cs', regroup_func G cs = POk cs' -> nes cs = true -> nes cs' = true /\ cs' <> [].
Proof.
  induction cs as [|c t IH]; intros cs' H NE; simpl in H; [discriminate|].
  rewrite nes_cons in NE. apply andb_true_iff in NE as [Nc Nt].
  assert (REC: forall c0, ne c0 = true -> forall t', regroup_func G t = POk t' -> nes (c0 :: t') = true /\ c0 :: t' <> []).
  { intros c0 N0 t' E. destruct (IH t' E Nt) as [A _]. split; [rewrite nes_cons, N0; exact A|discriminate]. }
  destruct c as [k v p l c0|k pcs].
  - destruct (regroup_func G t) as [t'|] eqn:E; [|discriminate]. inversion H; subst. apply REC; [reflexivity|reflexivity].
  - destruct k as [pr| |].
    + destruct (pr =? r_parameters G).
      * destruct (existsb is_param (removelast (tl pcs))); [inversion H; subst; split; [rewrite nes_cons, Nc; exact Nt|discriminate]|].
        destruct (create_params G (removelast (tl pcs))) as [np|] eqn:CP; [|discriminate].
        pose proof (ne_children _ _ Nc) as NP.
        apply create_params_ne in CP; [|apply nes_removelast; apply nes_tl; exact NP].
        destruct pcs as [|p0 [|p1 pr2]]; [discriminate|discriminate|].
        destruct (rev (p0 :: p1 :: pr2)) as [|pl rr] eqn:RV; [discriminate|]. inversion H; subst. clear H.
        split; [|discriminate]. rewrite nes_cons, Nt, andb_true_r. apply ne_node_cons.
        pose proof (nes_last _ _ _ RV NP) as NL.
        rewrite nes_cons in NP. apply andb_true_iff in NP as [N0 _]. rewrite nes_cons, N0, nes_app, CP, nes_one, NL. reflexivity.
      * destruct (regroup_func G t) as [t'|] eqn:E; [|discriminate]. inversion H; subst. apply REC; [exact Nc|reflexivity].
    + destruct (regroup_func G t) as [t'|] eqn:E; [|discriminate]. inversion H; subst. apply REC; [exact Nc|reflexivity].
    + destruct (regroup_func G t) as [t'|] eqn:E; [|discriminate]. inversion H; subst. apply REC; [exact Nc|reflexivity].
Qed.

Lemma convert_node_ne r ns t : convert_node G r ns = POk t -> nes ns = true -> ns <> [] -> ne t = true.
Proof.
  unfold convert_node. intros H NE NN. destruct (r =? r_suite G).
  - destruct ns as [|c0 [|c1 rest]]; [discriminate|inversion H; apply ne_node_cons; exact NE|].
    destruct (blank c1 && match rev rest with [] => true | cl :: _ => blank cl end); [|discriminate].
    inversion H; subst. apply ne_node_cons. rewrite !nes_cons in NE. apply andb_true_iff in NE as [N0 NE]. apply andb_true_iff in NE as [_ NR].
    rewrite nes_cons, N0. apply nes_removelast. exact NR.
  - destruct (r =? r_funcdef G).
    + destruct (regroup_func G ns) as [cs|] eqn:E; [|discriminate]. inversion H. destruct (regroup_func_ne _ _ E NE) as [A B].
      destruct cs; [contradiction|]. apply ne_node_cons. exact A.
    + destruct ((r =? r_lambdef G) || (r =? r_lambdef_nocond G)).
      * destruct ns as [|kw rest]; [discriminate|]. rewrite nes_cons in NE. apply andb_true_iff in NE as [Nk Nr].
        destruct (existsb is_param (firstn (length rest - 2) rest)); [inversion H; apply ne_node_cons; rewrite nes_cons, Nk; exact Nr|].
        destruct (create_params G (firstn (length rest - 2) rest)) as [np|] eqn:CP; [|discriminate].
        inversion H. apply ne_node_cons. rewrite nes_cons, Nk, nes_app.
        rewrite (create_params_ne _ _ CP (nes_firstn _ _ Nr)). apply nes_skipn. exact Nr.
      * inversion H. destruct ns; [contradiction|]. apply ne_node_cons. exact NE.
Qed.

(* ---------- the stack ---------- *)
Definition frame_ne (fr : frame) : bool := nes (f_nodes fr).
Definition stack_ne (s : list frame) : bool := forallb frame_ne s.
(* the top frame holds at least one node, unless nothing has been consumed yet *)
Definition top_full (s : list frame) : Prop := match s with fr :: _ => f_nodes fr <> [] | [] => True end.

Lemma pop_ne s s' : pop G s = POk s' -> stack_ne s = true -> top_full s -> stack_ne s' = true /\ top_full s'.
Proof.
  unfold pop. destruct s as [|tos [|below rest]]; [discriminate|discriminate|]. intros H NE TF.
  cbn [stack_ne forallb] in NE. apply andb_true_iff in NE as [N1 NE]. apply andb_true_iff in NE as [N2 N3]. unfold frame_ne in *.
  cbn [top_full] in TF.
  assert (K: forall nd, ne nd = true -> stack_ne (mkFr (f_dfa below) (f_nodes below ++ [nd]) :: rest) = true /\ top_full (mkFr (f_dfa below) (f_nodes below ++ [nd]) :: rest)).
  { intros nd Hn. split.
    - cbn [stack_ne forallb]. unfold frame_ne. cbn [f_nodes]. rewrite nes_app, N2. simpl. rewrite Hn. exact N3.
    - cbn [top_full f_nodes]. intros E. apply app_eq_nil in E as [_ E]. discriminate. }
  destruct (f_nodes tos) as [|x [|y r]] eqn:FN; [contradiction| |].
  - inversion H; subst. apply K. simpl in N1. rewrite andb_true_r in N1. exact N1.
  - destruct (convert_node G (rule_of G (f_dfa tos)) (x :: y :: r)) as [nd|] eqn:CV; [|discriminate]. inversion H; subst. apply K.
    eapply convert_node_ne; [exact CV|exact N1|discriminate].
Qed.

Lemma fold_push_ne ch : forall base top r,
  fold_left (fun st q => mkFr q [] :: st) ch base = top :: r -> stack_ne base = true -> stack_ne (top :: r) = true.
Proof.
  induction ch as [|q ch IH]; intros base top r H NE; simpl in H; [subst; exact NE|].
  eapply IH; [exact H|]. cbn [stack_ne forallb]. exact NE.
Qed.

Lemma stack_ne_app a b : stack_ne (a ++ b) = stack_ne a && stack_ne b.
Proof. apply forallb_app. Qed.
Lemma flat_nodes_ne (l : list frame) : stack_ne l = true -> nes (flat_map f_nodes l) = true.
Proof. induction l as [|fr r IH]; [reflexivity|]. simpl. intros H. apply andb_true_iff in H as [H1 H2]. rewrite nes_app. unfold frame_ne in H1. rewrite H1. apply IH. exact H2. Qed.
Lemma stack_ne_rev l : stack_ne (rev l) = stack_ne l.
Proof. induction l as [|fr r IH]; [reflexivity|]. simpl. rewrite stack_ne_app, IH. simpl. rewrite andb_true_r, andb_comm. reflexivity. Qed.

Lemma stack_removal_ne s k s1 b : stack_removal s k = (s1, b) -> stack_ne s = true ->
  stack_ne s1 = true /\ (b = true -> top_full s1) /\ (b = false -> k = O -> s1 = s).
Proof.
  intros H NE. unfold stack_removal in H.
  rewrite <- (firstn_skipn k s), stack_ne_app in NE. apply andb_true_iff in NE as [NA NB].
  destruct (flat_map f_nodes (rev (firstn k s))) as [|x xs] eqn:AN.
  - inversion H; subst. split; [exact NB|split; [discriminate|]]. intros _ ->. reflexivity.
  - destruct (skipn k s) as [|below r] eqn:SK.
    + inversion H; subst. split; [reflexivity|split; [discriminate|]]. intros _ ->. simpl in SK. symmetry. exact SK.
    + inversion H; subst. cbn [stack_ne forallb] in NB. apply andb_true_iff in NB as [N1 N2]. split; [|split; [|discriminate]].
      * cbn [stack_ne forallb]. unfold frame_ne in *. cbn [f_nodes]. rewrite nes_app, N1, nes_one, ne_node, N2. cbn [andb]. rewrite andb_true_r.
        rewrite <- AN. apply flat_nodes_ne. rewrite stack_ne_rev. exact NA.
      * intros _. cbn [top_full f_nodes]. intros E. apply app_eq_nil in E as [_ E]. discriminate.
Qed.

Lemma current_suite_top_full : forall s, top_full s -> (1 < length s)%nat -> current_suite G s <> O ->
  forall s1 b, stack_removal s (current_suite G s) = (s1, b) -> b = true.
Proof.
  intros s TF L K s1 b H. unfold stack_removal in H.
  destruct (current_suite G s) as [|k] eqn:CS; [contradiction|].
  destruct s as [|tos rest]; [simpl in L; lia|]. cbn [firstn rev] in H. rewrite flat_map_app in H. cbn [flat_map] in H. rewrite app_nil_r in H.
  cbn [top_full] in TF.
  pose proof (current_suite_lt G (tos :: rest) ltac:(discriminate)) as LT. rewrite CS in LT.
  destruct (flat_map f_nodes (rev (firstn k rest)) ++ f_nodes tos) as [|x xs] eqn:AN.
  - apply app_eq_nil in AN as [_ AN]. contradiction.
  - destruct (skipn (S k) (tos :: rest)) as [|below r] eqn:SK.
    + exfalso. assert (X: length (skipn (S k) (tos :: rest)) = 0%nat) by (rewrite SK; reflexivity). rewrite skipn_length in X. lia.
    + inversion H. reflexivity.
Qed.

Lemma add_token_ne : forall fuel recover p t p',
  add_token G TR fuel recover p t = POk p' -> stack_ne (stack p) = true -> (top_full (stack p) \/ length (stack p) = 1%nat) ->
  stack_ne (stack p') = true /\ top_full (stack p').
Proof.
  induction fuel as [|f IH]; intros recover p t p' H NE TF; [discriminate|]. cbn [add_token] in H.
  destruct (stack p) as [|tos rest] eqn:S; [discriminate|].
  destruct (trans TR (f_dfa tos) (token_label G t)) as [pl|].
  - destruct (fold_left (fun st q => mkFr q [] :: st) (p_pushes pl) (mkFr (p_next pl) (f_nodes tos) :: rest)) as [|top r] eqn:FL; [discriminate|].
    inversion H; subst. cbn [stack]. pose proof (fold_push_ne _ _ _ _ FL NE) as E.
    cbn [stack_ne forallb] in *. unfold frame_ne in *. cbn [f_nodes] in *. split.
    + rewrite nes_app. apply andb_true_iff in E as [E1 E2]. rewrite E1, E2. reflexivity.
    + cbn [top_full f_nodes]. intros X. apply app_eq_nil in X as [_ X]. discriminate.
  - destruct (final G (f_dfa tos)).
    + destruct (pop G (tos :: rest)) as [s'|] eqn:P; [|discriminate].
      assert (TF': top_full (tos :: rest)).
      { destruct TF as [TF|TF]; [exact TF|]. unfold pop in P. destruct rest; [discriminate|simpl in TF; lia]. }
      destruct (pop_ne _ _ P NE TF') as [A B].
      eapply IH; [exact H|exact A|left; exact B].
    + match type of H with context [match ?sp with POk _ => _ | PErr _ => _ end] => destruct sp as [[p1|]|] eqn:SP; [| |discriminate] end.
      * inversion H; subst p1. clear H.
        revert SP. match goal with |- context [match ?c with POk _ => _ | PErr _ => _ end] => destruct c as [[|]|]; try discriminate end.
        destruct (rule_of G (f_dfa tos) =? r_simple_stmt G); [|discriminate].
        destruct (trans TR (f_dfa tos) (LType NEWLINE)) as [pl|]; [|discriminate].
        destruct (final G (p_next pl) && match p_pushes pl with [] => true | _ => false end); [|discriminate].
        destruct (add_token G TR f recover (mkP (mkFr (p_next pl) (f_nodes tos) :: rest) (omit p) (icount p)) t) as [p2|] eqn:A; [|discriminate].
        intros X; inversion X; subst p2. eapply IH; [exact A|exact NE|exact TF].
      * destruct (negb recover); [discriminate|].
        destruct (stack_removal (tos :: rest) (current_suite G (tos :: rest))) as [s1 removed] eqn:SR.
        destruct (stack_removal_ne _ _ _ _ SR NE) as (M1 & M2 & M3).
        match type of H with context [match ?af with POk _ => _ | PErr _ => _ end] => destruct af as [p2|] eqn:AF; [|discriminate] end.
        assert (E2: stack_ne (stack p2) = true /\ top_full (stack p2)).
        { destruct removed.
          - eapply IH; [exact AF|exact M1|left; apply M2; reflexivity].
          - destruct s1 as [|top r]; [discriminate|]. inversion AF; subst p2. cbn [stack]. split.
            + cbn [stack_ne forallb] in *. unfold frame_ne in *. cbn [f_nodes]. rewrite nes_app. apply andb_true_iff in M1 as [M1a M1b]. rewrite M1a, M1b. reflexivity.
            + cbn [top_full f_nodes]. intros X. apply app_eq_nil in X as [_ X]. discriminate. }
        destruct E2 as [E2 E3].
        destruct (stack p2) as [|top r] eqn:S2; [discriminate|].
        destruct (rule_of G (f_dfa top) =? r_suite G).
        -- destruct (arc_nt G (f_dfa top) (r_stmt G)); inversion H; subst; cbn [stack]; [|rewrite S2; split; assumption]. split; [exact E2|exact E3].
        -- inversion H; subst. rewrite S2. split; assumption.
Qed.

Lemma feed_ne : forall toks recover p p',
  feed G TR recover p toks = POk p' -> stack_ne (stack p) = true -> (top_full (stack p) \/ length (stack p) = 1%nat) ->
  stack_ne (stack p') = true /\ (top_full (stack p') \/ length (stack p') = 1%nat) /\
  ((exists t, In t toks /\ ty t <> DEDENT) -> top_full (stack p')).
Proof.
  induction toks as [|t toks IH]; intros recover p p' H NE TF; cbn [feed] in H.
  - inversion H; subst. split; [exact NE|split; [exact TF|]]. intros (t & [] & _).
  - match type of H with context [match ?st with Some _ => _ | None => _ end] => destruct st as [p1|] eqn:STEP end.
    + assert (SP: stack p1 = stack p).
      { destruct recover; [|inversion STEP; reflexivity].
        destruct (ty t); try (inversion STEP; reflexivity).
        destruct (last_z (omit p)) as [o|]; [destruct (o =? icount p)%Z; [discriminate|]|]; inversion STEP; reflexivity. }
      destruct (add_token G TR (S (S (2 * length (stack p1)))) recover p1 t) as [p2|] eqn:A; [|discriminate].
      destruct (add_token_ne _ _ _ _ _ A ltac:(rewrite SP; exact NE) ltac:(rewrite SP; exact TF)) as [N2 T2].
      destruct (IH _ _ _ H N2 (or_introl T2)) as (X1 & X2 & X3). split; [exact X1|split; [exact X2|]].
      intros _. (* once the top frame is full it stays full *)
      clear - IH H N2 T2. revert p2 p' H N2 T2. clear IH. induction toks as [|u toks IHt]; intros p2 p' H N2 T2; cbn [feed] in H.
      * inversion H; subst. exact T2.
      * match type of H with context [match ?st with Some _ => _ | None => _ end] => destruct st as [q1|] eqn:STEP end.
        -- assert (SP: stack q1 = stack p2).
           { destruct recover; [|inversion STEP; reflexivity].
             destruct (ty u); try (inversion STEP; reflexivity).
             destruct (last_z (omit p2)) as [o|]; [destruct (o =? icount p2)%Z; [discriminate|]|]; inversion STEP; reflexivity. }
           destruct (add_token G TR (S (S (2 * length (stack q1)))) recover q1 u) as [q2|] eqn:A; [|discriminate].
           destruct (add_token_ne _ _ _ _ _ A ltac:(rewrite SP; exact N2) ltac:(rewrite SP; left; exact T2)) as [N3 T3].
           eapply IHt; [exact H|exact N3|exact T3].
        -- eapply IHt; [exact H|exact N2|exact T2].
    + assert (TD: ty t = DEDENT).
      { destruct recover; [|discriminate]. destruct (ty t); try discriminate. reflexivity. }
      destruct (IH _ _ _ H NE TF) as (X1 & X2 & X3). split; [exact X1|split; [exact X2|]].
      intros (u & [E|I] & NU); [subst u; contradiction|]. apply X3. exists u. split; assumption.
Qed.

Lemma finish_ne : forall fuel s t, finish G fuel s = POk t -> stack_ne s = true -> top_full s -> ne t = true.
Proof.
  induction fuel as [|f IH]; intros s t H NE TF; [discriminate|]. cbn [finish] in H.
  destruct s as [|tos rest]; [discriminate|]. destruct (negb (final G (f_dfa tos))); [discriminate|].
  destruct rest as [|below rest].
  - cbn [stack_ne forallb] in NE. rewrite andb_true_r in NE. eapply convert_node_ne; [exact H|exact NE|exact TF].
  - destruct (pop G (tos :: below :: rest)) as [s'|] eqn:P; [|discriminate].
    destruct (pop_ne _ _ P NE TF) as [A B]. eapply IH; [exact H|exact A|exact B].
Qed.

Theorem parse_nonempty_nodes : forall recover start toks t,
  parse G TR recover start toks = POk t -> (exists u, In u toks /\ ty u <> DEDENT) -> ne t = true.
Proof.
  intros recover start toks t H EX. unfold parse in H. destruct (assocN start (g_start G)) as [q0|]; [|discriminate].
  destruct (feed G TR recover (mkP [mkFr q0 []] [] 0%Z) toks) as [p|] eqn:F; [|discriminate].
  destruct (feed_ne _ _ _ _ F eq_refl (or_intror eq_refl)) as (A & _ & C).
  eapply finish_ne; [exact H|exact A|apply C; exact EX].
Qed.
End Shape.
Print Assumptions parse_nonempty_nodes.
