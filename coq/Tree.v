From Coq Require Import List NArith Bool Lia.
Import ListNotations.
Require Import Regex Tok Engine.
Open Scope N_scope.

(* Model of NodeOrLeaf.get_code / BaseNode._get_code_for_children / Leaf.get_code
   (parso/tree.py) on the tree type produced by the Engine model. *)

Definition leaf_text (t : tree) : str :=
  match t with Leaf _ v p _ _ => p ++ v | Node _ _ => [] end.

Fixpoint get_code (t : tree) : str :=
  match t with
  | Leaf _ v p _ _ => p ++ v
  | Node _ cs => (fix go (l : list tree) : str := match l with [] => [] | c :: r => get_code c ++ go r end) cs
  end.

(* include_prefix=False: the first leaf drops its prefix *)
Fixpoint get_code_noprefix (t : tree) : str :=
  match t with
  | Leaf _ v _ _ _ => v
  | Node _ cs => match cs with
                 | [] => []
                 | c :: r => get_code_noprefix c ++
                             (fix go (l : list tree) : str := match l with [] => [] | c :: r => get_code c ++ go r end) r
                 end
  end.

Fixpoint leaves (t : tree) : list tree :=
  match t with
  | Leaf _ _ _ _ _ => [t]
  | Node _ cs => (fix go (l : list tree) : list tree := match l with [] => [] | c :: r => leaves c ++ go r end) cs
  end.

Definition codes (l : list tree) : str := concat (map get_code l).
Definition leaves_l (l : list tree) : list tree := flat_map leaves l.

Lemma get_code_node k cs : get_code (Node k cs) = codes cs.
Proof. unfold codes. simpl. induction cs as [|c r IH]; simpl; [reflexivity|]. rewrite IH. reflexivity. Qed.
Lemma leaves_node k cs : leaves (Node k cs) = leaves_l cs.
Proof. unfold leaves_l. simpl. induction cs as [|c r IH]; simpl; [reflexivity|]. rewrite IH. reflexivity. Qed.

(* custom induction principle for the nested list *)
Section TreeInd.
Variable P : tree -> Prop.
Hypothesis Hleaf : forall k v p l c, P (Leaf k v p l c).
Hypothesis Hnode : forall k cs, Forall P cs -> P (Node k cs).
Fixpoint tree_ind' (t : tree) : P t :=
  match t with
  | Leaf k v p l c => Hleaf k v p l c
  | Node k cs => Hnode k cs ((fix go (l : list tree) : Forall P l :=
                                match l with [] => Forall_nil P | c :: r => Forall_cons c (tree_ind' c) (go r) end) cs)
  end.
End TreeInd.

Theorem get_code_leaves : forall t, get_code t = concat (map leaf_text (leaves t)).
Proof.
  induction t as [k v p l c|k cs IH] using tree_ind'; [simpl; symmetry; apply app_nil_r|].
  rewrite get_code_node, leaves_node. unfold codes, leaves_l.
  induction IH as [|c r Hc _ IHr]; simpl; [reflexivity|].
  rewrite map_app, concat_app, Hc, IHr. reflexivity.
Qed.

(* ---- subtrees are contiguous slices ---- *)
Fixpoint subtree (t : tree) (path : list nat) : option tree :=
  match path with
  | [] => Some t
  | i :: p => match t with
              | Node _ cs => match nth_error cs i with Some c => subtree c p | None => None end
              | Leaf _ _ _ _ _ => None
              end
  end.

Lemma codes_split cs i c : nth_error cs i = Some c ->
  codes cs = codes (firstn i cs) ++ get_code c ++ codes (skipn (S i) cs).
Proof.
  revert i. induction cs as [|x r IH]; intros i H; [destruct i; discriminate|].
  destruct i as [|i]; simpl in H.
  - inversion H; subst. unfold codes. simpl. reflexivity.
  - unfold codes in *. simpl. rewrite (IH i H). rewrite app_assoc. reflexivity.
Qed.

(* the text before / after a subtree *)
Fixpoint before (t : tree) (path : list nat) : str :=
  match path, t with
  | i :: p, Node _ cs => codes (firstn i cs) ++ match nth_error cs i with Some c => before c p | None => [] end
  | _, _ => []
  end.
Fixpoint after (t : tree) (path : list nat) : str :=
  match path, t with
  | i :: p, Node _ cs => match nth_error cs i with Some c => after c p | None => [] end ++ codes (skipn (S i) cs)
  | _, _ => []
  end.

Theorem subtree_slice : forall path t n, subtree t path = Some n ->
  get_code t = before t path ++ get_code n ++ after t path.
Proof.
  induction path as [|i p IH]; intros t n H; simpl in H.
  - inversion H; subst. destruct n; simpl; rewrite ?app_nil_r; reflexivity.
  - destruct t as [|k cs]; [discriminate|].
    destruct (nth_error cs i) as [c|] eqn:E; [|discriminate].
    rewrite get_code_node. rewrite (codes_split cs i c E). simpl. rewrite E.
    rewrite (IH c n H). rewrite <- !app_assoc. reflexivity.
Qed.

(* before t path is exactly the text of the leaves that precede the subtree *)
Fixpoint leaves_before (t : tree) (path : list nat) : list tree :=
  match path, t with
  | i :: p, Node _ cs => leaves_l (firstn i cs) ++ match nth_error cs i with Some c => leaves_before c p | None => [] end
  | _, _ => []
  end.

Lemma codes_leaves cs : codes cs = concat (map leaf_text (leaves_l cs)).
Proof.
  unfold codes, leaves_l. induction cs as [|c r IH]; simpl; [reflexivity|].
  rewrite map_app, concat_app, <- IH, get_code_leaves. reflexivity.
Qed.

Theorem before_is_leaf_text : forall path t, before t path = concat (map leaf_text (leaves_before t path)).
Proof.
  induction path as [|i p IH]; intros t; simpl; [destruct t; reflexivity|].
  destruct t as [|k cs]; [reflexivity|].
  rewrite map_app, concat_app, <- codes_leaves.
  destruct (nth_error cs i) as [c|]; [rewrite IH|]; reflexivity.
Qed.

(* get_code(include_prefix=False) drops exactly the first leaf's prefix *)
Definition first_prefix (t : tree) : str :=
  match leaves t with Leaf _ _ p _ _ :: _ => p | _ => [] end.

Definition nonempty_nodes : tree -> Prop :=
  fix ne (t : tree) : Prop :=
    match t with
    | Leaf _ _ _ _ _ => True
    | Node _ cs => cs <> [] /\ (fix all (l : list tree) : Prop := match l with [] => True | c :: r => ne c /\ all r end) cs
    end.

Theorem get_code_noprefix_spec : forall t, nonempty_nodes t ->
  get_code t = first_prefix t ++ get_code_noprefix t.
Proof.
  induction t as [k v p l c|k cs IH] using tree_ind'; intros W; [reflexivity|].
  destruct cs as [|c r]; [destruct W as [W _]; contradiction|].
  destruct W as [_ [Wc _]]. inversion IH as [|? ? Hc _]; subst.
  rewrite get_code_node. unfold codes. simpl map. simpl concat.
  unfold first_prefix. rewrite leaves_node. unfold leaves_l. simpl flat_map.
  assert (NE: forall t, nonempty_nodes t -> leaves t <> []).
  { clear. induction t as [|k cs IH] using tree_ind'; intros W; [discriminate|].
    destruct cs as [|c r]; [destruct W as [W _]; contradiction|]. destruct W as [_ [Wc _]].
    inversion IH as [|? ? Hc0 _]; subst. rewrite leaves_node. unfold leaves_l. simpl. intros E.
    apply app_eq_nil in E as [E _]. exact (Hc0 Wc E). }
  specialize (Hc Wc). pose proof (NE c Wc) as N0.
  unfold first_prefix in Hc. destruct (leaves c) as [|x xs] eqn:E; [contradiction|].
  simpl app. rewrite Hc. simpl.
  assert (G: (fix go (l : list tree) : str := match l with [] => [] | c :: r => get_code c ++ go r end) r = concat (map get_code r)).
  { clear. induction r as [|a r IH]; simpl; [reflexivity|]. rewrite IH. reflexivity. }
  rewrite G. rewrite app_assoc. reflexivity.
Qed.
