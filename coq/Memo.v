From Coq Require Import List Arith Bool Lia.
Import ListNotations.

(* Write-once memo tables under arbitrary interleavings (parso.grammar._loaded_grammars via
   dict.setdefault, parso.python.tokenize._token_collection_cache via plain assignment).
   A call is  lookup ; (on a miss) compute ; store ; return.  Threads are interleaved at the
   granularity of these steps by an arbitrary schedule. *)

Section Memo.
Variable f : nat -> nat.                 (* the pure function being memoised *)
Variable use_setdefault : bool.          (* true: table.setdefault(k, v) ; false: table[k] = v *)

Definition table := list (nat * nat).
Fixpoint get (t : table) (k : nat) : option nat :=
  match t with [] => None | (a, v) :: r => if a =? k then Some v else get r k end.
Definition set (t : table) (k v : nat) : table := (k, v) :: t.

(* program counter of one thread inside a call *)
Inductive pc := Idle | Looked (k : nat) | Computed (k v : nat).
Record thread := mkT { todo : list nat; at_ : pc; results : list (nat * nat) }.   (* results: (key, returned value) *)
Record world := mkW { tab : table; threads : list thread }.

Definition step_thread (t : table) (th : thread) : table * thread :=
  match at_ th with
  | Idle =>
    match todo th with
    | [] => (t, th)
    | k :: rest =>
      match get t k with
      | Some v => (t, mkT rest Idle (results th ++ [(k, v)]))        (* hit *)
      | None => (t, mkT rest (Looked k) (results th))                (* miss observed *)
      end
    end
  | Looked k => (t, mkT (todo th) (Computed k (f k)) (results th))
  | Computed k v =>
    if use_setdefault then
      match get t k with
      | Some v' => (t, mkT (todo th) Idle (results th ++ [(k, v')]))
      | None => (set t k v, mkT (todo th) Idle (results th ++ [(k, v)]))
      end
    else (set t k v, mkT (todo th) Idle (results th ++ [(k, v)]))
  end.

Fixpoint upd {A} (l : list A) (i : nat) (x : A) : list A :=
  match l, i with
  | [], _ => []
  | _ :: r, O => x :: r
  | a :: r, S j => a :: upd r j x
  end.

Definition step (w : world) (i : nat) : world :=
  match nth_error (threads w) i with
  | None => w
  | Some th => let '(t', th') := step_thread (tab w) th in mkW t' (upd (threads w) i th')
  end.

Definition run (w : world) (schedule : list nat) : world := fold_left step schedule w.

(* invariant *)
Definition tab_ok (t : table) : Prop := forall k v, get t k = Some v -> v = f k.
Definition pc_ok (p : pc) : Prop := match p with Computed k v => v = f k | _ => True end.
Definition thread_ok (th : thread) : Prop :=
  pc_ok (at_ th) /\ forall k v, In (k, v) (results th) -> v = f k.
Definition Inv (w : world) : Prop := tab_ok (tab w) /\ Forall thread_ok (threads w).

Lemma get_set t k v k' : get (set t k v) k' = if k =? k' then Some v else get t k'.
Proof. reflexivity. Qed.

Lemma tab_ok_set t k : tab_ok t -> tab_ok (set t k (f k)).
Proof.
  intros H k' v'. rewrite get_set. destruct (k =? k') eqn:E; [|apply H].
  apply Nat.eqb_eq in E. subst. intros X. inversion X. reflexivity.
Qed.

Lemma results_app th k v : (forall a b, In (a, b) (results th) -> b = f a) -> v = f k ->
  forall a b, In (a, b) (results th ++ [(k, v)]) -> b = f a.
Proof.
  intros H E a b Hin. apply in_app_or in Hin as [Hin|[Hin|[]]]; [eauto|]. inversion Hin; subst. reflexivity.
Qed.

Lemma step_thread_ok t th t' th' :
  tab_ok t -> thread_ok th -> step_thread t th = (t', th') -> tab_ok t' /\ thread_ok th'.
Proof.
  intros Ht [Hp Hr] H. unfold step_thread in H. destruct (at_ th) as [|k|k v] eqn:P.
  - destruct (todo th) as [|k rest]; [inversion H; subst; split; [exact Ht|split; [rewrite P; exact I|exact Hr]]|].
    destruct (get t k) as [v|] eqn:G; inversion H; subst; (split; [exact Ht|]).
    + split; [exact I|]. simpl. apply results_app; [exact Hr|]. apply Ht. exact G.
    + split; [exact I|exact Hr].
  - inversion H; subst. split; [exact Ht|]. split; [reflexivity|exact Hr].
  - simpl in Hp. subst v. destruct use_setdefault.
    + destruct (get t k) as [v'|] eqn:G; inversion H; subst.
      * split; [exact Ht|]. split; [exact I|]. simpl. apply results_app; [exact Hr|]. apply Ht. exact G.
      * split; [apply tab_ok_set; exact Ht|]. split; [exact I|]. simpl. apply results_app; [exact Hr|reflexivity].
    + inversion H; subst. split; [apply tab_ok_set; exact Ht|]. split; [exact I|]. simpl. apply results_app; [exact Hr|reflexivity].
Qed.

Lemma Forall_upd {A} (P : A -> Prop) l i x : Forall P l -> P x -> Forall P (upd l i x).
Proof.
  revert i; induction l as [|a r IH]; intros i Hl Hx; simpl; [constructor|].
  inversion Hl; subst. destruct i; constructor; auto.
Qed.

Lemma step_inv w i : Inv w -> Inv (step w i).
Proof.
  intros [Ht Hth]. unfold step. destruct (nth_error (threads w) i) as [th|] eqn:E; [|split; assumption].
  destruct (step_thread (tab w) th) as [t' th'] eqn:S.
  assert (Hok: thread_ok th). { rewrite Forall_forall in Hth. apply Hth. eapply nth_error_In; exact E. }
  destruct (step_thread_ok _ _ _ _ Ht Hok S) as [Ht' Hth'].
  split; simpl; [exact Ht'|apply Forall_upd; assumption].
Qed.

(* every interleaving: each completed call returned f(key), and the table is a sub-graph of f *)
Theorem memo_linearizable : forall schedule w, Inv w ->
  let w' := run w schedule in
  (forall k v, get (tab w') k = Some v -> v = f k) /\
  (forall th k v, In th (threads w') -> In (k, v) (results th) -> v = f k).
Proof.
  induction schedule as [|i s IH]; intros w HI; simpl.
  - destruct HI as [Ht Hth]. split; [exact Ht|]. intros th k v Hin Hr. rewrite Forall_forall in Hth.
    destruct (Hth th Hin) as [_ H]. eapply H; exact Hr.
  - apply IH. apply step_inv. exact HI.
Qed.

Definition init (progs : list (list nat)) : world := mkW [] (map (fun p => mkT p Idle []) progs).
Lemma init_inv progs : Inv (init progs).
Proof.
  split; [intros k v H; discriminate|]. unfold init; simpl. apply Forall_forall. intros th Hin.
  apply in_map_iff in Hin as (p & <- & _). split; [exact I|intros k v []].
Qed.
End Memo.

(* non-vacuity: two threads racing on the same key, both variants; every call returns f k *)
Example race_setdefault :
  map (@results) (threads (run (fun k => k * 7) true (init [[3; 3]; [3]]) [0; 1; 0; 1; 0; 1; 0; 0]))
  = [[(3, 21); (3, 21)]; [(3, 21)]].
Proof. reflexivity. Qed.
Example race_assignment :
  map (@results) (threads (run (fun k => k * 7) false (init [[3; 3]; [3]]) [0; 1; 0; 1; 0; 1; 0; 0]))
  = [[(3, 21); (3, 21)]; [(3, 21)]].
Proof. reflexivity. Qed.
Print Assumptions memo_linearizable.
