From Coq Require Import List Bool Arith Lia Relations Wf_nat.
Import ListNotations.

Section LL.
Variable T : Type.                                   (* parse-tree payload *)
Variables St Lb Rl : Type.                            (* automaton states, terminal labels, rules *)
Variable lb0 : Lb.                                   (* an arbitrary label (default for head of an empty word) *)
Variable mk_node : Rl -> list T -> T.

(* tables *)
Variable arcT : St -> Lb -> option St.            (* state -> terminal label -> state *)
Variable arcN : St -> Rl -> option St.            (* state -> rule -> state *)
Variable start : Rl -> St.
Variable final : St -> bool.
Variable rule_of : St -> Rl.
Variable plans : St -> Lb -> option (St * list St).
Variable FW : Rl -> Lb -> bool.                    (* a post-fixpoint of FOLLOW *)

Inductive first_chain : Rl -> Lb -> list St -> Prop :=
| fc_t B a s1 : arcT (start B) a = Some s1 -> first_chain B a [s1]
| fc_n B C a s ch : arcN (start B) C = Some s -> first_chain C a ch -> first_chain B a (s :: ch).

Hypothesis plans_complete : forall q a q' ch,
  (ch = [] /\ arcT q a = Some q') \/ (exists B, arcN q B = Some q' /\ first_chain B a ch) ->
  plans q a = Some (q', ch).
Variable validR : Rl -> Prop.                         (* the rules of the grammar *)
Hypothesis rule_start : forall B, validR B -> rule_of (start B) = B.
Hypothesis rule_arcT : forall q a q', arcT q a = Some q' -> rule_of q' = rule_of q.
Hypothesis rule_arcN : forall q B q', arcN q B = Some q' -> rule_of q' = rule_of q.
Hypothesis fw1 : forall q B q' t, arcN q B = Some q' -> plans q' t <> None -> FW B t = true.
Hypothesis fw2 : forall q B q' t, arcN q B = Some q' -> final q' = true -> FW (rule_of q) t = true -> FW B t = true.
Hypothesis noconf : forall q t, final q = true -> FW (rule_of q) t = true -> plans q t = None.

(* derivations *)
Inductive dtree := DLeaf (a : Lb) (x : T) | DNode (B : Rl) (kids : list dtree).

Fixpoint run (q : St) (ks : list dtree) : option St :=
  match ks with
  | [] => Some q
  | DLeaf a _ :: r => match arcT q a with Some q1 => run q1 r | None => None end
  | DNode B _ :: r => match arcN q B with Some q1 => run q1 r | None => None end
  end.

Fixpoint wf (d : dtree) : Prop :=
  match d with
  | DLeaf _ _ => True
  | DNode B kb =>
      validR B /\ kb <> [] /\ (exists qf, run (start B) kb = Some qf /\ final qf = true) /\
      (fix all (l : list dtree) : Prop := match l with [] => True | k :: r => wf k /\ all r end) kb
  end.
Fixpoint all_wf (l : list dtree) : Prop := match l with [] => True | k :: r => wf k /\ all_wf r end.
Lemma wf_node B kb : wf (DNode B kb) <->
  validR B /\ kb <> [] /\ (exists qf, run (start B) kb = Some qf /\ final qf = true) /\ all_wf kb.
Proof.
  simpl. assert (E: forall l, (fix all (l : list dtree) : Prop := match l with [] => True | k :: r => wf k /\ all r end) l = all_wf l).
  { induction l; simpl; [reflexivity|]. rewrite IHl. reflexivity. }
  rewrite E. reflexivity.
Qed.

Fixpoint yield (d : dtree) : list (Lb * T) :=
  match d with
  | DLeaf a x => [(a, x)]
  | DNode _ kb => flat_map yield kb
  end.
Definition yields (ks : list dtree) := flat_map yield ks.

Fixpoint collapse (d : dtree) : T :=
  match d with
  | DLeaf _ x => x
  | DNode B kb => match kb with [k] => collapse k | _ => mk_node B (map collapse kb) end
  end.

Fixpoint dsize (d : dtree) : nat :=
  match d with DLeaf _ _ => 1 | DNode _ kb => S (fold_right (fun k n => dsize k + n) 0 kb) end.
Definition lsize (ks : list dtree) : nat := fold_right (fun k n => dsize k + n) 0 ks.

(* engine *)
Definition frame := (St * list T)%type.
Definition close (q : St) (ns : list T) : T := match ns with [x] => x | _ => mk_node (rule_of q) ns end.

Inductive pop1 (a : Lb) : list frame -> list frame -> Prop :=
| pop1_intro q ns q2 ns2 rest :
    plans q a = None -> final q = true ->
    pop1 a ((q, ns) :: (q2, ns2) :: rest) ((q2, ns2 ++ [close q ns]) :: rest).
Definition pops (a : Lb) := clos_refl_trans_1n _ (pop1 a).

Fixpoint push (ch : list St) (x : T) (base : list frame) : list frame :=
  match ch with
  | [] => match base with (q, ns) :: r => (q, ns ++ [x]) :: r | [] => [] end
  | s :: ch' => push ch' x ((s, []) :: base)
  end.
Definition shift (a : Lb) (x : T) (st : list frame) : option (list frame) :=
  match st with
  | (q, ns) :: rest => match plans q a with Some (q', ch) => Some (push ch x ((q', ns) :: rest)) | None => None end
  | [] => None
  end.
Inductive step : Lb * T -> list frame -> list frame -> Prop :=
| step_intro a x st st1 st2 : pops a st st1 -> shift a x st1 = Some st2 -> step (a, x) st st2.
Inductive feed : list (Lb * T) -> list frame -> list frame -> Prop :=
| feed_nil st : feed [] st st
| feed_cons tk w st st1 st2 : step tk st st1 -> feed w st1 st2 -> feed (tk :: w) st st2.

(* "feeding w from st and then popping on lookahead t passes through c" *)
Definition passes (w : list (Lb * T)) (st : list frame) (t : Lb) (c : list frame) : Prop :=
  exists st', feed w st st' /\ pops t st' c.

Lemma pops_trans a x y z : pops a x y -> pops a y z -> pops a x z.
Proof. intros H1 H2. induction H1; [exact H2|]. econstructor; [eassumption|]. apply IHclos_refl_trans_1n. exact H2. Qed.
Lemma feed_app w1 w2 st st1 st2 : feed w1 st st1 -> feed w2 st1 st2 -> feed (w1 ++ w2) st st2.
Proof. intros H1 H2. induction H1; simpl; [exact H2|]. econstructor; [eassumption|]. apply IHfeed. exact H2. Qed.

Definition head_label (w : list (Lb * T)) (t : Lb) : Lb := match w with (a, _) :: _ => a | [] => t end.

Lemma passes_chain w1 w2 st t c1 c2 :
  passes w1 st (head_label w2 t) c1 -> passes w2 c1 t c2 -> passes (w1 ++ w2) st t c2.
Proof.
  intros (s1 & F1 & P1) (s2 & F2 & P2). destruct w2 as [|[a x] w2']; simpl in *.
  - inversion F2; subst. rewrite app_nil_r. exists s1. split; [exact F1|]. eapply pops_trans; eassumption.
  - inversion F2 as [|tk w st0 st1' st2' S F2']; subst.
    inversion S as [a0 x0 st0 stA stB PA SH]; subst.
    exists s2. split; [|exact P2].
    eapply feed_app; [exact F1|]. econstructor; [|exact F2'].
    econstructor; [|exact SH]. eapply pops_trans; eassumption.
Qed.

Lemma passes_step a x st q ns rest q' ch w t c :
  st = (q, ns) :: rest -> plans q a = Some (q', ch) ->
  passes w (push ch x ((q', ns) :: rest)) t c -> passes ((a, x) :: w) st t c.
Proof.
  intros -> Hp (s' & F & P). exists s'. split; [|exact P].
  econstructor; [|exact F]. econstructor; [apply rt1n_refl|]. simpl. rewrite Hp. reflexivity.
Qed.

(* ---- the left spine ---- *)
Fixpoint chain_of (d : dtree) : list St :=
  match d with
  | DLeaf _ _ => []
  | DNode B kb =>
    match kb with
    | k :: _ => match k with
                | DLeaf a _ => match arcT (start B) a with Some s1 => [s1] | None => [] end
                | DNode C _ => match arcN (start B) C with Some s1 => s1 :: chain_of k | None => [] end
                end
    | [] => []
    end
  end.
Fixpoint entered (d : dtree) (R : list frame) : list frame :=
  match d with
  | DLeaf _ _ => R
  | DNode B kb =>
    match kb with
    | k :: _ => match k with
                | DLeaf a x => match arcT (start B) a with Some s1 => (s1, [x]) :: R | None => R end
                | DNode C _ => match arcN (start B) C with Some s1 => entered k ((s1, []) :: R) | None => R end
                end
    | [] => R
    end
  end.

Lemma yield_nonempty d : wf d -> yield d <> [].
Proof.
  induction d as [d IH] using (well_founded_induction (well_founded_ltof _ dsize)).
  destruct d as [a x|B kb]; [discriminate|].
  intros W. apply wf_node in W as (VB & NE & _ & AW). destruct kb as [|k r]; [contradiction|].
  simpl. destruct AW as [Wk _]. intros E. apply app_eq_nil in E as [E _].
  revert E. apply IH; [|exact Wk]. unfold ltof. simpl. lia.
Qed.

Definition first_label (d : dtree) : Lb := head_label (yield d) lb0.
Definition first_leaf (d : dtree) (dflt : T) : T := match yield d with (_, x) :: _ => x | [] => dflt end.

(* the first token of a well-formed node begins its rule with the spine chain *)
Lemma spine_chain : forall d B kb, d = DNode B kb -> wf d -> first_chain B (first_label d) (chain_of d).
Proof.
  induction d as [d IH] using (well_founded_induction (well_founded_ltof _ dsize)).
  intros B kb -> W. apply wf_node in W as (VB & NE & (qf & R & _) & AW).
  destruct kb as [|k r]; [contradiction|]. destruct AW as [Wk _].
  destruct k as [a x|C kc].
  - simpl in R. unfold first_label. simpl. destruct (arcT (start B) a) as [s1|] eqn:E; [|discriminate].
    apply fc_t. exact E.
  - simpl in R. destruct (arcN (start B) C) as [s1|] eqn:E; [|discriminate].
    assert (FL: first_label (DNode B (DNode C kc :: r)) = first_label (DNode C kc)).
    { unfold first_label. simpl. pose proof (yield_nonempty _ Wk) as NEy. simpl in NEy.
      destruct (flat_map yield kc) as [|[a x] w]; [contradiction|]. reflexivity. }
    rewrite FL. simpl chain_of. rewrite E. apply fc_n with (C := C); [exact E|].
    eapply IH; [|reflexivity|exact Wk]. unfold ltof. simpl. lia.
Qed.

Lemma push_app ch1 ch2 x base : push (ch1 ++ ch2) x base = push ch2 x (fold_left (fun b s => (s, []) :: b) ch1 base).
Proof. revert base; induction ch1 as [|s ch IH]; intros base; simpl; [reflexivity|apply IH]. Qed.

Lemma push_entered : forall d B kb R dflt, d = DNode B kb -> wf d ->
  push (chain_of d) (first_leaf d dflt) R = entered d R \/ R = [].
Proof.
  induction d as [d IH] using (well_founded_induction (well_founded_ltof _ dsize)).
  intros B kb R dflt -> W. destruct R as [|[q1 ns] S]; [right; reflexivity|left].
  apply wf_node in W as (VB & NE & (qf & Rn & _) & AW).
  destruct kb as [|k r]; [contradiction|]. destruct AW as [Wk _].
  destruct k as [a x|C kc].
  - simpl in Rn. simpl. destruct (arcT (start B) a) as [s1|] eqn:E; [|discriminate].
    unfold first_leaf. simpl. reflexivity.
  - simpl in Rn. destruct (arcN (start B) C) as [s1|] eqn:E; [|discriminate].
    assert (FL: first_leaf (DNode B (DNode C kc :: r)) dflt = first_leaf (DNode C kc) dflt).
    { unfold first_leaf. simpl. pose proof (yield_nonempty _ Wk) as NEy. simpl in NEy.
      destruct (flat_map yield kc) as [|[a x] w]; [contradiction|]. reflexivity. }
    rewrite FL. simpl chain_of. simpl entered. rewrite E. simpl push.
    destruct (IH (DNode C kc)) with (B := C) (kb := kc) (R := (s1, @nil T) :: (q1, ns) :: S) (dflt := dflt) as [G|G];
      [unfold ltof; simpl; lia|reflexivity|exact Wk|exact G|discriminate].
Qed.

(* ---- auxiliary facts ---- *)
Definition after (q : St) (t : Lb) : Prop := plans q t <> None \/ (final q = true /\ FW (rule_of q) t = true).

Lemma run_rule : forall ks q q', run q ks = Some q' -> rule_of q' = rule_of q.
Proof.
  induction ks as [|k r IH]; intros q q' H; simpl in H; [inversion H; reflexivity|].
  destruct k as [a x|B kb].
  - destruct (arcT q a) as [q1|] eqn:E; [|discriminate]. rewrite (IH _ _ H). eapply rule_arcT; eassumption.
  - destruct (arcN q B) as [q1|] eqn:E; [|discriminate]. rewrite (IH _ _ H). eapply rule_arcN; eassumption.
Qed.

Lemma dsize_pos d : 1 <= dsize d. Proof. destruct d; simpl; lia. Qed.

Lemma yield_split d dflt : wf d -> yield d = (first_label d, first_leaf d dflt) :: tl (yield d).
Proof.
  intros W. pose proof (yield_nonempty _ W) as NE. unfold first_label, first_leaf.
  destruct (yield d) as [|[a x] w]; [contradiction|]. reflexivity.
Qed.

Lemma node_plan q B kb q1 : arcN q B = Some q1 -> wf (DNode B kb) ->
  plans q (first_label (DNode B kb)) = Some (q1, chain_of (DNode B kb)).
Proof.
  intros E W. apply plans_complete. right. exists B. split; [exact E|].
  eapply spine_chain; [reflexivity|exact W].
Qed.

Lemma run_first_plan ks q q' t : ks <> [] -> run q ks = Some q' -> all_wf ks ->
  plans q (head_label (yields ks) t) <> None.
Proof.
  intros NE R AW. destruct ks as [|k r]; [contradiction|]. destruct AW as [Wk _]. simpl in R.
  destruct k as [a x|B kb].
  - destruct (arcT q a) as [q1|] eqn:E; [|discriminate]. simpl.
    rewrite (plans_complete q a q1 []); [discriminate|left; split; [reflexivity|exact E]].
  - destruct (arcN q B) as [q1|] eqn:E; [|discriminate].
    assert (HL: head_label (yields (DNode B kb :: r)) t = first_label (DNode B kb)).
    { unfold yields. simpl flat_map. pose proof (yield_nonempty _ Wk) as NEy. unfold first_label.
      simpl yield in *. destruct (flat_map yield kb) as [|[a x] w]; [contradiction|]. reflexivity. }
    rewrite HL. rewrite (node_plan _ _ _ _ E Wk). discriminate.
Qed.

Lemma close_collapse qf B kb : rule_of qf = B -> kb <> [] -> close qf (map collapse kb) = collapse (DNode B kb).
Proof.
  intros HR NE. destruct kb as [|k1 [|k2 r]]; [contradiction|reflexivity|]. simpl. rewrite HR. reflexivity.
Qed.

Lemma passes_pop w st t q ns q2 ns2 rest :
  passes w st t ((q, ns) :: (q2, ns2) :: rest) -> plans q t = None -> final q = true ->
  passes w st t ((q2, ns2 ++ [close q ns]) :: rest).
Proof.
  intros (s' & F & P) HP HF. exists s'. split; [exact F|].
  eapply pops_trans; [exact P|]. econstructor; [|apply rt1n_refl]. constructor; assumption.
Qed.

Definition P_rest (ks : list dtree) : Prop :=
  forall q q' ns R t, run q ks = Some q' -> all_wf ks -> after q' t ->
    passes (yields ks) ((q, ns) :: R) t ((q', ns ++ map collapse ks) :: R).
Definition P_entry (d : dtree) : Prop :=
  forall B kb q1 ns S t, d = DNode B kb -> wf d -> FW B t = true ->
    passes (tl (yield d)) (entered d ((q1, ns) :: S)) t ((q1, ns ++ [collapse d]) :: S).

Lemma fw_follow q B q1 ks q' t :
  arcN q B = Some q1 -> run q1 ks = Some q' -> all_wf ks -> after q' t ->
  FW B (head_label (yields ks) t) = true.
Proof.
  intros E R AW A. destruct ks as [|k r].
  - simpl in *. inversion R; subst q'. destruct A as [A|[A1 A2]].
    + eapply fw1; eassumption.
    + eapply fw2; [exact E|exact A1|]. rewrite <- (rule_arcN _ _ _ E). exact A2.
  - eapply fw1; [exact E|]. eapply run_first_plan; [discriminate|exact R|exact AW].
Qed.

Lemma main : forall n,
  (forall d, dsize d < n -> P_entry d) /\ (forall ks, lsize ks < n -> P_rest ks).
Proof.
  induction n as [|n [IHe IHr]]; [split; intros; lia|].
  assert (He: forall d, dsize d < S n -> P_entry d).
  { (* entry *)
    intros d Hd B kb q1 ns S t -> W HFW.
    pose proof W as W0. apply wf_node in W as (VB & NE & (qf & Rn & Fq) & AW).
    destruct kb as [|k1 ks]; [contradiction|]. destruct AW as [Wk AWs].
    assert (RB: rule_of qf = B) by (rewrite (run_rule _ _ _ Rn); apply rule_start; exact VB).
    assert (CC: close qf (map collapse (k1 :: ks)) = collapse (DNode B (k1 :: ks))) by (apply close_collapse; [exact RB|discriminate]).
    assert (NP: plans qf t = None) by (apply noconf; [exact Fq|rewrite RB; exact HFW]).
    assert (Sks: lsize ks < n) by (simpl in Hd; unfold lsize; pose proof (dsize_pos k1); lia).
    rewrite <- CC. clear CC.
    destruct k1 as [a x|C kc].
    + simpl in Rn. destruct (arcT (start B) a) as [s1|] eqn:E; [|discriminate].
      simpl entered. rewrite E. simpl yield. simpl tl.
      assert (A: after qf t) by (right; split; [exact Fq|rewrite RB; exact HFW]).
      pose proof (IHr ks Sks s1 qf [x] ((q1, ns) :: S) t Rn AWs A) as P.
      eapply passes_pop; [exact P|exact NP|exact Fq].
    + simpl in Rn. destruct (arcN (start B) C) as [s1|] eqn:E; [|discriminate].
      simpl entered. rewrite E.
      assert (YT: tl (yield (DNode B (DNode C kc :: ks))) = tl (yield (DNode C kc)) ++ yields ks).
      { simpl. pose proof (yield_nonempty _ Wk) as NEy. simpl in NEy.
        destruct (flat_map yield kc) as [|tk w]; [contradiction|]. reflexivity. }
      rewrite YT.
      assert (A: after qf t) by (right; split; [exact Fq|rewrite RB; exact HFW]).
      assert (FC: FW C (head_label (yields ks) t) = true) by (eapply fw_follow; eassumption).
      assert (Sk: dsize (DNode C kc) < n) by (simpl in Hd; simpl; lia).
      pose proof (IHe (DNode C kc) Sk C kc s1 [] ((q1, ns) :: S) (head_label (yields ks) t) eq_refl Wk FC) as P1.
      pose proof (IHr ks Sks s1 qf ([] ++ [collapse (DNode C kc)]) ((q1, ns) :: S) t Rn AWs A) as P2.
      pose proof (passes_chain _ _ _ _ _ _ P1 P2) as P.
      eapply passes_pop; [exact P|exact NP|exact Fq]. }
  split; [exact He|].
  - (* rest *)
    intros ks Hks q q' ns R t Rn AW A.
    destruct ks as [|k ks'].
    + simpl in *. inversion Rn; subst q'. rewrite app_nil_r. exists ((q, ns) :: R). split; [constructor|apply rt1n_refl].
    + destruct AW as [Wk AWs].
      assert (Sks: lsize ks' < n) by (unfold lsize in *; simpl in Hks; pose proof (dsize_pos k); lia).
      destruct k as [a x|B kb].
      * simpl in Rn. destruct (arcT q a) as [q1|] eqn:E; [|discriminate].
        pose proof (IHr ks' Sks q1 q' (ns ++ [x]) R t Rn AWs A) as P.
        unfold yields. simpl flat_map.
        eapply passes_step with (q' := q1) (ch := []); [reflexivity| |].
        -- apply plans_complete. left. split; [reflexivity|exact E].
        -- simpl push. rewrite <- app_assoc in P. exact P.
      * simpl in Rn. destruct (arcN q B) as [q1|] eqn:E; [|discriminate].
        assert (Sk: dsize (DNode B kb) < S n) by (unfold lsize in Hks; simpl in Hks; simpl; lia).
        assert (FB: FW B (head_label (yields ks') t) = true) by (eapply fw_follow; eassumption).
        pose proof (He (DNode B kb) Sk B kb q1 ns R (head_label (yields ks') t) eq_refl Wk FB) as P1.
        pose proof (IHr ks' Sks q1 q' (ns ++ [collapse (DNode B kb)]) R t Rn AWs A) as P2.
        pose proof (passes_chain _ _ _ _ _ _ P1 P2) as P.
        change (yields (DNode B kb :: ks')) with (yield (DNode B kb) ++ yields ks').
        rewrite (yield_split (DNode B kb) (collapse (DNode B kb)) Wk).
        change (((first_label (DNode B kb), first_leaf (DNode B kb) (collapse (DNode B kb))) :: tl (yield (DNode B kb))) ++ yields ks')
          with ((first_label (DNode B kb), first_leaf (DNode B kb) (collapse (DNode B kb))) :: (tl (yield (DNode B kb)) ++ yields ks')).
        eapply passes_step with (q' := q1) (ch := chain_of (DNode B kb)); [reflexivity| |].
        -- apply node_plan; assumption.
        -- destruct (push_entered (DNode B kb) B kb ((q1, ns) :: R) (collapse (DNode B kb)) eq_refl Wk) as [G|G]; [|discriminate].
           rewrite G. rewrite <- app_assoc in P. exact P.
Qed.

(* ---- top level: every sentence is accepted and yields its derivation ---- *)
Theorem complete F kb t :
  wf (DNode F kb) -> FW F t = true ->
  exists qf, final qf = true /\ rule_of qf = F /\
    passes (yield (DNode F kb)) [(start F, [])] t [(qf, map collapse kb)].
Proof.
  intros W HF. pose proof W as W0. apply wf_node in W as (VB & NE & (qf & Rn & Fq) & AW).
  exists qf. split; [exact Fq|]. split; [rewrite (run_rule _ _ _ Rn); apply rule_start; exact VB|].
  destruct (main (S (lsize kb))) as [_ Hr].
  assert (A: after qf t).
  { right. split; [exact Fq|]. rewrite (run_rule _ _ _ Rn), rule_start by exact VB. exact HF. }
  exact (Hr kb (Nat.lt_succ_diag_r _) (start F) qf [] [] t Rn AW A).
Qed.

(* ================= soundness: whatever the engine accepts is a derivation =================
   Additional table facts: every plan comes from a terminal arc or from a nonterminal arc followed by a first chain,
   and nonterminal arcs name rules of the grammar. *)
Hypothesis plans_sound : forall q a q' ch, plans q a = Some (q', ch) ->
  (ch = [] /\ arcT q a = Some q') \/ (exists B, arcN q B = Some q' /\ first_chain B a ch).
Hypothesis arcN_valid : forall q B q', arcN q B = Some q' -> validR B.

(* frames decorated with the derivations of their nodes *)
Definition dframe := (St * list dtree)%type.
Definition erase1 (f : dframe) : frame := (fst f, map collapse (snd f)).
Definition erase (st : list dframe) : list frame := map erase1 st.

Lemma erase_cons q ks rest : erase ((q, ks) :: rest) = (q, map collapse ks) :: erase rest.
Proof. reflexivity. Qed.

Section Sound.
Variable S0 : Rl.
Hypothesis S0_valid : validR S0.

(* pend = the rule of the frame directly above: its nonterminal arc has already been taken in this frame's state *)
Definition frame_ok (pend : option Rl) (R : Rl) (f : dframe) : Prop :=
  all_wf (snd f) /\
  match pend with
  | None => run (start R) (snd f) = Some (fst f)
  | Some B => exists qpre, run (start R) (snd f) = Some qpre /\ arcN qpre B = Some (fst f)
  end.
Fixpoint ok (pend : option Rl) (st : list dframe) : Prop :=
  match st with
  | [] => False
  | f :: rest =>
    match rest with
    | [] => frame_ok pend S0 f
    | _ :: _ => exists R, validR R /\ frame_ok pend R f /\ ok (Some R) rest
    end
  end.
Definition top_ne (st : list dframe) : Prop := match st with f :: _ :: _ => snd f <> [] | _ => True end.
Definition yields_st (st : list dframe) : list (Lb * T) := concat (rev (map (fun f => yields (snd f)) st)).

Lemma yields_st_cons f st : yields_st (f :: st) = yields_st st ++ yields (snd f).
Proof. unfold yields_st. simpl. rewrite concat_app. simpl. rewrite app_nil_r. reflexivity. Qed.
Lemma yields_app a b : yields (a ++ b) = yields a ++ yields b.
Proof. unfold yields. apply flat_map_app. Qed.
Lemma run_app : forall ks q k, run q (ks ++ [k]) = match run q ks with Some q1 => run q1 [k] | None => None end.
Proof.
  induction ks as [|x ks IH]; intros q k; [simpl; destruct k; [destruct (arcT q a)|destruct (arcN q B)]; reflexivity|].
  simpl. destruct x as [a y|B kb]; [destruct (arcT q a)|destruct (arcN q B)]; try reflexivity; apply IH.
Qed.
Lemma all_wf_app a b : all_wf (a ++ b) <-> all_wf a /\ all_wf b.
Proof. induction a as [|x a IH]; simpl; [tauto|]. rewrite IH. tauto. Qed.

(* the rule a frame is working on is the rule of its state *)
Lemma frame_rule pend R f : validR R -> frame_ok pend R f -> rule_of (fst f) = R.
Proof.
  intros V [_ H]. destruct pend as [B|].
  - destruct H as (qpre & Rn & A). rewrite (rule_arcN _ _ _ A), (run_rule _ _ _ Rn). apply rule_start. exact V.
  - rewrite (run_rule _ _ _ H). apply rule_start. exact V.
Qed.

(* popping without looking at the next token (what `finish` does at the end of the input) *)
Inductive popf1 : list frame -> list frame -> Prop :=
| popf1_intro q ns q2 ns2 rest : final q = true -> popf1 ((q, ns) :: (q2, ns2) :: rest) ((q2, ns2 ++ [close q ns]) :: rest).
Definition popsf := clos_refl_trans_1n _ popf1.
Lemma pops_popsf a x y : pops a x y -> popsf x y.
Proof.
  intros P. induction P as [x|x y z P1 _ IH]; [apply rt1n_refl|]. econstructor; [|exact IH].
  inversion P1; subst. constructor. assumption.
Qed.

Lemma pop1_sound st fr' : ok None st -> top_ne st -> popf1 (erase st) fr' ->
  exists st', fr' = erase st' /\ ok None st' /\ top_ne st' /\ yields_st st' = yields_st st.
Proof.
  intros OK TN P. destruct st as [|[q ks] [|[q2 ks2] rest]]; simpl in P; try (inversion P; fail).
  inversion P as [q0 ns q20 ns2 rest0 HF E1 E2]; subst. clear P.
  cbn [ok] in OK. destruct OK as (R & VR & FO & OK2). cbn [top_ne snd] in TN.
  pose proof (frame_rule _ _ _ VR FO) as RQ. cbn [fst] in RQ.
  destruct FO as [AW Rn]. cbn [fst snd] in *.
  assert (WN: wf (DNode R ks)).
  { apply wf_node. split; [exact VR|split; [exact TN|split; [exists q; split; assumption|exact AW]]]. }
  exists ((q2, ks2 ++ [DNode R ks]) :: rest). split; [|split; [|split]].
  - rewrite erase_cons, map_app. cbn [map]. rewrite <- (close_collapse q R ks RQ TN). reflexivity.
  - (* the node is the nonterminal step that was pending in the frame below *)
    assert (FO2: forall R2, frame_ok (Some R) R2 (q2, ks2) -> frame_ok None R2 (q2, ks2 ++ [DNode R ks])).
    { intros R2 [AW2 (qpre & Rn2 & A2)]. cbn [fst snd] in *. split.
      - cbn [snd]. apply all_wf_app. split; [exact AW2|]. simpl. split; [exact WN|exact I].
      - cbn [fst snd]. rewrite run_app, Rn2. simpl. rewrite A2. reflexivity. }
    destruct rest as [|f3 rest]; cbn [ok] in OK2 |- *.
    + apply FO2. exact OK2.
    + destruct OK2 as (R2 & VR2 & FO & OK3). exists R2. split; [exact VR2|split; [apply FO2; exact FO|exact OK3]].
  - destruct rest; cbn [top_ne snd]; [exact I|]. intros E. apply app_eq_nil in E as [_ E]. discriminate.
  - rewrite !yields_st_cons. cbn [snd]. rewrite yields_app, <- app_assoc. f_equal. f_equal. unfold yields. simpl. rewrite app_nil_r. reflexivity.
Qed.

Lemma popsf_sound st fr' : ok None st -> top_ne st -> popsf (erase st) fr' ->
  exists st', fr' = erase st' /\ ok None st' /\ top_ne st' /\ yields_st st' = yields_st st.
Proof.
  intros OK TN P. remember (erase st) as fr eqn:E. revert st OK TN E.
  induction P as [x|x y z P1 P IH]; intros st OK TN E; subst.
  - exists st. repeat split; assumption.
  - destruct (pop1_sound _ _ OK TN P1) as (st1 & E1 & OK1 & TN1 & Y1).
    destruct (IH st1 OK1 TN1 E1) as (st2 & E2 & OK2 & TN2 & Y2).
    exists st2. split; [exact E2|split; [exact OK2|split; [exact TN2|rewrite Y2; exact Y1]]].
Qed.
Lemma pops_sound a st fr' : ok None st -> top_ne st -> pops a (erase st) fr' ->
  exists st', fr' = erase st' /\ ok None st' /\ top_ne st' /\ yields_st st' = yields_st st.
Proof. intros OK TN P. eapply popsf_sound; [exact OK|exact TN|eapply pops_popsf; exact P]. Qed.

(* pushing a first chain *)
Lemma push_chain_sound : forall B a ch, first_chain B a ch -> forall x base, validR B -> base <> [] -> ok (Some B) base ->
  exists st', push ch x (erase base) = erase st' /\ ok None st' /\ top_ne st' /\ yields_st st' = yields_st base ++ [(a, x)].
Proof.
  induction 1 as [B a s1 AT|B C a s ch AN FC IH]; intros x base VB NE OK.
  - exists ((s1, [DLeaf a x]) :: base). split; [|split; [|split]].
    + destruct base as [|[qb kb] r]; [contradiction|]. reflexivity.
    + destruct base as [|fb r]; [contradiction|]. cbn [ok]. exists B. split; [exact VB|split; [|exact OK]].
      split; [simpl; tauto|]. cbn [fst snd]. simpl. rewrite AT. reflexivity.
    + destruct base; [contradiction|]. cbn [top_ne snd]. discriminate.
    + rewrite yields_st_cons. reflexivity.
  - assert (VC: validR C) by (eapply arcN_valid; exact AN).
    destruct (IH x ((s, []) :: base) VC ltac:(discriminate)) as (st' & E & OK' & TN' & Y').
    + destruct base as [|fb r]; [contradiction|]. cbn [ok]. exists B. split; [exact VB|split; [|exact OK]].
      split; [exact I|]. exists (start B). split; [reflexivity|exact AN].
    + exists st'. split; [|split; [exact OK'|split; [exact TN'|]]].
      * cbn [push]. exact E.
      * rewrite Y', yields_st_cons. cbn [snd]. unfold yields. simpl. rewrite app_nil_r. reflexivity.
Qed.

Lemma shift_sound a x st fr' : ok None st -> shift a x (erase st) = Some fr' ->
  exists st', fr' = erase st' /\ ok None st' /\ top_ne st' /\ yields_st st' = yields_st st ++ [(a, x)].
Proof.
  intros OK SH. destruct st as [|[q ks] rest]; [discriminate|]. rewrite erase_cons in SH. cbn [shift] in SH.
  destruct (plans q a) as [[q' ch]|] eqn:PL; [|discriminate]. inversion SH; subst fr'. clear SH.
  (* the frame with its state moved along the arc *)
  destruct (plans_sound _ _ _ _ PL) as [[-> AT]|(B & AN & FC)].
  - exists ((q', ks ++ [DLeaf a x]) :: rest). split; [|split; [|split]].
    + rewrite erase_cons, map_app. reflexivity.
    + assert (FO: forall R, frame_ok None R (q, ks) -> frame_ok None R (q', ks ++ [DLeaf a x])).
      { intros R [AW Rn]. cbn [fst snd] in *. split; [apply all_wf_app; split; [exact AW|simpl; tauto]|].
        cbn [fst snd]. rewrite run_app, Rn. simpl. rewrite AT. reflexivity. }
      destruct rest as [|f2 rest]; cbn [ok] in OK |- *; [apply FO; exact OK|].
      destruct OK as (R & VR & FOK & OK2). exists R. split; [exact VR|split; [apply FO; exact FOK|exact OK2]].
    + destruct rest; cbn [top_ne snd]; [exact I|]. intros E. apply app_eq_nil in E as [_ E]. discriminate.
    + rewrite !yields_st_cons. cbn [snd]. rewrite yields_app, app_assoc. reflexivity.
  - assert (VB: validR B) by (eapply arcN_valid; exact AN).
    assert (OKB: ok (Some B) ((q', ks) :: rest)).
    { assert (FO: forall R, frame_ok None R (q, ks) -> frame_ok (Some B) R (q', ks)).
      { intros R [AW Rn]. cbn [fst snd] in *. split; [exact AW|]. exists q. split; [exact Rn|exact AN]. }
      destruct rest as [|f2 rest]; cbn [ok] in OK |- *; [apply FO; exact OK|].
      destruct OK as (R & VR & FOK & OK2). exists R. split; [exact VR|split; [apply FO; exact FOK|exact OK2]]. }
    destruct (push_chain_sound _ _ _ FC x ((q', ks) :: rest) VB ltac:(discriminate) OKB) as (st' & E & OK' & TN' & Y').
    exists st'. split; [exact E|split; [exact OK'|split; [exact TN'|]]].
    rewrite Y', !yields_st_cons. reflexivity.
Qed.

Lemma feed_sound w st fr' : ok None st -> top_ne st -> feed w (erase st) fr' ->
  exists st', fr' = erase st' /\ ok None st' /\ top_ne st' /\ yields_st st' = yields_st st ++ w.
Proof.
  intros OK TN F. remember (erase st) as fr eqn:E. revert st OK TN E.
  induction F as [x|tk w x y z ST F IH]; intros st OK TN E; subst.
  - exists st. rewrite app_nil_r. repeat split; assumption.
  - inversion ST as [a v s0 s1 s2 PP SH]; subst.
    destruct (pops_sound _ _ _ OK TN PP) as (st1 & E1 & OK1 & TN1 & Y1). subst s1.
    destruct (shift_sound _ _ _ _ OK1 SH) as (st2 & E2 & OK2 & TN2 & Y2).
    destruct (IH st2 OK2 TN2 E2) as (st3 & E3 & OK3 & TN3 & Y3).
    exists st3. split; [exact E3|split; [exact OK3|split; [exact TN3|]]]. rewrite Y3, Y2, Y1, <- app_assoc. reflexivity.
Qed.

Theorem sound_f w fr qf ns :
  feed w [(start S0, [])] fr -> popsf fr [(qf, ns)] -> final qf = true -> w <> [] ->
  exists kb, wf (DNode S0 kb) /\ yield (DNode S0 kb) = w /\ ns = map collapse kb /\ rule_of qf = S0.
Proof.
  intros F P FQ NE.
  assert (OK0: ok None [(start S0, [])]) by (cbn [ok]; split; [exact I|reflexivity]).
  destruct (feed_sound w [(start S0, [])] fr OK0 I F) as (st1 & E1 & OK1 & TN1 & Y1). subst fr.
  destruct (popsf_sound _ _ OK1 TN1 P) as (st2 & E2 & OK2 & TN2 & Y2).
  destruct st2 as [|[q kb] [|f2 r]]; try discriminate. rewrite erase_cons in E2. inversion E2; subst q ns.
  cbn [ok] in OK2. destruct OK2 as [AW Rn]. cbn [fst snd] in *.
  assert (YW: yields kb = w).
  { rewrite Y1 in Y2. unfold yields_st in Y2. simpl in Y2. rewrite app_nil_r in Y2. exact Y2. }
  assert (KN: kb <> []) by (intros ->; apply NE; rewrite <- YW; reflexivity).
  exists kb. split; [|split; [exact YW|split; [reflexivity|]]].
  - apply wf_node. split; [exact S0_valid|split; [exact KN|split; [exists qf; split; assumption|exact AW]]].
  - rewrite (run_rule _ _ _ Rn). apply rule_start. exact S0_valid.
Qed.
Theorem sound w t qf ns :
  passes w [(start S0, [])] t [(qf, ns)] -> final qf = true -> w <> [] ->
  exists kb, wf (DNode S0 kb) /\ yield (DNode S0 kb) = w /\ ns = map collapse kb /\ rule_of qf = S0.
Proof. intros (fr & F & P) FQ NE. eapply sound_f; [exact F|eapply pops_popsf; exact P|exact FQ|exact NE]. Qed.
End Sound.

End LL.
Print Assumptions complete.
Print Assumptions sound.
