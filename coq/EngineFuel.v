From Coq Require Import List NArith ZArith Bool Lia.
Import ListNotations.
Require Import Regex Tok Engine ParseKeeps LL1Engine.
Open Scope N_scope.

(* C02, termination of the engine: the fuel the model hands to add_token / finish is always enough - the engine
   never reports PFuel - and the stack it works on is never empty (no "too much input" from an empty stack).
   One token costs at most two steps per stack frame: an optional missing-newline repair followed by a pop, or one
   stack removal. *)

Section Fuel.
Variable G : gram.
Variable TR : list (N * list (label * plan)).

Definition mu (s : list frame) : nat :=
  (2 * length s - match s with tos :: _ => if final G (f_dfa tos) then 1 else 0 | [] => 0 end)%nat.

Lemma mu_le s : (mu s <= 2 * length s)%nat.
Proof. unfold mu. lia. Qed.
Lemma mu_final tos rest : final G (f_dfa tos) = true -> mu (tos :: rest) = (2 * length rest + 1)%nat.
Proof. intros H. unfold mu. rewrite H. simpl length. lia. Qed.
Lemma mu_nonfinal tos rest : final G (f_dfa tos) = false -> mu (tos :: rest) = (2 * length rest + 2)%nat.
Proof. intros H. unfold mu. rewrite H. simpl length. lia. Qed.

Lemma pop_length s s' : pop G s = POk s' -> S (length s') = length s.
Proof.
  unfold pop. destruct s as [|tos [|below rest]]; [discriminate|discriminate|].
  destruct (f_nodes tos) as [|x [|y r]]; [destruct (convert_node G _ [])| |destruct (convert_node G _ (x :: y :: r))]; try discriminate; intros H; inversion H; reflexivity.
Qed.
Definition good {A} (r : pres A) : Prop := r <> PErr PFuel /\ r <> PErr TooMuchInput.
Ltac gd := split; discriminate.
Lemma good_conv {A} (e : perr) : conv_err e -> good (@PErr A e).
Proof. intros [X|[X|X]]; subst; gd. Qed.

Lemma good_err {A B} (e : perr) : good (@PErr A e) -> good (@PErr B e).
Proof. intros [G1 G2]. split; intros X; inversion X; subst; [apply G1|apply G2]; reflexivity. Qed.
Lemma pop_nonempty s s' : pop G s = POk s' -> s' <> [].
Proof.
  unfold pop. destruct s as [|tos [|below rest]]; [discriminate|discriminate|].
  destruct (f_nodes tos) as [|x [|y r]]; [destruct (convert_node G _ [])| |destruct (convert_node G _ (x :: y :: r))]; try discriminate; intros H; inversion H; discriminate.
Qed.
Lemma pop_good s : good (pop G s).
Proof.
  unfold pop. destruct s as [|tos [|below rest]]; [gd|gd|].
  destruct (f_nodes tos) as [|x [|y r]]; try gd;
    (destruct (convert_node G (rule_of G (f_dfa tos)) _) as [nd|e] eqn:CV; [gd|]); apply good_conv; eapply convert_node_err; exact CV.
Qed.

Lemma stack_removal_length s k s1 b : (k < length s)%nat -> stack_removal s k = (s1, b) ->
  s1 <> [] /\ (b = true -> (length s1 < length s)%nat).
Proof.
  intros L H. unfold stack_removal in H.
  assert (LS: length (skipn k s) = (length s - k)%nat) by apply skipn_length.
  destruct (flat_map f_nodes (rev (firstn k s))) as [|x xs] eqn:AN.
  - inversion H; subst. split; [intros E; rewrite E in LS; simpl in LS; lia|discriminate].
  - destruct (skipn k s) as [|below r] eqn:SK; [simpl in LS; lia|].
    inversion H; subst. split; [discriminate|]. simpl in *.
    assert (K: k <> 0%nat) by (intros ->; simpl in AN; discriminate). intros _. lia.
Qed.

Lemma good_map {A B} (r : pres A) (f : A -> pres B) : good r -> (forall a, r = POk a -> good (f a)) ->
  good (match r with POk a => f a | PErr e => PErr e end).
Proof. intros [G1 G2] H. destruct r as [a|e]; [apply H; reflexivity|]. split; intros X; inversion X; subst; [apply G1|apply G2]; reflexivity. Qed.

Lemma add_token_good : forall fuel recover p t,
  (mu (stack p) < fuel)%nat -> stack p <> [] ->
  good (add_token G TR fuel recover p t) /\
  (forall p', add_token G TR fuel recover p t = POk p' -> stack p' <> []).
Proof.
  induction fuel as [|f IH]; intros recover p t MU NE; [lia|]. cbn [add_token].
  destruct (stack p) as [|tos rest] eqn:S; [contradiction|].
  destruct (trans TR (f_dfa tos) (token_label G t)) as [pl|].
  - destruct (fold_left (fun st q => mkFr q [] :: st) (p_pushes pl) (mkFr (p_next pl) (f_nodes tos) :: rest)) as [|top r]; split; try gd; try discriminate.
    intros p' H; inversion H; discriminate.
  - destruct (final G (f_dfa tos)) eqn:FQ.
    + destruct (pop G (tos :: rest)) as [s'|e] eqn:P.
      * pose proof (pop_length _ _ P) as PL.
        apply IH; cbn [stack].
        -- rewrite (mu_final _ _ FQ) in MU. pose proof (mu_le s'). simpl length in PL. lia.
        -- exact (pop_nonempty _ _ P).
      * split; [|discriminate]. apply (good_err (A := list frame)). rewrite <- P. apply pop_good.
    + assert (ML: (2 * length rest + 2 <= f)%nat) by (rewrite (mu_nonfinal _ _ FQ) in MU; lia).
      match goal with |- context [match ?sp with POk _ => _ | PErr _ => _ end] => set (special := sp) end.
      assert (SP: good special /\ (forall p1, special = POk (Some p1) -> stack p1 <> [])).
      { unfold special. clear special.
        match goal with |- context [match ?c with POk _ => _ | PErr _ => _ end] => destruct c as [[|]|e] eqn:CD end.
        - destruct (rule_of G (f_dfa tos) =? r_simple_stmt G); [|split; [gd|intros p1 X; discriminate]].
          destruct (trans TR (f_dfa tos) (LType NEWLINE)) as [pl|]; [|split; [gd|intros p1 X; discriminate]].
          destruct (final G (p_next pl) && match p_pushes pl with [] => true | _ => false end) eqn:FP; [|split; [gd|intros p1 X; discriminate]].
          apply andb_true_iff in FP as [FP _].
          destruct (IH recover (mkP (mkFr (p_next pl) (f_nodes tos) :: rest) (omit p) (icount p)) t) as [A B]; [|discriminate|].
          + cbn [stack]. rewrite mu_final by exact FP. lia.
          + destruct (add_token G TR f recover (mkP (mkFr (p_next pl) (f_nodes tos) :: rest) (omit p) (icount p)) t) as [p2|e] eqn:AT.
            * split; [gd|]. intros p1 X. inversion X; subst. apply B. reflexivity.
            * destruct A as [A1 A2]. split; [split; intros X; inversion X; subst e; [apply A1|apply A2]; reflexivity|intros p1 X; discriminate].
        - split; [gd|intros p1 X; discriminate].
        - split; [|intros p1 X; discriminate].
          destruct (ty t); try discriminate. destruct (match rev (f_nodes tos) with [] => None | x :: _ => last_leaf_value x end); inversion CD; gd. }
      destruct SP as [SP1 SP2].
      destruct special as [[p1|]|e] eqn:SPE.
      * split; [gd|]. intros p' X. inversion X; subst. apply SP2. reflexivity.
      * destruct (negb recover); [split; [gd|intros p' X; discriminate]|].
        pose proof (current_suite_lt G (tos :: rest) ltac:(discriminate)) as LT.
        destruct (stack_removal (tos :: rest) (current_suite G (tos :: rest))) as [s1 removed] eqn:SR.
        destruct (stack_removal_length _ _ _ _ LT SR) as [N1 N2].
        match goal with |- context [match ?af with POk _ => _ | PErr _ => _ end] => set (after := af) end.
        assert (AF: good after /\ (forall p2, after = POk p2 -> stack p2 <> [])).
        { unfold after. clear after. destruct removed.
          - apply IH; cbn [stack]; [|exact N1]. specialize (N2 eq_refl). pose proof (mu_le s1). simpl length in N2. lia.
          - destruct s1 as [|top r]; [contradiction|]. split; [gd|]. intros p2 X. inversion X. discriminate. }
        destruct AF as [[AF1 AF3] AF2]. destruct after as [p2|e] eqn:AFE.
        -- specialize (AF2 p2 eq_refl). destruct (stack p2) as [|top r] eqn:S2; [contradiction|].
           destruct (rule_of G (f_dfa top) =? r_suite G).
           ++ destruct (arc_nt G (f_dfa top) (r_stmt G)); (split; [gd|]); intros p' X; inversion X; subst; cbn [stack]; [discriminate|rewrite S2; discriminate].
           ++ split; [gd|]. intros p' X; inversion X; subst. rewrite S2. discriminate.
        -- split; [split; intros X; inversion X; subst e; [apply AF1|apply AF3]; reflexivity|intros p' X; discriminate].
      * destruct SP1 as [S1a S1b]. split; [split; intros X; inversion X; subst e; [apply S1a|apply S1b]; reflexivity|intros p' X; discriminate].
Qed.

Lemma mu_fuel s : (mu s < S (S (2 * length s)))%nat.
Proof. unfold mu. lia. Qed.

Lemma feed_good : forall toks recover p, stack p <> [] ->
  good (feed G TR recover p toks) /\ (forall p', feed G TR recover p toks = POk p' -> stack p' <> []).
Proof.
  induction toks as [|t toks IH]; intros recover p NE; cbn [feed]; [split; [gd|intros p' X; inversion X; subst; exact NE]|].
  match goal with |- context [match ?st with Some _ => _ | None => _ end] => destruct st as [p1|] eqn:STEP end.
  - assert (SP: stack p1 = stack p).
    { destruct recover; [|inversion STEP; reflexivity].
      destruct (ty t); try (inversion STEP; reflexivity).
      destruct (last_z (omit p)) as [o|]; [destruct (o =? icount p)%Z; [discriminate|]|]; inversion STEP; reflexivity. }
    destruct (add_token_good (S (S (2 * length (stack p1)))) recover p1 t (mu_fuel _) ltac:(rewrite SP; exact NE)) as [[A1 A2] B].
    destruct (add_token G TR (S (S (2 * length (stack p1)))) recover p1 t) as [p2|e] eqn:AT.
    + apply IH. apply B. reflexivity.
    + split; [split; intros X; inversion X; subst e; [apply A1|apply A2]; reflexivity|intros p' X; discriminate].
  - apply IH. exact NE.
Qed.

Lemma finish_good : forall fuel s, (length s < fuel)%nat -> s <> [] -> good (finish G fuel s).
Proof.
  induction fuel as [|f IH]; intros s L NE; [lia|]. cbn [finish].
  destruct s as [|tos rest]; [contradiction|]. destruct (negb (final G (f_dfa tos))); [gd|].
  destruct rest as [|below rest].
  - destruct (convert_node G (rule_of G (f_dfa tos)) (f_nodes tos)) as [nd|e] eqn:CV; [gd|]. apply good_conv. eapply convert_node_err. exact CV.
  - destruct (pop G (tos :: below :: rest)) as [s'|e] eqn:P.
    + pose proof (pop_length _ _ P) as PL. apply IH; [simpl in *; lia|exact (pop_nonempty _ _ P)].
    + apply (good_err (A := list frame)). rewrite <- P. apply pop_good.
Qed.

(* the engine never runs out of fuel and never finds its stack empty, in either mode, for any tables and tokens *)
Theorem parse_fuel_suffices : forall recover start toks,
  parse G TR recover start toks <> PErr PFuel /\ parse G TR recover start toks <> PErr TooMuchInput.
Proof.
  intros recover start toks. unfold parse. destruct (assocN start (g_start G)) as [q0|]; [|gd].
  destruct (feed_good toks recover (mkP [mkFr q0 []] [] 0%Z) ltac:(discriminate)) as [[A1 A2] B].
  destruct (feed G TR recover (mkP [mkFr q0 []] [] 0%Z) toks) as [p|e] eqn:F.
  - apply finish_good; [lia|apply B; reflexivity].
  - split; intros X; inversion X; subst e; [apply A1|apply A2]; reflexivity.
Qed.
End Fuel.
Print Assumptions parse_fuel_suffices.
