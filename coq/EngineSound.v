From Coq Require Import List NArith ZArith Bool Lia Relations.
Import ListNotations.
Require Import Regex Tok Engine LL1 LL1Inst LL1Engine.
Open Scope N_scope.

(* C05 on the engine model, for inputs the strict parser accepts without the missing-newline repair:
   the tree is the conversion of the collapsed form of a derivation over the rule automata whose yield is exactly
   the token word - i.e. every node is a complete instance of its rule (its children, before single-child collapse,
   drive the rule's automaton from its start state to a final state).

   add_token_nr is Engine.add_token without the error branch (no repair, no recovery): if it succeeds, so does the
   strict add_token with the same result (nr_strict), so parse_nr = POk t implies parse false = POk t. *)

Section Sound.
Variable G : gram.
Variable TR : list (N * list (label * plan)).

Notation mkn := (mk_node G).
Notation pops' := (pops tree N label N mkn (final G) (rule_of G) (plansI TR)).
Notation popsf' := (popsf tree N N mkn (final G) (rule_of G)).
Notation shift' := (shift tree N label (plansI TR)).
Notation feed' := (LL1.feed tree N label N mkn (final G) (rule_of G) (plansI TR)).

Definition a_of (s : list Engine.frame) : list aframe := map (fun fr => (f_dfa fr, f_nodes fr)) s.
Lemma st_of_a_of s : st_of_a (a_of s) = s.
Proof. induction s as [|[q ns] r IH]; [reflexivity|]. unfold st_of_a, a_of in *. cbn [map fr_of fst snd f_dfa f_nodes]. rewrite IH. reflexivity. Qed.
Lemma a_of_st_of_a s : a_of (st_of_a s) = s.
Proof. induction s as [|[q ns] r IH]; [reflexivity|]. unfold st_of_a, a_of in *. cbn [map fr_of fst snd f_dfa f_nodes]. rewrite IH. reflexivity. Qed.

Fixpoint add_token_nr (fuel : nat) (s : list Engine.frame) (t : Token) : pres (list Engine.frame) :=
  match fuel with
  | O => PErr PFuel
  | S f =>
    match s with
    | [] => PErr TooMuchInput
    | tos :: rest =>
      match trans TR (f_dfa tos) (token_label G t) with
      | Some pl =>
        match fold_left (fun st q => mkFr q [] :: st) (p_pushes pl) (mkFr (p_next pl) (f_nodes tos) :: rest) with
        | top :: r => POk (mkFr (f_dfa top) (f_nodes top ++ [convert_leaf G t]) :: r)
        | [] => PErr PIndex
        end
      | None =>
        if final G (f_dfa tos) then
          match pop G s with POk s' => add_token_nr f s' t | PErr e => PErr e end
        else PErr (SyntaxErr t)
      end
    end
  end.
Fixpoint feed_nr (s : list Engine.frame) (toks : list Token) : pres (list Engine.frame) :=
  match toks with
  | [] => POk s
  | t :: rest => match add_token_nr (S (S (2 * length s))) s t with POk s' => feed_nr s' rest | PErr e => PErr e end
  end.
Definition parse_nr (start_rule : N) (toks : list Token) : pres tree :=
  match assocN start_rule (g_start G) with
  | None => PErr PIndex
  | Some q0 => match feed_nr [mkFr q0 []] toks with PErr e => PErr e | POk s => finish G (S (length s)) s end
  end.

(* ---------- the strict parser does the same ---------- *)
Lemma nr_strict : forall f s t s', add_token_nr f s t = POk s' ->
  forall om ic, add_token G TR f false (mkP s om ic) t = POk (mkP s' om ic).
Proof.
  induction f as [|f IH]; intros s t s' H om ic; [discriminate|]. cbn [add_token_nr] in H. cbn [add_token stack omit icount].
  destruct s as [|tos rest]; [discriminate|].
  destruct (trans TR (f_dfa tos) (token_label G t)) as [pl|].
  - destruct (fold_left (fun st q => mkFr q [] :: st) (p_pushes pl) (mkFr (p_next pl) (f_nodes tos) :: rest)) as [|top r]; [discriminate|].
    inversion H; subst. reflexivity.
  - destruct (final G (f_dfa tos)); [|discriminate].
    destruct (pop G (tos :: rest)) as [s1|]; [|discriminate]. apply IH. exact H.
Qed.
Lemma feed_nr_strict : forall toks s s', feed_nr s toks = POk s' ->
  forall om ic, Engine.feed G TR false (mkP s om ic) toks = POk (mkP s' om ic).
Proof.
  induction toks as [|t toks IH]; intros s s' H om ic; cbn [feed_nr] in H; cbn [Engine.feed]; [inversion H; reflexivity|].
  cbn [stack]. destruct (add_token_nr (S (S (2 * length s))) s t) as [s1|] eqn:A; [|discriminate].
  rewrite (nr_strict _ _ _ _ A om ic). apply IH. exact H.
Qed.
Theorem parse_nr_strict : forall start toks t, parse_nr start toks = POk t -> parse G TR false start toks = POk t.
Proof.
  intros start toks t H. unfold parse_nr in H. unfold parse. destruct (assocN start (g_start G)) as [q0|]; [|discriminate].
  destruct (feed_nr [mkFr q0 []] toks) as [s|] eqn:F; [|discriminate].
  rewrite (feed_nr_strict _ _ _ F [] 0%Z). exact H.
Qed.

(* ---------- and it is a run of the abstract plan-driven engine ---------- *)
Lemma pop_abs s s1 : pop G s = POk s1 ->
  match s with tos :: _ => final G (f_dfa tos) = true | [] => True end ->
  popf1 tree N N mkn (final G) (rule_of G) (a_of s) (a_of s1).
Proof.
  unfold pop. destruct s as [|tos [|below rest]]; [discriminate|discriminate|]. intros H FQ.
  assert (K: forall nd, nd = close tree N N mkn (rule_of G) (f_dfa tos) (f_nodes tos) ->
     popf1 tree N N mkn (final G) (rule_of G) (a_of (tos :: below :: rest)) (a_of (mkFr (f_dfa below) (f_nodes below ++ [nd]) :: rest))).
  { intros nd ->. unfold a_of. cbn [map f_dfa f_nodes]. constructor. exact FQ. }
  unfold close in K. destruct (f_nodes tos) as [|x [|y r]] eqn:FN.
  - destruct (convert_node G (rule_of G (f_dfa tos)) []) as [nd|] eqn:CV; [|discriminate]. inversion H; subst. apply K. unfold mk_node. rewrite CV. reflexivity.
  - inversion H; subst. apply K. reflexivity.
  - destruct (convert_node G (rule_of G (f_dfa tos)) (x :: y :: r)) as [nd|] eqn:CV; [|discriminate]. inversion H; subst. apply K. unfold mk_node. rewrite CV. reflexivity.
Qed.

Lemma pop_abs1 a s s1 : pop G s = POk s1 ->
  match s with tos :: _ => final G (f_dfa tos) = true /\ plansI TR (f_dfa tos) a = None | [] => True end ->
  pop1 tree N label N mkn (final G) (rule_of G) (plansI TR) a (a_of s) (a_of s1).
Proof.
  unfold pop. destruct s as [|tos [|below rest]]; [discriminate|discriminate|]. intros H [FQ NP].
  assert (K: forall nd, nd = close tree N N mkn (rule_of G) (f_dfa tos) (f_nodes tos) ->
     pop1 tree N label N mkn (final G) (rule_of G) (plansI TR) a (a_of (tos :: below :: rest)) (a_of (mkFr (f_dfa below) (f_nodes below ++ [nd]) :: rest))).
  { intros nd ->. unfold a_of. cbn [map f_dfa f_nodes]. constructor; assumption. }
  unfold close in K. destruct (f_nodes tos) as [|x [|y r]] eqn:FN.
  - destruct (convert_node G (rule_of G (f_dfa tos)) []) as [nd|] eqn:CV; [|discriminate]. inversion H; subst. apply K. unfold mk_node. rewrite CV. reflexivity.
  - inversion H; subst. apply K. reflexivity.
  - destruct (convert_node G (rule_of G (f_dfa tos)) (x :: y :: r)) as [nd|] eqn:CV; [|discriminate]. inversion H; subst. apply K. unfold mk_node. rewrite CV. reflexivity.
Qed.

Lemma nr_abs : forall f s t s', add_token_nr f s t = POk s' ->
  exists st1, pops' (token_label G t) (a_of s) st1 /\ shift' (token_label G t) (leaf_of G t) st1 = Some (a_of s').
Proof.
  induction f as [|f IH]; intros s t s' H; [discriminate|]. cbn [add_token_nr] in H.
  destruct s as [|tos rest]; [discriminate|].
  destruct (trans TR (f_dfa tos) (token_label G t)) as [pl|] eqn:TRS.
  - destruct (fold_left (fun st q => mkFr q [] :: st) (p_pushes pl) (mkFr (p_next pl) (f_nodes tos) :: rest)) as [|top r] eqn:FL; [discriminate|].
    inversion H; subst s'. clear H. exists (a_of (tos :: rest)). split; [apply rt1n_refl|].
    unfold a_of at 1. cbn [map shift]. unfold plansI. rewrite TRS. f_equal.
    change (mkFr (p_next pl) (f_nodes tos) :: rest) with (mkFr (p_next pl) (f_nodes tos) :: rest) in FL.
    assert (FL': fold_left (fun st q => mkFr q [] :: st) (p_pushes pl) (st_of_a ((p_next pl, f_nodes tos) :: a_of rest)) = top :: r).
    { unfold st_of_a. cbn [map fr_of fst snd]. fold (st_of_a (a_of rest)). rewrite st_of_a_of. exact FL. }
    pose proof (fold_push (p_pushes pl) (leaf_of G t) ((p_next pl, f_nodes tos) :: a_of rest) top r FL' ltac:(discriminate)) as E.
    apply (f_equal a_of) in E. rewrite a_of_st_of_a in E. fold (a_of rest). rewrite E. reflexivity.
  - destruct (final G (f_dfa tos)) eqn:FQ; [|discriminate].
    destruct (pop G (tos :: rest)) as [s1|] eqn:P; [|discriminate].
    destruct (IH _ _ _ H) as (st1 & PP & SH). exists st1. split; [|exact SH].
    econstructor; [|exact PP]. apply pop_abs1; [exact P|]. split; [exact FQ|apply plansI_trans; exact TRS].
Qed.

Lemma feed_nr_abs : forall toks s s', feed_nr s toks = POk s' -> feed' (word_of G toks) (a_of s) (a_of s').
Proof.
  induction toks as [|t toks IH]; intros s s' H; cbn [feed_nr] in H.
  - inversion H; subst. constructor.
  - destruct (add_token_nr (S (S (2 * length s))) s t) as [s1|] eqn:A; [|discriminate].
    destruct (nr_abs _ _ _ _ A) as (st1 & PP & SH).
    unfold word_of. cbn [map]. econstructor; [|apply IH; exact H].
    econstructor; [exact PP|exact SH].
Qed.

Lemma finish_abs : forall fuel s t, finish G fuel s = POk t ->
  exists qf ns, popsf' (a_of s) [(qf, ns)] /\ final G qf = true /\ convert_node G (rule_of G qf) ns = POk t.
Proof.
  induction fuel as [|f IH]; intros s t H; [discriminate|]. cbn [finish] in H.
  destruct s as [|tos rest]; [discriminate|]. destruct (final G (f_dfa tos)) eqn:FQ; [|discriminate]. cbn [negb] in H.
  destruct rest as [|below rest].
  - exists (f_dfa tos), (f_nodes tos). split; [apply rt1n_refl|split; [exact FQ|exact H]].
  - destruct (pop G (tos :: below :: rest)) as [s1|] eqn:P; [|discriminate].
    destruct (IH _ _ H) as (qf & ns & PP & F2 & CV). exists qf, ns. split; [|split; assumption].
    econstructor; [|exact PP]. apply pop_abs; [exact P|exact FQ].
Qed.

Definition derivation := dtree tree label N.

Theorem engine_sound : tables_sound_ok G TR = true ->
  forall S0 toks t, toks <> [] -> parse_nr S0 toks = POk t ->
  exists kb : list derivation,
    wf tree N label N (arcT G) (arcN G) (startR G) (final G) (validR G) (DNode tree label N S0 kb) /\
    yield tree label N (DNode tree label N S0 kb) = word_of G toks /\
    convert_node G S0 (map (collapse tree label N mkn) kb) = POk t /\
    parse G TR false S0 toks = POk t.
Proof.
  intros OK S0 toks t NE H. pose proof (parse_nr_strict _ _ _ H) as PS. unfold parse_nr in H.
  destruct (assocN S0 (g_start G)) as [q0|] eqn:A; [|discriminate].
  assert (V: validR G S0).
  { unfold validR. clear - A. induction (g_start G) as [|[b q] r IH]; [discriminate|]. simpl in *. destruct (b =? S0) eqn:E; [left; apply N.eqb_eq; exact E|right; apply IH; exact A]. }
  destruct (feed_nr [mkFr q0 []] toks) as [s|] eqn:F; [|discriminate].
  apply feed_nr_abs in F. destruct (finish_abs _ _ _ H) as (qf & ns & PP & FQ & CV).
  assert (S0q: startR G S0 = q0) by (unfold startR; rewrite A; reflexivity).
  change (a_of [mkFr q0 []]) with [(q0, @nil tree)] in F. rewrite <- S0q in F.
  destruct (tables_sound G TR tree mkn OK S0 _ _ qf ns V F PP FQ) as (kb & W & Y & E & RQ).
  { destruct toks; [contradiction|discriminate]. }
  exists kb. split; [exact W|split; [exact Y|split; [|exact PS]]]. rewrite <- E, <- RQ. exact CV.
Qed.
End Sound.
Print Assumptions engine_sound.
