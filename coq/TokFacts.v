From Coq Require Import List NArith ZArith Bool Lia.
Import ListNotations.
Require Import Regex RegexFacts Tok.
Open Scope N_scope.

(* Facts about regex matches that the tokenizer proofs consume.  All follow from m_sound. *)

Lemma skipn_app_length {A} (l1 l2 : list A) : skipn (length l1) (l1 ++ l2) = l2.
Proof. induction l1; simpl; auto. Qed.

(* a successful match ends inside the string, not before its start *)
Lemma rmatch_bounds r s pos e cs : rmatch r s pos = Some (e, cs) -> pos <= e /\ e <= pos + N.of_nat (length (skipn (N.to_nat pos) s)).
Proof.
  unfold rmatch. intros H. apply m_sound in H. destruct H as (consumed & rest' & cs' & E & K & _).
  inversion K; subst. rewrite E, app_length, Nat2N.inj_add. lia.
Qed.

Lemma rmatch_le_len r s pos e cs : rmatch r s pos = Some (e, cs) -> pos <= len s -> pos <= e /\ e <= len s.
Proof.
  intros H L. destruct (rmatch_bounds _ _ _ _ _ H) as [H1 H2]. split; [exact H1|].
  unfold len in *. rewrite skipn_length in H2. lia.
Qed.

(* when pos is beyond the string the match (if any) is empty at pos *)
Lemma rmatch_ge_pos r s pos e cs : rmatch r s pos = Some (e, cs) -> pos <= e.
Proof. intros H. apply rmatch_bounds in H. tauto. Qed.

(* ---- the shape  (group 1) (group 2)  of pseudo_token: exact spans ---- *)
Definition shape12 (r : re) : bool :=
  match r with
  | Cat (Group 1 a) (Group 2 b) => negb (existsb (Nat.eqb 1) (groups b))
  | _ => false
  end.

Lemma grp_skip (new : caps) : forall rest g, (forall h sp, In (h, sp) new -> h <> g) -> grp g (new ++ rest) = grp g rest.
Proof.
  induction new as [|[h sp] new IH]; intros rest g H; simpl; [reflexivity|].
  destruct (Nat.eqb h g) eqn:E; [apply Nat.eqb_eq in E; exfalso; eapply H; [left; reflexivity|exact E]|].
  apply IH. intros h' sp' I. eapply H. right. exact I.
Qed.

Theorem shape12_spans r s pos e cs : shape12 r = true -> rmatch r s pos = Some (e, cs) ->
  exists j, grp 1 cs = Some (pos, j) /\ grp 2 cs = Some (j, e) /\ pos <= j /\ j <= e.
Proof.
  destruct r as [| | | | |ra rb| | | | | | | |]; try discriminate.
  destruct ra as [| | | | | | | | | |n1 a| | |]; try discriminate. destruct n1 as [|[|n1]]; try discriminate.
  destruct rb as [| | | | | | | | | |n2 b| | |]; try discriminate. destruct n2 as [|[|[|n2]]]; try discriminate.
  intros SH H. cbn [shape12] in SH. apply negb_true_iff in SH.
  unfold rmatch in H. cbn [m] in H.
  apply m_sound in H. destruct H as (c1 & rest1 & cs1 & E1 & K1 & X1).
  apply m_sound in K1. destruct K1 as (c2 & rest2 & cs2 & E2 & K2 & X2).
  inversion K2; subst e cs. clear K2.
  destruct X2 as (new2 & En2 & Hn2). subst cs2.
  set (j := pos + N.of_nat (length c1)) in *.
  exists j. split; [|split; [|split]].
  - simpl. rewrite grp_skip.
    + simpl. reflexivity.
    + intros h sp I Eh. subst h. specialize (Hn2 _ _ I).
      assert (X: existsb (Nat.eqb 1) (groups b) = true) by (apply existsb_exists; exists 1%nat; split; [exact Hn2|reflexivity]).
      rewrite X in SH. discriminate.
  - simpl. reflexivity.
  - unfold j. lia.
  - lia.
Qed.
