From Coq Require Import List Arith Bool Lia.
Import ListNotations.

(* Crash-outcome model of the on-disk cache entry (parso/cache.py: _load_from_file_system,
   _save_to_file_system, clear_inactive_cache).  The unpickler is an ORACLE: nothing is
   assumed about what it does on bytes that are not an intact pickle, it may fail or
   return any entry (a bit flip can still unpickle). *)

Inductive bytes :=
| Intact (v ct : nat)            (* the pickle of an entry for content version v recorded at time ct *)
| Torn (v ct k : nat)            (* first k bytes of it *)
| Garbage (g : nat).             (* anything else *)

Inductive unp := UOk (v ct : nat) | UFail.

Inductive disk := Absent | File (b : bytes) (pm : nat).      (* pm = mtime of the pickle file *)

Inductive outcome := Hit (v : nat) | Miss | Raise.

Section Crash.
Variable unpickle : bytes -> unp.
Hypothesis unpickle_intact : forall v ct, unpickle (Intact v ct) = UOk v ct.

(* catches = true: the repaired code, where any failure of the unpickler is a miss;
   catches = false: the code as it was (only FileNotFoundError is a miss) *)
Definition load (catches : bool) (d : disk) (p_time : nat) : outcome :=
  match d with
  | Absent => Miss
  | File b pm =>
    if pm <? p_time then Miss
    else match unpickle b with
         | UOk v ct => if ct <? p_time then Miss else Hit v
         | UFail => if catches then Miss else Raise
         end
  end.

Definition save (v ct now : nat) : disk := File (Intact v ct) now.

(* a parse with cache of a file whose current version is cur with mtime p_time *)
Definition parse_cached (catches : bool) (d : disk) (cur p_time now : nat) : option (nat * disk) :=
  match load catches d p_time with
  | Hit v => Some (v, d)
  | Miss => Some (cur, save cur p_time now)
  | Raise => None
  end.

Theorem load_total : forall d p, load true d p <> Raise.
Proof.
  intros d p. unfold load. destruct d as [|b pm]; [discriminate|].
  destruct (pm <? p); [discriminate|]. destruct (unpickle b) as [v ct|]; [|discriminate].
  destruct (ct <? p); discriminate.
Qed.

Theorem parse_total : forall d cur p now, exists v d', parse_cached true d cur p now = Some (v, d').
Proof.
  intros d cur p now. unfold parse_cached. pose proof (load_total d p) as T.
  destruct (load true d p); [eexists; eexists; reflexivity|eexists; eexists; reflexivity|contradiction].
Qed.

(* whatever was on disk: after a miss the entry is intact and the next parse of the
   unchanged file is a hit with the current version *)
Theorem self_repair : forall d cur p now, p <= now ->
  load true d p = Miss ->
  exists d', parse_cached true d cur p now = Some (cur, d') /\ load true d' p = Hit cur.
Proof.
  intros d cur p now Hn HM. unfold parse_cached. rewrite HM. eexists. split; [reflexivity|].
  unfold save, load. rewrite unpickle_intact.
  destruct (now <? p) eqn:E; [apply Nat.ltb_lt in E; lia|].
  rewrite Nat.ltb_irrefl. reflexivity.
Qed.

(* a hit never serves something the unpickler did not return for these bytes at a time
   the entry claims to be fresh *)
Theorem hit_is_recorded : forall c d p v, load c d p = Hit v ->
  exists b pm ct, d = File b pm /\ unpickle b = UOk v ct /\ p <= pm /\ p <= ct.
Proof.
  intros c d p v H. unfold load in H. destruct d as [|b pm]; [discriminate|].
  destruct (pm <? p) eqn:E1; [discriminate|]. destruct (unpickle b) as [v' ct|] eqn:U; [|destruct c; discriminate].
  destruct (ct <? p) eqn:E2; [discriminate|]. inversion H; subst.
  apply Nat.ltb_ge in E1. apply Nat.ltb_ge in E2. exists b, pm, ct. auto.
Qed.

(* the code as it was is refuted by any torn file the unpickler rejects *)
Theorem old_code_raises : forall v ct k pm p, unpickle (Torn v ct k) = UFail -> p <= pm ->
  load false (File (Torn v ct k) pm) p = Raise.
Proof.
  intros v ct k pm p U L. unfold load. destruct (pm <? p) eqn:E; [apply Nat.ltb_lt in E; lia|].
  rewrite U. reflexivity.
Qed.
End Crash.

(* ---- clean-up: entries accessed within the survival time are kept ---- *)
Record entry := mkE { e_key : nat; e_atime : nat }.
Definition clear_inactive (survival now : nat) (es : list entry) : list entry :=
  filter (fun e => negb (e_atime e + survival <=? now)) es.

Theorem cleanup_keeps_recent : forall survival now es e,
  In e es -> now < e_atime e + survival -> In e (clear_inactive survival now es).
Proof.
  intros s now es e Hin Hr. unfold clear_inactive. apply filter_In. split; [exact Hin|].
  destruct (e_atime e + s <=? now) eqn:E; [apply Nat.leb_le in E; lia|reflexivity].
Qed.
Theorem cleanup_only_removes : forall survival now es e, In e (clear_inactive survival now es) -> In e es.
Proof. intros s now es e H. unfold clear_inactive in H. apply filter_In in H. tauto. Qed.

(* a concrete unpickler that fails on everything but intact bytes: the hypotheses are satisfiable
   and the old code really raises on a torn file *)
Definition strict_unpickle (b : bytes) : unp := match b with Intact v ct => UOk v ct | _ => UFail end.
Example old_code_refuted : load strict_unpickle false (File (Torn 0 5 3) 9) 5 = Raise.
Proof. reflexivity. Qed.
Example repaired_code_misses : load strict_unpickle true (File (Torn 0 5 3) 9) 5 = Miss.
Proof. reflexivity. Qed.
