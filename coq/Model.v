(* Top-level executable entry points of the model, instantiated with the tables the
   translator regenerated from /repo.  Everything here is extracted to OCaml. *)
From Coq Require Import List NArith ZArith Bool.
Import ListNotations.
Require Import Regex Tok Engine Prefix Lines.
Require Import Tables Grammars.
Open Scope N_scope.

Definition coll_of (v : N) : option coll := Engine.assocN v colls.

Definition run_tok (v : N) (lines : list str) (inds : list N) (sl sc : N) (first : bool) : Tok.result (list Token) :=
  match coll_of v with
  | Some c => tokenize_lines c isident isspace lines inds sl sc first
  | None => Tok.Err AttrError
  end.

Definition run_resume_points (v : N) (lines : list str) (inds : list N) (sl sc : N) (first : bool) : list (option (list N)) :=
  match coll_of v with
  | Some c => resume_points c isident isspace lines inds sl sc first
  | None => []
  end.

Definition tokenize_text (v : N) (s : str) : Tok.result (list Token) :=
  run_tok v (Lines.split_keep s) [0] 1 0 true.

Inductive mode := Recover | Strict.

Definition parse_tokens (v : N) (m : mode) (start_rule : N) (toks : list Token) : Engine.pres tree :=
  match Engine.assocN v grams with
  | Some (G, TR) =>
    Engine.parse G TR (match m with Recover => true | Strict => false end)
                 (if start_rule =? 0 then r_file_input G else start_rule) toks
  | None => Engine.PErr PIndex
  end.

Inductive outcome := OTree (t : tree) | OTokErr (e : Tok.err) | OParseErr (e : Engine.perr).

Definition parse_text (v : N) (m : mode) (start_rule : N) (s : str) : outcome :=
  match tokenize_text v s with
  | Tok.Err e => OTokErr e
  | Tok.Ok toks =>
    match parse_tokens v m start_rule toks with
    | Engine.POk t => OTree t
    | Engine.PErr e => OParseErr e
    end
  end.

Definition plan_table (v : N) : list (N * list (label * plan)) :=
  match Engine.assocN v grams with Some (_, TR) => TR | None => [] end.

Definition split_prefix_m (p : str) (line col : N) : Prefix.pres :=
  Prefix.split_prefix prefix_re prefix_types p line col.

Definition regex_by_id (id : N) (v : N) : option re :=
  match coll_of v with
  | None => None
  | Some c =>
    match id with
    | 0 => Some (pseudo c) | 1 => Some (whitespace c) | 2 => Some (fs_single c) | 3 => Some (fs_multi c)
    | 4 => Some (spec_single c) | 5 => Some (spec_multi c) | 6 => Some (ws_dollar c)
    | 7 => Some prefix_re | 8 => Some split_lines_re
    | _ => match nth_error (endpats c) (N.to_nat (id - 100)) with Some (_, r) => Some r | None => None end
    end
  end.
