From Coq Require Import List NArith ZArith Bool Lia.
Import ListNotations.
Require Import Regex RegexFacts Tok TokFacts TokTiles TokPos Prefix.
Open Scope N_scope.

(* C09, prefix splitting: whenever split_prefix returns parts, they tile the prefix:
   the concatenation of spacing ++ value over the parts is the prefix.  (For any regex of the shape
   (group 1)(group 2); the final part carries its text in `value`, like the Python PrefixPart.) *)

Definition part_text (pt : part) : str := p_spacing pt ++ p_value pt.
Definition parts_text (l : list part) : str := concat (map part_text l).
Lemma parts_text_app a b : parts_text (a ++ b) = parts_text a ++ parts_text b.
Proof. unfold parts_text. rewrite map_app, concat_app. reflexivity. Qed.
Lemma parts_text_one pt : parts_text [pt] = p_spacing pt ++ p_value pt.
Proof. unfold parts_text. simpl. apply app_nil_r. Qed.

Section PT.
Variable R : re.
Variable types : list (N * N).
Hypothesis shape : shape12 R = true.

Lemma split_loop_tiles : forall fuel p line column start bomf acc parts,
  split_loop R types fuel p line column start bomf acc = POk parts -> start <= len p ->
  parts_text parts = parts_text acc ++ from p start.
Proof.
  induction fuel as [|f IH]; intros p line column start bomf acc parts H SL; [discriminate|]. cbn [split_loop] in H.
  destruct (start =? len p) eqn:E.
  - apply N.eqb_eq in E. inversion H; subst. rewrite parts_text_app, parts_text_one. cbn [p_spacing p_value].
    rewrite from_ge by lia. reflexivity.
  - destruct (rmatch R p start) as [[e cs]|] eqn:M; [|discriminate].
    destruct (shape12_spans _ _ _ _ _ shape M) as (j & G1 & G2 & L1 & L2). rewrite G1, G2 in H.
    destruct (rmatch_le_len _ _ _ _ _ M SL) as [_ EL].
    destruct (sub p j e) as [|c v] eqn:V.
    + destruct (e =? len p) eqn:EE; [|discriminate]. apply N.eqb_eq in EE. inversion H; subst parts.
      rewrite parts_text_app, parts_text_one. cbn [p_spacing p_value app]. f_equal.
      (* the value is empty and the match reaches the end: the spacing is the rest of the prefix *)
      assert (JE: j = e).
      { assert (X: len (sub p j e) = e - j) by (apply len_sub; lia). rewrite V, len_nil in X. lia. }
      subst j. rewrite EE. apply sub_to_len.
    + destruct (assocN c types) as [tc|]; [|discriminate].
      set (pt := mkPart (ptype_of_code tc) (c :: v) (sub p start j) line _) in *.
      assert (STEP: parts_text (acc ++ [pt]) ++ from p e = parts_text acc ++ from p start).
      { rewrite parts_text_app, parts_text_one. cbn [p_spacing p_value pt]. rewrite <- V.
        rewrite (sub_from p start j L1), (sub_from p j e L2). rewrite <- !app_assoc. reflexivity. }
      destruct (ends_break (c :: v)); apply IH in H; try exact EL; rewrite H; exact STEP.
Qed.

Theorem split_prefix_tiles : forall p line col parts,
  split_prefix R types p line col = POk parts -> parts_text parts = p.
Proof.
  intros p line col parts H. unfold split_prefix in H. apply split_loop_tiles in H; [|lia]. rewrite H. reflexivity.
Qed.
End PT.
Print Assumptions split_prefix_tiles.
