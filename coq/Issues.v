From Coq Require Import List Arith Bool Lia.
Import ListNotations.

(* Issue stores (parso/normalizer.py, parso/python/errors.py, parso/python/pep8.py).
   An issue is identified, as Issue.__eq__ does, by (start position, code). *)

Record issue := mkI { i_code : nat; i_line : nat; i_col : nat; i_msg : nat }.
Definition same (a b : issue) : bool :=
  (i_code a =? i_code b) && (i_line a =? i_line b) && (i_col a =? i_col b).

(* Normalizer.add_issue: append unless an equal issue is already stored *)
Definition add_issue (l : list issue) (x : issue) : list issue :=
  if existsb (same x) l then l else l ++ [x].

Definition key (a : issue) := (i_code a, i_line a, i_col a).
Lemma same_key a b : same a b = true <-> key a = key b.
Proof.
  unfold same, key. rewrite !andb_true_iff, !Nat.eqb_eq. split.
  - intros [[-> ->] ->]. reflexivity.
  - intros H. inversion H. auto.
Qed.

Lemma add_issue_keys l x : NoDup (map key l) -> NoDup (map key (add_issue l x)).
Proof.
  intros H. unfold add_issue. destruct (existsb (same x) l) eqn:E; [exact H|].
  rewrite map_app. simpl.
  assert (N: ~ In (key x) (map key l)).
  { intros Hin. apply in_map_iff in Hin as (y & Hy & Hin).
    assert (existsb (same x) l = true) by (apply existsb_exists; exists y; split; [exact Hin|apply same_key; symmetry; exact Hy]).
    congruence. }
  clear E. induction l as [|a r IH]; simpl in *; [constructor; [intros []|constructor]|].
  inversion H; subst. constructor.
  - intros Hin. apply in_app_or in Hin as [Hin|[Hin|[]]]; [contradiction|]. apply N. left. symmetry. exact Hin.
  - apply IH; [assumption|]. intros Hin. apply N. right. exact Hin.
Qed.

(* no (code, position) pair is ever stored twice, for any sequence of add_issue calls *)
Theorem add_issue_nodup : forall xs, NoDup (map key (fold_left add_issue xs [])).
Proof.
  assert (G: forall xs l, NoDup (map key l) -> NoDup (map key (fold_left add_issue xs l))).
  { induction xs as [|x xs IH]; intros l H; simpl; [exact H|]. apply IH. apply add_issue_keys. exact H. }
  intros xs. apply G. constructor.
Qed.

(* calls never remove or reorder what is stored *)
Theorem add_issue_prefix : forall l x, exists t, add_issue l x = l ++ t.
Proof. intros l x. unfold add_issue. destruct (existsb (same x) l); [exists []; rewrite app_nil_r|exists [x]]; reflexivity. Qed.

(* ---- ErrorFinder: first issue per line wins (dict.setdefault), emitted in insertion order by finalize ---- *)
Definition line_dict := list (nat * issue).
Fixpoint has_line (d : line_dict) (ln : nat) : bool :=
  match d with [] => false | (k, _) :: r => (k =? ln) || has_line r ln end.
Definition err_add (d : line_dict) (x : issue) : line_dict :=
  if has_line d (i_line x) then d else d ++ [(i_line x, x)].
Definition finalize (d : line_dict) : list issue := map snd d.

Definition dict_ok (d : line_dict) : Prop := NoDup (map fst d) /\ forall k x, In (k, x) d -> k = i_line x.

Lemma has_line_in d ln : has_line d ln = true <-> In ln (map fst d).
Proof.
  induction d as [|[k x] r IH]; simpl; [split; [discriminate|intros []]|].
  rewrite orb_true_iff, Nat.eqb_eq, IH. tauto.
Qed.

Lemma err_add_ok d x : dict_ok d -> dict_ok (err_add d x).
Proof.
  intros [H1 H2]. unfold err_add. destruct (has_line d (i_line x)) eqn:E; [split; assumption|].
  assert (N: ~ In (i_line x) (map fst d)) by (intros Hin; apply has_line_in in Hin; congruence).
  split.
  - rewrite map_app. simpl. clear H2 E. induction d as [|[k y] r IH]; simpl in *; [constructor; [intros []|constructor]|].
    inversion H1; subst. constructor.
    + intros Hin. apply in_app_or in Hin as [Hin|[Hin|[]]]; [contradiction|]. apply N. left. symmetry. exact Hin.
    + apply IH; [assumption|]. intros Hin. apply N. right. exact Hin.
  - intros k y Hin. apply in_app_or in Hin as [Hin|[Hin|[]]]; [eapply H2; exact Hin|]. inversion Hin; reflexivity.
Qed.

(* at most one issue per line, whatever the rules report and in whatever order *)
Theorem one_issue_per_line : forall xs, NoDup (map i_line (finalize (fold_left err_add xs []))).
Proof.
  assert (G: forall xs d, dict_ok d -> dict_ok (fold_left err_add xs d)).
  { induction xs as [|x xs IH]; intros d H; simpl; [exact H|]. apply IH. apply err_add_ok. exact H. }
  intros xs. destruct (G xs [] (conj (NoDup_nil _) (fun k x (H : In (k, x) []) => match H with end))) as [H1 H2].
  unfold finalize. set (d := fold_left err_add xs []) in *.
  assert (E: map i_line (map snd d) = map fst d).
  { clearbody d. clear H1. induction d as [|[k x] r IH]; simpl; [reflexivity|]. rewrite IH by (intros; apply H2; right; assumption).
    rewrite (H2 k x) by (left; reflexivity). reflexivity. }
  rewrite E. exact H1.
Qed.

(* every line for which some rule reported has an issue, and it is the first one reported for that line *)
Lemma err_add_keeps d x ln : In ln (map fst d) -> In ln (map fst (err_add d x)).
Proof. intros H. unfold err_add. destruct (has_line d (i_line x)); [exact H|]. rewrite map_app. apply in_or_app. left. exact H. Qed.
Lemma err_add_has d x : In (i_line x) (map fst (err_add d x)).
Proof.
  unfold err_add. destruct (has_line d (i_line x)) eqn:E; [apply has_line_in; exact E|].
  rewrite map_app. apply in_or_app. right. left. reflexivity.
Qed.
Theorem reported_line_has_issue : forall xs x, In x xs -> In (i_line x) (map i_line (finalize (fold_left err_add xs []))).
Proof.
  assert (K: forall xs d ln, In ln (map fst d) -> In ln (map fst (fold_left err_add xs d))).
  { induction xs as [|y xs IH]; intros d ln H; simpl; [exact H|]. apply IH. apply err_add_keeps. exact H. }
  assert (G: forall xs d x, In x xs -> In (i_line x) (map fst (fold_left err_add xs d))).
  { induction xs as [|y xs IH]; intros d x Hx; [destruct Hx|]. destruct Hx as [->|Hin]; simpl; [apply K; apply err_add_has|apply IH; exact Hin]. }
  assert (OK: forall xs d, dict_ok d -> dict_ok (fold_left err_add xs d)).
  { induction xs as [|x xs IH]; intros d H; simpl; [exact H|]. apply IH. apply err_add_ok. exact H. }
  intros xs x Hin. pose proof (G xs [] x Hin) as H.
  destruct (OK xs [] (conj (NoDup_nil _) (fun k x (H : In (k, x) []) => match H with end))) as [_ H2].
  set (d := fold_left err_add xs []) in *. unfold finalize.
  assert (E: map i_line (map snd d) = map fst d).
  { clearbody d. clear H. induction d as [|[k y] r IH]; simpl; [reflexivity|]. rewrite IH by (intros; apply H2; right; assumption).
    rewrite (H2 k y) by (left; reflexivity). reflexivity. }
  rewrite E. exact H.
Qed.
Print Assumptions add_issue_nodup.
Print Assumptions one_issue_per_line.
