From Coq Require Import List NArith Bool Lia.
Import ListNotations.
Require Import Lines.
Open Scope N_scope.

(* C03, end positions: model of Leaf.end_pos (parso/tree.py) - computed from the leaf's value with split_lines - and the
   theorem that it is the position reached by walking the value from the start position, counting exactly
   \n, \r\n and \r as line breaks. *)

Definition len (s : str) : N := N.of_nat (length s).

(* Leaf.end_pos *)
Definition end_pos (value : str) (line col : N) : N * N :=
  let lines := split_keep value in
  let end_line := line + N.of_nat (length lines) - 1 in
  if line =? end_line then (end_line, col + len (last lines []))
  else (end_line, len (last lines [])).

(* the walk: `after_cr` remembers that the previous character was a \r, so that a following \n belongs to the same break *)
Fixpoint walk (s : str) (l c : N) (after_cr : bool) : N * N :=
  match s with
  | [] => (l, c)
  | ch :: t =>
    if ch =? 10 then (if after_cr then walk t l c false else walk t (l + 1) 0 false)
    else if ch =? 13 then walk t (l + 1) 0 true
    else walk t l (c + 1) false
  end.

Fixpoint endp (ls : list str) (l c0 : N) : N * N :=
  match ls with
  | [] => (l, c0)
  | x :: r => match r with [] => (l, c0 + len x) | _ :: _ => endp r (l + 1) 0 end
  end.

Lemma endp_spec : forall ls l c0, ls <> [] ->
  endp ls l c0 = (if l =? l + N.of_nat (length ls) - 1 then (l + N.of_nat (length ls) - 1, c0 + len (last ls []))
                  else (l + N.of_nat (length ls) - 1, len (last ls []))).
Proof.
  induction ls as [|x r IH]; intros l c0 NE; [contradiction|].
  destruct r as [|y r'].
  - simpl. replace (l + 1 - 1) with l by lia. rewrite N.eqb_refl. reflexivity.
  - change (endp (x :: y :: r') l c0) with (endp (y :: r') (l + 1) 0). rewrite IH by discriminate.
    assert (E1: (l =? l + N.of_nat (length (x :: y :: r')) - 1) = false) by (apply N.eqb_neq; simpl length; lia).
    rewrite E1. change (last (x :: y :: r') []) with (last (y :: r') []).
    replace (l + N.of_nat (length (x :: y :: r')) - 1) with (l + 1 + N.of_nat (length (y :: r')) - 1) by (simpl length; lia).
    destruct (l + 1 =? l + 1 + N.of_nat (length (y :: r')) - 1); rewrite ?N.add_0_l; reflexivity.
Qed.

Lemma endp_cons2 x ls l c0 : ls <> [] -> endp (x :: ls) l c0 = endp ls (l + 1) 0.
Proof. destruct ls; [contradiction|reflexivity]. Qed.

Lemma walk_cr_skip t l c : (match t with x :: _ => x =? 10 | [] => false end) = false -> walk t l c true = walk t l c false.
Proof. destruct t as [|x t]; [reflexivity|]. simpl. intros H. rewrite H. reflexivity. Qed.

Lemma len_app1 (cur : str) (c : N) : len (cur ++ [c]) = len cur + 1.
Proof. unfold len. rewrite app_length. simpl. lia. Qed.

Lemma endp_cut : forall n s, length s = n -> forall cur l c0,
  endp (cut s cur) l c0 = walk s l (c0 + len cur) false.
Proof.
  induction n as [n IH] using (well_founded_induction Wf_nat.lt_wf). intros s Hn cur l c0.
  destruct s as [|c t].
  - simpl. reflexivity.
  - simpl in Hn. rewrite cut_eq. unfold is_break.
    destruct (c =? 10) eqn:E10.
    + (* \n *)
      apply N.eqb_eq in E10. subst c. cbn [orb]. rewrite take_break_not13 by reflexivity. cbn [fst snd].
      rewrite (endp_cons2 _ _ _ _ (cut_nonempty t [])). rewrite (IH (length t)) by (try lia; reflexivity).
      cbn [walk N.eqb Pos.eqb]. unfold len. simpl. reflexivity.
    + destruct (c =? 13) eqn:E13; cbn [orb].
      * apply N.eqb_eq in E13. subst c.
        pose proof (take_break_len 13 t) as TL.
        assert (W: walk (13 :: t) l (c0 + len cur) false = walk (snd (take_break 13 t)) (l + 1) 0 false).
        { cbn [walk N.eqb Pos.eqb]. unfold take_break. destruct t as [|x t']; [reflexivity|].
          destruct (x =? 10) eqn:EX; cbn [andb N.eqb Pos.eqb snd].
          - cbn [walk]. rewrite EX. reflexivity.
          - apply walk_cr_skip. exact EX. }
        rewrite W.
        rewrite (endp_cons2 _ _ _ _ (cut_nonempty (snd (take_break 13 t)) [])).
        rewrite (IH (length (snd (take_break 13 t)))) by (try lia; reflexivity).
        unfold len. simpl. reflexivity.
      * rewrite (IH (length t)) by (try lia; reflexivity). cbn [walk]. rewrite E10, E13, len_app1. f_equal. lia.
Qed.

(* Leaf.end_pos is the position reached by walking the value from the start position *)
Theorem end_pos_is_walk : forall value line col, end_pos value line col = walk value line col false.
Proof.
  intros value line col. unfold end_pos. rewrite split_keep_spec.
  rewrite <- (endp_spec (cut value []) line col (cut_nonempty value [])).
  rewrite (endp_cut (length value) value eq_refl). unfold len. simpl. rewrite N.add_0_r. reflexivity.
Qed.
Print Assumptions end_pos_is_walk.

