From Coq Require Import List NArith ZArith Bool.
Import ListNotations.
Require Import Regex.
Open Scope N_scope.

Definition str := list N.

Fixpoint str_eqb (a b : str) : bool :=
  match a, b with
  | [], [] => true
  | x :: a, y :: b => (x =? y) && str_eqb a b
  | _, _ => false
  end.
Definition mem_str (s : str) (l : list str) : bool := existsb (str_eqb s) l.
Fixpoint assoc {A} (s : str) (l : list (str * A)) : option A :=
  match l with [] => None | (k, v) :: t => if str_eqb s k then Some v else assoc s t end.
Definition len (s : str) : N := N.of_nat (length s).
Definition sub (s : str) (a b : N) : str := firstn (N.to_nat (b - a)) (skipn (N.to_nat a) s).
Definition from (s : str) (a : N) : str := skipn (N.to_nat a) s.
Definition upto (s : str) (b : N) : str := firstn (N.to_nat b) s.
Fixpoint starts_with (p s : str) : bool :=
  match p, s with
  | [], _ => true
  | x :: p, y :: s => (x =? y) && starts_with p s
  | _, [] => false
  end.
Definition last_chr (s : str) : option N := match rev s with [] => None | x :: _ => Some x end.
Definition ends_nl (s : str) : bool :=
  match last_chr s with Some c => (c =? 10) || (c =? 13) | None => false end.
Definition chr_in (c : N) (l : list N) : bool := existsb (N.eqb c) l.
(* Python `a in b` for strings: substring test *)
Fixpoint is_substr (a b : str) : bool :=
  starts_with a b || match b with [] => false | _ :: t => is_substr a t end.

Inductive ttype := STRING | NUMBER | NAME | ERRORTOKEN | NEWLINE | INDENT | DEDENT | ERROR_DEDENT
                 | FSTRING_STRING | FSTRING_START | FSTRING_END | OP | ENDMARKER.
Record Token := mkTok { ty : ttype; ts : str; tline : N; tcol : N; tpre : str }.

Record fnode := mkF { quote : str; parens : Z; prev_lines : str; last_start : N * N; spec_count : Z }.
Definition allow_multiline (f : fnode) : bool := len (quote f) =? 3.
Definition in_expr (f : fnode) : bool := (spec_count f <? parens f)%Z.
Definition in_format_spec (f : fnode) : bool := negb (in_expr f) && negb (spec_count f =? 0)%Z.

Record coll := mkColl {
  pseudo : re; whitespace : re;
  endpats : list (str * re);
  single_quoted : list str; triple_quoted : list str;
  fstring_map : list (str * str);
  always_break : list str;
  fs_single : re; fs_multi : re; spec_single : re; spec_multi : re;
  ws_dollar : re
}.

Inductive err := OutOfFuel | AssertFail | IndexError | AttrError | Guard.
Inductive result (A : Type) := Ok (a : A) | Err (e : err).
Arguments Ok {A}. Arguments Err {A}.

Section Tokenizer.
Variable C : coll.
Variable isident : str -> bool.
Variable isspace : N -> bool.


Definition rmatch_at (r : re) (s : str) (pos : N) : option (N * caps) := rmatch r s pos.
Fixpoint grp (g : nat) (cs : caps) : option (N * N) :=
  match cs with [] => None | (h, sp) :: t => if Nat.eqb h g then Some sp else grp g t end.

Fixpoint lstrip_len (s : str) : N :=
  match s with c :: t => if isspace c then 1 + lstrip_len t else 0 | [] => 0 end.

Fixpoint last_opt {A} (l : list A) : option A :=
  match l with [] => None | [x] => Some x | _ :: t => last_opt t end.
Definition set_last {A} (l : list A) (x : A) : list A := removelast l ++ [x].

(* ---- dedent_if_necessary ---- *)
(* indents is kept as in Python: bottom first, top last *)
Fixpoint dedent_loop (fuel : nat) (start lnum : N) (spos : N * N) (indents : list N) (acc : list Token)
  : result (list N * list Token) :=
  match fuel with
  | O => Err OutOfFuel
  | S f =>
    match last_opt indents with
    | None => Err IndexError
    | Some top =>
      if start <? top then
        match last_opt (removelast indents) with
        | None => Err IndexError
        | Some second =>
          if second <? start then
            Ok (set_last indents start, acc ++ [mkTok ERROR_DEDENT [] lnum start []])
          else
            dedent_loop f start lnum spos (removelast indents)
                        (acc ++ [mkTok DEDENT [] (fst spos) (snd spos) []])
        end
      else Ok (indents, acc)
    end
  end.
Definition dedent_if_necessary (start lnum : N) (spos : N * N) (indents : list N) :=
  dedent_loop (S (length indents)) start lnum spos indents [].

(* ---- _split_illegal_unicode_name ---- *)
Fixpoint split_illegal (chars : str) (i : N) (found : str) (illegal : bool) (pos : N * N)
         (prefix : str) (sline scol : N) : list Token :=
  let mk := fun (f : str) (ill : bool) (p : N * N) (pre : str) =>
              mkTok (if ill then ERRORTOKEN else NAME) f (fst p) (snd p) pre in
  match chars with
  | [] => match found with [] => [] | _ => [mk found illegal pos prefix] end
  | c :: rest =>
    if illegal then
      if isident [c] then
        mk found illegal pos prefix :: split_illegal rest (i + 1) [c] false (sline, scol + i) [] sline scol
      else split_illegal rest (i + 1) (found ++ [c]) true pos prefix sline scol
    else
      let nf := found ++ [c] in
      if isident nf then split_illegal rest (i + 1) nf false pos prefix sline scol
      else
        match found with
        | [] => split_illegal rest (i + 1) [c] true pos prefix sline scol
        | _ => mk found illegal pos prefix
               :: split_illegal rest (i + 1) [c] true (sline, scol + i) [] sline scol
        end
  end.

(* ---- f-string helpers ---- *)
Definition endpat (q : str) : option re := assoc q (endpats C).

(* truncate `string` at the closing quote of every stack node, in stack order *)
Fixpoint trunc_by_quotes (stack : list fnode) (string : str) : result str :=
  match stack with
  | [] => Ok string
  | n :: t =>
    match endpat (quote n) with
    | None => Err AttrError
    | Some r =>
      match rmatch_at r string 0 with
      | Some (e, _) => trunc_by_quotes t (upto string (e - len (quote n)))
      | None => trunc_by_quotes t string
      end
    end
  end.

(* returns (string, new_pos, new tos) *)
Definition find_fstring_string (stack : list fnode) (tos : fnode) (line : str) (lnum pos : N)
  : result (str * N * fnode) :=
  let regex := if in_format_spec tos
               then (if allow_multiline tos then spec_multi C else spec_single C)
               else (if allow_multiline tos then fs_multi C else fs_single C) in
  match rmatch_at regex line pos with
  | None => Ok (prev_lines tos, pos, tos)
  | Some (e, _) =>
    let tos1 := match prev_lines tos with
                | [] => mkF (quote tos) (parens tos) (prev_lines tos) (lnum, pos) (spec_count tos)
                | _ => tos end in
    match trunc_by_quotes stack (sub line pos e) with
    | Err x => Err x
    | Ok string =>
      let new_pos := pos + len string in
      if ends_nl string then
        Ok ([], new_pos, mkF (quote tos1) (parens tos1) (prev_lines tos1 ++ string) (last_start tos1) (spec_count tos1))
      else Ok (prev_lines tos1 ++ string, new_pos, tos1)
    end
  end.

(* returns Some (token, quote_length, remaining stack) *)
Fixpoint close_fstring (before stack : list fnode) (rest : str) (lnum col : N) (addp : str)
  : result (option (Token * N * list fnode)) :=
  match stack with
  | [] => Ok None
  | n :: t =>
    let k := lstrip_len rest in
    if starts_with (quote n) (from rest k) then
      match prev_lines n with
      | [] => if forallb (fun f => match prev_lines f with [] => true | _ => false end) (before ++ t)     (* guard G3 *)
              then Ok (Some (mkTok FSTRING_END (quote n) lnum (col + k) (addp ++ upto rest k),
                              len (quote n) + k, before))
              else Err Guard
      | _ => Err AssertFail
      end
    else close_fstring (before ++ [n]) t rest lnum col addp
  end.

(* string_line computation: returns the length to which `line` is truncated *)
Fixpoint string_line_len (stack : list fnode) (line : str) (pos cur : N) : result N :=
  match stack with
  | [] => Ok cur
  | n :: t =>
    match endpat (quote n) with
    | None => Err AttrError
    | Some r =>
      match rmatch_at r line pos with
      | Some (e, _) =>
        let cand := e - len (quote n) in   (* = len(end_match_string) - len(quote) + pos *)
        string_line_len t line pos (if cand <? cur then cand else cur)
      | None => string_line_len t line pos cur
      end
    end
  end.

Record st := mkSt {
  paren : N; indents : list N;
  contstr : str; contstr_start : N * N; endprog : option re;
  new_line : bool; prefix : str; addp : str;
  fstack : list fnode;          (* bottom first, top last, like the Python list *)
  lnum : N; max_ : N
}.
Definition upd_f (s : st) (fs : list fnode) : st :=
  mkSt (paren s) (indents s) (contstr s) (contstr_start s) (endprog s) (new_line s) (prefix s) (addp s) fs (lnum s) (max_ s).
Definition upd_addp (s : st) (a : str) : st :=
  mkSt (paren s) (indents s) (contstr s) (contstr_start s) (endprog s) (new_line s) (prefix s) a (fstack s) (lnum s) (max_ s).
Definition upd_top (fs : list fnode) (f : fnode) : list fnode := set_last fs f.

Inductive loop_end := Continue (pos : N) | Break.

Definition bsl : N := 92. Definition nl : N := 10. Definition cr : N := 13. Definition hash : N := 35.
Definition dot : N := 46. Definition colon : N := 58.
Definition digits : list N := [48;49;50;51;52;53;54;55;56;57].

(* ---- guards ----
   The tiling theorem (TokTiles.v) needs a few facts about f-string bookkeeping that hold on every
   state the tokenizer reaches but whose proof would need deep reasoning about the f-string regexes.
   They are made explicit as guards: where the Python code relies on them silently the model returns
   `Err Guard`.  The correspondence stream shows that no generated input ever produces Guard. *)
Definition fpend (fs : list fnode) : str := concat (map prev_lines fs).
Definition no_pending (fs : list fnode) : bool :=
  forallb (fun f => match prev_lines f with [] => true | _ => false end) fs.
Definition is_nil {A} (l : list A) : bool := match l with [] => true | _ => false end.

(* part 1 of an iteration: f-string text, then a closing quote *)
Definition fs_text (s : st) (tos : fnode) (line : str) (pos : N) : result (st * list Token * option loop_end * N) :=
  if negb (in_expr tos) then
    match find_fstring_string (fstack s) tos line (lnum s) pos with
    | Err x => Err x
    | Ok (string, pos', tos') =>
      match string with
      | _ :: _ =>
        if is_nil (addp s) && no_pending (removelast (fstack s)) then      (* guard G1 *)
          let tos'' := mkF (quote tos') (parens tos') [] (last_start tos') (spec_count tos') in
          Ok (upd_f s (upd_top (fstack s) tos''),
              [mkTok FSTRING_STRING string (fst (last_start tos')) (snd (last_start tos')) []],
              Some (Continue pos'), pos')
        else Err Guard
      | [] =>
        let s' := upd_f s (upd_top (fstack s) tos') in
        if pos' =? max_ s then Ok (s', [], Some Break, pos') else Ok (s', [], None, pos')
      end
    end
  else Ok (s, [], None, pos).

Definition fs_part (s : st) (line : str) (pos : N) : result (st * list Token * option loop_end * N) :=
  match last_opt (fstack s) with
  | None => Ok (s, [], None, pos)
  | Some tos =>
    match fs_text s tos line pos with
    | Err x => Err x
    | Ok (s1, toks, Some e, p) => Ok (s1, toks, Some e, p)
    | Ok (s1, toks, None, p) =>
      match close_fstring [] (fstack s1) (from line p) (lnum s1) p (addp s1) with
      | Err x => Err x
      | Ok None => Ok (s1, toks, None, p)
      | Ok (Some (tok, qlen, remaining)) =>
        Ok (upd_addp (upd_f s1 remaining) [], toks ++ [tok], Some (Continue (p + qlen)), p + qlen)
      end
    end
  end.

(* the pseudo-token match: Some (prefix, start, end, token, has_group3), start, initial character *)
Definition pm_info (s1 : st) (line : str) (pos : N) : result (option (str * N * N * str * bool) * N * N) :=
  let sl : result N :=
    match fstack s1 with [] => Ok (len line) | _ => string_line_len (fstack s1) line pos (len line) end in
  match sl with
  | Err x => Err x
  | Ok slen =>
    match rmatch_at (pseudo C) (upto line slen) pos with
    | Some (_, cs) =>
      match grp 1 cs, grp 2 cs with
      | Some (a1, b1), Some (a2, b2) =>
        let pfx := addp s1 ++ sub line a1 b1 in
        let token := sub line a2 b2 in
        let has3 := match grp 3 cs with Some _ => true | None => false end in
        Ok (Some (pfx, a2, b2, token, has3), a2, match token with c :: _ => c | [] => 0 end)
      | _, _ => Err AttrError
      end
    | None =>
      match rmatch_at (whitespace C) line pos with
      | Some (e, _) => match nth_error line (N.to_nat e) with
                       | Some c => Ok (None, e, c) | None => Err IndexError end
      | None => Err AttrError
      end
    end
  end.

(* indentation handling at the first token of a logical line *)
Definition indent_part (s2 : st) (is_pm : bool) (initial start : N) (spos : N * N) : result (st * list Token) :=
  if new_line s2 && negb (chr_in initial [cr; nl; hash]) && (negb (initial =? bsl) || negb is_pm) then
    let s3 := mkSt (paren s2) (indents s2) (contstr s2) (contstr_start s2) (endprog s2) false (prefix s2) (addp s2) (fstack s2) (lnum s2) (max_ s2) in
    if (paren s3 =? 0) && match fstack s3 with [] => true | _ => false end then
      match last_opt (indents s3) with
      | None => Err IndexError
      | Some top =>
        let '(inds, t0) := if top <? start then (indents s3 ++ [start], [mkTok INDENT [] (fst spos) (snd spos) []]) else (indents s3, []) in
        match dedent_if_necessary start (lnum s3) spos inds with
        | Err x => Err x
        | Ok (inds', t1) =>
          Ok (mkSt (paren s3) inds' (contstr s3) (contstr_start s3) (endprog s3) (new_line s3) (prefix s3) (addp s3) (fstack s3) (lnum s3) (max_ s3), t0 ++ t1)
        end
      end
    else Ok (s3, [])
  else Ok (s2, []).

(* no pseudo match: one error token *)
Definition error_token (s3 : st) (toks : list Token) (line : str) (pos : N) (spos : N * N) : result (st * list Token * loop_end) :=
  match rmatch_at (whitespace C) line pos with
  | None => Err AttrError
  | Some (e, _) =>
    let dd : result (list N * list Token) :=
      if new_line s3 && (paren s3 =? 0) && match fstack s3 with [] => true | _ => false end
      then dedent_if_necessary e (lnum s3) spos (indents s3) else Ok (indents s3, []) in
    match dd with
    | Err x => Err x
    | Ok (inds, t3) =>
      match nth_error line (N.to_nat e) with
      | None => Err IndexError
      | Some c =>
        Ok (mkSt (paren s3) inds (contstr s3) (contstr_start s3) (endprog s3) false (prefix s3) [] (fstack s3) (lnum s3) (max_ s3),
            toks ++ t3 ++ [mkTok ERRORTOKEN [c] (lnum s3) e (addp s3 ++ sub line pos e)],
            Continue (e + 1))
      end
    end
  end.

(* the classification of a matched pseudo token *)
Definition classify (s3 : st) (toks : list Token) (line : str) (pfx : str) (start epos : N) (token : str) (has3 : bool)
           (initial : N) (spos : N * N) : result (st * list Token * loop_end) :=
  let emit := fun (t : ttype) (tk : str) => mkTok t tk (fst spos) (snd spos) pfx in
  let no_fs := match fstack s3 with [] => true | _ => false end in
  if chr_in initial digits || ((initial =? dot) && negb (str_eqb token [dot]) && negb (str_eqb token [dot;dot;dot])) then
    Ok (s3, toks ++ [emit NUMBER token], Continue epos)
  else if has3 then
    let brk : result (st * list Token) :=
      if mem_str token (always_break C) && (negb no_fs || negb (paren s3 =? 0)) then
        let s4 := mkSt 0 (indents s3) (contstr s3) (contstr_start s3) (endprog s3) (new_line s3) (prefix s3) (addp s3) [] (lnum s3) (max_ s3) in
        match rmatch_at (ws_dollar C) (upto line start) 0 with
        | Some (e, _) =>
          match dedent_if_necessary e (lnum s4) spos (indents s4) with
          | Err x => Err x
          | Ok (inds, t) => Ok (mkSt 0 inds (contstr s4) (contstr_start s4) (endprog s4) (new_line s4) (prefix s4) (addp s4) [] (lnum s4) (max_ s4), t)
          end
        | None => Ok (s4, [])
        end
      else Ok (s3, []) in
    match brk with
    | Err x => Err x
    | Ok (s4, t4) =>
      if isident token then Ok (s4, toks ++ t4 ++ [emit NAME token], Continue epos)
      else Ok (s4, toks ++ t4 ++ split_illegal token 0 [] false spos pfx (fst spos) (snd spos), Continue epos)
    end
  else if chr_in initial [cr; nl] then
    let fs := if existsb (fun f => negb (allow_multiline f)) (fstack s3) then [] else fstack s3 in
    let nofs := match fs with [] => true | _ => false end in
    if negb (new_line s3) && (paren s3 =? 0) && nofs then
      Ok (mkSt (paren s3) (indents s3) (contstr s3) (contstr_start s3) (endprog s3) true (prefix s3) (addp s3) fs (lnum s3) (max_ s3),
          toks ++ [emit NEWLINE token], Continue epos)
    else
      Ok (mkSt (paren s3) (indents s3) (contstr s3) (contstr_start s3) (endprog s3) true (prefix s3) (pfx ++ token) fs (lnum s3) (max_ s3),
          toks, Continue epos)
  else if initial =? hash then
    if match last_opt (fstack s3) with Some f => in_expr f | None => false end then
      Ok (s3, toks ++ [emit ERRORTOKEN [initial]], Continue (start + 1))
    else Ok (upd_addp s3 (pfx ++ token), toks, Continue epos)
  else if mem_str token (triple_quoted C) then
    match endpat token with
    | None => Err AttrError
    | Some r =>
      match rmatch_at r line epos with
      | Some (e, _) => Ok (mkSt (paren s3) (indents s3) (contstr s3) (contstr_start s3) (Some r) (new_line s3) (prefix s3) (addp s3) (fstack s3) (lnum s3) (max_ s3),
                           toks ++ [emit STRING (sub line start e)], Continue e)
      | None =>
        Ok (mkSt (paren s3) (indents s3) (from line start) spos (Some r) (new_line s3) (prefix s3) (addp s3) (fstack s3) (lnum s3) (max_ s3),
            toks, Break)
      end
    end
  else if mem_str [initial] (single_quoted C) || mem_str (upto token 2) (single_quoted C) || mem_str (upto token 3) (single_quoted C) then
    if match last_chr token with Some c => chr_in c [cr; nl] | None => false end then
      let ep := match endpat [initial] with
                | Some r => Some r
                | None => match nth_error token 1 with
                          | Some c1 => match endpat [c1] with
                                       | Some r => Some r
                                       | None => match nth_error token 2 with Some c2 => endpat [c2] | None => None end
                                       end
                          | None => None end
                end in
      Ok (mkSt (paren s3) (indents s3) (from line start) spos ep (new_line s3) (prefix s3) (addp s3) (fstack s3) (lnum s3) (max_ s3),
          toks, Break)
    else Ok (s3, toks ++ [emit STRING token], Continue epos)
  else
    match assoc token (fstring_map C) with
    | Some q =>
      Ok (upd_f s3 (fstack s3 ++ [mkF q 0%Z [] (0, 0) 0%Z]), toks ++ [emit FSTRING_START token], Continue epos)
    | None =>
      let rest := from line start in
      if (initial =? bsl) && (str_eqb rest [bsl; nl] || str_eqb rest [bsl; cr; nl] || str_eqb rest [bsl; cr]) then
        Ok (upd_addp s3 (addp s3 ++ pfx ++ rest), toks, Break)
      else
        (* operators *)
        let open := is_substr token [40; 91; 123] in
        let close := is_substr token [41; 93; 125] in
        match last_opt (fstack s3) with
        | Some f =>
          if open then
            Ok (upd_f s3 (upd_top (fstack s3) (mkF (quote f) (parens f + 1)%Z (prev_lines f) (last_start f) (spec_count f))),
                toks ++ [emit OP token], Continue epos)
          else if close then
            let p' := (parens f - 1)%Z in
            let f' := if (p' =? 0)%Z then mkF (quote f) 0%Z (prev_lines f) (last_start f) 0%Z
                      else if (p' <? spec_count f)%Z then mkF (quote f) p' (prev_lines f) (last_start f) (Z.max p' 0)
                      else mkF (quote f) p' (prev_lines f) (last_start f) (spec_count f) in
            Ok (upd_f s3 (upd_top (fstack s3) f'), toks ++ [emit OP token], Continue epos)
          else if starts_with [colon] token && (parens f - spec_count f =? 1)%Z then
            Ok (upd_f s3 (upd_top (fstack s3) (mkF (quote f) (parens f) (prev_lines f) (last_start f) (spec_count f + 1)%Z)),
                toks ++ [emit OP [colon]], Continue (start + 1))
          else Ok (s3, toks ++ [emit OP token], Continue epos)
        | None =>
          if open then
            Ok (mkSt (paren s3 + 1) (indents s3) (contstr s3) (contstr_start s3) (endprog s3) (new_line s3) (prefix s3) (addp s3) (fstack s3) (lnum s3) (max_ s3),
                toks ++ [emit OP token], Continue epos)
          else if close then
            Ok (mkSt (if paren s3 =? 0 then 0 else paren s3 - 1) (indents s3) (contstr s3) (contstr_start s3) (endprog s3) (new_line s3) (prefix s3) (addp s3) (fstack s3) (lnum s3) (max_ s3),
                toks ++ [emit OP token], Continue epos)
          else Ok (s3, toks ++ [emit OP token], Continue epos)
        end
    end.

(* one iteration of `while pos < max_` : returns new state, emitted tokens, and how to go on *)
Definition body (s : st) (line : str) (pos : N) : result (st * list Token * loop_end) :=
  match fs_part s line pos with
  | Err x => Err x
  | Ok (s1, toks1, Some e, _) => Ok (s1, toks1, e)
  | Ok (s1, toks1, None, pos) =>
    if negb (no_pending (fstack s1)) then Err Guard else                 (* guard G9: pending f-string text was flushed *)
    match pm_info s1 line pos with
    | Err x => Err x
    | Ok (pmi, start, initial) =>
      match pmi with
      | Some (pfx, _, epos, [], _) =>
        (* token == '' : only white space / comments left on this line *)
        match pfx with
        | [] => Err AssertFail
        | _ =>
          if epos =? len line then                                       (* guard G8 *)
            Ok (mkSt (paren s1) (indents s1) (contstr s1) (contstr_start s1) (endprog s1) (new_line s1) pfx pfx (fstack s1) (lnum s1) (max_ s1), toks1, Break)
          else Err Guard
        end
      | _ =>
        (* after a pseudomatch: prefix = pfx, additional_prefix = '' *)
        let s2 := match pmi with
                  | Some (pfx, _, _, _, _) => mkSt (paren s1) (indents s1) (contstr s1) (contstr_start s1) (endprog s1) (new_line s1) pfx [] (fstack s1) (lnum s1) (max_ s1)
                  | None => s1 end in
        let spos := (lnum s2, start) in
        let is_pm := match pmi with Some _ => true | None => false end in
        match indent_part s2 is_pm initial start spos with
        | Err x => Err x
        | Ok (s3, toks2) =>
          let toks := toks1 ++ toks2 in
          match pmi with
          | None => error_token s3 toks line pos spos
          | Some (pfx, _, epos, token, has3) => classify s3 toks line pfx start epos token has3 initial spos
          end
        end
      end
    end
  end.

Fixpoint scan (fuel : nat) (s : st) (line : str) (pos : N) (acc : list Token) : result (st * list Token) :=
  match fuel with
  | O => Err OutOfFuel
  | S f =>
    if pos <? max_ s then
      match body s line pos with
      | Err x => Err x
      | Ok (s', toks, Continue pos') => scan f s' line pos' (acc ++ toks)
      | Ok (s', toks, Break) => Ok (s', acc ++ toks)
      end
    else Ok (s, acc)
  end.

Definition bom : N := 65279.

(* one physical line, once the first-line treatment (BOM, start column) is done *)
Definition line_core (s : st) (line : str) (pos : N) : result (st * list Token) :=
  let fuel := S (S (2 * length line)) in
  match contstr s with
  | [] => scan fuel s line pos []
  | _ =>
    match endprog s with
    | None => Err AttrError
    | Some r =>
      match rmatch_at r line 0 with
      | Some (e, _) =>
        let tok := mkTok STRING (contstr s ++ upto line e) (fst (contstr_start s)) (snd (contstr_start s)) (prefix s) in
        scan fuel (mkSt (paren s) (indents s) [] (contstr_start s) (endprog s) (new_line s) (prefix s) (addp s) (fstack s) (lnum s) (max_ s))
             line e [tok]
      | None =>
        Ok (mkSt (paren s) (indents s) (contstr s ++ line) (contstr_start s) (endprog s) (new_line s) (prefix s) (addp s) (fstack s) (lnum s) (max_ s), [])
      end
    end
  end.

(* one physical line *)
Definition line_step (s : st) (line0 : str) (first : bool) (start_col : N) : result (st * list Token) :=
  let s := mkSt (paren s) (indents s) (contstr s) (contstr_start s) (endprog s) (new_line s) (prefix s) (addp s) (fstack s) (lnum s + 1) (len line0) in
  if first then
    let '(s, line) := match line0 with
                      | c :: t => if c =? bom then (upd_addp s [bom], t) else (s, line0)
                      | [] => (s, line0) end in
    let line' := repeat 94 (N.to_nat start_col) ++ line in
    line_core (mkSt (paren s) (indents s) (contstr s) (contstr_start s) (endprog s) (new_line s) (prefix s) (addp s) (fstack s) (lnum s) (len line + start_col)) line' start_col
  else line_core s line0 0.

Fixpoint lines_loop (s : st) (lines : list str) (first : bool) (start_col : N) (acc : list Token)
  : result (st * list Token) :=
  match lines with
  | [] => Ok (s, acc)
  | l :: rest =>
    match line_step s l first start_col with
    | Err x => Err x
    | Ok (s', toks) => lines_loop s' rest false start_col (acc ++ toks)
    end
  end.

Definition tokenize_lines (lines : list str) (indents0 : list N) (start_line start_col : N) (is_first : bool)
  : result (list Token) :=
  let s0 := mkSt 0 indents0 [] (0, 0) None true [] [] [] (start_line - 1) 0 in
  match lines_loop s0 lines is_first start_col [] with
  | Err x => Err x
  | Ok (s, toks) =>
    let t1 := match contstr s with
              | [] => []
              | _ => [mkTok ERRORTOKEN (contstr s) (fst (contstr_start s)) (snd (contstr_start s)) (prefix s)] end in
    let t2 := match last_opt (fstack s) with
              | Some f => match prev_lines f with
                          | [] => []
                          | _ => [mkTok FSTRING_STRING (prev_lines f) (fst (last_start f)) (snd (last_start f)) []] end
              | None => [] end in
    let t3 := map (fun _ => mkTok DEDENT [] (lnum s) (max_ s) []) (tl (indents s)) in
    (* guard G7: pending f-string text is flushed before the end marker's prefix *)
    if forallb (fun f => match prev_lines f with [] => true | _ => false end) (removelast (fstack s))
       && (match t2 with [] => true | _ => match addp s with [] => true | _ => false end end)
    then Ok (toks ++ t1 ++ t2 ++ t3 ++ [mkTok ENDMARKER [] (lnum s) (max_ s) (addp s)])
    else Err Guard
  end.

(* clean line boundaries (C04): after which lines could a tokenizer be restarted with only the indentation stack?
   One entry per line: Some indentation-stack when the state after that line is clean. *)
Definition cleanb (s : st) : bool :=
  (paren s =? 0) && is_nil (contstr s) && is_nil (fstack s) && new_line s && is_nil (addp s).
Fixpoint resume_scan (s : st) (lines : list str) (first : bool) (start_col : N) : list (option (list N)) :=
  match lines with
  | [] => []
  | l :: rest =>
    match line_step s l first start_col with
    | Err _ => []
    | Ok (s', _) => (if cleanb s' then Some (indents s') else None) :: resume_scan s' rest false start_col
    end
  end.
Definition resume_points (lines : list str) (indents0 : list N) (start_line start_col : N) (is_first : bool) : list (option (list N)) :=
  resume_scan (mkSt 0 indents0 [] (0, 0) None true [] [] [] (start_line - 1) 0) lines is_first start_col.

End Tokenizer.
