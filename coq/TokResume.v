From Coq Require Import List NArith ZArith Bool Lia.
Import ListNotations.
Require Import Regex Tok TokTiles TokShift.
Open Scope N_scope.

(* C04, locality of the tokenizer in the text: restarting at a clean line boundary.
   If, after the lines l1, the tokenizer is in a clean state (no open bracket, no string or f-string continued from an
   earlier line, at the start of a logical line, no pending backslash / comment prefix), then the tokens of l1 ++ l2 are
   the tokens produced for l1 followed by the tokens of l2 tokenized on its own, from the next line number, with the
   indentation stack reached after l1 and is_first_token = False.  This is the tokenizer fact behind DiffParser
   re-tokenizing only the changed tail of a file (`_diff_tokenize(lines[parsed_until_line:], ..., line_offset)`) from
   the indentation stack of the nodes it kept.
   The proof re-uses the simulation of TokShift with k = 0: the relation there leaves the end-pattern, the start position
   and the prefix of a continued string unconstrained while no string is continued, which is exactly the difference between
   the state reached after l1 and a fresh initial state. *)

Lemma shT0 t : shT 0 t = t.
Proof. destruct t as [a b c d e]. unfold shT. cbn [ty ts tline tcol tpre]. rewrite N.add_0_r. reflexivity. Qed.
Lemma map_shT0 l : map (shT 0) l = l.
Proof. induction l as [|a l IH]; [reflexivity|]. cbn [map]. rewrite shT0, IH. reflexivity. Qed.

Section Resume.
Variable C : coll.
Variable isident : str -> bool.
Variable isspace : N -> bool.

Definition clean (s : st) : Prop :=
  paren s = 0 /\ contstr s = [] /\ fstack s = [] /\ new_line s = true /\ addp s = [].

Definition prepend (t1 : list Token) (r : result (st * list Token)) : result (st * list Token) :=
  match r with Ok (s, t) => Ok (s, t1 ++ t) | Err e => Err e end.


Lemma lines_loop_acc : forall lines s first sc acc,
  lines_loop C isident isspace s lines first sc acc = prepend acc (lines_loop C isident isspace s lines first sc []).
Proof.
  induction lines as [|l rest IH]; intros s first sc acc; cbn [Tok.lines_loop prepend].
  - rewrite app_nil_r. reflexivity.
  - destruct (line_step C isident isspace s l first sc) as [[s1 t]|]; [|reflexivity].
    rewrite (IH s1 false sc (acc ++ t)), (IH s1 false sc ([] ++ t)). cbn [app].
    destruct (lines_loop C isident isspace s1 rest false sc []) as [[s2 t2]|]; [|reflexivity].
    cbn [prepend]. rewrite app_assoc. reflexivity.
Qed.

Lemma lines_loop_app : forall r x l2 s first sc acc,
  lines_loop C isident isspace s ((x :: r) ++ l2) first sc acc =
  match lines_loop C isident isspace s (x :: r) first sc acc with
  | Ok (s1, t1) => lines_loop C isident isspace s1 l2 false sc t1
  | Err e => Err e end.
Proof.
  induction r as [|y r IH]; intros x l2 s first sc acc.
  - cbn [app Tok.lines_loop]. destruct (line_step C isident isspace s x first sc) as [[s1 t]|]; reflexivity.
  - change ((x :: y :: r) ++ l2) with (x :: ((y :: r) ++ l2)). cbn [Tok.lines_loop].
    destruct (line_step C isident isspace s x first sc) as [[s1 t]|]; [|reflexivity].
    rewrite IH. reflexivity.
Qed.

Lemma finish_prepend : forall t1 r,
  finish (prepend t1 r) = match finish r with Ok t => Ok (t1 ++ t) | Err e => Err e end.
Proof.
  intros t1 r. destruct r as [[s t]|]; [|reflexivity]. cbn [prepend finish].
  match goal with |- (if ?g then _ else _) = _ => destruct g end; [|reflexivity]. rewrite <- app_assoc. reflexivity.
Qed.

(* the state after a clean line boundary and a fresh initial state behave alike on the next line *)
Lemma line_step_resume : forall s1 l sc,
  clean s1 ->
  R2 0 (line_step C isident isspace s1 l false sc)
       (line_step C isident isspace (mkSt 0 (indents s1) [] (0, 0) None true [] [] [] (lnum s1 + 1 - 1) 0) l false sc).
Proof.
  intros s1 l sc (P & CS & FS & NL & AP). unfold Tok.line_step.
  cbn [paren indents contstr contstr_start endprog new_line prefix addp fstack lnum max_].
  apply line_core_shift. unfold RS. cbn [paren indents contstr contstr_start endprog new_line prefix addp fstack lnum max_].
  rewrite P, CS, FS, NL, AP. repeat split; try reflexivity; try (intros X; contradiction); [lia|constructor].
Qed.

(* ---------- the line counter: only line_step moves it ---------- *)
Ltac crush H :=
  repeat (match type of H with
      | match ?x with _ => _ end = Ok _ => let E := fresh "E" in destruct x eqn:E; try discriminate H
      | (if ?x then _ else _) = Ok _ => let E := fresh "E" in destruct x eqn:E; try discriminate H
      | (let '(_, _) := ?x in _) = Ok _ => let E := fresh "E" in destruct x eqn:E; try discriminate H
      end);
  inversion H; subst; cbn [lnum upd_f upd_addp]; try reflexivity.

Lemma fs_text_lnum : forall s tos line pos s1 t oe p, fs_text C s tos line pos = Ok (s1, t, oe, p) -> lnum s1 = lnum s.
Proof. intros s tos line pos s1 t oe p H. unfold fs_text in H. crush H. Qed.
Lemma fs_part_lnum : forall s line pos s1 t oe p, fs_part C isspace s line pos = Ok (s1, t, oe, p) -> lnum s1 = lnum s.
Proof.
  intros s line pos s1 t oe p H. unfold fs_part in H.
  destruct (last_opt (fstack s)) as [tos|]; [|inversion H; reflexivity].
  destruct (fs_text C s tos line pos) as [[[[sa ta] oa] pa]|] eqn:FT; [|discriminate]. apply fs_text_lnum in FT.
  destruct oa as [e|]; [inversion H; subst; exact FT|].
  destruct (close_fstring isspace [] (fstack sa) (from line pa) (lnum sa) pa (addp sa)) as [[[[tok ql] rem]|]|]; [| |discriminate];
    inversion H; subst; cbn [lnum upd_f upd_addp]; exact FT.
Qed.
Lemma indent_part_lnum : forall s is_pm initial start spos s3 t, indent_part s is_pm initial start spos = Ok (s3, t) -> lnum s3 = lnum s.
Proof. intros s is_pm initial start spos s3 t H. apply indent_part_spec in H. tauto. Qed.
Lemma error_token_lnum : forall s3 toks line pos spos s4 t le, error_token C s3 toks line pos spos = Ok (s4, t, le) -> lnum s4 = lnum s3.
Proof. intros s3 toks line pos spos s4 t le H. unfold error_token in H. crush H. Qed.
Lemma classify_lnum : forall s3 toks line pfx start epos token has3 initial spos s4 t le,
  classify C isident s3 toks line pfx start epos token has3 initial spos = Ok (s4, t, le) -> lnum s4 = lnum s3.
Proof. intros s3 toks line pfx start epos token has3 initial spos s4 t le H. unfold classify in H.
  destruct (chr_in initial digits || _); [inversion H; reflexivity|].
  destruct has3.
  { cbn [lnum indents contstr contstr_start endprog new_line prefix addp max_] in H.
    destruct (mem_str token (always_break C) && _);
      [destruct (rmatch_at (ws_dollar C) (upto line start) 0) as [[e cs]|]; [destruct (dedent_if_necessary e (lnum s3) spos (indents s3)) as [[inds t0]|]; [|discriminate]|]|];
      destruct (isident token); inversion H; subst; reflexivity. }
  crush H.
Qed.
Lemma body_lnum : forall s line pos s1 t le, body C isident isspace s line pos = Ok (s1, t, le) -> lnum s1 = lnum s.
Proof.
  intros s line pos s1 t le H. unfold Tok.body in H.
  destruct (fs_part C isspace s line pos) as [[[[sa ta] oa] pa]|] eqn:FP; [|discriminate]. apply fs_part_lnum in FP.
  destruct oa as [e|]; [inversion H; subst; exact FP|].
  destruct (negb (no_pending (fstack sa))); [discriminate|].
  destruct (pm_info C sa line pa) as [[[pmi start] initial]|]; [|discriminate].
  destruct pmi as [[[[[pfx a2] epos] token] has3]|].
  - destruct token as [|c tk].
    + destruct pfx; [discriminate|]. destruct (epos =? len line); [|discriminate]. inversion H; subst. exact FP.
    + match type of H with match indent_part ?s2 ?a ?b ?c ?d with _ => _ end = _ => destruct (indent_part s2 a b c d) as [[s3 t2]|] eqn:IP; [|discriminate] end.
      apply indent_part_lnum in IP. apply classify_lnum in H. cbn [lnum] in IP. congruence.
  - match type of H with match indent_part ?s2 ?a ?b ?c ?d with _ => _ end = _ => destruct (indent_part s2 a b c d) as [[s3 t2]|] eqn:IP; [|discriminate] end.
    apply indent_part_lnum in IP. apply error_token_lnum in H. congruence.
Qed.
Lemma scan_lnum : forall fuel s line pos acc s1 t, scan C isident isspace fuel s line pos acc = Ok (s1, t) -> lnum s1 = lnum s.
Proof.
  induction fuel as [|f IH]; intros s line pos acc s1 t H; [discriminate|]. cbn [Tok.scan] in H.
  destruct (pos <? max_ s); [|inversion H; reflexivity].
  destruct (body C isident isspace s line pos) as [[[sa ta] le]|] eqn:B; [|discriminate]. apply body_lnum in B.
  destruct le as [p|]; [apply IH in H; congruence|inversion H; subst; exact B].
Qed.
Lemma line_core_lnum : forall s line pos s1 t, line_core C isident isspace s line pos = Ok (s1, t) -> lnum s1 = lnum s.
Proof.
  intros s line pos s1 t H. unfold line_core in H.
  destruct (contstr s); [apply scan_lnum in H; exact H|].
  destruct (endprog s) as [r|]; [|discriminate]. destruct (rmatch_at r line 0) as [[e cs]|]; [apply scan_lnum in H; exact H|inversion H; reflexivity].
Qed.
Lemma line_step_lnum : forall s l first sc s1 t, line_step C isident isspace s l first sc = Ok (s1, t) -> lnum s1 = lnum s + 1.
Proof.
  intros s l first sc s1 t H. unfold Tok.line_step in H. destruct first.
  - destruct l as [|c r]; [apply line_core_lnum in H; exact H|]. destruct (c =? bom); apply line_core_lnum in H; exact H.
  - apply line_core_lnum in H. exact H.
Qed.
Lemma lines_loop_lnum : forall lines s first sc acc s1 t,
  lines_loop C isident isspace s lines first sc acc = Ok (s1, t) -> lnum s1 = lnum s + N.of_nat (length lines).
Proof.
  induction lines as [|l rest IH]; intros s first sc acc s1 t H; cbn [Tok.lines_loop] in H.
  - inversion H; subst. simpl. lia.
  - destruct (line_step C isident isspace s l first sc) as [[sa ta]|] eqn:LS; [|discriminate].
    apply line_step_lnum in LS. apply IH in H. cbn [length]. lia.
Qed.

Lemma tok_resume_at : forall x r l2 inds sl sc first s1 t1,
  lines_loop C isident isspace (mkSt 0 inds [] (0, 0) None true [] [] [] (sl - 1) 0) (x :: r) first sc [] = Ok (s1, t1) ->
  clean s1 ->
  tokenize_lines C isident isspace ((x :: r) ++ l2) inds sl sc first =
  match l2 with
  | [] => Ok (t1 ++ map (fun _ => mkTok DEDENT [] (lnum s1) (max_ s1) []) (tl (indents s1)) ++ [mkTok ENDMARKER [] (lnum s1) (max_ s1) []])
  | _ => match tokenize_lines C isident isspace l2 (indents s1) (lnum s1 + 1) sc false with
         | Ok rest => Ok (t1 ++ rest) | Err e => Err e end
  end.
Proof.
  intros x r l2 inds sl sc first s1 t1 H CL. rewrite tokenize_lines_finish, lines_loop_app, H.
  destruct l2 as [|l rest].
  - cbn [Tok.lines_loop finish]. destruct CL as (P & CS & FS & NL & AP). rewrite CS, FS, AP. cbn. reflexivity.
  - rewrite lines_loop_acc, finish_prepend, tokenize_lines_finish.
    assert (E: finish (lines_loop C isident isspace (mkSt 0 (indents s1) [] (0, 0) None true [] [] [] (lnum s1 + 1 - 1) 0) (l :: rest) false sc []) =
               finish (lines_loop C isident isspace s1 (l :: rest) false sc [])).
    { rewrite (finish_shift 0 (lines_loop C isident isspace s1 (l :: rest) false sc []) (lines_loop C isident isspace (mkSt 0 (indents s1) [] (0, 0) None true [] [] [] (lnum s1 + 1 - 1) 0) (l :: rest) false sc [])).
      - destruct (finish (lines_loop C isident isspace s1 (l :: rest) false sc [])) as [t|]; [rewrite map_shT0|]; reflexivity.
      - cbn [Tok.lines_loop]. pose proof (line_step_resume s1 l sc CL) as LS. unfold R2 in LS.
        destruct (line_step C isident isspace s1 l false sc) as [[sa ta]|];
          destruct (line_step C isident isspace (mkSt 0 (indents s1) [] (0, 0) None true [] [] [] (lnum s1 + 1 - 1) 0) l false sc) as [[sb tb]|]; try contradiction; [|exact LS].
        destruct LS as (RR & ->). cbn [app]. apply (lines_loop_shift C isident isspace 0 rest sa sb false sc ta RR). }
    rewrite E. reflexivity.
Qed.

(* the statement in terms of the caller's line numbers: l2 is tokenized from line sl + |l1| *)
Theorem tok_resume : forall l1 l2 inds sl sc first s1 t1,
  1 <= sl -> l1 <> [] ->
  lines_loop C isident isspace (mkSt 0 inds [] (0, 0) None true [] [] [] (sl - 1) 0) l1 first sc [] = Ok (s1, t1) ->
  clean s1 ->
  tokenize_lines C isident isspace l1 inds sl sc first =
    Ok (t1 ++ map (fun _ => mkTok DEDENT [] (lnum s1) (max_ s1) []) (tl (indents s1)) ++ [mkTok ENDMARKER [] (lnum s1) (max_ s1) []]) /\
  (l2 <> [] ->
   tokenize_lines C isident isspace (l1 ++ l2) inds sl sc first =
   match tokenize_lines C isident isspace l2 (indents s1) (sl + N.of_nat (length l1)) sc false with
   | Ok rest => Ok (t1 ++ rest) | Err e => Err e end).
Proof.
  intros l1 l2 inds sl sc first s1 t1 SL NE H CL. destruct l1 as [|x r]; [contradiction|].
  split.
  - pose proof (tok_resume_at x r [] inds sl sc first s1 t1 H CL) as T. rewrite app_nil_r in T. exact T.
  - intros NE2. rewrite (tok_resume_at x r l2 inds sl sc first s1 t1 H CL). destruct l2 as [|l rest]; [contradiction|].
    apply lines_loop_lnum in H. cbn [lnum] in H.
    replace (lnum s1 + 1) with (sl + N.of_nat (length (x :: r))) by lia. reflexivity.
Qed.

(* ---------- the executable list of clean boundaries ---------- *)
Lemma cleanb_clean s : cleanb s = true -> clean s.
Proof.
  unfold cleanb, clean, is_nil. intros H. repeat (apply andb_prop in H; destruct H as [H ?]).
  apply N.eqb_eq in H. destruct (contstr s); [|discriminate]. destruct (fstack s); [|discriminate]. destruct (addp s); [|discriminate].
  repeat split; try reflexivity; assumption.
Qed.

Lemma resume_scan_spec : forall lines s first sc i inds1,
  nth_error (resume_scan C isident isspace s lines first sc) i = Some (Some inds1) ->
  exists s1 t1, lines_loop C isident isspace s (firstn (S i) lines) first sc [] = Ok (s1, t1) /\ clean s1 /\ indents s1 = inds1 /\
                length (firstn (S i) lines) = S i.
Proof.
  induction lines as [|l rest IH]; intros s first sc i inds1 H; [destruct i; discriminate|].
  cbn [Tok.resume_scan] in H. destruct (line_step C isident isspace s l first sc) as [[sa ta]|] eqn:LS; [|destruct i; discriminate].
  destruct i as [|i].
  - cbn [nth_error] in H. destruct (cleanb sa) eqn:CB; [|discriminate]. inversion H; subst.
    exists sa, ta. cbn [firstn Tok.lines_loop]. rewrite LS. cbn [app]. split; [reflexivity|split; [apply cleanb_clean; exact CB|split; reflexivity]].
  - cbn [nth_error] in H. destruct (IH _ _ _ _ _ H) as (s1 & t1 & LL & CL & IN & LEN).
    exists s1, (ta ++ t1). change (firstn (S (S i)) (l :: rest)) with (l :: firstn (S i) rest). cbn [Tok.lines_loop]. rewrite LS. cbn [app].
    rewrite lines_loop_acc, LL. cbn [prepend]. split; [reflexivity|split; [exact CL|split; [exact IN|cbn [length]; rewrite LEN; reflexivity]]].
Qed.

Theorem tok_resume_points : forall lines inds sl sc first i inds1,
  1 <= sl ->
  nth_error (resume_points C isident isspace lines inds sl sc first) i = Some (Some inds1) ->
  exists t1 d e,
    tokenize_lines C isident isspace (firstn (S i) lines) inds sl sc first = Ok (t1 ++ d ++ [e]) /\
    Forall (fun t => ty t = DEDENT) d /\ length d = length (tl inds1) /\ ty e = ENDMARKER /\
    (skipn (S i) lines <> [] ->
     tokenize_lines C isident isspace lines inds sl sc first =
     match tokenize_lines C isident isspace (skipn (S i) lines) inds1 (sl + N.of_nat (S i)) sc false with
     | Ok rest => Ok (t1 ++ rest) | Err x => Err x end).
Proof.
  intros lines inds sl sc first i inds1 SL H. unfold resume_points in H.
  destruct (resume_scan_spec _ _ _ _ _ _ H) as (s1 & t1 & LL & CL & IN & LEN).
  assert (NE: firstn (S i) lines <> []) by (intros X; rewrite X in LEN; discriminate).
  destruct (tok_resume (firstn (S i) lines) (skipn (S i) lines) inds sl sc first s1 t1 SL NE LL CL) as (T1 & T2).
  exists t1, (map (fun _ => mkTok DEDENT [] (lnum s1) (max_ s1) []) (tl (indents s1))), (mkTok ENDMARKER [] (lnum s1) (max_ s1) []).
  split; [exact T1|]. split; [apply Forall_forall; intros t IT; apply in_map_iff in IT; destruct IT as (z & <- & _); reflexivity|].
  split.
  - rewrite map_length. subst inds1. reflexivity.
  - split; [reflexivity|]. intros NE2. specialize (T2 NE2). rewrite firstn_skipn, LEN, IN in T2. exact T2.
Qed.

End Resume.
Print Assumptions tok_resume.
Print Assumptions tok_resume_points.
