Require Import Regex Tok Engine Prefix Lines LinesDrop Model Deriv DfaCheck Cache Tree Refactor Issues Nav EndPos.
Definition cache_run (fixA fixB : bool) (h : list Cache.op) : list (nat * nat) := Cache.run (fun k => k) fixA fixB (Cache.mkS 0 None None) h.
From Coq Require Extraction ExtrOcamlBasic.
Extraction Blacklist String List Bool.
Extraction "model.ml" Model.run_tok Model.run_resume_points Model.tokenize_text Model.parse_tokens Model.parse_text Model.plan_table
  Model.split_prefix_m Model.regex_by_id Regex.rmatch Lines.split_keep LinesDrop.split_plain Prefix.part_end Prefix.spacing_part DfaCheck.check_rule cache_run Refactor.refactor Tree.get_code Issues.add_issue Issues.err_add Issues.finalize Nav.leaf_paths Nav.get_next_leaf Nav.get_previous_leaf Nav.nav_lookup Nav.nav_end Nav.pos_leb Nav.first_leaf_path Nav.last_leaf_path EndPos.end_pos.
