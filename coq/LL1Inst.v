From Coq Require Import List NArith ZArith Bool Lia.
Import ListNotations.
Require Import Regex Tok Engine LL1.
Open Scope N_scope.

(* Instantiation of the abstract completeness theorem (LL1.complete) with the tables dumped from
   the running generator: boolean checkers over the finite tables, each proved to establish one
   hypothesis of the theorem.  The FOLLOW table is supplied by the translator and only CHECKED to be
   a post-fixpoint, so it is not trusted. *)

Lemma ttype_eqb_eq a b : ttype_eqb a b = true <-> a = b.
Proof. destruct a, b; simpl; split; intros H; try reflexivity; try discriminate. Qed.
Lemma label_eqb_eq a b : label_eqb a b = true <-> a = b.
Proof.
  destruct a as [x|x], b as [y|y]; simpl; split; intros H; try discriminate.
  - apply ttype_eqb_eq in H. subst. reflexivity.
  - inversion H. apply ttype_eqb_eq. reflexivity.
  - apply N.eqb_eq in H. subst. reflexivity.
  - inversion H. apply N.eqb_refl.
Qed.

Section Inst.
Variable G : gram.
Variable TR : list (N * list (label * plan)).
Variable FWT : list (N * list label).            (* rule -> labels that may follow it (candidate, checked) *)

Definition arcT (q : N) (a : label) : option N :=
  match st_of G q with
  | Some d => (fix go (l : list (sym * N)) : option N :=
                 match l with
                 | [] => None
                 | (T a', nx) :: t => if label_eqb a' a then Some nx else go t
                 | _ :: t => go t end) (d_arcs d)
  | None => None end.
Definition arcN (q : N) (B : N) : option N := arc_nt G q B.
Definition startR (B : N) : N := match assocN B (g_start G) with Some q => q | None => 0 end.
Definition plansI (q : N) (a : label) : option (N * list N) :=
  match trans TR q a with Some pl => Some (p_next pl, p_pushes pl) | None => None end.
Definition fw_list (B : N) : list label := match assocN B FWT with Some l => l | None => [] end.
Definition FW (B : N) (t : label) : bool := existsb (fun x => label_eqb x t) (fw_list B).
Definition validR (B : N) : Prop := In B (map fst (g_start G)).

(* ---- elementary facts about the lookups ---- *)
Lemma find_state_in l q d : find_state l q = Some d -> In d l /\ d_id d = q.
Proof.
  induction l as [|x r IH]; simpl; [discriminate|]. destruct (d_id x =? q) eqn:E.
  - intros H. inversion H; subst. split; [left; reflexivity|apply N.eqb_eq; exact E].
  - intros H. destruct (IH H). split; [right|]; assumption.
Qed.

Lemma arcT_in q a q' : arcT q a = Some q' -> exists d, st_of G q = Some d /\ In (T a, q') (d_arcs d).
Proof.
  unfold arcT. destruct (st_of G q) as [d|] eqn:S; [|discriminate]. intros H. exists d. split; [reflexivity|].
  induction (d_arcs d) as [|[s nx] r IH]; [discriminate|]. destruct s as [a'|B].
  - destruct (label_eqb a' a) eqn:E.
    + apply label_eqb_eq in E. subst. inversion H; subst. left. reflexivity.
    + right. apply IH. exact H.
  - right. apply IH. exact H.
Qed.
Lemma arcN_in q B q' : arcN q B = Some q' -> exists d, st_of G q = Some d /\ In (NT B, q') (d_arcs d).
Proof.
  unfold arcN, arc_nt. destruct (st_of G q) as [d|] eqn:S; [|discriminate]. intros H. exists d. split; [reflexivity|].
  induction (d_arcs d) as [|[s nx] r IH]; [discriminate|]. destruct s as [a'|B'].
  - right. apply IH. exact H.
  - destruct (B' =? B) eqn:E.
    + apply N.eqb_eq in E. subst. inversion H; subst. left. reflexivity.
    + right. apply IH. exact H.
Qed.
Lemma st_of_in q d : st_of G q = Some d -> In d (g_states G).
Proof. unfold st_of. intros H. apply find_state_in in H. tauto. Qed.
Lemma rule_of_st q d : st_of G q = Some d -> rule_of G q = d_rule d.
Proof. unfold rule_of. intros ->. reflexivity. Qed.
Lemma final_st q d : st_of G q = Some d -> final G q = d_final d.
Proof. unfold final. intros ->. reflexivity. Qed.

(* ---- checker 1: arcs stay inside their rule; start states belong to their rule ---- *)
Definition arcs_in_rule_ok : bool :=
  forallb (fun d => forallb (fun '(_, nx) => rule_of G nx =? d_rule d) (d_arcs d)) (g_states G).
Definition starts_ok : bool := forallb (fun '(B, _) => rule_of G (startR B) =? B) (g_start G).

Lemma rule_arc_gen : arcs_in_rule_ok = true -> forall q d s nx, st_of G q = Some d -> In (s, nx) (d_arcs d) -> rule_of G nx = rule_of G q.
Proof.
  intros H q d s nx S I. unfold arcs_in_rule_ok in H. rewrite forallb_forall in H.
  specialize (H d (st_of_in q d S)). rewrite forallb_forall in H. specialize (H (s, nx) I). simpl in H.
  apply N.eqb_eq in H. rewrite (rule_of_st q d S). exact H.
Qed.
Lemma rule_arcT_ok : arcs_in_rule_ok = true -> forall q a q', arcT q a = Some q' -> rule_of G q' = rule_of G q.
Proof. intros H q a q' A. destruct (arcT_in q a q' A) as (d & S & I). eapply rule_arc_gen; eassumption. Qed.
Lemma rule_arcN_ok : arcs_in_rule_ok = true -> forall q B q', arcN q B = Some q' -> rule_of G q' = rule_of G q.
Proof. intros H q B q' A. destruct (arcN_in q B q' A) as (d & S & I). eapply rule_arc_gen; eassumption. Qed.
Lemma rule_start_ok : starts_ok = true -> forall B, validR B -> rule_of G (startR B) = B.
Proof.
  intros H B V. unfold starts_ok in H. rewrite forallb_forall in H. unfold validR in V.
  apply in_map_iff in V as ([B' q] & E & I). simpl in E. subst B'. specialize (H _ I). simpl in H. apply N.eqb_eq in H. exact H.
Qed.

(* ---- checker 2: the plan table contains every first chain (LL(1) uniqueness is implied: plans is a function) ---- *)
Fixpoint all_chains (fuel : nat) (B : N) : option (list (label * list N)) :=
  match fuel with
  | O => None
  | S f =>
    match st_of G (startR B) with
    | None => Some []
    | Some d =>
      (fix go (l : list (sym * N)) : option (list (label * list N)) :=
         match l with
         | [] => Some []
         | (T a, nx) :: t => match go t with Some r => Some ((a, [nx]) :: r) | None => None end
         | (NT C, nx) :: t =>
           match all_chains f C, go t with
           | Some lc, Some r => Some (map (fun '(a, ch) => (a, nx :: ch)) lc ++ r)
           | _, _ => None end
         end) (d_arcs d)
    end
  end.

Lemma all_chains_complete : forall fuel B l, all_chains fuel B = Some l ->
  forall a ch, first_chain N label N arcT arcN startR B a ch -> In (a, ch) l.
Proof.
  induction fuel as [|f IH]; intros B l H a ch FC; [discriminate|]. cbn [all_chains] in H.
  inversion FC as [B0 a0 s1 AT|B0 C a0 s ch' AN FC']; subst.
  - destruct (arcT_in _ _ _ AT) as (d & S & I). rewrite S in H. clear S AT FC.
    revert l H. induction (d_arcs d) as [|[sy nx] r IHr]; intros l H; [destruct I|].
    destruct I as [E|I].
    + inversion E; subst. destruct ((fix go (l0 : list (sym * N)) := _) r) as [r'|]; [|discriminate].
      inversion H; subst. left. reflexivity.
    + destruct sy as [a'|C].
      * destruct ((fix go (l0 : list (sym * N)) := _) r) as [r'|] eqn:GO; [|discriminate]. inversion H; subst.
        right. apply (IHr I r' eq_refl).
      * destruct (all_chains f C) as [lc|]; [|discriminate].
        destruct ((fix go (l0 : list (sym * N)) := _) r) as [r'|] eqn:GO; [|discriminate]. inversion H; subst.
        apply in_or_app. right. apply (IHr I r' eq_refl).
  - destruct (arcN_in _ _ _ AN) as (d & S & I). rewrite S in H. clear S AN FC.
    revert l H. induction (d_arcs d) as [|[sy nx] r IHr]; intros l H; [destruct I|].
    destruct I as [E|I].
    + inversion E; subst. destruct (all_chains f C) as [lc|] eqn:AC; [|discriminate].
      destruct ((fix go (l0 : list (sym * N)) := _) r) as [r'|]; [|discriminate]. inversion H; subst.
      apply in_or_app. left. apply in_map_iff. exists (a, ch'). split; [reflexivity|]. eapply IH; eassumption.
    + destruct sy as [a'|C'].
      * destruct ((fix go (l0 : list (sym * N)) := _) r) as [r'|] eqn:GO; [|discriminate]. inversion H; subst.
        right. apply (IHr I r' eq_refl).
      * destruct (all_chains f C') as [lc|]; [|discriminate].
        destruct ((fix go (l0 : list (sym * N)) := _) r) as [r'|] eqn:GO; [|discriminate]. inversion H; subst.
        apply in_or_app. right. apply (IHr I r' eq_refl).
Qed.

Definition list_N_eqb (a b : list N) : bool :=
  (fix go (a b : list N) : bool := match a, b with [] , [] => true | x :: a, y :: b => (x =? y) && go a b | _, _ => false end) a b.
Lemma list_N_eqb_eq a b : list_N_eqb a b = true -> a = b.
Proof.
  unfold list_N_eqb. revert b. induction a as [|x a IH]; destruct b as [|y b]; intros H; try discriminate; [reflexivity|].
  apply andb_true_iff in H as [H1 H2]. apply N.eqb_eq in H1. subst. f_equal. apply IH. exact H2.
Qed.

Definition plan_is (q : N) (a : label) (q' : N) (ch : list N) : bool :=
  match plansI q a with Some (n, c) => (n =? q') && list_N_eqb c ch | None => false end.
Lemma plan_is_ok q a q' ch : plan_is q a q' ch = true -> plansI q a = Some (q', ch).
Proof.
  unfold plan_is. destruct (plansI q a) as [[n c]|]; [|discriminate]. intros H.
  apply andb_true_iff in H as [H1 H2]. apply N.eqb_eq in H1. apply list_N_eqb_eq in H2. subst. reflexivity.
Qed.

Definition plans_complete_ok (fuel : nat) : bool :=
  forallb (fun d =>
    forallb (fun '(s, nx) =>
      match s with
      | T a => plan_is (d_id d) a nx []
      | NT B => match all_chains fuel B with
                | Some l => forallb (fun '(a, ch) => plan_is (d_id d) a nx ch) l
                | None => false end
      end) (d_arcs d)) (g_states G).

Lemma plans_complete_sound fuel : plans_complete_ok fuel = true ->
  forall q a q' ch,
    (ch = [] /\ arcT q a = Some q') \/ (exists B, arcN q B = Some q' /\ first_chain N label N arcT arcN startR B a ch) ->
    plansI q a = Some (q', ch).
Proof.
  intros H q a q' ch [[-> A]|(B & A & FC)]; unfold plans_complete_ok in H; rewrite forallb_forall in H.
  - destruct (arcT_in _ _ _ A) as (d & S & I). specialize (H d (st_of_in q d S)). rewrite forallb_forall in H.
    specialize (H _ I). simpl in H. unfold st_of in S. apply find_state_in in S as [_ <-]. apply plan_is_ok. exact H.
  - destruct (arcN_in _ _ _ A) as (d & S & I). specialize (H d (st_of_in q d S)). rewrite forallb_forall in H.
    specialize (H _ I). simpl in H. destruct (all_chains fuel B) as [l|] eqn:AC; [|discriminate].
    rewrite forallb_forall in H. specialize (H (a, ch) (all_chains_complete fuel B l AC a ch FC)). simpl in H.
    unfold st_of in S. apply find_state_in in S as [_ <-]. apply plan_is_ok. exact H.
Qed.

(* ---- checker 3: FW is a post-fixpoint of FOLLOW and there is no FIRST/FOLLOW conflict ---- *)
Definition plan_labels (q : N) : list label := match assocN q TR with Some tr => map fst tr | None => [] end.
Lemma plans_label_in q t : plansI q t <> None -> In t (plan_labels q).
Proof.
  unfold plansI, trans, plan_labels. destruct (assocN q TR) as [tr|]; [|intros H; contradiction H; reflexivity].
  induction tr as [|[l pl] r IH]; simpl; [intros H; contradiction H; reflexivity|].
  destruct (label_eqb l t) eqn:E; [intros _; left; apply label_eqb_eq; exact E|]. intros H. right. apply IH. exact H.
Qed.
Lemma FW_in B t : FW B t = true <-> In t (fw_list B).
Proof.
  unfold FW. rewrite existsb_exists. split.
  - intros (x & I & E). apply label_eqb_eq in E. subst. exact I.
  - intros I. exists t. split; [exact I|apply label_eqb_eq; reflexivity].
Qed.

Definition fw1_ok : bool :=
  forallb (fun d => forallb (fun '(s, nx) => match s with
                                            | NT B => forallb (fun t => FW B t) (plan_labels nx)
                                            | T _ => true end) (d_arcs d)) (g_states G).
Definition fw2_ok : bool :=
  forallb (fun d => forallb (fun '(s, nx) => match s with
                                            | NT B => if final G nx then forallb (fun t => FW B t) (fw_list (d_rule d)) else true
                                            | T _ => true end) (d_arcs d)) (g_states G).
Definition noconf_ok : bool :=
  forallb (fun d => if d_final d then forallb (fun t => match plansI (d_id d) t with None => true | Some _ => false end) (fw_list (d_rule d)) else true)
          (g_states G).

Lemma fw1_sound : fw1_ok = true -> forall q B q' t, arcN q B = Some q' -> plansI q' t <> None -> FW B t = true.
Proof.
  intros H q B q' t A P. destruct (arcN_in _ _ _ A) as (d & S & I). unfold fw1_ok in H. rewrite forallb_forall in H.
  specialize (H d (st_of_in q d S)). rewrite forallb_forall in H. specialize (H _ I). simpl in H.
  rewrite forallb_forall in H. apply H. apply plans_label_in. exact P.
Qed.
Lemma fw2_sound : fw2_ok = true -> forall q B q' t, arcN q B = Some q' -> final G q' = true -> FW (rule_of G q) t = true -> FW B t = true.
Proof.
  intros H q B q' t A F W. destruct (arcN_in _ _ _ A) as (d & S & I). unfold fw2_ok in H. rewrite forallb_forall in H.
  specialize (H d (st_of_in q d S)). rewrite forallb_forall in H. specialize (H _ I). simpl in H. rewrite F in H.
  rewrite forallb_forall in H. apply H. apply FW_in. rewrite <- (rule_of_st q d S). exact W.
Qed.
Lemma noconf_sound : noconf_ok = true -> forall q t, final G q = true -> FW (rule_of G q) t = true -> plansI q t = None.
Proof.
  intros H q t F W. unfold final in F. destruct (st_of G q) as [d|] eqn:S; [|discriminate].
  unfold noconf_ok in H. rewrite forallb_forall in H. specialize (H d (st_of_in q d S)). rewrite F in H.
  rewrite forallb_forall in H. rewrite (rule_of_st q d S) in W. apply FW_in in W. specialize (H t W).
  unfold st_of in S. apply find_state_in in S as [_ <-]. destruct (plansI (d_id d) t); [discriminate|reflexivity].
Qed.

(* ---- executable well-formedness of a derivation (for non-vacuity examples and the harness) ---- *)
Section Wfb.
Variable T1 : Type.
Fixpoint wfb (d : dtree T1 label N) : bool :=
  match d with
  | DLeaf _ _ _ _ _ => true
  | DNode _ _ _ B kb =>
    existsb (N.eqb B) (map fst (g_start G)) &&
    match kb with [] => false | _ => true end &&
    match run T1 N label N arcT arcN (startR B) kb with Some qf => final G qf | None => false end &&
    (fix all (l : list (dtree T1 label N)) : bool := match l with [] => true | k :: r => wfb k && all r end) kb
  end.
Lemma wfb_sound : forall d, wfb d = true -> wf T1 N label N arcT arcN startR (final G) validR d.
Proof.
  fix IH 1. intros d. destruct d as [a x|B kb]; [intros _; exact I|]. intros H. cbn [wfb] in H.
  apply andb_true_iff in H as [H H4]. apply andb_true_iff in H as [H H3]. apply andb_true_iff in H as [H1 H2].
  apply wf_node. split; [|split; [|split]].
  - unfold validR. apply existsb_exists in H1 as (x & I1 & E). apply N.eqb_eq in E. subst. exact I1.
  - destruct kb; [discriminate|discriminate].
  - destruct (run T1 N label N arcT arcN (startR B) kb) as [qf|]; [|discriminate]. exists qf. split; [reflexivity|exact H3].
  - clear H1 H2 H3. induction kb as [|k r IHr]; [exact I|]. apply andb_true_iff in H4 as [Hk Hr]. split; [apply IH; exact Hk|apply IHr; exact Hr].
Qed.
End Wfb.

Definition tables_ok (fuel : nat) : bool :=
  arcs_in_rule_ok && starts_ok && plans_complete_ok fuel && fw1_ok && fw2_ok && noconf_ok.

(* ---- the abstract engine on these tables accepts every derivation and returns its collapsed tree ---- *)
Variable T0 : Type.
Variable mk_node : N -> list T0 -> T0.

Theorem tables_complete : forall fuel, tables_ok fuel = true ->
  forall F kb t,
    wf T0 N label N arcT arcN startR (final G) validR (DNode T0 label N F kb) -> FW F t = true ->
    exists qf, final G qf = true /\ rule_of G qf = F /\
      passes T0 N label N mk_node (final G) (rule_of G) plansI
             (yield T0 label N (DNode T0 label N F kb)) [(startR F, [])] t [(qf, map (collapse T0 label N mk_node) kb)].
Proof.
  intros fuel H F kb t W HF. unfold tables_ok in H.
  repeat (apply andb_true_iff in H as [H ?]).
  eapply (complete T0 N label N (LType ENDMARKER) mk_node arcT arcN startR (final G) (rule_of G) plansI FW
            (plans_complete_sound fuel H3) validR (rule_start_ok H4) (rule_arcT_ok H) (rule_arcN_ok H)
            (fw1_sound H2) (fw2_sound H1) (noconf_sound H0)); eassumption.
Qed.

(* ================= soundness side: the plan table contains only arcs and first chains ================= *)
Definition opt_is (o : option N) (x : N) : bool := match o with Some y => y =? x | None => false end.
Lemma opt_is_ok o x : opt_is o x = true -> o = Some x.
Proof. destruct o as [y|]; simpl; [|discriminate]. intros H. apply N.eqb_eq in H. subst. reflexivity. Qed.
Definition arcs_of (q : N) : list (sym * N) := match st_of G q with Some d => d_arcs d | None => [] end.

Fixpoint chain_ok (B : N) (a : label) (ch : list N) : bool :=
  match ch with
  | [] => false
  | s :: ch' =>
    match ch' with
    | [] => opt_is (arcT (startR B) a) s
    | _ :: _ => existsb (fun '(sy, nx) => match sy with
                                          | NT C => (nx =? s) && opt_is (arcN (startR B) C) s && chain_ok C a ch'
                                          | T _ => false end) (arcs_of (startR B))
    end
  end.
Lemma chain_ok_sound : forall ch B a, chain_ok B a ch = true -> first_chain N label N arcT arcN startR B a ch.
Proof.
  induction ch as [|s ch' IH]; intros B a H; [discriminate|]. cbn [chain_ok] in H.
  destruct ch' as [|s2 ch2].
  - apply fc_t. apply opt_is_ok. exact H.
  - apply existsb_exists in H as ([sy nx] & _ & H). destruct sy as [l|C]; [discriminate|].
    apply andb_true_iff in H as [H H3]. apply andb_true_iff in H as [_ H2].
    apply fc_n with (C := C); [apply opt_is_ok; exact H2|apply IH; exact H3].
Qed.

Definition plan_sound_ok (q : N) (a : label) (pl : plan) : bool :=
  (match p_pushes pl with [] => true | _ => false end && opt_is (arcT q a) (p_next pl)) ||
  existsb (fun '(sy, nx) => match sy with
                            | NT B => (nx =? p_next pl) && opt_is (arcN q B) (p_next pl) && chain_ok B a (p_pushes pl)
                            | T _ => false end) (arcs_of q).
Definition plans_sound_ok : bool :=
  forallb (fun '(q, tr) => forallb (fun '(a, pl) => plan_sound_ok q a pl) tr) TR.

Lemma assocN_in' {A} k (l : list (N * A)) v : assocN k l = Some v -> In (k, v) l.
Proof.
  induction l as [|[a x] r IH]; simpl; [discriminate|]. destruct (a =? k) eqn:E; intros H.
  - inversion H; subst. apply N.eqb_eq in E. subst. left. reflexivity.
  - right. apply IH. exact H.
Qed.
Lemma assocL_in' {A} k (l : list (label * A)) v : assocL k l = Some v -> In (k, v) l.
Proof.
  induction l as [|[a x] r IH]; simpl; [discriminate|]. destruct (label_eqb a k) eqn:E; intros H.
  - inversion H; subst. apply label_eqb_eq in E. subst. left. reflexivity.
  - right. apply IH. exact H.
Qed.

Lemma plans_sound_sound : plans_sound_ok = true -> forall q a q' ch, plansI q a = Some (q', ch) ->
  (ch = [] /\ arcT q a = Some q') \/ (exists B, arcN q B = Some q' /\ first_chain N label N arcT arcN startR B a ch).
Proof.
  intros H q a q' ch P. unfold plansI, trans in P.
  destruct (assocN q TR) as [tr|] eqn:A1; [|discriminate]. destruct (assocL a tr) as [pl|] eqn:A2; [|discriminate].
  inversion P; subst q' ch. clear P.
  unfold plans_sound_ok in H. rewrite forallb_forall in H. specialize (H _ (assocN_in' _ _ _ A1)). simpl in H.
  rewrite forallb_forall in H. specialize (H _ (assocL_in' _ _ _ A2)). simpl in H.
  unfold plan_sound_ok in H. apply orb_true_iff in H as [H|H].
  - apply andb_true_iff in H as [H1 H2]. left. split; [destruct (p_pushes pl); [reflexivity|discriminate]|apply opt_is_ok; exact H2].
  - apply existsb_exists in H as ([sy nx] & _ & H). destruct sy as [l|B]; [discriminate|].
    apply andb_true_iff in H as [H H3]. apply andb_true_iff in H as [_ H2].
    right. exists B. split; [apply opt_is_ok; exact H2|apply chain_ok_sound; exact H3].
Qed.

Definition arcN_valid_ok : bool :=
  forallb (fun d => forallb (fun '(sy, _) => match sy with NT B => existsb (N.eqb B) (map fst (g_start G)) | T _ => true end) (d_arcs d)) (g_states G).
Lemma arcN_valid_sound : arcN_valid_ok = true -> forall q B q', arcN q B = Some q' -> validR B.
Proof.
  intros H q B q' A. destruct (arcN_in _ _ _ A) as (d & S & I). unfold arcN_valid_ok in H. rewrite forallb_forall in H.
  specialize (H d (st_of_in q d S)). rewrite forallb_forall in H. specialize (H _ I). simpl in H.
  apply existsb_exists in H as (x & I1 & E). apply N.eqb_eq in E. subst. exact I1.
Qed.

Definition tables_sound_ok : bool := arcs_in_rule_ok && starts_ok && plans_sound_ok && arcN_valid_ok.

(* whatever the abstract engine accepts on these tables is a derivation of the start rule, and the nodes it returns
   are the collapsed children of that derivation *)
Theorem tables_sound : tables_sound_ok = true ->
  forall S0 w fr qf ns, validR S0 ->
    LL1.feed T0 N label N mk_node (final G) (rule_of G) plansI w [(startR S0, [])] fr -> popsf T0 N N mk_node (final G) (rule_of G) fr [(qf, ns)] ->
    final G qf = true -> w <> [] ->
    exists kb, wf T0 N label N arcT arcN startR (final G) validR (DNode T0 label N S0 kb) /\
               yield T0 label N (DNode T0 label N S0 kb) = w /\ ns = map (collapse T0 label N mk_node) kb /\ rule_of G qf = S0.
Proof.
  intros H S0 w fr qf ns V FD P F NE. unfold tables_sound_ok in H.
  repeat (apply andb_true_iff in H as [H ?]).
  eapply (sound_f T0 N label N mk_node arcT arcN startR (final G) (rule_of G) plansI validR (rule_start_ok H2) (rule_arcT_ok H) (rule_arcN_ok H)
            (plans_sound_sound H1) (arcN_valid_sound H0)); eassumption.
Qed.
End Inst.
Print Assumptions tables_complete.
Print Assumptions tables_sound.
