From Coq Require Import List NArith ZArith Bool.
Import ListNotations.
Require Import Regex Tok.
Open Scope N_scope.

(* Model of parso/python/prefix.py: split_prefix, PrefixPart.end_pos, create_spacing_part.
   Columns are Z because `column = -start` makes intermediate values negative. *)

Inductive ptype := PComment | PNewline | PBackslash | PBom | PFormfeed | PSpacing.
Record part := mkPart { p_type : ptype; p_value : str; p_spacing : str; p_line : N; p_col : Z }.

Inductive perr := PAttrError | PKeyError | PFuel | PGuardP.
Inductive pres := POk (l : list part) | PErr (e : perr).

Definition ptype_of_code (n : N) : ptype :=
  match n with 0 => PComment | 1 => PNewline | 2 => PBackslash | 3 => PBom | 4 => PFormfeed | _ => PSpacing end.

Section Prefix.
Variable R : re.                         (* prefix._regex *)
Variable types : list (N * N).           (* prefix._types: first char -> type code *)

Fixpoint assocN {A} (k : N) (l : list (N * A)) : option A :=
  match l with [] => None | (a, v) :: t => if a =? k then Some v else assocN k t end.

Definition ends_break (v : str) : bool :=
  match last_chr v with Some c => (c =? 10) || (c =? 13) | None => false end.

(* returns parts in order; (line, column, start, value, spacing, bom) is the loop state *)
Fixpoint split_loop (fuel : nat) (p : str) (line : N) (column : Z) (start : N) (bomf : bool)
         (acc : list part) : pres :=
  match fuel with
  | O => PErr PFuel
  | S f =>
    if start =? len p then
      (* loop exits with value/spacing of the last iteration: handled by caller through acc *)
      POk (acc ++ [mkPart PSpacing [] [] line (column + Z.of_N start - (if bomf then 1 else 0))%Z])
    else
      match rmatch R p start with
      | None => PErr PAttrError
      | Some (e, cs) =>
        match grp 1 cs, grp 2 cs with
        | Some (a1, b1), Some (a2, b2) =>
          let spacing := sub p a1 b1 in
          let value := sub p a2 b2 in
          match value with
          | [] =>
            (* guard: an empty value is matched only at the end of the prefix (`$`); the Python code would drop the rest silently *)
            if e =? len p then POk (acc ++ [mkPart PSpacing spacing [] line (column + Z.of_N start - (if bomf then 1 else 0))%Z])
            else PErr PGuardP
          | c :: _ =>
            match assocN c types with
            | None => PErr PKeyError
            | Some tc =>
              let ty := ptype_of_code tc in
              let pt := mkPart ty value spacing line
                               (column + Z.of_N start - (if bomf then 1 else 0) + Z.of_N (len spacing))%Z in
              let bomf' := match ty with PBom => true | _ => bomf end in
              if ends_break value then split_loop f p (line + 1) (- Z.of_N e)%Z e false (acc ++ [pt])
              else split_loop f p line column e bomf' (acc ++ [pt])
            end
          end
        | _, _ => PErr PAttrError
        end
      end
  end.

(* Python: when the loop ends because start = len(prefix) after an iteration with a
   non-empty value, the final spacing part has empty value; when it ends by `break`
   the spacing of that last match is used.  With an empty prefix the loop body never
   runs and value = spacing = ''. *)
Definition split_prefix (p : str) (line : N) (col : N) : pres :=
  split_loop (S (length p)) p line (Z.of_N col) 0 false [].

Definition part_end (pt : part) : N * Z :=
  if ends_break (p_value pt) then (p_line pt + 1, 0%Z)
  else if str_eqb (p_value pt) [65279] then (p_line pt, p_col pt)
  else (p_line pt, (p_col pt + Z.of_N (len (p_value pt)))%Z).

Definition spacing_part (pt : part) : part :=
  mkPart PSpacing (p_spacing pt) [] (p_line pt) (p_col pt - Z.of_N (len (p_spacing pt)))%Z.

End Prefix.
