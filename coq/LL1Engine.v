From Coq Require Import List NArith ZArith Bool Lia Relations.
Import ListNotations.
Require Import Regex Tok Engine LL1 LL1Inst.
Open Scope N_scope.

(* Refinement: the fuelled add_token / feed / finish of Engine.v (the model that is extracted and
   compared with parso) realise the abstract plan-driven relation of LL1.v on the same tables.
   convert_node can fail in the model (PAttr / PIndex: the Python code would raise AttributeError /
   IndexError, e.g. a funcdef without parameters); such a failure is not a syntax error, so the
   statements are "the result is the derivation, or a conversion failure - never a rejection". *)

Section Refine.
Variable G : gram.
Variable TR : list (N * list (label * plan)).

Definition mk_node (r : N) (ns : list tree) : tree :=
  match convert_node G r ns with POk t => t | PErr _ => Node KErrorNode [] end.

Definition aframe := (N * list tree)%type.
Definition fr_of (f : aframe) : Engine.frame := mkFr (fst f) (snd f).
Definition st_of_a (s : list aframe) : list Engine.frame := map fr_of s.

Definition conv_err (e : perr) : Prop := e = PAttr \/ e = PIndex \/ e = PGuard.

Notation pops' := (pops tree N label N mk_node (final G) (rule_of G) (plansI TR)).
Notation shift' := (shift tree N label (plansI TR)).
Notation feed' := (LL1.feed tree N label N mk_node (final G) (rule_of G) (plansI TR)).

Lemma create_params_err l e : create_params G l = PErr e -> conv_err e.
Proof.
  unfold create_params. destruct l as [|first rest]; [discriminate|].
  destruct (negb (is_nil_t rest)); [intros H; inversion H; right; right; reflexivity|].
  destruct (is_name first || match node_rule first with Some r => r =? r_fpdef G | None => false end); [discriminate|].
  destruct (is_op first star); [discriminate|].
  assert (K: forall c : option (list tree), match c with Some cs => POk (split_params cs []) | None => PErr PAttr end = PErr e -> conv_err e).
  { intros [cs|]; [discriminate|]. intros H; inversion H; left; reflexivity. }
  destruct first as [k v p l c|[r| |] cs]; try apply K. intros H; inversion H; right; right; reflexivity.
Qed.

Lemma convert_node_err r ns e : convert_node G r ns = PErr e -> conv_err e.
Proof.
  unfold convert_node. destruct (r =? r_suite G).
  - destruct ns as [|c0 [|c1 rest]]; [intros H; inversion H; right; left; reflexivity|discriminate|].
    destruct (blank c1 && match rev rest with [] => true | cl :: _ => blank cl end); [discriminate|].
    intros H; inversion H; right; right; reflexivity.
  - destruct (r =? r_funcdef G).
    + assert (GE: forall cs e', regroup_func G cs = PErr e' -> conv_err e').
      { induction cs as [|c t IH]; intros e' H; simpl in H; [inversion H; left; reflexivity|].
        destruct c as [k v p l c0|k pcs].
        - destruct (regroup_func G t) eqn:E; [discriminate|]. inversion H; subst. eapply IH. reflexivity.
        - destruct k as [pr| |].
          + destruct (pr =? r_parameters G).
            * destruct (existsb is_param (removelast (tl pcs))); [discriminate|].
              destruct (create_params G (removelast (tl pcs))) eqn:CP; [|inversion H; subst; eapply create_params_err; exact CP].
              destruct pcs as [|t0 [|t1 pcs]]; [inversion H; right; left; reflexivity|inversion H; right; right; reflexivity|].
              destruct (rev (t0 :: t1 :: pcs)); inversion H; right; left; reflexivity.
            * destruct (regroup_func G t) eqn:E; [discriminate|]. inversion H; subst. eapply IH. reflexivity.
          + destruct (regroup_func G t) eqn:E; [discriminate|]. inversion H; subst. eapply IH. reflexivity.
          + destruct (regroup_func G t) eqn:E; [discriminate|]. inversion H; subst. eapply IH. reflexivity. }
      destruct (regroup_func G ns) eqn:E; [discriminate|]. intros H. inversion H; subst. eapply GE. exact E.
    + destruct ((r =? r_lambdef G) || (r =? r_lambdef_nocond G)); [|discriminate].
      destruct ns as [|kw rest]; [intros H; inversion H; right; left; reflexivity|].
      destruct (existsb is_param (firstn (length rest - 2) rest)); [discriminate|].
      destruct (create_params G (firstn (length rest - 2) rest)) eqn:CP; [discriminate|]. intros H; inversion H; subst. eapply create_params_err. exact CP.
Qed.

(* one abstract pop is one Engine.pop (or a conversion failure) *)
Lemma pop_refines q ns q2 ns2 rest :
  pop G (st_of_a ((q, ns) :: (q2, ns2) :: rest)) = POk (st_of_a ((q2, ns2 ++ [close tree N N mk_node (rule_of G) q ns]) :: rest))
  \/ exists e, conv_err e /\ pop G (st_of_a ((q, ns) :: (q2, ns2) :: rest)) = PErr e.
Proof.
  unfold pop, st_of_a. cbn [map fr_of fst snd f_nodes f_dfa]. unfold close.
  destruct ns as [|x [|y r]].
  - unfold mk_node. destruct (convert_node G (rule_of G q) []) eqn:E; [left; reflexivity|right; eexists; split; [eapply convert_node_err; exact E|reflexivity]].
  - left. reflexivity.
  - unfold mk_node. destruct (convert_node G (rule_of G q) (x :: y :: r)) eqn:E; [left; reflexivity|right; eexists; split; [eapply convert_node_err; exact E|reflexivity]].
Qed.

Lemma plansI_trans q a : plansI TR q a = None <-> trans TR q a = None.
Proof. unfold plansI. destruct (trans TR q a); split; intros H; try discriminate; reflexivity. Qed.

(* the leaf the engine builds for a token *)
Definition leaf_of (t : Token) : tree := convert_leaf G t.

Lemma fold_push ch : forall x (base : list aframe) top r,
  fold_left (fun st q => mkFr q [] :: st) ch (st_of_a base) = top :: r ->
  base <> [] ->
  st_of_a (push tree N ch x base) = mkFr (f_dfa top) (f_nodes top ++ [x]) :: r.
Proof.
  induction ch as [|s ch IH]; intros x base top r H NE; simpl in *.
  - destruct base as [|[q ns] b]; [contradiction|]. simpl in H. inversion H; subst. reflexivity.
  - apply (IH x ((s, []) :: base) top r); [exact H|discriminate].
Qed.

Lemma fold_push_nonempty ch : forall l : list Engine.frame, l <> [] -> fold_left (fun st q => mkFr q [] :: st) ch l <> [].
Proof. induction ch as [|s0 ch IH]; intros l H; simpl; [exact H|]. apply IH. discriminate. Qed.

(* pops then shift = add_token (strict or recovering: no error branch is reached) *)
Lemma step_refines : forall a st st1, pops' a st st1 ->
  forall tok st2 fuel b om ic,
    token_label G tok = a -> shift' a (leaf_of tok) st1 = Some st2 ->
    (length st < fuel)%nat ->
    add_token G TR fuel b (mkP (st_of_a st) om ic) tok = POk (mkP (st_of_a st2) om ic)
    \/ exists e, conv_err e /\ add_token G TR fuel b (mkP (st_of_a st) om ic) tok = PErr e.
Proof.
  intros a st st1 P. induction P as [st|st stm st1 P1 _ IH]; intros tok st2 fuel b om ic L SH F.
  - (* no pop: shift *)
    destruct fuel as [|f]; [lia|]. cbn [add_token stack omit icount].
    destruct st as [|[q ns] rest]; [discriminate|]. cbn [st_of_a map fr_of fst snd f_dfa f_nodes].
    unfold shift in SH. unfold plansI in SH. rewrite L. destruct (trans TR q a) as [pl|] eqn:T; [|discriminate].
    inversion SH; subst st2. left.
    destruct (fold_left (fun st q0 => mkFr q0 [] :: st) (p_pushes pl) (mkFr (p_next pl) ns :: map fr_of rest)) as [|top r] eqn:FL.
    + exfalso. revert FL. apply fold_push_nonempty. discriminate.
    + change (mkFr (p_next pl) ns :: map fr_of rest) with (st_of_a ((p_next pl, ns) :: rest)) in FL.
      rewrite (fold_push (p_pushes pl) (leaf_of tok) ((p_next pl, ns) :: rest) top r FL) by discriminate. reflexivity.
  - (* one pop, then the rest *)
    inversion P1 as [q ns q2 ns2 rest NP FQ]; subst.
    destruct fuel as [|f]; [lia|]. cbn [add_token stack omit icount].
    cbn [st_of_a map fr_of fst snd f_dfa f_nodes].
    apply plansI_trans in NP. rewrite NP. rewrite FQ.
    change (fr_of (q, ns) :: fr_of (q2, ns2) :: map fr_of rest) with (st_of_a ((q, ns) :: (q2, ns2) :: rest)).
    destruct (pop_refines q ns q2 ns2 rest) as [E|(e & CE & E)]; rewrite E.
    + apply IH; [reflexivity|exact SH|simpl in F |- *; lia].
    + right. exists e. split; [exact CE|reflexivity].
Qed.

(* feeding a token list whose labels and leaves are the abstract word *)
Definition word_of (toks : list Token) : list (label * tree) := map (fun t => (token_label G t, leaf_of t)) toks.

Lemma feed_refines : forall w st st', feed' w st st' ->
  forall toks, word_of toks = w ->
    (forall t, In t toks -> ty t <> DEDENT /\ ty t <> INDENT \/ True) ->
    forall om ic,
    (exists ic', Engine.feed G TR false (mkP (st_of_a st) om ic) toks = POk (mkP (st_of_a st') om ic'))
    \/ exists e, conv_err e /\ Engine.feed G TR false (mkP (st_of_a st) om ic) toks = PErr e.
Proof.
  intros w st st' FD. induction FD as [st|[a x] w st st1 st2 ST _ IH]; intros toks E _ om ic.
  - destruct toks; [|discriminate]. left. exists ic. reflexivity.
  - destruct toks as [|tok toks]; [discriminate|]. unfold word_of in E. simpl in E. inversion E as [[La Lx Lw]].
    inversion ST as [a0 x0 s0 sA sB PA SH]; subst a0 x0 s0 sB.
    cbn [Engine.feed]. cbn [stack omit icount].
    destruct (step_refines _ _ _ PA tok st1 (S (S (2 * length (st_of_a st)))) false om ic La) as [R|(e & CE & R)].
    + rewrite <- Lx in SH. exact SH.
    + unfold st_of_a. rewrite map_length. unfold aframe, LL1.frame. lia.
    + rewrite R. apply (IH toks); [exact Lw|auto].
    + right. exists e. split; [exact CE|]. rewrite R. reflexivity.
Qed.

(* finish: pop everything with any lookahead that has no plan, then convert the root *)
Lemma finish_refines : forall t st c, pops' t st c ->
  forall qf ns, c = [(qf, ns)] -> final G qf = true ->
  forall fuel, (length st < fuel)%nat ->
    finish G fuel (st_of_a st) = convert_node G (rule_of G qf) ns
    \/ exists e, conv_err e /\ finish G fuel (st_of_a st) = PErr e.
Proof.
  intros t st c P. induction P as [st|st stm c P1 _ IH]; intros qf ns E FQ fuel F.
  - subst st. destruct fuel as [|f]; [simpl in F; lia|]. cbn [finish st_of_a map fr_of fst snd f_dfa f_nodes]. rewrite FQ. left. reflexivity.
  - inversion P1 as [q ns1 q2 ns2 rest NP FQ1]; subst.
    destruct fuel as [|f]; [simpl in F; lia|]. cbn [finish st_of_a map fr_of fst snd f_dfa f_nodes]. rewrite FQ1. cbn [negb].
    change (fr_of (q, ns1) :: fr_of (q2, ns2) :: map fr_of rest) with (st_of_a ((q, ns1) :: (q2, ns2) :: rest)).
    destruct (pop_refines q ns1 q2 ns2 rest) as [E1|(e & CE & E1)]; rewrite E1.
    + apply (IH qf ns eq_refl FQ). simpl in F |- *. lia.
    + right. exists e. split; [exact CE|reflexivity].
Qed.

(* C06 on the engine model: every sentence of a valid rule, given as a derivation over the rule automata, is accepted by
   the strict parser of Engine.v with the collapsed derivation as result - or a conversion failure, never a syntax error *)
Variable FWT : list (N * list label).
Definition derivation := dtree tree label N.

Theorem engine_complete : forall fuel, tables_ok G TR FWT fuel = true ->
  forall F kb t toks,
    wf tree N label N (arcT G) (arcN G) (startR G) (final G) (validR G) (DNode tree label N F kb) ->
    FW FWT F t = true ->
    word_of toks = yield tree label N (DNode tree label N F kb) ->
    parse G TR false F toks = convert_node G F (map (collapse tree label N mk_node) kb)
    \/ exists e, conv_err e /\ parse G TR false F toks = PErr e.
Proof.
  intros fuel OK F kb t toks W HF HW.
  destruct (tables_complete G TR FWT tree mk_node fuel OK F kb t W HF) as (qf & Fq & Rq & (st' & FD & PP)).
  assert (VF: validR G F). { pose proof W as W1. apply wf_node in W1 as (VB & _). exact VB. }
  unfold parse. unfold validR in VF. unfold startR in FD.
  destruct (assocN F (g_start G)) as [q0|] eqn:A.
  2:{ exfalso. apply in_map_iff in VF as ([B q] & E & I). simpl in E. subst B. clear - A I.
      induction (g_start G) as [|[b q'] r IH]; [destruct I|]. simpl in A. destruct (b =? F) eqn:X; [discriminate|].
      destruct I as [I|I]; [inversion I; subst; rewrite N.eqb_refl in X; discriminate|auto]. }
  destruct (feed_refines _ _ _ FD toks HW (fun _ _ => or_intror I) [] 0%Z) as [(ic' & R)|(e & CE & R)].
  - change [mkFr q0 []] with (st_of_a [(q0, [])]). rewrite R. cbn [stack].
    destruct (finish_refines _ _ _ PP qf _ eq_refl Fq (S (length (st_of_a st')))) as [R2|(e & CE & R2)].
    + unfold st_of_a. rewrite map_length. unfold aframe, LL1.frame. lia.
    + left. rewrite R2, Rq. reflexivity.
    + right. exists e. split; [exact CE|exact R2].
  - right. exists e. split; [exact CE|]. change [mkFr q0 []] with (st_of_a [(q0, [])]). rewrite R. reflexivity.
Qed.
End Refine.
Print Assumptions engine_complete.
