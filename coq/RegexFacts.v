From Coq Require Import List NArith Bool Lia.
Import ListNotations.
Require Import Regex.
Open Scope N_scope.

Fixpoint groups (r : re) : list nat :=
  match r with
  | Cat a b | Alt a b => groups a ++ groups b
  | Opt a | Star a | Plus a | NLook a => groups a
  | Group n a => n :: groups a
  | _ => []
  end.

(* the continuation is called after consuming a prefix of the remaining input, at the
   matching index, with the capture list only extended by groups of r *)
Definition ext (r : re) (cs cs' : caps) : Prop :=
  exists new, cs' = new ++ cs /\ forall g sp, In (g, sp) new -> In g (groups r).
Definition called (r : re) (i : N) (rest : list N) (cs : caps)
           (k : N -> list N -> caps -> option res) (out : res) : Prop :=
  exists consumed rest' cs',
    rest = consumed ++ rest' /\ k (i + N.of_nat (length consumed)) rest' cs' = Some out /\ ext r cs cs'.

Lemma ext_refl r cs : ext r cs cs.
Proof. exists []. split; [reflexivity|]. intros g sp []. Qed.
Lemma ext_weaken r r' cs cs' : (forall g, In g (groups r) -> In g (groups r')) -> ext r cs cs' -> ext r' cs cs'.
Proof. intros H (new & E & Hn). exists new. split; [exact E|]. intros g sp Hin. apply H. eapply Hn; exact Hin. Qed.
Lemma ext_trans r cs1 cs2 cs3 : ext r cs1 cs2 -> ext r cs2 cs3 -> ext r cs1 cs3.
Proof.
  intros (n1 & E1 & H1) (n2 & E2 & H2). exists (n2 ++ n1). split; [subst; rewrite app_assoc; reflexivity|].
  intros g sp Hin. apply in_app_or in Hin as [Hin|Hin]; eauto.
Qed.

Lemma called_here r i rest cs k out : k i rest cs = Some out -> called r i rest cs k out.
Proof.
  intros H. exists [], rest, cs. split; [reflexivity|]. split; [|apply ext_refl].
  simpl. rewrite N.add_0_r. exact H.
Qed.
Lemma called_one r i c t cs k out : k (i + 1) t cs = Some out -> called r i (c :: t) cs k out.
Proof. intros H. exists [c], t, cs. split; [reflexivity|]. split; [exact H|apply ext_refl]. Qed.

Lemma called_compose r1 r2 r i rest cs k out :
  (forall g, In g (groups r1) -> In g (groups r)) -> (forall g, In g (groups r2) -> In g (groups r)) ->
  called r1 i rest cs (fun i' r' c' => m r2 i' r' c' k) out ->
  (forall i' r' c' o, m r2 i' r' c' k = Some o -> called r2 i' r' c' k o) ->
  called r i rest cs k out.
Proof.
  intros G1 G2 (c1 & rest1 & cs1 & E1 & K1 & X1) IH2.
  destruct (IH2 _ _ _ _ K1) as (c2 & rest2 & cs2 & E2 & K2 & X2).
  exists (c1 ++ c2), rest2, cs2. split; [subst; rewrite app_assoc; reflexivity|]. split.
  - rewrite app_length, Nat2N.inj_add, N.add_assoc. exact K2.
  - eapply ext_trans; [eapply ext_weaken; [exact G1|exact X1]|eapply ext_weaken; [exact G2|exact X2]].
Qed.

(* the greedy loop shared by Star and Plus *)
Definition loop_of (a : re) (k : N -> list N -> caps -> option res) :=
  fix loop (fuel : nat) (i : N) (rest : list N) (cs : caps) {struct fuel} : option res :=
    match fuel with
    | O => k i rest cs
    | S f =>
        match m a i rest cs (fun i' r' c' => if i' =? i then None else loop f i' r' c') with
        | Some x => Some x
        | None => k i rest cs
        end
    end.

Lemma loop_sound a k :
  (forall i rest cs k' o, m a i rest cs k' = Some o -> called a i rest cs k' o) ->
  forall fuel i rest cs o, loop_of a k fuel i rest cs = Some o -> called a i rest cs k o.
Proof.
  intros IHa. induction fuel as [|f IHf]; intros i rest cs o H; simpl in H.
  - apply called_here. exact H.
  - destruct (m a i rest cs (fun i' r' c' => if i' =? i then None else loop_of a k f i' r' c')) as [x|] eqn:E.
    + inversion H; subst x.
      destruct (IHa _ _ _ _ _ E) as (c1 & rest1 & cs1 & E1 & K1 & X1).
      destruct (i + N.of_nat (length c1) =? i); [discriminate|].
      destruct (IHf _ _ _ _ K1) as (c2 & rest2 & cs2 & E2 & K2 & X2).
      exists (c1 ++ c2), rest2, cs2. split; [subst; rewrite app_assoc; reflexivity|]. split.
      * rewrite app_length, Nat2N.inj_add, N.add_assoc. exact K2.
      * eapply ext_trans; eassumption.
    + apply called_here. exact H.
Qed.

Theorem m_sound : forall r i rest cs k o, m r i rest cs k = Some o -> called r i rest cs k o.
Proof.
  induction r as [|c|c| |neg items|a IHa b IHb|a IHa b IHb|a IHa|a IHa|a IHa|n a IHa|a IHa| |];
    intros i rest cs k o H; simpl in H.
  - apply called_here; exact H.
  - destruct rest as [|x t]; [discriminate|]. destruct (x =? c); [|discriminate]. apply called_one; exact H.
  - destruct rest as [|x t]; [discriminate|]. destruct (x =? c); [discriminate|]. apply called_one; exact H.
  - destruct rest as [|x t]; [discriminate|]. destruct (x =? 10); [discriminate|]. apply called_one; exact H.
  - destruct rest as [|x t]; [discriminate|]. destruct (xorb neg (in_set x items)); [|discriminate]. apply called_one; exact H.
  - eapply called_compose with (r1 := a) (r2 := b); simpl; intros; try (apply in_or_app; auto).
    + apply IHa. exact H.
    + apply IHb. assumption.
  - destruct (m a i rest cs k) as [x|] eqn:E.
    + inversion H; subst x. destruct (IHa _ _ _ _ _ E) as (c1 & r1 & cs1 & E1 & K1 & X1).
      exists c1, r1, cs1. split; [exact E1|]. split; [exact K1|].
      eapply ext_weaken; [|exact X1]. simpl. intros; apply in_or_app; auto.
    + destruct (IHb _ _ _ _ _ H) as (c1 & r1 & cs1 & E1 & K1 & X1).
      exists c1, r1, cs1. split; [exact E1|]. split; [exact K1|].
      eapply ext_weaken; [|exact X1]. simpl. intros; apply in_or_app; auto.
  - destruct (m a i rest cs k) as [x|] eqn:E.
    + inversion H; subst x. apply IHa in E. exact E.
    + apply called_here; exact H.
  - change (loop_of a k (S (length rest)) i rest cs = Some o) in H.
    change (called a i rest cs k o). eapply loop_sound; [exact IHa|exact H].
  - change (called a i rest cs k o).
    apply IHa in H. destruct H as (c1 & r1 & cs1 & E1 & K1 & X1).
    change (loop_of a k (S (length r1)) (i + N.of_nat (length c1)) r1 cs1 = Some o) in K1.
    apply (loop_sound a k IHa) in K1. destruct K1 as (c2 & r2 & cs2 & E2 & K2 & X2).
    exists (c1 ++ c2), r2, cs2. split; [subst; rewrite app_assoc; reflexivity|]. split.
    + rewrite app_length, Nat2N.inj_add, N.add_assoc. exact K2.
    + eapply ext_trans; eassumption.
  - apply IHa in H. destruct H as (c1 & r1 & cs1 & E1 & K1 & (new & En & Hn)).
    exists c1, r1, ((n, (i, i + N.of_nat (length c1))) :: cs1). split; [exact E1|]. split; [exact K1|].
    exists ((n, (i, i + N.of_nat (length c1))) :: new). split; [subst; reflexivity|].
    intros g sp [Hin|Hin]; [inversion Hin; subst; left; reflexivity|right; eapply Hn; exact Hin].
  - destruct (m a i rest cs (fun i' _ c' => Some (i', c'))); [discriminate|]. apply called_here; exact H.
  - destruct rest as [|x [|y t]]; [apply called_here; exact H| |discriminate].
    destruct (x =? 10); [apply called_here; exact H|discriminate].
  - destruct rest; [apply called_here; exact H|discriminate].
Qed.
Print Assumptions m_sound.
