From Coq Require Import List NArith ZArith Bool Lia.
Import ListNotations.
Require Import Regex Tok Engine EngineSim ParseKeeps LL1Engine.
Open Scope N_scope.

(* C07, second half: error nodes and error leaves are built exactly when the strict parser would raise.
     strict_no_error     : a tree returned by the strict parser contains no error node / error leaf;
     syntax_error_marked : if the strict parser raises its syntax error, every tree the recovering parser returns
                           for the same tokens contains an error node or an error leaf
   (error markers are never lost: pop / convert_node / stack removal keep them; convert_node('suite') drops only
   `blank` children - guard PGuard in Engine.v). *)

Definition noerrs (l : list tree) : bool := forallb no_error l.
Lemma no_error_node k cs : no_error (Node k cs) = match k with KErrorNode => false | _ => noerrs cs end.
Proof.
  assert (E: (fix all (l : list tree) : bool := match l with [] => true | c :: r => no_error c && all r end) cs = noerrs cs).
  { induction cs as [|c r IH]; [reflexivity|]. simpl. rewrite IH. reflexivity. }
  destruct k; simpl; try exact E; reflexivity.
Qed.
Lemma noerrs_app a b : noerrs (a ++ b) = noerrs a && noerrs b.
Proof. apply forallb_app. Qed.
Lemma noerrs_one x : noerrs [x] = no_error x.
Proof. simpl. apply andb_true_r. Qed.
Lemma noerrs_cons x l : noerrs (x :: l) = no_error x && noerrs l.
Proof. reflexivity. Qed.

Section Err.
Variable G : gram.
Variable TR : list (N * list (label * plan)).

Lemma split_params_noerr : forall cs cur, noerrs (split_params cs cur) = noerrs cur && noerrs cs.
Proof.
  assert (FL: forall pc, noerrs (match pc with
                                 | [] => []
                                 | p0 :: rest => if (is_op p0 star && match rest with [] => true | p1 :: _ => is_op p1 comma end) || is_op p0 slash
                                                 then pc else [Node KParam pc] end) = noerrs pc).
  { intros [|p0 rest]; [reflexivity|]. destruct ((is_op p0 star && _) || is_op p0 slash); [reflexivity|]. rewrite noerrs_one, no_error_node. reflexivity. }
  induction cs as [|c t IH]; intros cur; cbn [split_params].
  - rewrite FL. simpl. rewrite andb_true_r. reflexivity.
  - destruct (is_op c comma).
    + rewrite noerrs_app, FL, IH, noerrs_app, noerrs_one. simpl. rewrite <- !andb_assoc. reflexivity.
    + rewrite IH, noerrs_app, noerrs_one. simpl. rewrite <- !andb_assoc. reflexivity.
Qed.

Lemma create_params_noerr l np : create_params G l = POk np -> noerrs np = noerrs l.
Proof.
  unfold create_params. destruct l as [|first rest]; [intros H; inversion H; reflexivity|].
  destruct rest as [|x rest]; [|discriminate]. cbn [is_nil_t negb].
  destruct (is_name first || match node_rule first with Some r => r =? r_fpdef G | None => false end).
  { intros H; inversion H. rewrite !noerrs_one, no_error_node, noerrs_one. reflexivity. }
  destruct (is_op first star); [intros H; inversion H; reflexivity|].
  assert (K: forall cs, noerrs cs = no_error first -> forall np0, POk (split_params cs []) = POk np0 -> noerrs np0 = noerrs [first]).
  { intros cs E np0 H. inversion H. rewrite split_params_noerr, noerrs_one, E. reflexivity. }
  destruct first as [k v p l c|k cs].
  - cbn [node_rule]. discriminate.
  - destruct k as [r| |]; cbn [node_rule].
    + destruct (r =? r_tfpdef G); intros H.
      * eapply K; [|exact H]. apply noerrs_one.
      * eapply K; [|exact H]. rewrite no_error_node. reflexivity.
    + discriminate.
    + intros H. eapply K; [|exact H]. rewrite no_error_node. reflexivity.
Qed.

Lemma regroup_func_noerr : forall cs cs', regroup_func G cs = POk cs' -> noerrs cs' = noerrs cs.
Proof.
  induction cs as [|c t IH]; intros cs' H; simpl in H; [discriminate|].
  destruct c as [k v p l c0|k pcs].
  - destruct (regroup_func G t) as [t'|] eqn:E; [|discriminate]. inversion H; subst. rewrite !noerrs_cons, (IH t' eq_refl). reflexivity.
  - destruct k as [pr| |].
    + destruct (pr =? r_parameters G).
      * destruct (existsb is_param (removelast (tl pcs))); [inversion H; reflexivity|].
        destruct (create_params G (removelast (tl pcs))) as [np|] eqn:CP; [|discriminate].
        destruct pcs as [|p0 [|p1 pr2]]; [discriminate|discriminate|].
        destruct (rev (p0 :: p1 :: pr2)) as [|pl rr] eqn:RV; [discriminate|]. inversion H; subst. clear H.
        rewrite !noerrs_cons, !no_error_node. f_equal.
        apply create_params_noerr in CP.
        assert (TL: p1 :: pr2 = removelast (p1 :: pr2) ++ [pl]).
        { rewrite (app_removelast_last pl (l := p1 :: pr2)) at 1 by discriminate. f_equal. f_equal.
          apply rev_head_last in RV. destruct (rev rr) as [|y yr] eqn:RR.
          - simpl in RV. discriminate.
          - simpl in RV. inversion RV; subst. rewrite H1. rewrite last_last. reflexivity. }
        cbn [tl] in CP. rewrite (noerrs_cons p0 (np ++ [pl])), (noerrs_cons p0 (p1 :: pr2)). f_equal.
        transitivity (noerrs (removelast (p1 :: pr2) ++ [pl])); [|rewrite <- TL; reflexivity].
        rewrite !noerrs_app, CP. reflexivity.
      * destruct (regroup_func G t) as [t'|] eqn:E; [|discriminate]. inversion H; subst. rewrite !noerrs_cons, (IH t' eq_refl). reflexivity.
    + destruct (regroup_func G t) as [t'|] eqn:E; [|discriminate]. inversion H; subst. rewrite !noerrs_cons, (IH t' eq_refl). reflexivity.
    + destruct (regroup_func G t) as [t'|] eqn:E; [|discriminate]. inversion H; subst. rewrite !noerrs_cons, (IH t' eq_refl). reflexivity.
Qed.

Lemma blank_noerr t : blank t = true -> no_error t = true.
Proof. unfold blank. intros H. apply andb_true_iff in H. tauto. Qed.

Lemma convert_node_noerr r ns t : convert_node G r ns = POk t -> no_error t = noerrs ns.
Proof.
  unfold convert_node. destruct (r =? r_suite G).
  - destruct ns as [|c0 [|c1 rest]]; [discriminate|intros H; inversion H; rewrite no_error_node; reflexivity|].
    destruct (blank c1 && match rev rest with [] => true | cl :: _ => blank cl end) eqn:NT; [|discriminate].
    apply andb_true_iff in NT as [N1 N2]. intros H; inversion H; subst. rewrite no_error_node, !noerrs_cons, (blank_noerr _ N1). simpl. f_equal.
    destruct (rev rest) as [|cl rr] eqn:RV.
    + apply (f_equal (@rev tree)) in RV. rewrite rev_involutive in RV. subst. reflexivity.
    + apply rev_head_last in RV. subst rest. rewrite removelast_last, noerrs_app, noerrs_one, (blank_noerr _ N2), andb_true_r. reflexivity.
  - destruct (r =? r_funcdef G).
    + destruct (regroup_func G ns) as [cs|] eqn:E; [|discriminate]. intros H; inversion H. rewrite no_error_node. apply regroup_func_noerr. exact E.
    + destruct ((r =? r_lambdef G) || (r =? r_lambdef_nocond G)); [|intros H; inversion H; apply no_error_node].
      destruct ns as [|kw rest]; [discriminate|].
      destruct (existsb is_param (firstn (length rest - 2) rest)); [intros H; inversion H; apply no_error_node|].
      destruct (create_params G (firstn (length rest - 2) rest)) as [np|] eqn:CP; [|discriminate].
      intros H; inversion H. rewrite no_error_node, !noerrs_cons, noerrs_app. f_equal.
      apply create_params_noerr in CP. rewrite CP, <- noerrs_app, firstn_skipn. reflexivity.
Qed.

(* ---------- the stack ---------- *)
Definition frame_ok (fr : frame) : bool := noerrs (f_nodes fr).
Definition stack_ok (s : list frame) : bool := forallb frame_ok s.

Lemma pop_ok s s' : pop G s = POk s' -> stack_ok s' = stack_ok s.
Proof.
  unfold pop. destruct s as [|tos [|below rest]]; [discriminate|discriminate|].
  assert (K: forall nd, no_error nd = noerrs (f_nodes tos) ->
             stack_ok (mkFr (f_dfa below) (f_nodes below ++ [nd]) :: rest) = stack_ok (tos :: below :: rest)).
  { intros nd E. cbn [stack_ok forallb]. unfold frame_ok. cbn [f_nodes]. rewrite noerrs_app, noerrs_one, E.
    destruct (noerrs (f_nodes tos)); destruct (noerrs (f_nodes below)); reflexivity. }
  destruct (f_nodes tos) as [|x [|y r]] eqn:FN.
  - destruct (convert_node G (rule_of G (f_dfa tos)) []) as [nd|] eqn:CV; [|discriminate]. intros H; inversion H. apply K. eapply convert_node_noerr. exact CV.
  - intros H; inversion H. apply K. rewrite noerrs_one. reflexivity.
  - destruct (convert_node G (rule_of G (f_dfa tos)) (x :: y :: r)) as [nd|] eqn:CV; [|discriminate]. intros H; inversion H. apply K. eapply convert_node_noerr. exact CV.
Qed.

Lemma fold_push_ok ch : forall base top r,
  fold_left (fun st q => mkFr q [] :: st) ch base = top :: r -> stack_ok (top :: r) = stack_ok base.
Proof.
  induction ch as [|q ch IH]; intros base top r H; simpl in H; [subst; reflexivity|].
  rewrite (IH _ _ _ H). reflexivity.
Qed.

Lemma stack_ok_app a b : stack_ok (a ++ b) = stack_ok a && stack_ok b.
Proof. apply forallb_app. Qed.

Lemma flat_nodes_ok (l : list frame) : noerrs (flat_map f_nodes l) = stack_ok l.
Proof. induction l as [|fr r IH]; [reflexivity|]. simpl. rewrite noerrs_app, IH. reflexivity. Qed.
Lemma stack_ok_rev l : stack_ok (rev l) = stack_ok l.
Proof. induction l as [|fr r IH]; [reflexivity|]. simpl. rewrite stack_ok_app, IH. simpl. rewrite andb_true_r, andb_comm. reflexivity. Qed.

(* removing frames: an error marker stays, and wrapping into an error node creates one *)
Lemma stack_removal_ok s k s1 b : (k < length s)%nat -> stack_removal s k = (s1, b) ->
  (stack_ok s = false -> stack_ok s1 = false) /\ (b = true -> stack_ok s1 = false).
Proof.
  intros L H. unfold stack_removal in H.
  rewrite <- (firstn_skipn k s) at 1. rewrite stack_ok_app.
  pose proof (flat_nodes_ok (rev (firstn k s))) as FO. rewrite stack_ok_rev in FO.
  destruct (flat_map f_nodes (rev (firstn k s))) as [|x xs] eqn:AN.
  - inversion H; subst. simpl in FO. rewrite <- FO. simpl. split; [tauto|discriminate].
  - destruct (skipn k s) as [|below r] eqn:SK.
    + exfalso. assert (length (skipn k s) = 0%nat) by (rewrite SK; reflexivity). rewrite skipn_length in H0. lia.
    + inversion H; subst. assert (X: stack_ok (mkFr (f_dfa below) (f_nodes below ++ [Node KErrorNode (x :: xs)]) :: r) = false).
      { cbn [stack_ok forallb]. unfold frame_ok. cbn [f_nodes]. rewrite noerrs_app, noerrs_one, no_error_node. rewrite andb_false_r. reflexivity. }
      split; intros _; exact X.
Qed.

Lemma convert_leaf_ok t : no_error (convert_leaf G t) = true.
Proof. unfold convert_leaf. destruct (ty t); try reflexivity. destruct (assoc (ts t) (g_reserved G)); reflexivity. Qed.

Lemma shift_ok tos rest pl t top r :
  fold_left (fun st q => mkFr q [] :: st) (p_pushes pl) (mkFr (p_next pl) (f_nodes tos) :: rest) = top :: r ->
  stack_ok (mkFr (f_dfa top) (f_nodes top ++ [convert_leaf G t]) :: r) = stack_ok (tos :: rest).
Proof.
  intros FL. pose proof (fold_push_ok _ _ _ _ FL) as E. cbn [stack_ok forallb] in *. unfold frame_ok in *. cbn [f_nodes] in *.
  rewrite noerrs_app, noerrs_one, convert_leaf_ok, andb_true_r. exact E.
Qed.

(* the strict parser never creates an error marker *)
Lemma add_token_strict_ok : forall fuel p t p',
  add_token G TR fuel false p t = POk p' -> stack_ok (stack p') = stack_ok (stack p).
Proof.
  induction fuel as [|f IH]; intros p t p' H; [discriminate|]. cbn [add_token] in H.
  destruct (stack p) as [|tos rest] eqn:S; [discriminate|].
  destruct (trans TR (f_dfa tos) (token_label G t)) as [pl|].
  - destruct (fold_left (fun st q => mkFr q [] :: st) (p_pushes pl) (mkFr (p_next pl) (f_nodes tos) :: rest)) as [|top r] eqn:FL; [discriminate|].
    inversion H; subst. cbn [stack]. eapply shift_ok. exact FL.
  - destruct (final G (f_dfa tos)).
    + destruct (pop G (tos :: rest)) as [s'|] eqn:P; [|discriminate].
      apply IH in H. cbn [stack] in H. rewrite H. apply pop_ok. exact P.
    + match type of H with context [match ?sp with POk _ => _ | PErr _ => _ end] => destruct sp as [[p1|]|] eqn:SP; [| |discriminate] end.
      * inversion H; subst p1. clear H.
        revert SP. match goal with |- context [match ?c with POk _ => _ | PErr _ => _ end] => destruct c as [[|]|]; try discriminate end.
        destruct (rule_of G (f_dfa tos) =? r_simple_stmt G); [|discriminate].
        destruct (trans TR (f_dfa tos) (LType NEWLINE)) as [pl|]; [|discriminate].
        destruct (final G (p_next pl) && match p_pushes pl with [] => true | _ => false end); [|discriminate].
        destruct (add_token G TR f false (mkP (mkFr (p_next pl) (f_nodes tos) :: rest) (omit p) (icount p)) t) as [p2|] eqn:A; [|discriminate].
        intros X; inversion X; subst p2. apply IH in A. cbn [stack] in A. rewrite A. reflexivity.
      * simpl in H. discriminate.
Qed.

(* in recovering mode markers are never lost *)
Lemma add_token_mono : forall fuel p t p',
  add_token G TR fuel true p t = POk p' -> stack_ok (stack p) = false -> stack_ok (stack p') = false.
Proof.
  induction fuel as [|f IH]; intros p t p' H BAD; [discriminate|]. cbn [add_token] in H.
  destruct (stack p) as [|tos rest] eqn:S; [discriminate|].
  destruct (trans TR (f_dfa tos) (token_label G t)) as [pl|].
  - destruct (fold_left (fun st q => mkFr q [] :: st) (p_pushes pl) (mkFr (p_next pl) (f_nodes tos) :: rest)) as [|top r] eqn:FL; [discriminate|].
    inversion H; subst. cbn [stack]. rewrite (shift_ok _ _ _ _ _ _ FL). exact BAD.
  - destruct (final G (f_dfa tos)).
    + destruct (pop G (tos :: rest)) as [s'|] eqn:P; [|discriminate].
      apply IH in H; [exact H|]. cbn [stack]. rewrite (pop_ok _ _ P). exact BAD.
    + match type of H with context [match ?sp with POk _ => _ | PErr _ => _ end] => destruct sp as [[p1|]|] eqn:SP; [| |discriminate] end.
      * inversion H; subst p1. clear H.
        revert SP. match goal with |- context [match ?c with POk _ => _ | PErr _ => _ end] => destruct c as [[|]|]; try discriminate end.
        destruct (rule_of G (f_dfa tos) =? r_simple_stmt G); [|discriminate].
        destruct (trans TR (f_dfa tos) (LType NEWLINE)) as [pl|]; [|discriminate].
        destruct (final G (p_next pl) && match p_pushes pl with [] => true | _ => false end); [|discriminate].
        destruct (add_token G TR f true (mkP (mkFr (p_next pl) (f_nodes tos) :: rest) (omit p) (icount p)) t) as [p2|] eqn:A; [|discriminate].
        intros X; inversion X; subst p2. apply IH in A; [exact A|]. exact BAD.
      * cbn [negb] in H.
        pose proof (current_suite_lt G (tos :: rest) ltac:(discriminate)) as LT.
        destruct (stack_removal (tos :: rest) (current_suite G (tos :: rest))) as [s1 removed] eqn:SR.
        destruct (stack_removal_ok _ _ _ _ LT SR) as [M1 _]. specialize (M1 BAD).
        match type of H with context [match ?af with POk _ => _ | PErr _ => _ end] => destruct af as [p2|] eqn:AF; [|discriminate] end.
        assert (E2: stack_ok (stack p2) = false).
        { destruct removed.
          - apply IH in AF; [exact AF|exact M1].
          - destruct s1 as [|top r]; [discriminate|]. inversion AF; subst p2. cbn [stack stack_ok forallb] in *. unfold frame_ok in *. cbn [f_nodes].
            rewrite noerrs_app. simpl. rewrite andb_false_r. reflexivity. }
        destruct (stack p2) as [|top r] eqn:S2; [discriminate|].
        destruct (rule_of G (f_dfa top) =? r_suite G).
        -- destruct (arc_nt G (f_dfa top) (r_stmt G)); inversion H; subst; cbn [stack]; [|rewrite S2; exact E2]. exact E2.
        -- inversion H; subst. rewrite S2. exact E2.
Qed.

(* where the strict parser raises its syntax error, the recovering parser creates a marker *)
Lemma add_token_err : forall fuel p t x om ic p',
  add_token G TR fuel false p t = PErr (SyntaxErr x) ->
  add_token G TR fuel true (mkP (stack p) om ic) t = POk p' -> stack_ok (stack p') = false.
Proof.
  induction fuel as [|f IH]; intros p t x om ic p' H R; [discriminate|]. cbn [add_token] in H, R. cbn [stack omit icount] in R.
  destruct (stack p) as [|tos rest] eqn:S; [discriminate|].
  destruct (trans TR (f_dfa tos) (token_label G t)) as [pl|].
  - destruct (fold_left (fun st q => mkFr q [] :: st) (p_pushes pl) (mkFr (p_next pl) (f_nodes tos) :: rest)) as [|top r]; discriminate.
  - destruct (final G (f_dfa tos)).
    + destruct (pop G (tos :: rest)) as [s'|] eqn:P; [|discriminate].
      eapply (IH (mkP s' (omit p) (icount p))); [exact H|exact R].
    + set (last_leaf := match rev (f_nodes tos) with [] => None | y :: _ => last_leaf_value y end) in *.
      set (cond := match ty t with
                   | ENDMARKER => POk true
                   | DEDENT => match last_leaf with None => PErr PAttr | Some v => POk (negb (ends_newline v)) end
                   | _ => POk false end) in *.
      (* what remains when the missing-newline repair does not apply: the real recovery *)
      assert (REC: forall q,
         (let k := current_suite G (tos :: rest) in
          let '(s1, removed) := stack_removal (tos :: rest) k in
          let after : pres pstate :=
            if removed then add_token G TR f true (mkP s1 om ic) t
            else
              let om' := match ty t with INDENT => om ++ [ic] | _ => om end in
              match s1 with
              | top :: r => POk (mkP (mkFr (f_dfa top) (f_nodes top ++ [Leaf (KErrorLeaf (ty t)) (ts t) (tpre t) (tline t) (tcol t)]) :: r) om' ic)
              | [] => PErr PIndex
              end in
          match after with
          | PErr e => PErr e
          | POk p2 =>
            match stack p2 with
            | top :: r =>
              if rule_of G (f_dfa top) =? r_suite G then
                match arc_nt G (f_dfa top) (r_stmt G) with
                | Some q' => POk (mkP (mkFr q' (f_nodes top) :: r) (omit p2) (icount p2))
                | None => POk p2 end
              else POk p2
            | [] => PErr PIndex
            end
          end) = POk q -> stack_ok (stack q) = false).
      { intros q HQ. cbv zeta in HQ.
        pose proof (current_suite_lt G (tos :: rest) ltac:(discriminate)) as LT.
        destruct (stack_removal (tos :: rest) (current_suite G (tos :: rest))) as [s1 removed] eqn:SR.
        destruct (stack_removal_ok _ _ _ _ LT SR) as [_ M2].
        match type of HQ with context [match ?af with POk _ => _ | PErr _ => _ end] => destruct af as [p2|] eqn:AF; [|discriminate] end.
        assert (E2: stack_ok (stack p2) = false).
        { destruct removed.
          - eapply add_token_mono; [exact AF|]. cbn [stack]. apply M2. reflexivity.
          - destruct s1 as [|top r]; [discriminate|]. inversion AF; subst p2. cbn [stack stack_ok forallb]. unfold frame_ok. cbn [f_nodes].
            rewrite noerrs_app. simpl. rewrite andb_false_r. reflexivity. }
        destruct (stack p2) as [|top r] eqn:S2; [discriminate|].
        destruct (rule_of G (f_dfa top) =? r_suite G).
        - destruct (arc_nt G (f_dfa top) (r_stmt G)); inversion HQ; subst; cbn [stack]; [|rewrite S2; exact E2]. exact E2.
        - inversion HQ; subst. rewrite S2. exact E2. }
      destruct cond as [[|]|e]; [| |discriminate].
      * destruct (rule_of G (f_dfa tos) =? r_simple_stmt G); [|cbn [negb] in H, R; apply REC; exact R].
        destruct (trans TR (f_dfa tos) (LType NEWLINE)) as [pl|]; [|cbn [negb] in H, R; apply REC; exact R].
        destruct (final G (p_next pl) && match p_pushes pl with [] => true | _ => false end); [|cbn [negb] in H, R; apply REC; exact R].
        destruct (add_token G TR f false (mkP (mkFr (p_next pl) (f_nodes tos) :: rest) (omit p) (icount p)) t) as [p1|e] eqn:A; [discriminate|].
        inversion H; subst e.
        destruct (add_token G TR f true (mkP (mkFr (p_next pl) (f_nodes tos) :: rest) om ic) t) as [p2|] eqn:A2; [|discriminate].
        inversion R; subst p2. eapply (IH (mkP (mkFr (p_next pl) (f_nodes tos) :: rest) (omit p) (icount p))); [exact A|exact A2].
      * cbn [negb] in H, R. apply REC. exact R.
Qed.

Lemma feed_strict_ok : forall toks p p', feed G TR false p toks = POk p' -> stack_ok (stack p') = stack_ok (stack p).
Proof.
  induction toks as [|t toks IH]; intros p p' H; cbn [feed] in H; [inversion H; reflexivity|].
  destruct (add_token G TR (S (S (2 * length (stack p)))) false p t) as [p2|] eqn:A; [|discriminate].
  rewrite (IH _ _ H). eapply add_token_strict_ok. exact A.
Qed.

Lemma feed_mono : forall toks p p', feed G TR true p toks = POk p' -> stack_ok (stack p) = false -> stack_ok (stack p') = false.
Proof.
  induction toks as [|t toks IH]; intros p p' H BAD; cbn [feed] in H; [inversion H; subst; exact BAD|].
  match type of H with context [match ?st with Some _ => _ | None => _ end] => destruct st as [p1|] eqn:STEP end.
  - assert (SP: stack p1 = stack p).
    { destruct (ty t); try (inversion STEP; reflexivity).
      destruct (last_z (omit p)) as [o|]; [destruct (o =? icount p)%Z; [discriminate|]|]; inversion STEP; reflexivity. }
    destruct (add_token G TR (S (S (2 * length (stack p1)))) true p1 t) as [p2|] eqn:A; [|discriminate].
    eapply IH; [exact H|]. eapply add_token_mono; [exact A|rewrite SP; exact BAD].
  - eapply IH; [exact H|exact BAD].
Qed.

Lemma feed_err : forall toks p x, feed G TR false p toks = PErr (SyntaxErr x) ->
  forall ic p', feed G TR true (mkP (stack p) [] ic) toks = POk p' -> stack_ok (stack p') = false.
Proof.
  induction toks as [|t toks IH]; intros p x H ic p' R; cbn [feed] in H, R; [discriminate|].
  cbn [stack omit icount last_z rev] in R.
  (* with an empty omit list the recovery tokenizer only moves the indentation counter *)
  assert (K: forall ic1, match add_token G TR (S (S (2 * length (stack p)))) true (mkP (stack p) [] ic1) t with
                         | POk p2 => feed G TR true p2 toks | PErr e => PErr e end = POk p' -> stack_ok (stack p') = false).
  { intros ic1 R1.
    destruct (add_token G TR (S (S (2 * length (stack p)))) false p t) as [p2|e] eqn:A.
    - rewrite (add_token_sim G TR _ p t p2 A [] ic1) in R1. eapply IH; [exact H|exact R1].
    - inversion H; subst e.
      destruct (add_token G TR (S (S (2 * length (stack p)))) true (mkP (stack p) [] ic1) t) as [p2|] eqn:A2; [|discriminate].
      eapply feed_mono; [exact R1|]. eapply add_token_err; [exact A|exact A2]. }
  destruct (ty t); cbn [stack omit icount] in R; eapply K; exact R.
Qed.

Lemma finish_ok : forall fuel s t, finish G fuel s = POk t -> no_error t = stack_ok s.
Proof.
  induction fuel as [|f IH]; intros s t H; [discriminate|]. cbn [finish] in H.
  destruct s as [|tos rest]; [discriminate|]. destruct (negb (final G (f_dfa tos))); [discriminate|].
  destruct rest as [|below rest].
  - apply convert_node_noerr in H. rewrite H. cbn [stack_ok forallb]. unfold frame_ok. rewrite andb_true_r. reflexivity.
  - destruct (pop G (tos :: below :: rest)) as [s'|] eqn:P; [|discriminate]. rewrite (IH _ _ H). apply pop_ok. exact P.
Qed.

Lemma pop_not_syntax s x : pop G s <> PErr (SyntaxErr x).
Proof.
  unfold pop. destruct s as [|tos [|below rest]]; [discriminate|discriminate|].
  destruct (f_nodes tos) as [|y [|z r]]; try discriminate;
    (destruct (convert_node G (rule_of G (f_dfa tos)) _) as [nd|e] eqn:CV; [discriminate|]);
    intros H; inversion H; subst e; apply convert_node_err in CV; destruct CV as [X|[X|X]]; discriminate.
Qed.
Lemma finish_not_syntax : forall fuel s x, finish G fuel s <> PErr (SyntaxErr x).
Proof.
  induction fuel as [|f IH]; intros s x; [discriminate|]. cbn [finish].
  destruct s as [|tos rest]; [discriminate|]. destruct (negb (final G (f_dfa tos))); [discriminate|].
  destruct rest as [|below rest].
  - intros H. apply convert_node_err in H. destruct H as [X|[X|X]]; discriminate.
  - destruct (pop G (tos :: below :: rest)) as [s'|e] eqn:P; [apply IH|]. intros H; inversion H; subst e. exact (pop_not_syntax _ _ P).
Qed.

Theorem strict_no_error : forall start toks t, parse G TR false start toks = POk t -> no_error t = true.
Proof.
  intros start toks t H. unfold parse in H. destruct (assocN start (g_start G)) as [q0|]; [|discriminate].
  destruct (feed G TR false (mkP [mkFr q0 []] [] 0%Z) toks) as [p|] eqn:F; [|discriminate].
  rewrite (finish_ok _ _ _ H), (feed_strict_ok _ _ _ F). reflexivity.
Qed.

Theorem syntax_error_marked : forall start toks x t,
  parse G TR false start toks = PErr (SyntaxErr x) -> parse G TR true start toks = POk t -> no_error t = false.
Proof.
  intros start toks x t H R. unfold parse in H, R. destruct (assocN start (g_start G)) as [q0|]; [|discriminate].
  destruct (feed G TR false (mkP [mkFr q0 []] [] 0%Z) toks) as [p|e] eqn:F.
  - exfalso. exact (finish_not_syntax _ _ _ H).
  - inversion H; subst e.
    destruct (feed G TR true (mkP [mkFr q0 []] [] 0%Z) toks) as [p'|] eqn:F2; [|discriminate].
    rewrite (finish_ok _ _ _ R). eapply (feed_err toks (mkP [mkFr q0 []] [] 0%Z)); [exact F|exact F2].
Qed.

(* both halves together: for token lists on which both parsers give a verdict *)
Theorem error_marker_iff_strict_raises : forall start toks t,
  parse G TR true start toks = POk t ->
  (forall t', parse G TR false start toks = POk t' -> t' = t /\ no_error t = true) /\
  (forall x, parse G TR false start toks = PErr (SyntaxErr x) -> no_error t = false).
Proof.
  intros start toks t R. split.
  - intros t' S. pose proof (strict_accepts_recover_same G TR _ _ _ S) as E. rewrite R in E. inversion E; subst t'.
    split; [reflexivity|eapply strict_no_error; exact S].
  - intros x S. eapply syntax_error_marked; eassumption.
Qed.
End Err.
Print Assumptions error_marker_iff_strict_raises.
