From Coq Require Import List NArith ZArith Bool Lia.
Import ListNotations.
Require Import Regex Tok Engine ParseKeeps.
Open Scope N_scope.

(* C04, locality of the engine in what the root frame already holds.

   The incremental parser keeps the nodes of the statements in front of a change and runs a NEW parser over the tokens
   of the rest; its result is spliced in after the kept nodes.  That is right only if the nodes the root frame already
   holds do not influence how the following tokens are parsed.  Here: for every table, both modes and every token list,
   running the engine from a stack whose bottom frame additionally holds `ns` in front of its own nodes gives exactly
   the result of the run without them, with `ns` in front of the children of the root - provided the first token is not
   a DEDENT arriving at a root frame that is still empty (the one place where the engine looks at the last node of the
   frame it is in: the missing-newline test for a DEDENT). *)

Fixpoint shiftb (ns : list tree) (s : list frame) : list frame :=
  match s with
  | [] => []
  | b :: r => match r with
              | [] => [mkFr (f_dfa b) (ns ++ f_nodes b)]
              | _ => b :: shiftb ns r
              end
  end.
Lemma shiftb_one ns b : shiftb ns [b] = [mkFr (f_dfa b) (ns ++ f_nodes b)].
Proof. reflexivity. Qed.
Lemma shiftb_cons2 ns f g r : shiftb ns (f :: g :: r) = f :: shiftb ns (g :: r).
Proof. reflexivity. Qed.
Lemma shiftb_length ns s : length (shiftb ns s) = length s.
Proof. induction s as [|f [|g r] IH]; [reflexivity|reflexivity|]. rewrite shiftb_cons2. cbn [length] in *. rewrite IH. reflexivity. Qed.
Lemma shiftb_nonempty ns g r : shiftb ns (g :: r) <> [].
Proof. destruct r; cbn; discriminate. Qed.
(* a root frame that stands alone holds at least one node of its own *)
Definition settled (s : list frame) : Prop := match s with [] => False | [b] => f_nodes b <> [] | _ => True end.
Definition ready (s : list frame) (t : Token) : Prop := settled s \/ ty t <> DEDENT.

Definition liftp (ns : list tree) (r : pres pstate) : pres pstate :=
  match r with POk p => POk (mkP (shiftb ns (stack p)) (omit p) (icount p)) | PErr e => PErr e end.

Section Restart.
Variable G : gram.
Variable TR : list (N * list (label * plan)).
Variable ns : list tree.

Lemma top_dfa_shiftb f r : match shiftb ns (f :: r) with x :: _ => f_dfa x = f_dfa f | [] => False end.
Proof. destruct r; reflexivity. Qed.

Lemma pop_shiftb s :
  pop G (shiftb ns s) = match pop G s with POk s' => POk (shiftb ns s') | PErr e => PErr e end.
Proof.
  destruct s as [|tos [|below rest]]; [reflexivity|reflexivity|].
  rewrite shiftb_cons2.
  destruct rest as [|c rest'].
  - rewrite shiftb_one. unfold pop. cbn [f_nodes f_dfa].
    destruct (f_nodes tos) as [|x [|y l]].
    + destruct (convert_node G (rule_of G (f_dfa tos)) []) as [nd|]; [|reflexivity]. rewrite shiftb_one. cbn [f_dfa f_nodes]. rewrite app_assoc. reflexivity.
    + rewrite shiftb_one. cbn [f_dfa f_nodes]. rewrite app_assoc. reflexivity.
    + destruct (convert_node G (rule_of G (f_dfa tos)) (x :: y :: l)) as [nd|]; [|reflexivity]. rewrite shiftb_one. cbn [f_dfa f_nodes]. rewrite app_assoc. reflexivity.
  - rewrite shiftb_cons2. unfold pop.
    destruct (f_nodes tos) as [|x [|y l]].
    + destruct (convert_node G (rule_of G (f_dfa tos)) []) as [nd|]; [|reflexivity]. rewrite shiftb_cons2. reflexivity.
    + rewrite shiftb_cons2. reflexivity.
    + destruct (convert_node G (rule_of G (f_dfa tos)) (x :: y :: l)) as [nd|]; [|reflexivity]. rewrite shiftb_cons2. reflexivity.
Qed.

Lemma fold_push_shiftb ch : forall base, base <> [] ->
  fold_left (fun st q => mkFr q [] :: st) ch (shiftb ns base) = shiftb ns (fold_left (fun st q => mkFr q [] :: st) ch base).
Proof.
  induction ch as [|q ch IH]; intros base NE; [reflexivity|]. cbn [fold_left].
  destruct base as [|g r]; [contradiction|].
  rewrite <- (IH (mkFr q [] :: g :: r)) by discriminate. rewrite shiftb_cons2. reflexivity.
Qed.

Lemma current_suite_shiftb : forall s, current_suite G (shiftb ns s) = current_suite G s.
Proof.
  induction s as [|f [|g r] IH]; [reflexivity|reflexivity|].
  rewrite shiftb_cons2. pose proof (shiftb_nonempty ns g r) as NE.
  destruct (shiftb ns (g :: r)) as [|x y] eqn:E; [contradiction|].
  change (current_suite G (f :: x :: y)) with (let r0 := rule_of G (f_dfa f) in if r0 =? r_file_input G then 0%nat else if (r0 =? r_suite G) && negb (Nat.eqb (length (f_nodes f)) 1) then 0%nat else S (current_suite G (x :: y))).
  change (current_suite G (f :: g :: r)) with (let r0 := rule_of G (f_dfa f) in if r0 =? r_file_input G then 0%nat else if (r0 =? r_suite G) && negb (Nat.eqb (length (f_nodes f)) 1) then 0%nat else S (current_suite G (g :: r))).
  cbn zeta. rewrite IH. reflexivity.
Qed.

Lemma firstn_skipn_shiftb : forall k s, (k < length s)%nat ->
  firstn k (shiftb ns s) = firstn k s /\ skipn k (shiftb ns s) = shiftb ns (skipn k s).
Proof.
  induction k as [|k IH]; intros s L; [split; reflexivity|].
  destruct s as [|f [|g r]]; [simpl in L; lia|simpl in L; lia|].
  rewrite shiftb_cons2. cbn [firstn skipn]. destruct (IH (g :: r) ltac:(simpl in *; lia)) as [A B]. rewrite A, B. split; reflexivity.
Qed.

Lemma stack_removal_shiftb s k : (k < length s)%nat ->
  stack_removal (shiftb ns s) k = (shiftb ns (fst (stack_removal s k)), snd (stack_removal s k)).
Proof.
  intros L. unfold stack_removal. destruct (firstn_skipn_shiftb k s L) as [A B]. rewrite A, B.
  destruct (flat_map f_nodes (rev (firstn k s))) as [|n0 nn].
  - reflexivity.
  - destruct (skipn k s) as [|below r] eqn:SK.
    + reflexivity.
    + destruct r as [|c r'].
      * rewrite shiftb_one. cbn [fst snd f_dfa f_nodes]. rewrite shiftb_one. cbn [f_dfa f_nodes]. rewrite app_assoc. reflexivity.
      * rewrite shiftb_cons2. cbn [fst snd]. rewrite shiftb_cons2. reflexivity.
Qed.

(* appending to the top frame commutes *)
Lemma append_top_shiftb top r x :
  match shiftb ns (top :: r) with
  | t' :: r' => mkFr (f_dfa t') (f_nodes t' ++ [x]) :: r' = shiftb ns (mkFr (f_dfa top) (f_nodes top ++ [x]) :: r)
  | [] => False end.
Proof.
  destruct r as [|g r'].
  - rewrite !shiftb_one. cbn [f_dfa f_nodes]. rewrite app_assoc. reflexivity.
  - rewrite !shiftb_cons2. reflexivity.
Qed.
Lemma retarget_shiftb top r q :
  match shiftb ns (top :: r) with
  | t' :: r' => mkFr q (f_nodes t') :: r' = shiftb ns (mkFr q (f_nodes top) :: r)
  | [] => False end.
Proof.
  destruct r as [|g r'].
  - rewrite !shiftb_one. reflexivity.
  - rewrite !shiftb_cons2. reflexivity.
Qed.

(* the last leaf of the top frame, as the missing-newline test reads it *)
Definition last_leaf_of (fr : frame) : option str := match rev (f_nodes fr) with [] => None | x :: _ => last_leaf_value x end.
Lemma last_leaf_shiftb top r : settled (top :: r) ->
  match shiftb ns (top :: r) with t' :: _ => last_leaf_of t' = last_leaf_of top | [] => False end.
Proof.
  intros S. destruct r as [|g r'].
  - rewrite shiftb_one. unfold last_leaf_of. cbn [f_nodes]. cbn [settled] in S.
    destruct (f_nodes top) as [|a l] using rev_ind; [contradiction|]. rewrite app_assoc, !rev_app_distr. reflexivity.
  - rewrite shiftb_cons2. reflexivity.
Qed.

Lemma settled_append top r x : settled (mkFr (f_dfa top) (f_nodes top ++ [x]) :: r).
Proof. destruct r; [|exact I]. cbn [settled f_nodes]. intros E. apply app_eq_nil in E as [_ E]. discriminate. Qed.


(* the part of error_recovery after the missing-newline test, as a function of what the recursive call does *)
Definition tail_of (rec : pstate -> pres pstate) (recover : bool) (s : list frame) (om : list Z) (ic : Z) (t : Token) : pres pstate :=
  if negb recover then PErr (SyntaxErr t)
  else
    let k := current_suite G s in
    let '(s1, removed) := stack_removal s k in
    let after : pres pstate :=
      if removed then rec (mkP s1 om ic)
      else
        let om' := match ty t with INDENT => om ++ [ic] | _ => om end in
        match s1 with
        | top :: r => POk (mkP (mkFr (f_dfa top) (f_nodes top ++ [Leaf (KErrorLeaf (ty t)) (ts t) (tpre t) (tline t) (tcol t)]) :: r) om' ic)
        | [] => PErr PIndex
        end in
    match after with
    | PErr e => PErr e
    | POk p2 =>
      match stack p2 with
      | top :: r =>
        if rule_of G (f_dfa top) =? r_suite G then
          match arc_nt G (f_dfa top) (r_stmt G) with
          | Some q => POk (mkP (mkFr q (f_nodes top) :: r) (omit p2) (icount p2))
          | None => POk p2 end
        else POk p2
      | [] => PErr PIndex
      end
    end.

Lemma tail_of_shiftb (rec : pstate -> pres pstate) recover tos rest om ic t :
  (forall s1, settled s1 ->
     rec (mkP (shiftb ns s1) om ic) = liftp ns (rec (mkP s1 om ic)) /\ (forall p', rec (mkP s1 om ic) = POk p' -> settled (stack p'))) ->
  tail_of rec recover (shiftb ns (tos :: rest)) om ic t = liftp ns (tail_of rec recover (tos :: rest) om ic t) /\
  (forall p', tail_of rec recover (tos :: rest) om ic t = POk p' -> settled (stack p')).
Proof.
  intros REC. unfold tail_of. destruct (negb recover); [split; [reflexivity|discriminate]|].
  rewrite current_suite_shiftb.
  pose proof (current_suite_lt G (tos :: rest) ltac:(discriminate)) as LT.
  rewrite (stack_removal_shiftb _ _ LT).
  destruct (stack_removal (tos :: rest) (current_suite G (tos :: rest))) as [s1 removed] eqn:SR. cbn [fst snd].
  assert (FIN: forall p2, settled (stack p2) -> stack p2 <> [] ->
     match stack (mkP (shiftb ns (stack p2)) (omit p2) (icount p2)) with
     | top :: r => if rule_of G (f_dfa top) =? r_suite G then
                     match arc_nt G (f_dfa top) (r_stmt G) with
                     | Some q => POk (mkP (mkFr q (f_nodes top) :: r) (omit p2) (icount p2))
                     | None => POk (mkP (shiftb ns (stack p2)) (omit p2) (icount p2)) end
                   else POk (mkP (shiftb ns (stack p2)) (omit p2) (icount p2))
     | [] => PErr PIndex end =
     liftp ns (match stack p2 with
     | top :: r => if rule_of G (f_dfa top) =? r_suite G then
                     match arc_nt G (f_dfa top) (r_stmt G) with
                     | Some q => POk (mkP (mkFr q (f_nodes top) :: r) (omit p2) (icount p2))
                     | None => POk p2 end
                   else POk p2
     | [] => PErr PIndex end) /\
     (forall p', match stack p2 with
     | top :: r => if rule_of G (f_dfa top) =? r_suite G then
                     match arc_nt G (f_dfa top) (r_stmt G) with
                     | Some q => POk (mkP (mkFr q (f_nodes top) :: r) (omit p2) (icount p2))
                     | None => POk p2 end
                   else POk p2
     | [] => PErr PIndex end = POk p' -> settled (stack p'))).
  { intros p2 ST NE. cbn [stack]. destruct (stack p2) as [|top r] eqn:S2; [contradiction|].
    pose proof (top_dfa_shiftb top r) as TD. pose proof (retarget_shiftb top r) as RT.
    destruct (shiftb ns (top :: r)) as [|t' r'] eqn:SB; [contradiction|]. rewrite TD.
    destruct (rule_of G (f_dfa top) =? r_suite G).
    - destruct (arc_nt G (f_dfa top) (r_stmt G)) as [q|].
      + cbn [liftp stack omit icount]. rewrite (RT q). split; [reflexivity|]. intros p' Y. inversion Y; subst. cbn [stack].
        destruct r; [exact ST|exact I].
      + cbn [liftp]. rewrite S2, SB. split; [reflexivity|]. intros p' Y. inversion Y; subst. rewrite S2. exact ST.
    - cbn [liftp]. rewrite S2, SB. split; [reflexivity|]. intros p' Y. inversion Y; subst. rewrite S2. exact ST. }
  destruct removed.
  - (* an error node was built: s1 = below' :: r with a non-empty top frame *)
    assert (S1: s1 <> [] /\ settled s1).
    { unfold stack_removal in SR. destruct (flat_map f_nodes (rev (firstn (current_suite G (tos :: rest)) (tos :: rest)))); [inversion SR|].
      destruct (skipn (current_suite G (tos :: rest)) (tos :: rest)) as [|below r]; [inversion SR|]. inversion SR; subst.
      split; [discriminate|apply (settled_append below r)]. }
    destruct S1 as [N1 ST1]. destruct (REC s1 ST1) as [A B]. rewrite A.
    destruct (rec (mkP s1 om ic)) as [p2|] eqn:RC; [|split; [reflexivity|discriminate]].
    cbn [liftp]. specialize (B p2 eq_refl).
    assert (NE2: stack p2 <> []) by (intros X; rewrite X in B; exact B).
    cbn [stack omit icount]. apply (FIN p2); assumption.
  - destruct s1 as [|top r]; [split; [reflexivity|discriminate]|].
    pose proof (append_top_shiftb top r (Leaf (KErrorLeaf (ty t)) (ts t) (tpre t) (tline t) (tcol t))) as AT.
    destruct (shiftb ns (top :: r)) as [|t' r'] eqn:SB; [contradiction|]. rewrite AT.
    set (p2 := mkP (mkFr (f_dfa top) (f_nodes top ++ [Leaf (KErrorLeaf (ty t)) (ts t) (tpre t) (tline t) (tcol t)]) :: r) (match ty t with INDENT => om ++ [ic] | _ => om end) ic).
    change (mkP (shiftb ns (mkFr (f_dfa top) (f_nodes top ++ [Leaf (KErrorLeaf (ty t)) (ts t) (tpre t) (tline t) (tcol t)]) :: r)) (match ty t with INDENT => om ++ [ic] | _ => om end) ic)
      with (mkP (shiftb ns (stack p2)) (omit p2) (icount p2)).
    cbn [stack omit icount]. apply (FIN p2); [apply settled_append|discriminate].
Qed.


(* the missing-newline test and repair, as a function of the recursive call *)
Definition special_of (rec : pstate -> pres pstate) (tos : frame) (rest : list frame) (om : list Z) (ic : Z) (t : Token) : pres (option pstate) :=
  let cond : pres bool :=
    match ty t with
    | ENDMARKER => POk true
    | DEDENT => match last_leaf_of tos with
                | None => PErr PAttr
                | Some v => POk (negb (ends_newline v)) end
    | _ => POk false end in
  match cond with
  | PErr e => PErr e
  | POk false => POk None
  | POk true =>
    if rule_of G (f_dfa tos) =? r_simple_stmt G then
      match trans TR (f_dfa tos) (LType NEWLINE) with
      | Some pl =>
        if final G (p_next pl) && match p_pushes pl with [] => true | _ => false end then
          match rec (mkP (mkFr (p_next pl) (f_nodes tos) :: rest) om ic) with
          | POk p' => POk (Some p')
          | PErr e => PErr e end
        else POk None
      | None => POk None
      end
    else POk None
  end.

Lemma add_token_unfold f recover tos rest om ic t :
  add_token G TR (S f) recover (mkP (tos :: rest) om ic) t =
  match trans TR (f_dfa tos) (token_label G t) with
  | Some pl =>
    match fold_left (fun st q => mkFr q [] :: st) (p_pushes pl) (mkFr (p_next pl) (f_nodes tos) :: rest) with
    | top :: r => POk (mkP (mkFr (f_dfa top) (f_nodes top ++ [convert_leaf G t]) :: r) om ic)
    | [] => PErr PIndex
    end
  | None =>
    if final G (f_dfa tos) then
      match pop G (tos :: rest) with
      | POk s' => add_token G TR f recover (mkP s' om ic) t
      | PErr e => PErr e
      end
    else
      match special_of (fun p => add_token G TR f recover p t) tos rest om ic t with
      | PErr e => PErr e
      | POk (Some p') => POk p'
      | POk None => tail_of (fun p => add_token G TR f recover p t) recover (tos :: rest) om ic t
      end
  end.
Proof. reflexivity. Qed.

Definition RECOK (rec : pstate -> pres pstate) (om : list Z) (ic : Z) (t : Token) : Prop :=
  forall s1, ready s1 t -> s1 <> [] ->
    rec (mkP (shiftb ns s1) om ic) = liftp ns (rec (mkP s1 om ic)) /\ (forall p', rec (mkP s1 om ic) = POk p' -> settled (stack p')).

Lemma settled_ready s t : settled s -> ready s t.
Proof. intros S. left. exact S. Qed.

Lemma add_token_shiftb : forall fuel recover om ic t, RECOK (fun p => add_token G TR fuel recover p t) om ic t.
Proof.
  induction fuel as [|f IH]; intros recover om ic t s RD NE; [split; [reflexivity|discriminate]|].
  destruct s as [|tos rest]; [contradiction|].
  pose proof (top_dfa_shiftb tos rest) as TD. pose proof (retarget_shiftb tos rest) as RT.
  pose proof (append_top_shiftb tos rest) as AT.
  destruct (shiftb ns (tos :: rest)) as [|tos' rest'] eqn:SB; [contradiction|].
  rewrite !add_token_unfold, TD.
  destruct (trans TR (f_dfa tos) (token_label G t)) as [pl|].
  - rewrite (RT (p_next pl)), fold_push_shiftb by discriminate.
    destruct (fold_left (fun st q => mkFr q [] :: st) (p_pushes pl) (mkFr (p_next pl) (f_nodes tos) :: rest)) as [|top r] eqn:FL.
    + split; [reflexivity|discriminate].
    + pose proof (append_top_shiftb top r (convert_leaf G t)) as X.
      destruct (shiftb ns (top :: r)) as [|t2 r2]; [contradiction|]. cbn [liftp stack omit icount]. rewrite X.
      split; [reflexivity|]. intros p' Y. inversion Y; subst. cbn [stack]. apply settled_append.
  - destruct (final G (f_dfa tos)).
    + rewrite <- SB, pop_shiftb. destruct (pop G (tos :: rest)) as [s'|] eqn:P; [|split; [reflexivity|discriminate]].
      assert (ST: settled s').
      { unfold pop in P. destruct rest as [|below r2]; [discriminate|].
        destruct (f_nodes tos) as [|x [|y l]].
        - destruct (convert_node G (rule_of G (f_dfa tos)) []) as [nd|]; [|discriminate P]. inversion P; subst. apply (settled_append below r2).
        - inversion P; subst. apply (settled_append below r2).
        - destruct (convert_node G (rule_of G (f_dfa tos)) (x :: y :: l)) as [nd|]; [|discriminate P]. inversion P; subst. apply (settled_append below r2). }
      apply (IH recover om ic t s' (settled_ready _ _ ST)). intros X; rewrite X in ST; exact ST.
    + (* error recovery: the test, then the tail *)
      assert (SP: special_of (fun p => add_token G TR f recover p t) tos' rest' om ic t =
                  match special_of (fun p => add_token G TR f recover p t) tos rest om ic t with
                  | PErr e => PErr e | POk None => POk None
                  | POk (Some p') => POk (Some (mkP (shiftb ns (stack p')) (omit p') (icount p'))) end /\
                  (forall p', special_of (fun p => add_token G TR f recover p t) tos rest om ic t = POk (Some p') -> settled (stack p'))).
      { unfold special_of. rewrite TD.
        assert (LE: match ty t with DEDENT => last_leaf_of tos' = last_leaf_of tos | _ => True end).
        { destruct (ty t) eqn:TY; try exact I. destruct RD as [S|N]; [|contradiction].
          pose proof (last_leaf_shiftb tos rest S) as X. rewrite SB in X. exact X. }
        assert (CE: (match ty t with
                     | ENDMARKER => POk true
                     | DEDENT => match last_leaf_of tos' with None => PErr PAttr | Some v => POk (negb (ends_newline v)) end
                     | _ => POk false end) =
                    (match ty t with
                     | ENDMARKER => POk true
                     | DEDENT => match last_leaf_of tos with None => PErr PAttr | Some v => POk (negb (ends_newline v)) end
                     | _ => POk false end)).
        { destruct (ty t); try reflexivity. rewrite LE. reflexivity. }
        rewrite CE. clear CE LE.
        destruct (match ty t with
                  | ENDMARKER => POk true
                  | DEDENT => match last_leaf_of tos with None => PErr PAttr | Some v => POk (negb (ends_newline v)) end
                  | _ => POk false end) as [[|]|e];
          [|split; [reflexivity|discriminate]|split; [reflexivity|discriminate]].
        destruct (rule_of G (f_dfa tos) =? r_simple_stmt G); [|split; [reflexivity|discriminate]].
        destruct (trans TR (f_dfa tos) (LType NEWLINE)) as [pl|]; [|split; [reflexivity|discriminate]].
        destruct (final G (p_next pl) && match p_pushes pl with [] => true | _ => false end); [|split; [reflexivity|discriminate]].
        rewrite (RT (p_next pl)).
        assert (RD2: ready (mkFr (p_next pl) (f_nodes tos) :: rest) t).
        { destruct RD as [S|N]; [left; destruct rest; [exact S|exact I]|right; exact N]. }
        destruct (IH recover om ic t _ RD2 ltac:(discriminate)) as [A B]. rewrite A.
        destruct (add_token G TR f recover (mkP (mkFr (p_next pl) (f_nodes tos) :: rest) om ic) t) as [p2|]; [|split; [reflexivity|discriminate]].
        cbn [liftp]. split; [reflexivity|]. intros p' Y. inversion Y; subst. apply B. reflexivity. }
      destruct SP as [SP1 SP2]. rewrite SP1.
      destruct (special_of (fun p => add_token G TR f recover p t) tos rest om ic t) as [[p1|]|e]; [| |split; [reflexivity|discriminate]].
      * cbn [liftp]. split; [reflexivity|]. intros p' Y. inversion Y; subst. apply SP2. reflexivity.
      * rewrite <- SB. apply tail_of_shiftb. intros s1 ST1. apply (IH recover om ic t s1 (settled_ready _ _ ST1)). intros X; rewrite X in ST1; exact ST1.
Qed.

Lemma feed_shiftb : forall toks recover s om ic, s <> [] ->
  (settled s \/ match toks with t :: _ => ty t <> DEDENT | [] => True end) ->
  feed G TR recover (mkP (shiftb ns s) om ic) toks = liftp ns (feed G TR recover (mkP s om ic) toks).
Proof.
  induction toks as [|t toks IH]; intros recover s om ic NE PRE; [reflexivity|].
  cbn [feed stack omit icount].
  assert (RD: ready s t) by (destruct PRE as [S|N]; [left; exact S|right; exact N]).
  assert (GO: forall om1 ic1, feed G TR recover (mkP (shiftb ns s) om1 ic1) (t :: toks) = feed G TR recover (mkP (shiftb ns s) om1 ic1) (t :: toks)) by reflexivity.
  clear GO.
  (* what is done with one token that reaches add_token *)
  assert (STEP: forall om1 ic1,
     match add_token G TR (S (S (2 * length (shiftb ns s)))) recover (mkP (shiftb ns s) om1 ic1) t with
     | POk p2 => feed G TR recover p2 toks | PErr e => PErr e end =
     liftp ns (match add_token G TR (S (S (2 * length s))) recover (mkP s om1 ic1) t with
     | POk p2 => feed G TR recover p2 toks | PErr e => PErr e end)).
  { intros om1 ic1. rewrite shiftb_length.
    destruct (add_token_shiftb (S (S (2 * length s))) recover om1 ic1 t s RD NE) as [A B]. rewrite A.
    destruct (add_token G TR (S (S (2 * length s))) recover (mkP s om1 ic1) t) as [p2|]; [|reflexivity].
    cbn [liftp]. specialize (B p2 eq_refl). destruct p2 as [s2 om2 ic2]. cbn [stack omit icount] in *.
    apply IH; [intros X; rewrite X in B; exact B|left; exact B]. }
  destruct recover; [|apply STEP].
  destruct (ty t) eqn:TY; try apply STEP; cbn [stack omit icount]; try apply STEP.
  (* DEDENT *)
  destruct (last_z om) as [o|]; [|apply STEP].
  destruct (o =? ic)%Z; [|apply STEP].
  cbn [stack omit icount]. apply IH; [exact NE|]. left. destruct PRE as [S|N]; [exact S|contradiction].
Qed.

(* the root node: nothing but the rule name and the children, when the root rule has no special conversion *)
Definition plain_rule (r : N) : bool :=
  negb ((r =? r_suite G) || (r =? r_funcdef G) || (r =? r_lambdef G) || (r =? r_lambdef_nocond G)).
Definition prepend_root (t : tree) : tree := match t with Node k cs => Node k (ns ++ cs) | l => l end.

Lemma convert_plain r cs : plain_rule r = true -> convert_node G r cs = POk (Node (KRule r) cs).
Proof.
  unfold plain_rule, convert_node. intros P. apply negb_true_iff in P. apply orb_false_iff in P as [P L2]. apply orb_false_iff in P as [P L1].
  apply orb_false_iff in P as [S F]. rewrite S, F, L1, L2. reflexivity.
Qed.

Lemma finish_shiftb : forall fuel s, s <> [] -> plain_rule (rule_of G (f_dfa (last s (mkFr 0 [])))) = true ->
  finish G fuel (shiftb ns s) = match finish G fuel s with POk t => POk (prepend_root t) | PErr e => PErr e end.
Proof.
  induction fuel as [|f IH]; intros s NE PL; [reflexivity|]. cbn [finish].
  destruct s as [|tos rest]; [contradiction|].
  pose proof (top_dfa_shiftb tos rest) as TD.
  destruct rest as [|below r].
  - rewrite shiftb_one. cbn [f_dfa f_nodes]. destruct (negb (final G (f_dfa tos))); [reflexivity|].
    cbn [last] in PL. rewrite !(convert_plain _ _ PL). reflexivity.
  - rewrite shiftb_cons2. destruct (negb (final G (f_dfa tos))); [reflexivity|].
    pose proof (shiftb_nonempty ns below r) as NB. destruct (shiftb ns (below :: r)) as [|x y] eqn:SB; [contradiction|].
    rewrite <- SB, <- shiftb_cons2, pop_shiftb.
    destruct (pop G (tos :: below :: r)) as [s'|] eqn:P; [|reflexivity].
    apply IH.
    + unfold pop in P. destruct (f_nodes tos) as [|a [|b l]];
        [destruct (convert_node G (rule_of G (f_dfa tos)) []); [|discriminate P]| |destruct (convert_node G (rule_of G (f_dfa tos)) (a :: b :: l)); [|discriminate P]];
        inversion P; discriminate.
    + unfold pop in P. assert (LS: last s' (mkFr 0 []) = last (tos :: below :: r) (mkFr 0 []) \/ f_dfa (last s' (mkFr 0 [])) = f_dfa (last (tos :: below :: r) (mkFr 0 []))).
      { right. destruct (f_nodes tos) as [|a [|b l]];
          [destruct (convert_node G (rule_of G (f_dfa tos)) []); [|discriminate P]| |destruct (convert_node G (rule_of G (f_dfa tos)) (a :: b :: l)); [|discriminate P]];
          inversion P; subst; destruct r; reflexivity. }
      destruct LS as [LS|LS]; rewrite LS; exact PL.
Qed.

(* the theorem: what the root frame already holds does not influence how the rest is parsed *)
Theorem engine_restart : forall recover q toks t,
  match toks with u :: _ => ty u <> DEDENT | [] => True end ->
  forall p, feed G TR recover (mkP [mkFr q []] [] 0%Z) toks = POk p ->
  plain_rule (rule_of G (f_dfa (last (stack p) (mkFr 0 [])))) = true ->
  finish G (S (length (stack p))) (stack p) = POk t ->
  exists p', feed G TR recover (mkP [mkFr q ns] [] 0%Z) toks = POk p' /\ stack p' = shiftb ns (stack p) /\
             finish G (S (length (stack p'))) (stack p') = POk (prepend_root t).
Proof.
  intros recover q toks t FIRST p F PL FIN.
  pose proof (feed_shiftb toks recover [mkFr q []] [] 0%Z ltac:(discriminate) (or_intror FIRST)) as X.
  rewrite shiftb_one in X. cbn [f_dfa f_nodes] in X. rewrite app_nil_r in X. rewrite F in X. cbn [liftp] in X.
  eexists. split; [exact X|]. cbn [stack]. split; [reflexivity|].
  rewrite shiftb_length.
  assert (NE: stack p <> []).
  { intros E. rewrite E in FIN. cbn in FIN. discriminate. }
  rewrite (finish_shiftb _ _ NE PL), FIN. reflexivity.
Qed.
End Restart.
Print Assumptions engine_restart.
