(* C20 - the issue store of the normalizer never holds a (code, position) pair twice (Issues.v) *)
From Coq Require Import List.
Require Import Issues.
Theorem C20_add_issue_nodup : forall xs, NoDup (map key (fold_left add_issue xs nil)).
Proof. exact add_issue_nodup. Qed.
Print Assumptions C20_add_issue_nodup.
Theorem C20_add_issue_only_appends : forall l x, exists t, add_issue l x = l ++ t.
Proof. exact add_issue_prefix. Qed.
