(* C01 - lossless round trip.  Only statements; every proof is `exact <lemma>`. *)
From Coq Require Import List NArith.
Import ListNotations.
Require Import Regex Tok Engine Lines Tree.

(* the line list handed to the tokenizer is the input, cut at line breaks only *)
Theorem C01_lines_concat : forall s, concat (Lines.split_keep s) = s.
Proof. exact Lines.split_keep_concat. Qed.
Print Assumptions C01_lines_concat.

(* the code of a tree is the in-order concatenation prefix ++ value of its leaves *)
Theorem C01_code_is_leaves : forall t, get_code t = concat (map leaf_text (leaves t)).
Proof. exact get_code_leaves. Qed.
Print Assumptions C01_code_is_leaves.

(* every subtree is a contiguous slice: text before ++ its own code ++ text after *)
Theorem C01_subtree_slice : forall path t n, subtree t path = Some n ->
  get_code t = before t path ++ get_code n ++ after t path.
Proof. exact subtree_slice. Qed.
Print Assumptions C01_subtree_slice.

Theorem C01_before_is_leaf_text : forall path t,
  before t path = concat (map leaf_text (leaves_before t path)).
Proof. exact before_is_leaf_text. Qed.
Print Assumptions C01_before_is_leaf_text.

Theorem C01_code_without_prefix : forall t, nonempty_nodes t ->
  get_code t = first_prefix t ++ get_code_noprefix t.
Proof. exact get_code_noprefix_spec. Qed.
Print Assumptions C01_code_without_prefix.
