(* C01 - lossless round trip.  Only statements; every proof is `exact <lemma>`. *)
From Coq Require Import List NArith Bool.
Import ListNotations.
Require Import Regex Tok Engine Lines Tree.
Open Scope N_scope.

(* the line list handed to the tokenizer is the input, cut at line breaks only *)
Theorem C01_lines_concat : forall s, concat (Lines.split_keep s) = s.
Proof. exact Lines.split_keep_concat. Qed.
Print Assumptions C01_lines_concat.

(* the code of a tree is the in-order concatenation prefix ++ value of its leaves *)
Theorem C01_code_is_leaves : forall t, get_code t = concat (map leaf_text (leaves t)).
Proof. exact get_code_leaves. Qed.
Print Assumptions C01_code_is_leaves.

(* every subtree is a contiguous slice: text before ++ its own code ++ text after *)
Theorem C01_subtree_slice : forall path t n, subtree t path = Some n ->
  get_code t = before t path ++ get_code n ++ after t path.
Proof. exact subtree_slice. Qed.
Print Assumptions C01_subtree_slice.

Theorem C01_before_is_leaf_text : forall path t,
  before t path = concat (map leaf_text (leaves_before t path)).
Proof. exact before_is_leaf_text. Qed.
Print Assumptions C01_before_is_leaf_text.

Theorem C01_code_without_prefix : forall t, nonempty_nodes t ->
  get_code t = first_prefix t ++ get_code_noprefix t.
Proof. exact get_code_noprefix_spec. Qed.
Print Assumptions C01_code_without_prefix.


(* ---------------- the round trip, end to end, on the pipeline model ----------------
   parse_text = split_keep ; tokenize_lines ; parse  (Model.v, with the regenerated tables).
   For every version, mode, start rule and text: if the model returns a tree, the code of the tree is the text.
   (The model is the guarded one: see C09 for the tokenizer guards, Engine.v for PGuard; the tok / parse
   correspondence streams show model = implementation - never a guard - on all generated inputs.) *)
Require Import TokTiles ParseKeeps Tables Grammars Model EngineSim.
Require C09.

Lemma tcode_get_code : forall t, tcode t = get_code t.
Proof.
  induction t as [k v p l c|k cs IH] using tree_ind'; [reflexivity|].
  rewrite tcode_node, get_code_node. unfold tcodes, codes. induction IH as [|c r Hc _ IHr]; simpl; [reflexivity|]. rewrite Hc, IHr. reflexivity.
Qed.

Lemma tokens_zero_width v s toks : tokenize_text v s = Tok.Ok toks -> zero_width_blocks toks.
Proof.
  intros H t I TY. destruct (C09.C09_token_shape _ _ _ H) as (body & e & E & TE & SE & R).
  subst toks. apply in_app_or in I as [I|[I|[]]].
  - destruct (TokShape.run_tokens _ _ _ _ R I) as [_ Z]. destruct (Z TY) as [Z1 Z2]. unfold emit1. rewrite Z1, Z2. reflexivity.
  - subst t. rewrite TE in TY. destruct TY; discriminate.
Qed.

Theorem C01_roundtrip : forall v m start s t, parse_text v m start s = OTree t -> get_code t = s.
Proof.
  intros v m start s t H. unfold parse_text in H.
  destruct (tokenize_text v s) as [toks|] eqn:TK; [|discriminate].
  destruct (parse_tokens v m start toks) as [t'|] eqn:P; [|discriminate]. inversion H; subst t'.
  unfold parse_tokens in P. destruct (Engine.assocN v grams) as [[G TR]|]; [|discriminate].
  rewrite <- tcode_get_code. rewrite (parse_keeps_text G TR _ _ _ _ P (tokens_zero_width _ _ _ TK)).
  apply C09.C09_tokens_tile_text with (v := v). exact TK.
Qed.
Print Assumptions C01_roundtrip.

(* every subtree of the parsed tree is a contiguous slice of the input *)
Theorem C01_roundtrip_subtrees : forall v m start s t path n, parse_text v m start s = OTree t -> subtree t path = Some n ->
  s = before t path ++ get_code n ++ after t path.
Proof.
  intros v m start s t path n H S. rewrite <- (C01_roundtrip _ _ _ _ _ H). apply subtree_slice. exact S.
Qed.

(* and the in-order leaves tile the input *)
Theorem C01_leaves_tile : forall v m start s t, parse_text v m start s = OTree t -> concat (map leaf_text (leaves t)) = s.
Proof. intros v m start s t H. rewrite <- get_code_leaves. eapply C01_roundtrip. exact H. Qed.

Example C01_roundtrip_example :
  match parse_text 310 Recover 0 [105;102;32;120;58;32;102;111;111;40;10;32;32;121;32;61;32;102;34;123;97;33;114;125;34;10] with
  | OTree t => get_code t = [105;102;32;120;58;32;102;111;111;40;10;32;32;121;32;61;32;102;34;123;97;33;114;125;34;10] /\ no_error t = false
  | _ => False end.
Proof. vm_compute. split; reflexivity. Qed.
