(* C04 - the part of the incremental parser's justification that is a theorem.  Only statements.

   DiffParser re-tokenizes a changed region with `tokenize_lines(lines[line_offset:], start_pos=(line_offset+1, 0),
   indents=...)` and moves copied nodes by a line offset (_NodesTreeNode._update_positions) instead of
   re-tokenizing them.  That is right only if the tokenizer is invariant under a shift of the start line:

     C04_tok_shift: for every version, lines, indentation stack, start line sl >= 1, start column, first-token
     flag and every k, tokenizing at start line sl + k returns exactly the tokens of tokenizing at sl with k
     added to every token's line (type, string, column, prefix unchanged), and fails iff the unshifted run fails
     (same error).  Proved for ANY token collection and oracles (TokShift.tok_shift), by a simulation relation
     between the two runs' states (line number, pending string start and pending f-string text start shifted,
     everything else equal).

   DiffParser also re-tokenizes only the lines from `parsed_until_line` on, with the indentation stack of the nodes
   it kept and is_first_token=False.  That is right only if the tokenizer can be restarted at a line boundary:

     C04_tok_resume: Model.run_resume_points lists, for every line i of the input, whether the tokenizer state after
     line i is clean (no open bracket, no string or f-string continued, at the start of a logical line, no pending
     backslash/comment prefix) and, if so, the indentation stack there.  For every such i the tokens of the whole
     input are t1 ++ rest, where the tokens of the first i+1 lines alone are t1 ++ DEDENTs ++ [ENDMARKER] (one
     DEDENT per open indentation) and rest are the tokens of the remaining lines tokenized on their own from line
     sl + i + 1 with that indentation stack and is_first_token=False; errors of the rest are the errors of the whole.
     Proved for ANY collection and oracles (TokResume.tok_resume_points) from the same simulation with k = 0.

   The new parser DiffParser runs over the tokens of the rest starts with an empty root frame, and its children are
   spliced in after the nodes that were kept.  That is right only if what the root frame already holds does not influence
   how the following tokens are parsed:

     C04_engine_restart: for every table, both modes and every token list that does not begin with a DEDENT, feeding
     the tokens to an engine whose root frame already holds the nodes ns ends in the same stack as feeding them to an
     engine with an empty root frame, with ns in front of the root frame's nodes (EngineRestart.shiftb) - every transition,
     push, pop and every error recovery step is the same - and, for a root rule without special conversion (file_input),
     the finished tree is the same tree with ns in front of the root's children.  (A DEDENT arriving at a root frame that
     is still empty is the one place where the engine reads the last node of the frame it is in.)

   What is NOT proved: that DiffParser picks copy boundaries that are clean in this sense and at which the engine is
   at a statement boundary, and the difflib + _NodesTree bookkeeping; those are decided by validation of edit
   histories against the pipeline model (harness/props/C04.py). *)
From Coq Require Import List NArith ZArith Bool.
Import ListNotations.
Require Import Regex Tok TokShift TokResume Engine EngineRestart Tables Model.
Open Scope N_scope.

Theorem C04_tok_shift : forall v k lines inds sl sc first,
  1 <= sl ->
  run_tok v lines inds (sl + k) sc first =
  match run_tok v lines inds sl sc first with Tok.Ok toks => Tok.Ok (map (shT k) toks) | Tok.Err e => Tok.Err e end.
Proof.
  intros v k lines inds sl sc first H. unfold run_tok. destruct (coll_of v) as [c|]; [|reflexivity].
  apply tok_shift. exact H.
Qed.
Print Assumptions C04_tok_shift.

(* non-vacuity: a region with an indented block, a string continued over two lines and a pending f-string,
   tokenized as lines 1.. and as lines 41.. *)
Example C04_shift_example :
  let lines := [[105;102;32;97;58;10]; [32;32;120;32;61;32;39;39;39;97;10]; [98;39;39;39;10]; [32;32;121;32;61;32;102;34;123;120;125;34;10]] in
  match run_tok 312 lines [0] 1 0 true, run_tok 312 lines [0] 41 0 true with
  | Tok.Ok a, Tok.Ok b => (10 <=? N.of_nat (length a)) = true /\ b = map (shT 40) a /\ a <> b
  | _, _ => False end.
Proof. vm_compute. split; [reflexivity|split; [reflexivity|discriminate]]. Qed.

Theorem C04_tok_resume : forall v lines inds sl sc first i inds1,
  1 <= sl ->
  nth_error (run_resume_points v lines inds sl sc first) i = Some (Some inds1) ->
  exists t1 d e,
    run_tok v (firstn (S i) lines) inds sl sc first = Tok.Ok (t1 ++ d ++ [e]) /\
    Forall (fun t => ty t = DEDENT) d /\ length d = length (tl inds1) /\ ty e = ENDMARKER /\
    (skipn (S i) lines <> [] ->
     run_tok v lines inds sl sc first =
     match run_tok v (skipn (S i) lines) inds1 (sl + N.of_nat (S i)) sc false with
     | Tok.Ok rest => Tok.Ok (t1 ++ rest) | Tok.Err x => Tok.Err x end).
Proof.
  intros v lines inds sl sc first i inds1 SL H. unfold run_resume_points in H. unfold run_tok.
  destruct (coll_of v) as [c|]; [|destruct i; discriminate].
  apply tok_resume_points; assumption.
Qed.
Print Assumptions C04_tok_resume.

(* non-vacuity: the region above has clean boundaries after its first, third and fourth line, with the stacks [0], [0;2], [0;2] *)
Example C04_resume_example :
  let lines := [[105;102;32;97;58;10]; [32;32;120;32;61;32;39;39;39;97;10]; [98;39;39;39;10]; [32;32;121;32;61;32;102;34;123;120;125;34;10]] in
  run_resume_points 312 lines [0] 1 0 true = [Some [0]; None; Some [0; 2]; Some [0; 2]].
Proof. vm_compute. reflexivity. Qed.

Theorem C04_engine_restart : forall G TR ns recover q toks t,
  match toks with u :: _ => ty u <> DEDENT | [] => True end ->
  forall p, feed G TR recover (mkP [mkFr q []] [] 0%Z) toks = POk p ->
  plain_rule G (rule_of G (f_dfa (last (stack p) (mkFr 0 [])))) = true ->
  finish G (S (length (stack p))) (stack p) = POk t ->
  exists p', feed G TR recover (mkP [mkFr q ns] [] 0%Z) toks = POk p' /\ stack p' = shiftb ns (stack p) /\
             finish G (S (length (stack p'))) (stack p') = POk (prepend_root ns t).
Proof. exact engine_restart. Qed.
Print Assumptions C04_engine_restart.
