(* C04 - the part of the incremental parser's justification that is a theorem.  Only statements.

   DiffParser re-tokenizes a changed region with `tokenize_lines(lines[line_offset:], start_pos=(line_offset+1, 0),
   indents=...)` and moves copied nodes by a line offset (_NodesTreeNode._update_positions) instead of
   re-tokenizing them.  That is right only if the tokenizer is invariant under a shift of the start line:

     C04_tok_shift: for every version, lines, indentation stack, start line sl >= 1, start column, first-token
     flag and every k, tokenizing at start line sl + k returns exactly the tokens of tokenizing at sl with k
     added to every token's line (type, string, column, prefix unchanged), and fails iff the unshifted run fails
     (same error).  Proved for ANY token collection and oracles (TokShift.tok_shift), by a simulation relation
     between the two runs' states (line number, pending string start and pending f-string text start shifted,
     everything else equal).

   What is NOT proved: that DiffParser picks copy boundaries at which the tokenizer / engine state is the
   fresh one (tok_resume / statement locality) and the difflib + _NodesTree bookkeeping; those are decided by
   validation of edit histories against the pipeline model (harness/props/C04.py). *)
From Coq Require Import List NArith Bool.
Import ListNotations.
Require Import Regex Tok TokShift Tables Model.
Open Scope N_scope.

Theorem C04_tok_shift : forall v k lines inds sl sc first,
  1 <= sl ->
  run_tok v lines inds (sl + k) sc first =
  match run_tok v lines inds sl sc first with Tok.Ok toks => Tok.Ok (map (shT k) toks) | Tok.Err e => Tok.Err e end.
Proof.
  intros v k lines inds sl sc first H. unfold run_tok. destruct (coll_of v) as [c|]; [|reflexivity].
  apply tok_shift. exact H.
Qed.
Print Assumptions C04_tok_shift.

(* non-vacuity: a region with an indented block, a string continued over two lines and a pending f-string,
   tokenized as lines 1.. and as lines 41.. *)
Example C04_shift_example :
  let lines := [[105;102;32;97;58;10]; [32;32;120;32;61;32;39;39;39;97;10]; [98;39;39;39;10]; [32;32;121;32;61;32;102;34;123;120;125;34;10]] in
  match run_tok 312 lines [0] 1 0 true, run_tok 312 lines [0] 41 0 true with
  | Tok.Ok a, Tok.Ok b => (10 <=? N.of_nat (length a)) = true /\ b = map (shT 40) a /\ a <> b
  | _, _ => False end.
Proof. vm_compute. split; [reflexivity|split; [reflexivity|discriminate]]. Qed.
