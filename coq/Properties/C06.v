(* C06 - the parser accepts every sentence of its grammar and returns the derivation.
   (1) LL1.complete: an abstract plan-driven stack engine accepts every derivation, given table hypotheses.
   (2) LL1Inst.tables_complete: boolean checkers over the dumped tables establish those hypotheses
       (table obligation gen/LL1_<v>.v: tables_ok by vm_compute for every shipped grammar, all rules).
   (3) LL1Engine.engine_complete: the fuelled add_token/feed/finish of Engine.v - the model that is extracted and
       compared with parso - realises the abstract engine, so strict parsing of any sentence returns
       convert_node of the collapsed derivation, or a conversion failure (AttributeError/IndexError in Python),
       never a syntax error.  With C07_strict_accepts_recover_same the recovering parser returns the same tree. *)
From Coq Require Import List NArith Bool.
Import ListNotations.
Require Import Regex Tok Engine LL1 LL1Inst LL1Engine EngineSim.

Theorem C06_engine_complete : forall G TR FWT fuel, tables_ok G TR FWT fuel = true ->
  forall F kb t toks,
    wf tree N label N (arcT G) (arcN G) (startR G) (final G) (validR G) (DNode tree label N F kb) ->
    FW FWT F t = true ->
    word_of G toks = yield tree label N (DNode tree label N F kb) ->
    parse G TR false F toks = convert_node G F (map (collapse tree label N (mk_node G)) kb)
    \/ exists e, conv_err e /\ parse G TR false F toks = PErr e.
Proof. exact engine_complete. Qed.
Print Assumptions C06_engine_complete.

(* and the recovering parser agrees whenever the strict one returns a tree *)
Theorem C06_recovering_same : forall G TR F toks t,
  parse G TR false F toks = POk t -> parse G TR true F toks = POk t.
Proof. exact strict_accepts_recover_same. Qed.

(* the checkers are sound one by one (what `tables_ok` means) *)
Theorem C06_plans_are_first_chains : forall G TR fuel, plans_complete_ok G TR fuel = true ->
  forall q a q' ch,
    (ch = [] /\ arcT G q a = Some q') \/ (exists B, arcN G q B = Some q' /\ first_chain N label N (arcT G) (arcN G) (startR G) B a ch) ->
    plansI TR q a = Some (q', ch).
Proof. exact plans_complete_sound. Qed.
Theorem C06_no_first_follow_conflict : forall G TR FWT, noconf_ok G TR FWT = true ->
  forall q t, final G q = true -> FW FWT (rule_of G q) t = true -> plansI TR q t = None.
Proof. exact noconf_sound. Qed.
