(* C06 - completeness of the plan-driven LL(1) engine (abstract tables; LL1.v) *)
Require Import LL1.
Definition C06_complete_statement := @complete.
Print Assumptions complete.
