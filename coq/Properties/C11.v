(* C11 - leaf stepping and position lookup (Nav.v): statements over ALL trees, not only parser output *)
From Coq Require Import List NArith Bool.
Import ListNotations.
Require Import Regex Tok Engine Tree Nav.
Local Open Scope nat_scope.

(* get_next_leaf / get_previous_leaf enumerate the leaves in order: successor / predecessor in the in-order leaf list *)
Theorem C11_next_leaf : forall t, nonempty_nodes t ->
  forall l1 p l2, leaf_paths t = l1 ++ p :: l2 -> get_next_leaf t p = hd_error l2.
Proof. exact get_next_leaf_spec. Qed.
Print Assumptions C11_next_leaf.
Theorem C11_previous_leaf : forall t, nonempty_nodes t ->
  forall l1 p l2, leaf_paths t = l1 ++ p :: l2 -> get_previous_leaf t p = last_error l1.
Proof. exact get_previous_leaf_spec. Qed.
Print Assumptions C11_previous_leaf.
Theorem C11_first_leaf : forall t, nonempty_nodes t -> hd_error (leaf_paths t) = Some (first_leaf_path t).
Proof. exact first_leaf_spec. Qed.
Theorem C11_last_leaf : forall t, nonempty_nodes t -> last_error (leaf_paths t) = Some (last_leaf_path t).
Proof. exact last_leaf_spec. Qed.

(* get_leaf_for_position on (line, column) positions: for every tree whose leaf ends are monotone and every position not
   after the end of the tree, the result is the first leaf (in order) that does not end before the position - or None
   when prefixes are excluded and the position lies before that leaf's start *)
Theorem C11_lookup : forall k cs p incl,
  wf_mono pos pos_leb leaf_end (0, 0)%N (Node k cs) -> pos_leb p (nav_end (Node k cs)) = true ->
  nav_lookup (Node k cs) p incl = lookup_spec_fn pos pos_leb leaf_start leaf_end (0, 0)%N (Node k cs) p incl.
Proof. exact nav_lookup_spec. Qed.
Print Assumptions C11_lookup.

(* the binary search itself: first index whose end is not before the position *)
Theorem C11_binary_search : forall (P : Type) (leb : P -> P -> bool), (forall a b c, leb a b = true -> leb b c = true -> leb a c = true) ->
  forall lend dflt fuel cs p lower upper,
  mono P leb lend dflt cs -> lower <= upper -> upper < length cs -> upper - lower < fuel ->
  leb p (epos P lend dflt (nth_t cs upper)) = true ->
  (forall i, i < lower -> leb p (epos P lend dflt (nth_t cs i)) = false) ->
  exists k, bsearch P leb lend dflt fuel cs p lower upper = Some k /\ lower <= k <= upper /\
            leb p (epos P lend dflt (nth_t cs k)) = true /\ forall i, i < k -> leb p (epos P lend dflt (nth_t cs i)) = false.
Proof. intros P leb T lend dflt. exact (bsearch_spec P leb T lend dflt). Qed.

(* non-vacuity: a concrete tree meets the hypotheses and the lookup finds the expected leaf *)
Example C11_lookup_example :
  let t := Node KErrorNode [Leaf KName [120%N] [] 1%N 0%N; Node KErrorNode [Leaf KOperator [61%N] [32%N] 1%N 2%N; Leaf KNumber [49%N] [32%N; 32%N] 1%N 5%N]; Leaf KNewline [10%N] [] 1%N 6%N] in
  nav_lookup t (1, 4)%N true = FLeaf [1; 1] /\ nav_lookup t (1, 4)%N false = FNone /\ nav_lookup t (1, 5)%N false = FLeaf [1; 1]
  /\ get_next_leaf t [1; 1] = Some [2] /\ get_previous_leaf t [1; 0] = Some [0].
Proof. vm_compute. repeat split. Qed.
