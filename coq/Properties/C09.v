(* C09 (and the token half of C01): the token stream tiles the input.
   TokTiles.tok_tiles is proved for ANY token collection whose pseudo_token has the shape
   (group 1)(group 2) with group 1 not re-used inside group 2, any identifier / strip oracles, any lines,
   indentation stack, start line and first-token flag.  Here it is instantiated with the collections the
   translator regenerated from the running parso (the shape check is a table obligation, by vm_compute).

   The model is the GUARDED tokenizer (Tok.v): at five places where the Python code silently relies on
   f-string bookkeeping facts the model returns `Err Guard` instead of tokens; the theorem says nothing when
   the model returns an error, and the tok correspondence stream establishes that the model returns exactly
   parso's tokens (never Guard) on every generated input. *)
From Coq Require Import List NArith Bool.
Import ListNotations.
Require Import Regex RegexFacts Tok TokFacts TokTiles Engine Lines Tables Model.
Open Scope N_scope.

Lemma pseudo_shapes_ok : forallb (fun '(v, c) => shape12 (pseudo c)) colls = true.
Proof. vm_compute. reflexivity. Qed.

Lemma coll_of_in v c : coll_of v = Some c -> In (v, c) colls.
Proof.
  unfold coll_of. induction colls as [|[a x] r IH]; simpl; [discriminate|].
  destruct (a =? v) eqn:E; [intros H; inversion H; subst; apply N.eqb_eq in E; subst; left; reflexivity|intros H; right; apply IH; exact H].
Qed.

Theorem C09_tokens_tile_lines : forall v lines inds sl first toks,
  run_tok v lines inds sl 0 first = Tok.Ok toks -> emit toks = concat lines.
Proof.
  intros v lines inds sl first toks H. unfold run_tok in H. destruct (coll_of v) as [c|] eqn:E; [|discriminate].
  pose proof pseudo_shapes_ok as S. rewrite forallb_forall in S. specialize (S _ (coll_of_in _ _ E)). simpl in S.
  eapply tok_tiles; eassumption.
Qed.
Print Assumptions C09_tokens_tile_lines.

(* for a text: the concatenation of prefix ++ string of all tokens is the text itself *)
Theorem C09_tokens_tile_text : forall v s toks, tokenize_text v s = Tok.Ok toks -> emit toks = s.
Proof.
  intros v s toks H. unfold tokenize_text in H. rewrite (C09_tokens_tile_lines _ _ _ _ _ _ H). apply Lines.split_keep_concat.
Qed.
Print Assumptions C09_tokens_tile_text.

(* non-vacuity: a concrete text with an f-string over two lines, a continued string and a comment *)
Example C09_tile_example :
  match tokenize_text 310 [102;34;123;120;10;125;34;32;35;99;10;115;61;39;97;92;10;98;39;10] with
  | Tok.Ok toks => (8 <=? N.of_nat (length toks)) = true
  | Tok.Err _ => False end.
Proof. vm_compute. reflexivity. Qed.

(* the supporting regex facts *)
Theorem C09_match_soundness : forall r i rest cs k o, m r i rest cs k = Some o -> called r i rest cs k o.
Proof. exact m_sound. Qed.
Theorem C09_pseudo_spans : forall r s pos e cs, shape12 r = true -> rmatch r s pos = Some (e, cs) ->
  exists j, grp 1 cs = Some (pos, j) /\ grp 2 cs = Some (j, e) /\ pos <= j /\ j <= e.
Proof. exact shape12_spans. Qed.
