(* C09 (and the token half of C01): the token stream tiles the input.
   TokTiles.tok_tiles is proved for ANY token collection whose pseudo_token has the shape
   (group 1)(group 2) with group 1 not re-used inside group 2, any identifier / strip oracles, any lines,
   indentation stack, start line and first-token flag.  Here it is instantiated with the collections the
   translator regenerated from the running parso (the shape check is a table obligation, by vm_compute).

   The model is the GUARDED tokenizer (Tok.v): at five places where the Python code silently relies on
   f-string bookkeeping facts the model returns `Err Guard` instead of tokens; the theorem says nothing when
   the model returns an error, and the tok correspondence stream establishes that the model returns exactly
   parso's tokens (never Guard) on every generated input. *)
From Coq Require Import List NArith Bool Lia.
Import ListNotations.
Require Import Regex RegexFacts Tok TokFacts TokTiles TokShape TokBlockPos Engine Lines Prefix PrefixTiles Tables Model.
Open Scope N_scope.

Lemma pseudo_shapes_ok : forallb (fun '(v, c) => shape12 (pseudo c)) colls = true.
Proof. vm_compute. reflexivity. Qed.

Lemma coll_of_in v c : coll_of v = Some c -> In (v, c) colls.
Proof.
  unfold coll_of. induction colls as [|[a x] r IH]; simpl; [discriminate|].
  destruct (a =? v) eqn:E; [intros H; inversion H; subst; apply N.eqb_eq in E; subst; left; reflexivity|intros H; right; apply IH; exact H].
Qed.

Theorem C09_tokens_tile_lines : forall v lines inds sl first toks,
  run_tok v lines inds sl 0 first = Tok.Ok toks -> emit toks = concat lines.
Proof.
  intros v lines inds sl first toks H. unfold run_tok in H. destruct (coll_of v) as [c|] eqn:E; [|discriminate].
  pose proof pseudo_shapes_ok as S. rewrite forallb_forall in S. specialize (S _ (coll_of_in _ _ E)). simpl in S.
  eapply tok_tiles; eassumption.
Qed.
Print Assumptions C09_tokens_tile_lines.

(* for a text: the concatenation of prefix ++ string of all tokens is the text itself *)
Theorem C09_tokens_tile_text : forall v s toks, tokenize_text v s = Tok.Ok toks -> emit toks = s.
Proof.
  intros v s toks H. unfold tokenize_text in H. rewrite (C09_tokens_tile_lines _ _ _ _ _ _ H). apply Lines.split_keep_concat.
Qed.
Print Assumptions C09_tokens_tile_text.

(* non-vacuity: a concrete text with an f-string over two lines, a continued string and a comment *)
Example C09_tile_example :
  match tokenize_text 310 [102;34;123;120;10;125;34;32;35;99;10;115;61;39;97;92;10;98;39;10] with
  | Tok.Ok toks => (8 <=? N.of_nat (length toks)) = true
  | Tok.Err _ => False end.
Proof. vm_compute. reflexivity. Qed.

(* ---------------- shape of the stream: one end marker, balanced zero-width INDENT / DEDENT ----------------
   TokShape.tok_shape, for ANY collection, oracles, lines, start line / column and non-empty indentation stack:
   the stream is body ++ [ENDMARKER] and the depth walk over body (see TokShape.run) starts at
   (length inds - 1), never goes negative, and ends at 0. *)
Theorem C09_token_shape_lines : forall v lines inds sl sc first toks,
  run_tok v lines inds sl sc first = Tok.Ok toks -> inds <> [] ->
  exists body e, toks = body ++ [e] /\ ty e = ENDMARKER /\ ts e = [] /\ run (depth inds) body = Some O.
Proof.
  intros v lines inds sl sc first toks H NE. unfold run_tok in H. destruct (coll_of v) as [c|]; [|discriminate].
  eapply tok_shape; eassumption.
Qed.
Print Assumptions C09_token_shape_lines.

Theorem C09_token_shape : forall v s toks, tokenize_text v s = Tok.Ok toks ->
  exists body e, toks = body ++ [e] /\ ty e = ENDMARKER /\ ts e = [] /\ run 0 body = Some O.
Proof. intros v s toks H. eapply C09_token_shape_lines in H; [exact H|discriminate]. Qed.

(* what the walk says, spelled out *)
Theorem C09_one_endmarker : forall v s toks, tokenize_text v s = Tok.Ok toks ->
  exists body e, toks = body ++ [e] /\ ty e = ENDMARKER /\ forall t, In t body -> ty t <> ENDMARKER.
Proof.
  intros v s toks H. destruct (C09_token_shape _ _ _ H) as (body & e & E & TE & _ & R). exists body, e.
  split; [exact E|split; [exact TE|]]. intros t I. exact (proj1 (run_tokens _ _ _ _ R I)).
Qed.
Theorem C09_indent_dedent_balanced : forall v s toks, tokenize_text v s = Tok.Ok toks ->
  count is_indent toks = count is_dedent toks /\
  (forall a b, toks = a ++ b -> (count is_dedent a <= count is_indent a)%nat) /\
  (forall t, In t toks -> ty t = INDENT \/ ty t = DEDENT -> ts t = [] /\ tpre t = []).
Proof.
  intros v s toks H. destruct (C09_token_shape _ _ _ H) as (body & e & E & TE & _ & R). subst toks.
  assert (CE: forall k, k ENDMARKER = false -> forall l, count k (l ++ [e]) = count k l).
  { intros k K l. unfold count. rewrite filter_app, app_length. simpl. rewrite TE, K. simpl. lia. }
  split; [|split].
  - rewrite !CE by reflexivity. pose proof (run_balance _ _ _ R). lia.
  - intros a b E.
    assert (P: exists a', (a = a' \/ a = a' ++ [e]) /\ exists b', body = a' ++ b').
    { destruct b as [|x b] using rev_ind.
      - rewrite app_nil_r in E. subst a. exists body. split; [right; reflexivity|exists []; rewrite app_nil_r; reflexivity].
      - rewrite app_assoc in E. apply app_inj_tail in E as [E _]. exists a. split; [left; reflexivity|exists b; exact E]. }
    destruct P as (a' & [A|A] & b' & B); subst a body; [|rewrite !CE by reflexivity]; pose proof (run_never_negative _ _ _ _ R); lia.
  - intros t I TY. apply in_app_or in I as [I|[I|[]]].
    + exact (proj2 (run_tokens _ _ _ _ R I) TY).
    + subst t. rewrite TE in TY. destruct TY; discriminate.
Qed.
Print Assumptions C09_indent_dedent_balanced.

Example C09_shape_example :
  match tokenize_text 310 [105;102;32;120;58;10;32;121;10;32;32;122;10] with
  | Tok.Ok toks => count is_indent toks = 2%nat /\ count is_dedent toks = 2%nat
  | Tok.Err _ => False end.
Proof. vm_compute. split; reflexivity. Qed.

(* ---------------- where the zero-width INDENT / DEDENT tokens are ----------------
   (the positions of all other tokens are C03_token_positions).  Every INDENT / DEDENT token is followed - after
   INDENT / DEDENT / ERROR_DEDENT tokens only - by a real token, and carries that token's (line, column). *)
Theorem C09_block_tokens_at_next_real : forall v lines inds sl first toks pre t post,
  run_tok v lines inds sl 0 first = Tok.Ok toks -> toks = pre ++ t :: post -> isblock t = true ->
  exists bs u rest, post = bs ++ u :: rest /\ forallb (fun x => isblock x || transparent x) bs = true /\ real u = true /\ tpos u = tpos t.
Proof.
  intros v lines inds sl first toks pre t post H E K. unfold run_tok in H. destruct (coll_of v) as [c|] eqn:EC; [|discriminate].
  pose proof pseudo_shapes_ok as S. rewrite forallb_forall in S. specialize (S _ (coll_of_in _ _ EC)). simpl in S.
  eapply block_tokens_at_next_real; [eapply tok_block_positions; eassumption|exact E|exact K].
Qed.
Print Assumptions C09_block_tokens_at_next_real.

(* ---------------- split_prefix tiles the prefix ----------------
   For the regenerated prefix regex (shape obligation below): whenever split_prefix returns parts, the concatenation
   of spacing ++ value over the parts is the prefix.  (Model guard: an empty value is matched only at the end of the
   prefix; `split_prefix never fails` is NOT a theorem - known finding F2 is a counterexample.) *)
Lemma prefix_shape_ok : shape12 prefix_re = true.
Proof. vm_compute. reflexivity. Qed.
Theorem C09_split_prefix_tiles : forall p line col parts,
  split_prefix_m p line col = Prefix.POk parts -> parts_text parts = p.
Proof. intros p line col parts H. unfold split_prefix_m in H. eapply split_prefix_tiles; [exact prefix_shape_ok|exact H]. Qed.
Print Assumptions C09_split_prefix_tiles.
Example C09_split_prefix_example :
  match split_prefix_m [32;35;120;10;92;10;32;12;32] 3 0 with Prefix.POk parts => length parts = 5%nat | _ => False end.
Proof. vm_compute. reflexivity. Qed.

(* the supporting regex facts *)
Theorem C09_match_soundness : forall r i rest cs k o, m r i rest cs k = Some o -> called r i rest cs k o.
Proof. exact m_sound. Qed.
Theorem C09_pseudo_spans : forall r s pos e cs, shape12 r = true -> rmatch r s pos = Some (e, cs) ->
  exists j, grp 1 cs = Some (pos, j) /\ grp 2 cs = Some (j, e) /\ pos <= j /\ j <= e.
Proof. exact shape12_spans. Qed.
