(* C03 (and the position clause of C09): positions are true.  Only statements; the proofs are in TokPos.v / ParseKeeps.v.

   loc lines sl first o (l, c): text offset o (in the concatenation of `lines`) lies on line number l (lines are
   numbered from sl) at column c, where a BOM at the very start of the first line has zero width.  With
   lines = split_keep text (Lines.v: the text cut at \n, \r\n and \r only) this is the real location of offset o.

   wfp lc o toks walks the token stream from offset o: every token that is not a zero-width block token
   (INDENT / DEDENT / ERROR_DEDENT) starts - after its prefix - exactly at the offset its (line, column) names, and the
   walk advances by prefix ++ string; block tokens are zero-width.  wfl is the same walk over the text-carrying
   leaves of a tree. *)
From Coq Require Import List NArith Bool Lia.
Import ListNotations.
Require Import Regex RegexFacts Tok TokFacts TokTiles TokShape TokPos Engine ParseKeeps Lines EndPos Tables Grammars Model.
Require C09 C01.
Open Scope N_scope.

Theorem C03_token_positions : forall v lines inds sl first toks,
  run_tok v lines inds sl 0 first = Tok.Ok toks -> 1 <= sl -> lines <> [] ->
  wfp (loc lines sl first) 0 toks.
Proof.
  intros v lines inds sl first toks H SL NE. unfold run_tok in H. destruct (coll_of v) as [c|] eqn:E; [|discriminate].
  pose proof C09.pseudo_shapes_ok as S. rewrite forallb_forall in S. specialize (S _ (C09.coll_of_in _ _ E)). simpl in S.
  eapply tok_positions; eassumption.
Qed.
Print Assumptions C03_token_positions.

(* the same walk over leaves: (value, prefix, line, column) of every leaf that carries text *)
Fixpoint wfl (lc : N -> N * N -> Prop) (o : N) (l : list linfo) : Prop :=
  match l with
  | [] => True
  | i :: r => lc (o + len (li_prefix i)) (li_line i, li_col i) /\ wfl lc (o + len (li_prefix i) + len (li_value i)) r
  end.

Lemma wfp_text_tokens lc : forall toks o, wfp lc o toks -> wfl lc o (text_tokens toks).
Proof.
  induction toks as [|t r IH]; intros o H; [exact I|]. destruct H as [H1 H2].
  change (text_tokens (t :: r)) with (g_info (ts t) (tpre t) (tline t) (tcol t) ++ text_tokens r).
  unfold g_info. unfold emit1 in *.
  destruct (tpre t ++ ts t) as [|x y] eqn:E.
  - cbn [app]. apply IH. rewrite len_nil, N.add_0_r in H2. exact H2.
  - cbn [app wfl li_prefix li_value li_line li_col]. destruct (blockish t); [discriminate|].
    split; [exact H1|]. apply IH. rewrite <- E, len_app, N.add_assoc in H2. exact H2.
Qed.

(* end to end on the pipeline model: the text-carrying leaves of the parsed tree, in order, are located truly *)
Theorem C03_leaf_positions : forall v m start s t, parse_text v m start s = OTree t ->
  wfl (loc (Lines.split_keep s) 1 true) 0 (text_leaves t).
Proof.
  intros v m start s t H. unfold parse_text in H.
  destruct (tokenize_text v s) as [toks|] eqn:TK; [|discriminate].
  destruct (parse_tokens v m start toks) as [t'|] eqn:P; [|discriminate]. inversion H; subst t'.
  unfold parse_tokens in P. destruct (Engine.assocN v grams) as [[G TR]|]; [|discriminate].
  rewrite (parse_keeps_leaves G TR _ _ _ _ P (C01.tokens_zero_width _ _ _ TK)).
  apply wfp_text_tokens. unfold tokenize_text in TK.
  eapply C03_token_positions; [exact TK|lia|apply Lines.split_keep_nonempty].
Qed.
Print Assumptions C03_leaf_positions.

(* and those leaves are exactly the text-carrying tokens: nothing is dropped, duplicated or reordered *)
Theorem C03_leaves_are_tokens : forall v m start s t toks, tokenize_text v s = Tok.Ok toks -> parse_text v m start s = OTree t ->
  text_leaves t = text_tokens toks.
Proof.
  intros v m start s t toks TK H. unfold parse_text in H. rewrite TK in H.
  destruct (parse_tokens v m start toks) as [t'|] eqn:P; [|discriminate]. inversion H; subst t'.
  unfold parse_tokens in P. destruct (Engine.assocN v grams) as [[G TR]|]; [|discriminate].
  exact (parse_keeps_leaves G TR _ _ _ _ P (C01.tokens_zero_width _ _ _ TK)).
Qed.

(* non-vacuity: BOM, a two-line f-string, a continued string, an indented block *)
Example C03_example :
  match parse_text 310 Recover 0 [65279;105;102;32;120;58;10;32;32;121;32;61;32;102;34;34;34;97;10;98;123;99;125;34;34;34;10;32;32;122;61;39;113;92;10;114;39;10] with
  | OTree t => (10 <=? N.of_nat (length (text_leaves t))) = true
  | _ => False end.
Proof. vm_compute. reflexivity. Qed.

(* end positions: Leaf.end_pos (computed from the value with split_lines) is the position reached by walking the value from
   the start position, counting exactly \n, \r\n and \r as line breaks *)
Theorem C03_end_pos_is_walk : forall value line col, end_pos value line col = walk value line col false.
Proof. exact end_pos_is_walk. Qed.
Print Assumptions C03_end_pos_is_walk.
Example C03_end_pos_example : end_pos [39;39;39;97;13;10;98;13;99;10;39;39;39] 3 4 = (6, 3).
Proof. vm_compute. reflexivity. Qed.

(* the module ends at the end of the input: the end marker - the last token, and the last leaf of every returned tree - sits at the
   offset len(text), i.e. on the last line of split_keep text (line count = number of line breaks + 1) at the column where the text ends *)
Theorem C03_endmarker_at_end_of_input : forall v s toks, tokenize_text v s = Tok.Ok toks ->
  exists body e, toks = body ++ [e] /\ ty e = ENDMARKER /\ ts e = [] /\
    loc (Lines.split_keep s) 1 true (len s) (tline e, tcol e).
Proof.
  intros v s toks H.
  destruct (C09.C09_token_shape _ _ _ H) as (body & e & E & TE & SE & _).
  exists body, e. split; [exact E|split; [exact TE|split; [exact SE|]]].
  pose proof (C09.C09_tokens_tile_text _ _ _ H) as TILE.
  unfold tokenize_text in H.
  pose proof (C03_token_positions _ _ _ _ _ _ H ltac:(lia) (Lines.split_keep_nonempty s)) as W.
  subst toks. apply wfp_app in W as [_ W]. apply wfp_one in W.
  assert (NB: blockish e = false) by (unfold blockish; rewrite TE; reflexivity). rewrite NB in W.
  assert (L: len s = 0 + len (emit body) + len (tpre e)).
  { rewrite <- TILE, emit_app, len_app, emit_one, SE, app_nil_r. unfold len, Tok.len. lia. }
  rewrite L. exact W.
Qed.
Print Assumptions C03_endmarker_at_end_of_input.
