(* C13 - the issue store of the error finder: one issue per line, every reported line kept (Issues.v) *)
From Coq Require Import List.
Require Import Issues.
Theorem C13_one_issue_per_line : forall xs, NoDup (map i_line (finalize (fold_left err_add xs nil))).
Proof. exact one_issue_per_line. Qed.
Print Assumptions C13_one_issue_per_line.
Theorem C13_reported_line_has_issue : forall xs x, In x xs -> In (i_line x) (map i_line (finalize (fold_left err_add xs nil))).
Proof. exact reported_line_has_issue. Qed.
Print Assumptions C13_reported_line_has_issue.
