(* C19 - refactoring is a splice (Refactor.v); dump/eval and pickle are checked on the implementation *)
From Coq Require Import List.
Import ListNotations.
Require Import Regex Tok Engine Tree Refactor.
Theorem C19_refactor_empty : forall t m, (forall q, m q = None) -> refactor m t = get_code t.
Proof. exact refactor_empty. Qed.
Print Assumptions C19_refactor_empty.
Theorem C19_refactor_single : forall p t n s m,
  subtree t p = Some n -> m p = Some s -> (forall q, q <> p -> m q = None) ->
  refactor m t = before t p ++ s ++ after t p.
Proof. exact refactor_single. Qed.
Print Assumptions C19_refactor_single.
Theorem C19_refactor_mapped : forall m t s, m [] = Some s -> refactor m t = s.
Proof. exact refactor_mapped. Qed.
Theorem C19_refactor_compositional : forall m k cs, m [] = None -> refactor m (Node k cs) = refactor_children m 0 cs.
Proof. exact refactor_node. Qed.
Theorem C19_refactor_hides_descendants : forall m m' t, m [] = m' [] -> m [] <> None -> refactor m t = refactor m' t.
Proof. exact refactor_hides_descendants. Qed.

(* the general statement, for ANY map (any set of mapped nodes): the code and the refactored text are the concatenations of
   the old and the new texts of the same list of pieces, each piece being an unmapped leaf (copied verbatim) or a maximal
   mapped subtree (replaced as a whole, prefix included) *)
Theorem C19_refactor_is_splice : forall t m here,
  get_code t = olds (frontier m here t) /\ refactor m t = news (frontier m here t).
Proof. exact refactor_is_splice. Qed.
Print Assumptions C19_refactor_is_splice.
Theorem C19_pieces : forall t m here pc, In pc (frontier m here t) -> piece_ok m t here pc.
Proof. exact frontier_pieces. Qed.
Print Assumptions C19_pieces.
