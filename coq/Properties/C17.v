(* C17 - a torn or corrupt cache file is a miss, never a failure (CacheCrash.v) *)
From Coq Require Import List Arith.
Require Import CacheCrash.
Theorem C17_load_total : forall unpickle d p, load unpickle true d p <> Raise.
Proof. exact load_total. Qed.
Print Assumptions C17_load_total.
Theorem C17_parse_total : forall unpickle d cur p now, exists v d', parse_cached unpickle true d cur p now = Some (v, d').
Proof. exact parse_total. Qed.
Print Assumptions C17_parse_total.
Theorem C17_self_repair : forall unpickle, (forall v ct, unpickle (Intact v ct) = UOk v ct) ->
  forall d cur p now, p <= now -> load unpickle true d p = Miss ->
  exists d', parse_cached unpickle true d cur p now = Some (cur, d') /\ load unpickle true d' p = Hit cur.
Proof. exact self_repair. Qed.
Print Assumptions C17_self_repair.
Theorem C17_hit_is_recorded : forall unpickle c d p v, load unpickle c d p = Hit v ->
  exists b pm ct, d = File b pm /\ unpickle b = UOk v ct /\ p <= pm /\ p <= ct.
Proof. exact hit_is_recorded. Qed.
Theorem C17_cleanup_keeps_recent : forall survival now es e,
  In e es -> now < e_atime e + survival -> In e (clear_inactive survival now es).
Proof. exact cleanup_keeps_recent. Qed.
Print Assumptions C17_cleanup_keeps_recent.
Theorem C17_old_code_refuted : load strict_unpickle false (File (Torn 0 5 3) 9) 5 = Raise.
Proof. exact old_code_refuted. Qed.
