(* C05 - trees conform to the grammar.  Only statements; proofs in LL1.v (abstract), LL1Inst.v (table checkers),
   EngineSound.v (the Engine model).  Per grammar: gen/LL1_<v>.v (tables_sound_ok by vm_compute, C05_sound_<v>).

   Proved: for every table set passing the checkers, every start rule and every token list - if the strict parser
   accepts without the missing-newline repair (parse_nr), the result is convert_node of the collapsed form of a
   derivation d over the rule automata with
       wf d     : every node of d names a rule of the grammar, has at least one child, and its children drive the
                  automaton of that rule from its start state to a final state (a complete instance of the rule),
       yield d  = the (label, leaf) word of the tokens - nothing dropped, added or reordered,
   and the strict parser (with repair) returns the same tree.  With C08 (the automata are the EBNF rules) the children
   are a sentence of the rule's right-hand side; single-child collapse, the suite / parameter conventions are exactly
   `collapse` and `convert_node`.
   Error confinement (second sentence of C05), proved for both modes and every token list (EngineConfine.v):
       good H t : every rule node of t that has an error node / error leaf among its children has its rule in H,
                  a param node never has one (error nodes may contain whatever was on the stack),
   for every rule set H passing the boolean check confine_ok (plans keep the rule they leave and push chains that
   respect H, arcs stay inside their rule, file_input and suite are in H, parameters / lambdef are not).  Per grammar
   gen/LL1_<v>.v computes the least such H from the regenerated automata - file_input, suite, stmt, compound_stmt and
   the compound statements; no expression rule, no simple statement - and discharges confine_ok by vm_compute
   (C05_errors_confined_<v>).
   Recovered trees and runs that use the missing-newline repair (EngineRecover.v), both modes, every token list: the tree is the
   conversion of the collapsed form of a derivation with error markers in which every rule node - also inside error nodes - is
   a complete instance of its rule, where an error marker stands for a possibly empty sequence of nonterminal arcs, the `stmt`
   arc of a suite may be taken without a child (the fix-up of error_recovery) and the NEWLINE arc of a simple_stmt may be taken
   without a child (final newline absent).
   Not proved (C05_partial): that the childless `stmt` arc of a suite is only taken when the suite holds an error marker, and that
   yield of the derivation is the token word for recovered trees (parse_keeps gives the leaves) - decided by the conformance
   predicate on implementation trees and the parse correspondence. *)
From Coq Require Import List NArith Bool.
Import ListNotations.
Require Import Regex Tok Engine LL1 LL1Inst LL1Engine EngineSound EngineConfine EngineRecover.

Theorem C05_abstract_sound : forall (T St Lb Rl : Type) (mk_node : Rl -> list T -> T)
    (arcT : St -> Lb -> option St) (arcN : St -> Rl -> option St) (start : Rl -> St) (final : St -> bool) (rule_of : St -> Rl)
    (plans : St -> Lb -> option (St * list St)) (validR : Rl -> Prop),
  (forall B, validR B -> rule_of (start B) = B) ->
  (forall q a q', arcT q a = Some q' -> rule_of q' = rule_of q) ->
  (forall q B q', arcN q B = Some q' -> rule_of q' = rule_of q) ->
  (forall q a q' ch, plans q a = Some (q', ch) ->
     (ch = [] /\ arcT q a = Some q') \/ (exists B, arcN q B = Some q' /\ first_chain St Lb Rl arcT arcN start B a ch)) ->
  (forall q B q', arcN q B = Some q' -> validR B) ->
  forall S0, validR S0 -> forall w fr qf ns,
    LL1.feed T St Lb Rl mk_node final rule_of plans w [(start S0, [])] fr ->
    popsf T St Rl mk_node final rule_of fr [(qf, ns)] -> final qf = true -> w <> [] ->
    exists kb, wf T St Lb Rl arcT arcN start final validR (DNode T Lb Rl S0 kb) /\
               yield T Lb Rl (DNode T Lb Rl S0 kb) = w /\ ns = map (collapse T Lb Rl mk_node) kb /\ rule_of qf = S0.
Proof. exact sound_f. Qed.
Print Assumptions C05_abstract_sound.

Theorem C05_engine_sound : forall G TR, tables_sound_ok G TR = true ->
  forall S0 toks t, toks <> [] -> parse_nr G TR S0 toks = POk t ->
  exists kb : list (derivation),
    wf tree N label N (arcT G) (arcN G) (startR G) (final G) (validR G) (DNode tree label N S0 kb) /\
    yield tree label N (DNode tree label N S0 kb) = word_of G toks /\
    convert_node G S0 (map (collapse tree label N (mk_node G)) kb) = POk t /\
    parse G TR false S0 toks = POk t.
Proof. exact engine_sound. Qed.
Print Assumptions C05_engine_sound.

Theorem C05_no_repair_is_strict : forall G TR start toks t, parse_nr G TR start toks = POk t -> parse G TR false start toks = POk t.
Proof. exact parse_nr_strict. Qed.

Theorem C05_plans_are_arcs_or_first_chains : forall G TR, plans_sound_ok G TR = true -> forall q a q' ch, plansI TR q a = Some (q', ch) ->
  (ch = [] /\ arcT G q a = Some q') \/ (exists B, arcN G q B = Some q' /\ first_chain N label N (arcT G) (arcN G) (startR G) B a ch).
Proof. exact plans_sound_sound. Qed.

(* error markers are confined to holder rules: both modes, every token list *)
Theorem C05_errors_confined : forall G TR H, confine_ok G TR H = true ->
  forall recover start q0 toks t,
  assocN start (g_start G) = Some q0 -> inH H (rule_of G q0) = true ->
  parse G TR recover start toks = POk t -> good H t = true.
Proof. exact errors_confined. Qed.
Print Assumptions C05_errors_confined.

(* every tree the engine returns - recovering or strict, with or without the missing-newline repair *)
Theorem C05_recovered_conform : forall G TR, tables_sound_ok G TR = true ->
  forall recover S0 toks t, parse G TR recover S0 toks = POk t ->
  exists R kb, rwf G (RNode R kb) /\ convert_node G R (map (rcollapse G) kb) = POk t.
Proof. exact recovered_conform. Qed.
Print Assumptions C05_recovered_conform.
