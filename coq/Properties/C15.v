(* C15 - line splitting (the decoding half is in the correspondence, see DESIGN.md) *)
From Coq Require Import List NArith.
Import ListNotations.
Require Import Lines.

(* split_lines(keepends=True) = cutting at \n, \r\n, \r and nowhere else *)
Theorem C15_split_keep_spec : forall s, split_keep s = cut s [].
Proof. exact split_keep_spec. Qed.
Print Assumptions C15_split_keep_spec.
Theorem C15_split_keep_concat : forall s, concat (split_keep s) = s.
Proof. exact split_keep_concat. Qed.
Print Assumptions C15_split_keep_concat.
Theorem C15_split_keep_nonempty : forall s, split_keep s <> [].
Proof. exact split_keep_nonempty. Qed.
Print Assumptions C15_split_keep_nonempty.

(* split_lines(keepends=False) = re.split(r'\n|\r\n|\r', s): "keeps or drops line ends as asked" -
   the same lines, each without its one line end, the last line unchanged; same count; no break character left *)
Require Import LinesDrop.
Theorem C15_split_plain_spec : forall s, lines_rel (split_plain s) (split_keep s).
Proof. exact split_plain_spec. Qed.
Print Assumptions C15_split_plain_spec.
Theorem C15_split_plain_same_count : forall s, length (split_plain s) = length (split_keep s).
Proof. exact split_plain_same_count. Qed.
Print Assumptions C15_split_plain_same_count.
Theorem C15_split_plain_no_break : forall s, Forall no_break (split_plain s).
Proof. exact split_plain_no_break. Qed.
Print Assumptions C15_split_plain_no_break.
Theorem C15_split_plain_nonempty : forall s, split_plain s <> [].
Proof. exact split_plain_nonempty. Qed.
Print Assumptions C15_split_plain_nonempty.
