(* C15 - line splitting (the decoding half is in the correspondence, see DESIGN.md) *)
From Coq Require Import List NArith.
Import ListNotations.
Require Import Lines.

(* split_lines(keepends=True) = cutting at \n, \r\n, \r and nowhere else *)
Theorem C15_split_keep_spec : forall s, split_keep s = cut s [].
Proof. exact split_keep_spec. Qed.
Print Assumptions C15_split_keep_spec.
Theorem C15_split_keep_concat : forall s, concat (split_keep s) = s.
Proof. exact split_keep_concat. Qed.
Print Assumptions C15_split_keep_concat.
Theorem C15_split_keep_nonempty : forall s, split_keep s <> [].
Proof. exact split_keep_nonempty. Qed.
Print Assumptions C15_split_keep_nonempty.
