(* C08 - generator faithfulness: soundness of the verified DFA-vs-EBNF checker.  The table
   obligations gen/Rules_<v>.v instantiate it for every rule of every shipped grammar. *)
From Coq Require Import List NArith.
Import ListNotations.
Require Import Deriv DfaCheck.
Theorem C08_check_rule_sound : forall fuel r d,
  check_rule fuel r d = true -> forall w, matches r w <-> run d (Some 0%N) w = true.
Proof. exact check_rule_sound. Qed.
Print Assumptions C08_check_rule_sound.
