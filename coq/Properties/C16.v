(* C16 - cache transparency on the protocol model (Cache.v) *)
From Coq Require Import List Arith.
Import ListNotations.
Require Import Cache.
Theorem C16_cache_transparent_fixed : forall mt, (forall a b, a < b -> mt a < mt b) ->
  forall h s, Inv mt s -> not_stale (run mt true true s h).
Proof. exact cache_transparent_fixed. Qed.
Print Assumptions C16_cache_transparent_fixed.
Theorem C16_initial_state_ok : Inv S init.
Proof. exact init_inv. Qed.
