(* C02 - shape of what the parser returns (the part that is a theorem).  Only statements.
   For every version, mode, start rule and text, on the pipeline model: if a tree is returned,
     - every interior node has at least one child (EngineShape.parse_nonempty_nodes: pop / convert_node /
       stack removal / error recovery never build an empty node),
     - the token stream it was built from ends with exactly one ENDMARKER (C09_one_endmarker),
     - the tree reproduces the text (C01_roundtrip) and keeps every text-carrying token as a leaf (C03).
   Not proved (C02_total): that the pipeline always returns a tree (never an exception) and that the last child of
   the root is the end marker - decided by the tok / parse correspondence (the model returns what parso returns,
   including exceptions) and the no-exception / module-shape predicates on the implementation. *)
From Coq Require Import List NArith Bool.
Import ListNotations.
Require Import Regex Tok Engine EngineShape EngineFuel Tree TokShape Tables Grammars Model.
Require C09.
Open Scope N_scope.

Theorem C02_engine_nonempty_nodes : forall G TR recover start toks t,
  parse G TR recover start toks = POk t -> (exists u, In u toks /\ ty u <> DEDENT) -> ne t = true.
Proof. exact parse_nonempty_nodes. Qed.
Print Assumptions C02_engine_nonempty_nodes.

Theorem C02_nonempty_nodes : forall v m start s t, parse_text v m start s = OTree t -> ne t = true.
Proof.
  intros v m start s t H. unfold parse_text in H. destruct (tokenize_text v s) as [toks|] eqn:TK; [|discriminate].
  destruct (parse_tokens v m start toks) as [t'|] eqn:P; [|discriminate]. inversion H; subst t'.
  unfold parse_tokens in P. destruct (Engine.assocN v grams) as [[G TR]|]; [|discriminate].
  destruct (C09.C09_token_shape _ _ _ TK) as (body & e & E & TE & _).
  eapply parse_nonempty_nodes; [exact P|]. exists e. split; [subst toks; apply in_or_app; right; left; reflexivity|rewrite TE; discriminate].
Qed.
Print Assumptions C02_nonempty_nodes.

(* the Prop form used by the navigation (C11) and get_code (C01) theorems *)
Lemma ne_nonempty_nodes : forall t, ne t = true -> nonempty_nodes t.
Proof.
  fix IH 1. intros [k v p l c|k cs] H; [exact I|]. rewrite ne_node in H. apply andb_true_iff in H as [H1 H2].
  split; [destruct cs; [discriminate|discriminate]|]. clear H1. induction cs as [|c r IHr]; [exact I|].
  rewrite nes_cons in H2. apply andb_true_iff in H2 as [Hc Hr]. split; [apply IH; exact Hc|apply IHr; exact Hr].
Qed.
Theorem C02_parsed_trees_have_nonempty_nodes : forall v m start s t, parse_text v m start s = OTree t -> nonempty_nodes t.
Proof. intros v m start s t H. apply ne_nonempty_nodes. eapply C02_nonempty_nodes. exact H. Qed.

(* termination of the engine: the fuel the model passes to add_token / finish always suffices and the stack never runs
   empty - for all tables, both modes, every start rule and token list *)
Theorem C02_engine_fuel_suffices : forall G TR recover start toks,
  parse G TR recover start toks <> PErr PFuel /\ parse G TR recover start toks <> PErr TooMuchInput.
Proof. exact parse_fuel_suffices. Qed.
Print Assumptions C02_engine_fuel_suffices.

Example C02_example :
  match parse_text 310 Recover 0 [100;101;102;32;102;40;10;32;32;41;58;10;32;120;32;61;10] with
  | OTree t => ne t = true /\ no_error t = false
  | _ => False end.
Proof. vm_compute. split; reflexivity. Qed.
