(* C10 - lexical layer.  Finite, exhaustive sweeps (the bound is part of each statement):
   the operator alternatives of pseudo_token accept exactly the operator set of the language
   reference among all strings over the operator alphabet up to length 3. *)
From Coq Require Import List NArith Bool.
Import ListNotations.
Require Import Regex Tok Tables.
Open Scope N_scope.

Definition full_match (r : re) (s : list N) : bool :=
  match rmatch (Cat r AtEndStr) s 0 with Some _ => true | None => false end.

(* token produced by pseudo_token at position 0 of s, if it spans the whole of s *)
Definition pseudo_whole (c : coll) (s : list N) : bool :=
  match rmatch (pseudo c) s 0 with
  | Some (e, cs) => match grp 2 cs with Some (a, b) => (a =? 0) && (b =? N.of_nat (length s)) && negb (b =? 0) | None => false end
  | None => false
  end.

Definition op_alphabet : list N := [33;37;38;40;41;42;43;44;45;46;47;58;59;60;61;62;64;91;93;94;96;123;124;125;126].
(* ! % & ( ) * + , - . / : ; < = > @ [ ] ^ ` { | } ~ *)
Fixpoint words (n : nat) : list (list N) :=
  match n with O => [[]] | S k => [] :: flat_map (fun w => map (fun c => c :: w) op_alphabet) (words k) end.

Definition str_of (l : list N) := l.
Definition ops_common : list (list N) :=
  [[43];[45];[42];[42;42];[47];[47;47];[37];[64];[60;60];[62;62];[38];[124];[94];[126];[60];[62];[60;61];[62;61];[61;61];[33;61];
   [40];[41];[91];[93];[123];[125];[44];[58];[46];[59];[61];[45;62];[43;61];[45;61];[42;61];[47;61];[47;47;61];[37;61];[64;61];
   [38;61];[124;61];[94;61];[62;62;61];[60;60;61];[42;42;61];[46;46;46];
   (* accepted by parso's tokenizer for error recovery / old syntax, rejected later by the parser: *)
   [33];[96];[96;61];[60;62]].
Definition walrus : list N := [58;61].

Definition in_list (w : list N) (l : list (list N)) : bool := existsb (str_eqb w) l.

(* <> is tokenized as a single operator only through `[+\-*/%&@`|^!=<>]=?` followed by ... it is two tokens < and >; keep the sweep honest: *)
Definition expected_ops (with_walrus : bool) (w : list N) : bool :=
  in_list w (filter (fun o => negb (str_eqb o [60;62])) ops_common) || (with_walrus && str_eqb w walrus).

Definition sweep (c : coll) (with_walrus : bool) : bool :=
  forallb (fun w => match w with [] => true | _ => Bool.eqb (pseudo_whole c w) (expected_ops with_walrus w) end) (words 3).

(* for every shipped token collection: over ALL strings of length <= 3 over the operator alphabet, pseudo_token
   yields a single whole-string token exactly for the operators of the language reference for that version
   (:= from 3.8 on) plus the three error-recovery extras ! ` `= that the grammar then rejects *)
Theorem C10_operator_language_len3 :
  forallb (fun '(v, c) => sweep c (38 <=? v)) colls = true.
Proof. vm_compute. reflexivity. Qed.
Print Assumptions C10_operator_language_len3.

Example C10_sweep_nonvacuous : length (words 3) = 16276%nat /\ pseudo_whole coll_38 [58;61] = true /\ pseudo_whole coll_36 [58;61] = false.
Proof. vm_compute. repeat split. Qed.
