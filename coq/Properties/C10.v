(* C10 - lexical layer.  Finite, exhaustive sweeps (the bound is part of each statement):
   the operator alternatives of pseudo_token accept exactly the operator set of the language
   reference among all strings over the operator alphabet up to length 3. *)
From Coq Require Import List NArith Bool.
Import ListNotations.
Require Import Regex Tok Tables.
Open Scope N_scope.

Definition full_match (r : re) (s : list N) : bool :=
  match rmatch (Cat r AtEndStr) s 0 with Some _ => true | None => false end.

(* token produced by pseudo_token at position 0 of s, if it spans the whole of s *)
Definition pseudo_whole (c : coll) (s : list N) : bool :=
  match rmatch (pseudo c) s 0 with
  | Some (e, cs) => match grp 2 cs with Some (a, b) => (a =? 0) && (b =? N.of_nat (length s)) && negb (b =? 0) | None => false end
  | None => false
  end.

Definition op_alphabet : list N := [33;37;38;40;41;42;43;44;45;46;47;58;59;60;61;62;64;91;93;94;96;123;124;125;126].
(* ! % & ( ) * + , - . / : ; < = > @ [ ] ^ ` { | } ~ *)
Fixpoint words (n : nat) : list (list N) :=
  match n with O => [[]] | S k => [] :: flat_map (fun w => map (fun c => c :: w) op_alphabet) (words k) end.

Definition str_of (l : list N) := l.
Definition ops_common : list (list N) :=
  [[43];[45];[42];[42;42];[47];[47;47];[37];[64];[60;60];[62;62];[38];[124];[94];[126];[60];[62];[60;61];[62;61];[61;61];[33;61];
   [40];[41];[91];[93];[123];[125];[44];[58];[46];[59];[61];[45;62];[43;61];[45;61];[42;61];[47;61];[47;47;61];[37;61];[64;61];
   [38;61];[124;61];[94;61];[62;62;61];[60;60;61];[42;42;61];[46;46;46];
   (* accepted by parso's tokenizer for error recovery / old syntax, rejected later by the parser: *)
   [33];[96];[96;61];[60;62]].
Definition walrus : list N := [58;61].

Definition in_list (w : list N) (l : list (list N)) : bool := existsb (str_eqb w) l.

(* <> is tokenized as a single operator only through `[+\-*/%&@`|^!=<>]=?` followed by ... it is two tokens < and >; keep the sweep honest: *)
Definition expected_ops (with_walrus : bool) (w : list N) : bool :=
  in_list w (filter (fun o => negb (str_eqb o [60;62])) ops_common) || (with_walrus && str_eqb w walrus).

Definition sweep (c : coll) (with_walrus : bool) : bool :=
  forallb (fun w => match w with [] => true | _ => Bool.eqb (pseudo_whole c w) (expected_ops with_walrus w) end) (words 3).

(* for every shipped token collection: over ALL strings of length <= 3 over the operator alphabet, pseudo_token
   yields a single whole-string token exactly for the operators of the language reference for that version
   (:= from 3.8 on) plus the three error-recovery extras ! ` `= that the grammar then rejects *)
Theorem C10_operator_language_len3 :
  forallb (fun '(v, c) => sweep c (38 <=? v)) colls = true.
Proof. vm_compute. reflexivity. Qed.
Print Assumptions C10_operator_language_len3.

Example C10_sweep_nonvacuous : length (words 3) = 16276%nat /\ pseudo_whole coll_38 [58;61] = true /\ pseudo_whole coll_36 [58;61] = false.
Proof. vm_compute. repeat split. Qed.

(* ---- numbers: the NUMBER token language equals the language reference (section 2.4.5-2.4.7) on ALL strings
   of length <= 4 over a 16-letter alphabet that contains every character class the number grammar distinguishes ---- *)
Definition cs (l : list (N * N)) : re := CSet false l.
Definition digit := cs [(48,57)].
Definition us_opt (d : re) : re := Cat d (Star (Cat (Opt (Chr 95)) d)).        (* d (["_"] d)* *)
Definition digitpart := us_opt digit.
Definition decinteger := Alt (Cat (cs [(49,57)]) (Star (Cat (Opt (Chr 95)) digit))) (Cat (Plus (Chr 48)) (Star (Cat (Opt (Chr 95)) (Chr 48)))).
Definition prefixed (letters : list (N * N)) (d : re) : re := Cat (Chr 48) (Cat (cs letters) (Plus (Cat (Opt (Chr 95)) d))).
Definition integer := Alt decinteger (Alt (prefixed [(98,98);(66,66)] (cs [(48,49)]))
                      (Alt (prefixed [(111,111);(79,79)] (cs [(48,55)])) (prefixed [(120,120);(88,88)] (cs [(48,57);(97,102);(65,70)])))).
Definition fraction := Cat (Chr 46) digitpart.
Definition pointfloat := Alt (Cat (Opt digitpart) fraction) (Cat digitpart (Chr 46)).
Definition exponent := Cat (cs [(101,101);(69,69)]) (Cat (Opt (cs [(43,43);(45,45)])) digitpart).
Definition exponentfloat := Cat (Alt pointfloat digitpart) exponent.
Definition floatnumber := Alt exponentfloat pointfloat.
Definition imagnumber := Cat (Alt floatnumber digitpart) (cs [(106,106);(74,74)]).
Definition number_ref := Alt imagnumber (Alt floatnumber integer).

Definition num_alphabet : list N := [48;49;55;57;95;46;101;69;106;120;98;111;97;102;43;45].
Fixpoint words_over (a : list N) (n : nat) : list (list N) :=
  match n with O => [[]] | S k => [] :: flat_map (fun w => map (fun c => c :: w) a) (words_over a k) end.

(* the tokenizer calls a pseudo_token match a NUMBER when it starts with a digit, or with a dot and is neither . nor ... *)
Definition is_number_token (c : coll) (w : list N) : bool :=
  pseudo_whole c w &&
  match w with
  | x :: _ => ((48 <=? x) && (x <=? 57)) || ((x =? 46) && negb (str_eqb w [46]) && negb (str_eqb w [46;46;46]))
  | [] => false
  end.

Definition number_sweep (c : coll) : bool :=
  forallb (fun w => Bool.eqb (is_number_token c w) (full_match number_ref w)) (words_over num_alphabet 4).

Theorem C10_number_language_len4 : forallb (fun '(v, c) => number_sweep c) colls = true.
Proof. vm_compute. reflexivity. Qed.
Print Assumptions C10_number_language_len4.
Example C10_number_sweep_nonvacuous :
  is_number_token coll_38 [48;57;106] = true /\ is_number_token coll_38 [48;95;49;106] = true /\ is_number_token coll_38 [48;57] = false
  /\ is_number_token coll_38 [49;95;48] = true /\ is_number_token coll_38 [49;101;45;49] = true.
Proof. vm_compute. repeat split. Qed.
