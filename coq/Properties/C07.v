(* C07 - strict and recovering parsers agree on what is a syntax error.  Only statements.
   For every grammar table set, start rule and token list (Engine model, both modes share add_token):
     - if the strict parser accepts, the recovering parser takes the same steps and returns the identical tree,
       and that tree contains no error node / error leaf;
     - if the strict parser raises its syntax error, every tree the recovering parser returns contains an error
       node or an error leaf (markers are created exactly in the recovery branch and never lost afterwards).
   Not proved (C07_partial): that the token reported by the strict parser is the first error the recovering parser
   marks - decided by the parse correspondence in both modes and the first_error_agrees search. *)
From Coq Require Import List NArith.
Import ListNotations.
Require Import Regex Tok Engine EngineSim EngineErr Tables Grammars Model.
Open Scope N_scope.

Theorem C07_strict_accepts_recover_same : forall G TR start toks t,
  parse G TR false start toks = POk t -> parse G TR true start toks = POk t.
Proof. exact strict_accepts_recover_same. Qed.
Print Assumptions C07_strict_accepts_recover_same.

Theorem C07_step_simulation : forall G TR f p t p',
  add_token G TR f false p t = POk p' ->
  forall om ic, add_token G TR f true (mkP (stack p) om ic) t = POk (mkP (stack p') om ic).
Proof. exact add_token_sim. Qed.

Theorem C07_strict_tree_has_no_error : forall G TR start toks t,
  parse G TR false start toks = POk t -> no_error t = true.
Proof. exact strict_no_error. Qed.
Print Assumptions C07_strict_tree_has_no_error.

Theorem C07_syntax_error_is_marked : forall G TR start toks x t,
  parse G TR false start toks = PErr (SyntaxErr x) -> parse G TR true start toks = POk t -> no_error t = false.
Proof. exact syntax_error_marked. Qed.
Print Assumptions C07_syntax_error_is_marked.

(* on the pipeline model, for every version, start rule and text *)
Theorem C07_agree : forall v start s t, parse_text v Recover start s = OTree t ->
  (forall t', parse_text v Strict start s = OTree t' -> t' = t /\ no_error t = true) /\
  (forall x, parse_text v Strict start s = OParseErr (SyntaxErr x) -> no_error t = false).
Proof.
  intros v start s t R. unfold parse_text in *. destruct (tokenize_text v s) as [toks|]; [|discriminate].
  unfold parse_tokens in *. destruct (Engine.assocN v grams) as [[G TR]|]; [|discriminate].
  destruct (parse G TR true _ toks) as [tr|] eqn:PR; [|discriminate]. inversion R; subst tr.
  destruct (error_marker_iff_strict_raises G TR _ _ _ PR) as [A B]. split.
  - intros t' S. destruct (parse G TR false _ toks) as [ts|] eqn:PS; [|discriminate]. inversion S; subst ts. apply A. reflexivity.
  - intros x S. destruct (parse G TR false _ toks) as [ts|e] eqn:PS; [discriminate|]. inversion S; subst e. eapply B. reflexivity.
Qed.
Print Assumptions C07_agree.

(* non-vacuity: "x = (1\n" is rejected by the strict parser and marked by the recovering one; "x = 1\n" is accepted *)
Example C07_example_error :
  match parse_text 310 Strict 0 [120;32;61;32;40;49;10], parse_text 310 Recover 0 [120;32;61;32;40;49;10] with
  | OParseErr (SyntaxErr _), OTree t => no_error t = false
  | _, _ => False end.
Proof. vm_compute. reflexivity. Qed.
Example C07_example_ok :
  match parse_text 310 Strict 0 [120;32;61;32;49;10], parse_text 310 Recover 0 [120;32;61;32;49;10] with
  | OTree t', OTree t => t' = t /\ no_error t = true
  | _, _ => False end.
Proof. vm_compute. split; reflexivity. Qed.
