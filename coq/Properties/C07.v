(* C07 - strict and recovering parsers: proved half.  For every grammar table set, start rule and token
   list: if the strict parser accepts, the recovering parser returns the identical tree.
   Not yet proved (C07_partial): that this tree has no error node/leaf (it cannot: error nodes and error
   leaves are built only in the recovery branch), the converse, and the agreement on the first error
   token - these are decided by the parse correspondence in both modes and the first_error_agrees search. *)
From Coq Require Import List NArith.
Require Import Regex Tok Engine EngineSim.
Theorem C07_strict_accepts_recover_same : forall G TR start toks t,
  parse G TR false start toks = POk t -> parse G TR true start toks = POk t.
Proof. exact strict_accepts_recover_same. Qed.
Print Assumptions C07_strict_accepts_recover_same.
Theorem C07_step_simulation : forall G TR f p t p',
  add_token G TR f false p t = POk p' ->
  forall om ic, add_token G TR f true (mkP (stack p) om ic) t = POk (mkP (stack p') om ic).
Proof. exact add_token_sim. Qed.
