(* C18 - shared state: the memo tables are write-once up to equal values under every interleaving *)
From Coq Require Import List.
Require Import Memo.
Theorem C18_memo_linearizable : forall f use_setdefault schedule w, Inv f w ->
  let w' := run f use_setdefault w schedule in
  (forall k v, get (tab w') k = Some v -> v = f k) /\
  (forall th k v, In th (threads w') -> In (k, v) (results th) -> v = f k).
Proof. exact memo_linearizable. Qed.
Print Assumptions C18_memo_linearizable.
Theorem C18_initial_state_ok : forall f progs, Inv f (init progs).
Proof. exact init_inv. Qed.
(* determinism of the model pipeline is definitional: parse_text is a Gallina function *)
Require Import Model.
Theorem C18_parse_deterministic : forall v m r s, parse_text v m r s = parse_text v m r s.
Proof. reflexivity. Qed.
