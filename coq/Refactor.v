From Coq Require Import List Arith NArith Bool Lia.
Import ListNotations.
Require Import Regex Tok Engine Tree.
Local Open Scope nat_scope.

(* Model of Grammar.refactor = RefactoringNormalizer(node_to_str_map).walk(node) (parso/normalizer.py).
   The dict is keyed by node identity; in the model a node is identified by its path from the
   base node, so the map is a function on paths (relative to the current node). *)

Definition rmap := list nat -> option str.
Definition shift (m : rmap) (i : nat) : rmap := fun q => m (i :: q).

Fixpoint refactor (m : rmap) (t : tree) : str :=
  match m [] with
  | Some s => s
  | None =>
    match t with
    | Leaf _ v p _ _ => p ++ v
    | Node _ cs =>
      (fix go (i : nat) (l : list tree) : str :=
         match l with [] => [] | c :: r => refactor (shift m i) c ++ go (S i) r end) 0 cs
    end
  end.

Fixpoint refactor_children (m : rmap) (i : nat) (l : list tree) : str :=
  match l with [] => [] | c :: r => refactor (shift m i) c ++ refactor_children m (S i) r end.

Lemma refactor_node m k cs : m [] = None -> refactor m (Node k cs) = refactor_children m 0 cs.
Proof.
  intros H. simpl. rewrite H. generalize 0. induction cs as [|c r IH]; intros i; simpl; [reflexivity|].
  rewrite IH. reflexivity.
Qed.

Theorem refactor_mapped : forall m t s, m [] = Some s -> refactor m t = s.
Proof. intros m t s H. destruct t; simpl; rewrite H; reflexivity. Qed.

(* the empty map reproduces the code *)
Theorem refactor_empty : forall t m, (forall q, m q = None) -> refactor m t = get_code t.
Proof.
  induction t as [k v p l c|k cs IH] using tree_ind'; intros m H.
  - simpl. rewrite H. reflexivity.
  - rewrite refactor_node by apply H. rewrite get_code_node. unfold codes.
    generalize 0. induction IH as [|c r Hc _ IHr]; intros i; simpl; [reflexivity|].
    rewrite Hc by (intros q; apply H). rewrite IHr. reflexivity.
Qed.

Lemma refactor_children_none m i l : (forall j q, m (j :: q) = None) -> refactor_children m i l = codes l.
Proof.
  intros H. revert i. induction l as [|c r IH]; intros i; simpl; [reflexivity|].
  unfold codes in *. simpl. rewrite IH. rewrite refactor_empty by (intros q; apply H). reflexivity.
Qed.

(* replacing one node: the result is the text before it, the replacement, the text after it *)
Lemma refactor_children_single m cs : forall i0 i c s p n,
  nth_error cs i = Some c ->
  (forall j q, j <> i0 + i -> m (j :: q) = None) ->
  refactor (shift m (i0 + i)) c = before c p ++ s ++ after c p ->
  subtree c p = Some n ->
  refactor_children m i0 cs = codes (firstn i cs) ++ (before c p ++ s ++ after c p) ++ codes (skipn (S i) cs).
Proof.
  induction cs as [|x r IH]; intros i0 i c s p n E Hm Hc Hs; [destruct i; discriminate|].
  destruct i as [|i]; simpl in E.
  - inversion E; subst x. simpl. rewrite Nat.add_0_r in *. rewrite Hc.
    assert (R: forall l k, (forall j q, j <> i0 -> m (j :: q) = None) -> i0 < k -> refactor_children m k l = codes l).
    { induction l as [|y l IHl]; intros k Hk Lt; simpl; [reflexivity|]. unfold codes in *. simpl.
      rewrite IHl by (auto; lia). rewrite refactor_empty; [reflexivity|]. intros q. unfold shift. apply Hk. lia. }
    rewrite R by (auto; lia). unfold codes. simpl. rewrite <- !app_assoc. reflexivity.
  - simpl. rewrite (IH (S i0) i c s p n E); [| |replace (S i0 + i) with (i0 + S i) by lia; exact Hc|exact Hs].
    + rewrite refactor_empty by (intros q; unfold shift; apply Hm; lia).
      unfold codes. simpl. rewrite <- !app_assoc. reflexivity.
    + intros j q Hj. apply Hm. lia.
Qed.

Theorem refactor_single : forall p t n s m,
  subtree t p = Some n -> m p = Some s -> (forall q, q <> p -> m q = None) ->
  refactor m t = before t p ++ s ++ after t p.
Proof.
  induction p as [|i p IH]; intros t n s m Hs Hm Ho.
  - rewrite (refactor_mapped m t s Hm). destruct t; simpl; rewrite app_nil_r; reflexivity.
  - simpl in Hs. destruct t as [|k cs]; [discriminate|].
    destruct (nth_error cs i) as [c|] eqn:E; [|discriminate].
    rewrite refactor_node by (apply Ho; discriminate).
    rewrite (refactor_children_single m cs 0 i c s p n E).
    + simpl. rewrite E. rewrite <- !app_assoc. reflexivity.
    + intros j q Hj. apply Ho. intros X. inversion X. lia.
    + simpl. apply (IH c n s (shift m i) Hs); [exact Hm|]. intros q Hq. unfold shift. apply Ho. intros X. inversion X. contradiction.
    + exact Hs.
Qed.

(* descendants of a mapped node are irrelevant (the replacement hides them) *)
Theorem refactor_hides_descendants : forall m m' t, m [] = m' [] -> m [] <> None -> refactor m t = refactor m' t.
Proof.
  intros m m' t E N. destruct (m []) as [s|] eqn:M; [|contradiction].
  rewrite (refactor_mapped m t s M). symmetry. apply refactor_mapped. rewrite <- E. reflexivity.
Qed.
Print Assumptions refactor_single.

(* ---------- any map: the result is the code with exactly the maximal mapped subtrees replaced ----------
   frontier m t lists, in text order, the pieces the walk of RefactoringNormalizer stops at: a mapped subtree
   (its path, its own code, the replacement) or an unmapped leaf (its text twice).  The code of t is the
   concatenation of the first components, the refactored text the concatenation of the second ones: every piece that
   is not a mapped subtree is copied verbatim, every mapped subtree is replaced as a whole (prefix included), and
   mapped nodes below a mapped node are ignored.  Maximal mapped subtrees are pairwise disjoint by construction. *)
Record piece := mkPiece { pc_path : list nat; pc_mapped : bool; pc_old : str; pc_new : str }.

Fixpoint frontier (m : rmap) (here : list nat) (t : tree) : list piece :=
  match m [] with
  | Some s => [mkPiece here true (get_code t) s]
  | None =>
    match t with
    | Leaf _ v p _ _ => [mkPiece here false (p ++ v) (p ++ v)]
    | Node _ cs =>
      (fix go (i : nat) (l : list tree) : list piece :=
         match l with [] => [] | c :: r => frontier (shift m i) (here ++ [i]) c ++ go (S i) r end) 0 cs
    end
  end.
Fixpoint frontier_children (m : rmap) (here : list nat) (i : nat) (l : list tree) : list piece :=
  match l with [] => [] | c :: r => frontier (shift m i) (here ++ [i]) c ++ frontier_children m here (S i) r end.
Lemma frontier_node m here k cs : m [] = None -> frontier m here (Node k cs) = frontier_children m here 0 cs.
Proof.
  intros H. simpl. rewrite H. generalize 0. induction cs as [|c r IH]; intros i; simpl; [reflexivity|]. rewrite IH. reflexivity.
Qed.

Definition olds (l : list piece) : str := concat (map pc_old l).
Definition news (l : list piece) : str := concat (map pc_new l).
Lemma olds_app a b : olds (a ++ b) = olds a ++ olds b.
Proof. unfold olds. rewrite map_app, concat_app. reflexivity. Qed.
Lemma news_app a b : news (a ++ b) = news a ++ news b.
Proof. unfold news. rewrite map_app, concat_app. reflexivity. Qed.

Theorem refactor_is_splice : forall t m here,
  get_code t = olds (frontier m here t) /\ refactor m t = news (frontier m here t).
Proof.
  induction t as [k v p l c|k cs IH] using tree_ind'; intros m here.
  - simpl. destruct (m []) as [s|]; unfold olds, news; simpl; rewrite ?app_nil_r; split; reflexivity.
  - destruct (m []) as [s|] eqn:M.
    + rewrite (refactor_mapped m _ s M). simpl. rewrite M. unfold olds, news. simpl. rewrite !app_nil_r. split; reflexivity.
    + rewrite refactor_node, frontier_node, get_code_node by exact M. unfold codes.
      generalize 0. induction IH as [|c r Hc _ IHr]; intros i; simpl; [split; reflexivity|].
      destruct (Hc (shift m i) (here ++ [i])) as [H1 H2]. destruct (IHr (S i)) as [H3 H4].
      rewrite olds_app, news_app, <- H1, <- H2, <- H3, <- H4. split; reflexivity.
Qed.

(* what the pieces are: an unmapped leaf, or a mapped subtree none of whose ancestors is mapped *)
Definition piece_ok (m : rmap) (t : tree) (here : list nat) (pc : piece) : Prop :=
  exists q n, pc_path pc = here ++ q /\ subtree t q = Some n /\ pc_old pc = get_code n /\
    (forall q1 q2, q = q1 ++ q2 -> q2 <> [] -> m q1 = None) /\
    ((pc_mapped pc = true /\ m q = Some (pc_new pc)) \/
     (pc_mapped pc = false /\ m q = None /\ pc_new pc = pc_old pc /\ match n with Leaf _ _ _ _ _ => True | Node _ _ => False end)).

Theorem frontier_pieces : forall t m here pc, In pc (frontier m here t) -> piece_ok m t here pc.
Proof.
  induction t as [k v p l c|k cs IH] using tree_ind'; intros m here pc I.
  - simpl in I. destruct (m []) as [s|] eqn:M; destruct I as [<-|[]]; exists [], (Leaf k v p l c); rewrite app_nil_r; cbn [pc_path pc_mapped pc_old pc_new];
      (split; [reflexivity|split; [reflexivity|split; [reflexivity|split; [intros q1 q2 E NE; symmetry in E; apply app_eq_nil in E as [_ E]; contradiction|]]]]).
    + left. split; [reflexivity|exact M].
    + right. repeat split; try reflexivity. exact M.
  - destruct (m []) as [s|] eqn:M.
    + simpl in I. rewrite M in I. destruct I as [<-|[]]. exists [], (Node k cs). rewrite app_nil_r. cbn [pc_path pc_mapped pc_old pc_new].
      split; [reflexivity|split; [reflexivity|split; [reflexivity|split; [intros q1 q2 E NE; symmetry in E; apply app_eq_nil in E as [_ E]; contradiction|left; split; [reflexivity|exact M]]]]].
    + rewrite frontier_node in I by exact M.
      assert (G: forall l i0, In pc (frontier_children m here i0 l) ->
                 exists j c, nth_error l j = Some c /\ In pc (frontier (shift m (i0 + j)) (here ++ [i0 + j]) c)).
      { induction l as [|c r IHr]; intros i0 I0; [destruct I0|]. simpl in I0. apply in_app_or in I0 as [I0|I0].
        - exists 0, c. rewrite Nat.add_0_r. split; [reflexivity|exact I0].
        - destruct (IHr (S i0) I0) as (j & c' & N & I1). exists (S j), c'. split; [exact N|]. replace (i0 + S j) with (S i0 + j) by lia. exact I1. }
      destruct (G cs 0 I) as (j & c & N & I1). simpl in I1.
      rewrite Forall_forall in IH. destruct (IH c (nth_error_In _ _ N) _ _ _ I1) as (q & n & P1 & P2 & P3 & P4 & P5).
      exists (j :: q), n. split; [rewrite P1, <- app_assoc; reflexivity|]. split; [simpl; rewrite N; exact P2|]. split; [exact P3|]. split.
      * intros q1 q2 E NE. destruct q1 as [|j1 q1]; [exact M|]. simpl in E. inversion E; subst j1. apply (P4 q1 q2 H1 NE).
      * unfold shift in P5. exact P5.
Qed.
