From Coq Require Import List Arith NArith Bool Lia.
Import ListNotations.
Require Import Regex Tok Engine Tree.
Local Open Scope nat_scope.

(* Model of Grammar.refactor = RefactoringNormalizer(node_to_str_map).walk(node) (parso/normalizer.py).
   The dict is keyed by node identity; in the model a node is identified by its path from the
   base node, so the map is a function on paths (relative to the current node). *)

Definition rmap := list nat -> option str.
Definition shift (m : rmap) (i : nat) : rmap := fun q => m (i :: q).

Fixpoint refactor (m : rmap) (t : tree) : str :=
  match m [] with
  | Some s => s
  | None =>
    match t with
    | Leaf _ v p _ _ => p ++ v
    | Node _ cs =>
      (fix go (i : nat) (l : list tree) : str :=
         match l with [] => [] | c :: r => refactor (shift m i) c ++ go (S i) r end) 0 cs
    end
  end.

Fixpoint refactor_children (m : rmap) (i : nat) (l : list tree) : str :=
  match l with [] => [] | c :: r => refactor (shift m i) c ++ refactor_children m (S i) r end.

Lemma refactor_node m k cs : m [] = None -> refactor m (Node k cs) = refactor_children m 0 cs.
Proof.
  intros H. simpl. rewrite H. generalize 0. induction cs as [|c r IH]; intros i; simpl; [reflexivity|].
  rewrite IH. reflexivity.
Qed.

Theorem refactor_mapped : forall m t s, m [] = Some s -> refactor m t = s.
Proof. intros m t s H. destruct t; simpl; rewrite H; reflexivity. Qed.

(* the empty map reproduces the code *)
Theorem refactor_empty : forall t m, (forall q, m q = None) -> refactor m t = get_code t.
Proof.
  induction t as [k v p l c|k cs IH] using tree_ind'; intros m H.
  - simpl. rewrite H. reflexivity.
  - rewrite refactor_node by apply H. rewrite get_code_node. unfold codes.
    generalize 0. induction IH as [|c r Hc _ IHr]; intros i; simpl; [reflexivity|].
    rewrite Hc by (intros q; apply H). rewrite IHr. reflexivity.
Qed.

Lemma refactor_children_none m i l : (forall j q, m (j :: q) = None) -> refactor_children m i l = codes l.
Proof.
  intros H. revert i. induction l as [|c r IH]; intros i; simpl; [reflexivity|].
  unfold codes in *. simpl. rewrite IH. rewrite refactor_empty by (intros q; apply H). reflexivity.
Qed.

(* replacing one node: the result is the text before it, the replacement, the text after it *)
Lemma refactor_children_single m cs : forall i0 i c s p n,
  nth_error cs i = Some c ->
  (forall j q, j <> i0 + i -> m (j :: q) = None) ->
  refactor (shift m (i0 + i)) c = before c p ++ s ++ after c p ->
  subtree c p = Some n ->
  refactor_children m i0 cs = codes (firstn i cs) ++ (before c p ++ s ++ after c p) ++ codes (skipn (S i) cs).
Proof.
  induction cs as [|x r IH]; intros i0 i c s p n E Hm Hc Hs; [destruct i; discriminate|].
  destruct i as [|i]; simpl in E.
  - inversion E; subst x. simpl. rewrite Nat.add_0_r in *. rewrite Hc.
    assert (R: forall l k, (forall j q, j <> i0 -> m (j :: q) = None) -> i0 < k -> refactor_children m k l = codes l).
    { induction l as [|y l IHl]; intros k Hk Lt; simpl; [reflexivity|]. unfold codes in *. simpl.
      rewrite IHl by (auto; lia). rewrite refactor_empty; [reflexivity|]. intros q. unfold shift. apply Hk. lia. }
    rewrite R by (auto; lia). unfold codes. simpl. rewrite <- !app_assoc. reflexivity.
  - simpl. rewrite (IH (S i0) i c s p n E); [| |replace (S i0 + i) with (i0 + S i) by lia; exact Hc|exact Hs].
    + rewrite refactor_empty by (intros q; unfold shift; apply Hm; lia).
      unfold codes. simpl. rewrite <- !app_assoc. reflexivity.
    + intros j q Hj. apply Hm. lia.
Qed.

Theorem refactor_single : forall p t n s m,
  subtree t p = Some n -> m p = Some s -> (forall q, q <> p -> m q = None) ->
  refactor m t = before t p ++ s ++ after t p.
Proof.
  induction p as [|i p IH]; intros t n s m Hs Hm Ho.
  - rewrite (refactor_mapped m t s Hm). destruct t; simpl; rewrite app_nil_r; reflexivity.
  - simpl in Hs. destruct t as [|k cs]; [discriminate|].
    destruct (nth_error cs i) as [c|] eqn:E; [|discriminate].
    rewrite refactor_node by (apply Ho; discriminate).
    rewrite (refactor_children_single m cs 0 i c s p n E).
    + simpl. rewrite E. rewrite <- !app_assoc. reflexivity.
    + intros j q Hj. apply Ho. intros X. inversion X. lia.
    + simpl. apply (IH c n s (shift m i) Hs); [exact Hm|]. intros q Hq. unfold shift. apply Ho. intros X. inversion X. contradiction.
    + exact Hs.
Qed.

(* descendants of a mapped node are irrelevant (the replacement hides them) *)
Theorem refactor_hides_descendants : forall m m' t, m [] = m' [] -> m [] <> None -> refactor m t = refactor m' t.
Proof.
  intros m m' t E N. destruct (m []) as [s|] eqn:M; [|contradiction].
  rewrite (refactor_mapped m t s M). symmetry. apply refactor_mapped. rewrite <- E. reflexivity.
Qed.
Print Assumptions refactor_single.
