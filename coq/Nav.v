From Coq Require Import List Arith Bool Lia.
Import ListNotations.
Require Import Regex Tok Engine Tree.
Local Open Scope nat_scope.

(* Navigation on trees (parso/tree.py: get_next_leaf, get_previous_leaf, get_first_leaf,
   get_last_leaf, get_leaf_for_position).  Parent pointers are modelled by a zipper: the list
   of (children of the parent, index in it) frames from the node up to the root - exactly the
   data `node.parent.children` / `c.index(node)` that the code walks. *)

Definition path := list nat.

Fixpoint first_leaf_path (t : tree) : path :=
  match t with
  | Leaf _ _ _ _ _ => []
  | Node _ cs => match cs with c :: _ => 0 :: first_leaf_path c | [] => [] end
  end.

Fixpoint last_leaf_path (t : tree) : path :=
  match t with
  | Leaf _ _ _ _ _ => []
  | Node _ cs =>
    (fix go (i : nat) (l : list tree) : path :=
       match l with [] => [] | [c] => i :: last_leaf_path c | _ :: r => go (S i) r end) 0 cs
  end.

(* paths of all leaves, in order *)
Fixpoint leaf_paths (t : tree) : list path :=
  match t with
  | Leaf _ _ _ _ _ => [[]]
  | Node _ cs =>
    (fix go (i : nat) (l : list tree) : list path :=
       match l with [] => [] | c :: r => map (cons i) (leaf_paths c) ++ go (S i) r end) 0 cs
  end.

Fixpoint child_paths (i : nat) (l : list tree) : list path :=
  match l with [] => [] | c :: r => map (cons i) (leaf_paths c) ++ child_paths (S i) r end.
Lemma leaf_paths_node k cs : leaf_paths (Node k cs) = child_paths 0 cs.
Proof. simpl. generalize 0. induction cs as [|c r IH]; intros i; simpl; [reflexivity|]. rewrite IH. reflexivity. Qed.

(* ---- the zipper (parent pointers) ---- *)
Definition frame := (list tree * nat)%type.          (* siblings (parent.children), own index *)
Definition zipper := list frame.                     (* innermost first *)

(* zipper of the node at `p` inside `t` *)
Fixpoint zip (t : tree) (p : path) : option zipper :=
  match p with
  | [] => Some []
  | i :: q => match t with
              | Node _ cs => match nth_error cs i with
                             | Some c => match zip c q with Some z => Some (z ++ [(cs, i)]) | None => None end
                             | None => None end
              | Leaf _ _ _ _ _ => None
              end
  end.

(* path (from the root) of the node a zipper points to *)
Definition zpath (z : zipper) : path := rev (map snd z).

(* get_next_leaf: climb while the node is the last child, step to the next sibling, descend to its first leaf.
   Result: path from the root.  None = there is no next leaf. *)
Fixpoint next_leaf_z (z : zipper) : option path :=
  match z with
  | [] => None                                        (* node.parent is None *)
  | (cs, i) :: up =>
    match nth_error cs (S i) with
    | Some c' => Some (zpath up ++ S i :: first_leaf_path c')
    | None => next_leaf_z up                           (* i == len(c) - 1: node = node.parent *)
    end
  end.

Fixpoint prev_leaf_z (z : zipper) : option path :=
  match z with
  | [] => None
  | (cs, i) :: up =>
    match i with
    | O => prev_leaf_z up
    | S j => match nth_error cs j with
             | Some c' => Some (zpath up ++ j :: last_leaf_path c')
             | None => None end
    end
  end.

Definition get_next_leaf (root : tree) (p : path) : option path :=
  match zip root p with Some z => next_leaf_z z | None => None end.
Definition get_previous_leaf (root : tree) (p : path) : option path :=
  match zip root p with Some z => prev_leaf_z z | None => None end.

(* ---- structural characterisation ---- *)
Fixpoint next_in (t : tree) (p : path) : option path :=
  match p, t with
  | i :: q, Node _ cs =>
    match nth_error cs i with
    | Some c => match next_in c q with
                | Some r => Some (i :: r)
                | None => match nth_error cs (S i) with Some c' => Some (S i :: first_leaf_path c') | None => None end
                end
    | None => None
    end
  | _, _ => None
  end.

Lemma zpath_app z1 z2 : zpath (z1 ++ z2) = zpath z2 ++ zpath z1.
Proof. unfold zpath. rewrite map_app, rev_app_distr. reflexivity. Qed.

Lemma next_leaf_z_app z1 z2 :
  next_leaf_z (z1 ++ z2) = match next_leaf_z z1 with Some r => Some (zpath z2 ++ r) | None => next_leaf_z z2 end.
Proof.
  induction z1 as [|[cs i] z1 IH]; [reflexivity|]. cbn [app next_leaf_z].
  destruct (nth_error cs (S i)) as [c'|]; [|exact IH].
  rewrite zpath_app, <- app_assoc. reflexivity.
Qed.

Lemma get_next_leaf_next_in : forall p t, get_next_leaf t p = match zip t p with Some _ => next_in t p | None => None end.
Proof.
  unfold get_next_leaf. induction p as [|i q IH]; intros t; [destruct t; reflexivity|].
  cbn [zip next_in]. destruct t as [|k cs]; [reflexivity|]. destruct (nth_error cs i) as [c|] eqn:E; [|reflexivity].
  specialize (IH c). destruct (zip c q) as [z|] eqn:Z; [|reflexivity].
  rewrite next_leaf_z_app. rewrite IH. cbn [next_leaf_z]. unfold zpath. cbn [map rev app snd].
  destruct (next_in c q) as [r|]; [reflexivity|].
  destruct (nth_error cs (S i)); reflexivity.
Qed.

(* ---- specification: the next leaf is the successor in the leaf order ---- *)
Lemma first_leaf_is_head : forall t, nonempty_nodes t -> exists r, leaf_paths t = first_leaf_path t :: r.
Proof.
  induction t as [k0 v0 p0 l0 c0|k cs IH] using tree_ind'; intros W; [exists []; reflexivity|].
  destruct cs as [|c r]; [destruct W as [W _]; contradiction|]. destruct W as [_ [Wc _]].
  inversion IH as [|? ? Hc _]; subst. destruct (Hc Wc) as (x & Hx).
  rewrite leaf_paths_node. simpl. rewrite Hx. simpl. eexists. reflexivity.
Qed.

Fixpoint all_ne (l : list tree) : Prop := match l with [] => True | c :: r => nonempty_nodes c /\ all_ne r end.
Lemma nonempty_node k cs : nonempty_nodes (Node k cs) <-> cs <> [] /\ all_ne cs.
Proof.
  simpl. assert (E: forall l, (fix all (l : list tree) : Prop := match l with [] => True | c :: r => nonempty_nodes c /\ all r end) l = all_ne l).
  { induction l; simpl; [reflexivity|]. rewrite IHl. reflexivity. }
  rewrite E. reflexivity.
Qed.

Lemma app_cons_split {A} (l1 l2 r1 r2 : list A) (x : A) :
  l1 ++ l2 = r1 ++ x :: r2 ->
  (exists m, l1 = r1 ++ x :: m /\ r2 = m ++ l2) \/ (exists m, r1 = l1 ++ m /\ l2 = m ++ x :: r2).
Proof.
  revert r1. induction l1 as [|a l1 IH]; intros r1 H; simpl in H.
  - right. exists r1. split; [reflexivity|exact H].
  - destruct r1 as [|b r1]; simpl in H.
    + inversion H; subst. left. exists l1. split; reflexivity.
    + inversion H; subst. destruct (IH r1 H2) as [(m & -> & ->)|(m & -> & ->)].
      * left. exists m. split; reflexivity.
      * right. exists m. split; reflexivity.
Qed.

Lemma leaf_paths_nodup_head : forall t p l1 l2, leaf_paths t = l1 ++ p :: l2 -> True.
Proof. trivial. Qed.

(* every leaf path is a valid path *)
Lemma leaf_path_zip : forall t p, In p (leaf_paths t) -> exists z, zip t p = Some z.
Proof.
  induction t as [k0 v0 p0 l0 c0|k cs IH] using tree_ind'; intros p Hin.
  - destruct Hin as [<-|[]]. exists []. reflexivity.
  - rewrite leaf_paths_node in Hin.
    assert (G: forall l i0, Forall (fun t => forall p, In p (leaf_paths t) -> exists z, zip t p = Some z) l ->
               In p (child_paths i0 l) -> exists i q c, p = (i0 + i) :: q /\ nth_error l i = Some c /\ In q (leaf_paths c)).
    { clear. induction l as [|c r IHl]; intros i0 F H; simpl in H; [contradiction|].
      apply in_app_or in H as [H|H].
      - apply in_map_iff in H as (q & <- & Hq). exists 0, q, c. rewrite Nat.add_0_r. auto.
      - inversion F; subst. destruct (IHl (S i0) H3 H) as (i & q & c' & -> & E & Hq).
        exists (S i), q, c'. split; [f_equal; lia|]. split; assumption. }
    destruct (G cs 0 IH Hin) as (i & q & c & -> & E & Hq). simpl.
    rewrite E. rewrite Forall_forall in IH. destruct (IH c (nth_error_In _ _ E) q Hq) as (z & ->).
    eexists. reflexivity.
Qed.

Theorem next_in_spec : forall t, nonempty_nodes t ->
  forall l1 p l2, leaf_paths t = l1 ++ p :: l2 -> next_in t p = hd_error l2.
Proof.
  induction t as [k0 v0 p0 l0 c0|k cs IH] using tree_ind'; intros W l1 p l2 H.
  - simpl in H. destruct l1 as [|a l1]; simpl in H; inversion H; subst; [reflexivity|destruct l1; discriminate].
  - rewrite leaf_paths_node in H. apply nonempty_node in W as [_ W].
    (* generalise over the offset of the child list *)
    assert (G: forall l i0 l1 p l2,
               Forall (fun t => nonempty_nodes t -> forall l1 p l2, leaf_paths t = l1 ++ p :: l2 -> next_in t p = hd_error l2) l ->
               all_ne l -> child_paths i0 l = l1 ++ p :: l2 ->
               exists i q c, p = (i0 + i) :: q /\ nth_error l i = Some c /\
                 hd_error l2 = match next_in c q with
                               | Some r => Some ((i0 + i) :: r)
                               | None => match nth_error l (S i) with Some c' => Some (S (i0 + i) :: first_leaf_path c') | None => None end
                               end).
    { clear. induction l as [|c r IHl]; intros i0 l1 p l2 F A H; simpl in H; [destruct l1; discriminate|].
      inversion F as [|? ? Fc Fr]; subst. destruct A as [Ac Ar].
      apply app_cons_split in H as [(m & E1 & E2)|(m & E1 & E2)].
      - (* p is a leaf of c *)
        assert (exists q, p = i0 :: q /\ exists m1 m2, leaf_paths c = m1 ++ q :: m2 /\ m = map (cons i0) m2) as (q & -> & m1 & m2 & Ec & Em).
        { clear - E1. revert l1 E1. generalize (leaf_paths c) as L. induction L as [|a L IHL]; intros l1 E1; simpl in E1; [destruct l1; discriminate|].
          destruct l1 as [|b l1]; simpl in E1; inversion E1; subst.
          - exists a. split; [reflexivity|]. exists [], L. split; reflexivity.
          - destruct (IHL l1 H1) as (q & -> & m1 & m2 & -> & ->). exists q. split; [reflexivity|].
            exists (a :: m1), m2. split; reflexivity. }
        exists 0, q, c. rewrite Nat.add_0_r. split; [reflexivity|]. split; [reflexivity|].
        rewrite (Fc Ac m1 q m2 Ec). subst l2 m. destruct m2 as [|x m2]; simpl.
        + destruct r as [|c' r']; simpl; [reflexivity|]. destruct Ar as [Ac' _].
          destruct (first_leaf_is_head c' Ac') as (y & Hy). rewrite Hy. simpl. reflexivity.
        + reflexivity.
      - destruct (IHl (S i0) m p l2 Fr Ar E2) as (i & q & c' & -> & En & Hh).
        exists (S i), q, c'. split; [f_equal; lia|]. split; [exact En|].
        replace (i0 + S i) with (S i0 + i) by lia. exact Hh. }
    destruct (G cs 0 l1 p l2 IH W H) as (i & q & c & -> & E & Hh). simpl in *.
    rewrite E. rewrite Hh. destruct (next_in c q); [reflexivity|]. destruct (nth_error cs (S i)); reflexivity.
Qed.

(* get_next_leaf of a leaf = its successor in the in-order list of leaves (None for the last one) *)
Theorem get_next_leaf_spec : forall t, nonempty_nodes t ->
  forall l1 p l2, leaf_paths t = l1 ++ p :: l2 -> get_next_leaf t p = hd_error l2.
Proof.
  intros t W l1 p l2 H. rewrite get_next_leaf_next_in.
  destruct (leaf_path_zip t p) as (z & ->); [rewrite H; apply in_or_app; right; left; reflexivity|].
  eapply next_in_spec; eassumption.
Qed.

(* get_first_leaf is the first element of the leaf order *)
Theorem first_leaf_spec : forall t, nonempty_nodes t -> hd_error (leaf_paths t) = Some (first_leaf_path t).
Proof. intros t W. destruct (first_leaf_is_head t W) as (r & ->). reflexivity. Qed.
Print Assumptions get_next_leaf_spec.

(* ---- previous leaf: mirror image ---- *)
Fixpoint last_child_path (i : nat) (l : list tree) : path :=
  match l with [] => [] | [c] => i :: last_leaf_path c | _ :: r => last_child_path (S i) r end.
Lemma last_leaf_path_node k cs : last_leaf_path (Node k cs) = last_child_path 0 cs.
Proof.
  simpl. generalize 0. induction cs as [|c r IH]; intros i; [reflexivity|].
  destruct r as [|c2 r]; [reflexivity|]. simpl in *. apply IH.
Qed.

Fixpoint prev_in (t : tree) (p : path) : option path :=
  match p, t with
  | i :: q, Node _ cs =>
    match nth_error cs i with
    | Some c => match prev_in c q with
                | Some r => Some (i :: r)
                | None => match i with
                          | O => None
                          | S j => match nth_error cs j with Some c' => Some (j :: last_leaf_path c') | None => None end
                          end
                end
    | None => None
    end
  | _, _ => None
  end.

Lemma prev_leaf_z_app z1 z2 :
  prev_leaf_z (z1 ++ z2) = match prev_leaf_z z1 with Some r => Some (zpath z2 ++ r) | None =>
                             match z1 with [] => prev_leaf_z z2 | _ => if existsb (fun f => negb (Nat.eqb (snd f) 0)) z1 then None else prev_leaf_z z2 end end.
Proof.
  induction z1 as [|[cs i] z1 IH]; [reflexivity|]. cbn [app prev_leaf_z existsb snd].
  destruct i as [|j].
  - simpl. rewrite IH. destruct (prev_leaf_z z1); [reflexivity|]. destruct z1; reflexivity.
  - destruct (nth_error cs j) as [c'|]; [|reflexivity]. rewrite zpath_app, <- app_assoc. reflexivity.
Qed.

Lemma zip_child_valid : forall q c z, zip c q = Some z -> forallb (fun f => match nth_error (fst f) (snd f) with Some _ => true | None => false end) z = true.
Proof.
  induction q as [|i q IH]; intros c z H; simpl in H; [inversion H; reflexivity|].
  destruct c as [|k cs]; [discriminate|]. destruct (nth_error cs i) as [c'|] eqn:E; [|discriminate].
  destruct (zip c' q) as [z'|] eqn:Z; [|discriminate]. inversion H; subst.
  rewrite forallb_app. apply andb_true_iff. split; [eapply IH; exact Z|simpl; rewrite E; reflexivity].
Qed.

(* when prev_leaf_z gives None on a valid zipper, every index in it is 0 *)
Lemma prev_none_all_zero z : forallb (fun f => match nth_error (fst f) (snd f) with Some _ => true | None => false end) z = true ->
  prev_leaf_z z = None -> existsb (fun f => negb (Nat.eqb (snd f) 0)) z = false.
Proof.
  induction z as [|[cs i] z IH]; intros V H; [reflexivity|]. simpl in *.
  apply andb_true_iff in V as [V1 V2]. destruct i as [|j]; [simpl; apply IH; assumption|].
  destruct (nth_error cs j) eqn:E; [discriminate|].
  exfalso. destruct (nth_error cs (S j)) eqn:E2; [|discriminate].
  assert (S j < length cs) by (apply nth_error_Some; congruence).
  assert (j < length cs) by lia. apply nth_error_Some in H1. congruence.
Qed.

Lemma get_previous_leaf_prev_in : forall p t, get_previous_leaf t p = match zip t p with Some _ => prev_in t p | None => None end.
Proof.
  unfold get_previous_leaf. induction p as [|i q IH]; intros t; [destruct t; reflexivity|].
  cbn [zip prev_in]. destruct t as [|k cs]; [reflexivity|]. destruct (nth_error cs i) as [c|] eqn:E; [|reflexivity].
  specialize (IH c). destruct (zip c q) as [z|] eqn:Z; [|reflexivity].
  rewrite prev_leaf_z_app. rewrite IH. unfold zpath. cbn [map rev app snd prev_leaf_z].
  destruct (prev_in c q) as [r|] eqn:PI; [reflexivity|].
  assert (N0: prev_leaf_z z = None) by (rewrite IH; reflexivity).
  rewrite (prev_none_all_zero z (zip_child_valid q c z Z) N0).
  destruct z; destruct i as [|j]; try reflexivity; destruct (nth_error cs j); reflexivity.
Qed.

Lemma last_leaf_is_last : forall t, nonempty_nodes t -> exists r, leaf_paths t = r ++ [last_leaf_path t].
Proof.
  induction t as [k0 v0 p0 l0 c0|k cs IH] using tree_ind'; intros W; [exists []; reflexivity|].
  apply nonempty_node in W as [NE A]. rewrite leaf_paths_node, last_leaf_path_node.
  destruct cs as [|c r]; [contradiction|]. clear NE. generalize 0 as i0.
  revert c IH A. induction r as [|c2 r IHr]; intros c IH A i0.
    + inversion IH as [|? ? Hc _]; subst. destruct A as [Ac _]. destruct (Hc Ac) as (x & Hx).
      simpl. rewrite Hx, app_nil_r, map_app. simpl. eexists. reflexivity.
    + inversion IH as [|? ? Hc Hr]; subst. destruct A as [Ac Ar].
      destruct (IHr c2 Hr Ar (S i0)) as (x & Hx).
      change (child_paths i0 (c :: c2 :: r)) with (map (cons i0) (leaf_paths c) ++ child_paths (S i0) (c2 :: r)).
      change (last_child_path i0 (c :: c2 :: r)) with (last_child_path (S i0) (c2 :: r)).
      rewrite Hx, app_assoc. eexists. reflexivity.
Qed.

Definition last_error {A} (l : list A) : option A := match rev l with x :: _ => Some x | [] => None end.
Lemma last_error_app {A} (l1 l2 : list A) : last_error (l1 ++ l2) = match last_error l2 with Some x => Some x | None => last_error l1 end.
Proof. unfold last_error. rewrite rev_app_distr. destruct (rev l2); reflexivity. Qed.
Lemma last_error_map {A B} (f : A -> B) l : last_error (map f l) = option_map f (last_error l).
Proof. unfold last_error. rewrite <- map_rev. destruct (rev l); reflexivity. Qed.
Lemma last_error_none {A} (l : list A) : last_error l = None -> l = [].
Proof. unfold last_error. intros H. destruct (rev l) eqn:E; [|discriminate]. apply (f_equal (@rev A)) in E. rewrite rev_involutive in E. exact E. Qed.
Lemma last_error_snoc {A} (l : list A) x : last_error (l ++ [x]) = Some x.
Proof. rewrite last_error_app. reflexivity. Qed.

Theorem prev_in_spec : forall t, nonempty_nodes t ->
  forall l1 p l2, leaf_paths t = l1 ++ p :: l2 -> prev_in t p = last_error l1.
Proof.
  induction t as [k0 v0 p0 l0 c0|k cs IH] using tree_ind'; intros W l1 p l2 H.
  - simpl in H. destruct l1 as [|a l1]; simpl in H; inversion H; subst; [reflexivity|destruct l1; discriminate].
  - rewrite leaf_paths_node in H. apply nonempty_node in W as [_ W].
    assert (G: forall l i0 l1 p l2,
               Forall (fun t => nonempty_nodes t -> forall l1 p l2, leaf_paths t = l1 ++ p :: l2 -> prev_in t p = last_error l1) l ->
               all_ne l -> child_paths i0 l = l1 ++ p :: l2 ->
               exists i q c, p = (i0 + i) :: q /\ nth_error l i = Some c /\
                 last_error l1 = match prev_in c q with
                                 | Some r => Some ((i0 + i) :: r)
                                 | None => match i with
                                           | O => None
                                           | S j => match nth_error l j with Some c' => Some ((i0 + j) :: last_leaf_path c') | None => None end
                                           end
                                 end).
    { clear. induction l as [|c r IHl]; intros i0 l1 p l2 F A H; simpl in H; [destruct l1; discriminate|].
      inversion F as [|? ? Fc Fr]; subst. destruct A as [Ac Ar].
      apply app_cons_split in H as [(m & E1 & E2)|(m & E1 & E2)].
      - assert (exists q, p = i0 :: q /\ exists m1 m2, leaf_paths c = m1 ++ q :: m2 /\ l1 = map (cons i0) m1) as (q & -> & m1 & m2 & Ec & El).
        { clear - E1. revert l1 E1. generalize (leaf_paths c) as L. induction L as [|a L IHL]; intros l1 E1; simpl in E1; [destruct l1; discriminate|].
          destruct l1 as [|b l1]; simpl in E1; inversion E1; subst.
          - exists a. split; [reflexivity|]. exists [], L. split; reflexivity.
          - destruct (IHL l1 H1) as (q & -> & m1 & m2 & -> & ->). exists q. split; [reflexivity|].
            exists (a :: m1), m2. split; reflexivity. }
        exists 0, q, c. rewrite Nat.add_0_r. split; [reflexivity|]. split; [reflexivity|].
        rewrite (Fc Ac m1 q m2 Ec). subst l1. rewrite last_error_map. unfold path in *. destruct (last_error m1); reflexivity.
      - destruct (IHl (S i0) m p l2 Fr Ar E2) as (i & q & c' & -> & En & Hh).
        exists (S i), q, c'. split; [f_equal; lia|]. split; [exact En|].
        subst l1. rewrite last_error_app. rewrite Hh.
        replace (i0 + S i) with (S i0 + i) by lia.
        destruct (prev_in c' q) as [r'|]; [reflexivity|].
        destruct i as [|j].
        + (* first leaf of the first remaining child: the previous leaf is the last leaf of c *)
          destruct (last_leaf_is_last c Ac) as (x & Hx). rewrite Hx, map_app. cbn [map]. rewrite last_error_snoc.
          rewrite Nat.add_0_r. reflexivity.
        + simpl nth_error. destruct (nth_error r j) as [c''|] eqn:Ej.
          * replace (S i0 + j) with (i0 + S j) by lia. reflexivity.
          * exfalso. assert (S j < length r) by (apply nth_error_Some; congruence).
            assert (j < length r) by lia. apply nth_error_Some in H0. congruence. }
    destruct (G cs 0 l1 p l2 IH W H) as (i & q & c & -> & E & Hh). simpl in *.
    rewrite E. rewrite Hh. destruct (prev_in c q); [reflexivity|]. destruct i; [reflexivity|]. destruct (nth_error cs i); reflexivity.
Qed.

(* get_previous_leaf of a leaf = its predecessor in the in-order list of leaves (None for the first one) *)
Theorem get_previous_leaf_spec : forall t, nonempty_nodes t ->
  forall l1 p l2, leaf_paths t = l1 ++ p :: l2 -> get_previous_leaf t p = last_error l1.
Proof.
  intros t W l1 p l2 H. rewrite get_previous_leaf_prev_in.
  destruct (leaf_path_zip t p) as (z & ->); [rewrite H; apply in_or_app; right; left; reflexivity|].
  eapply prev_in_spec; eassumption.
Qed.
Theorem last_leaf_spec : forall t, nonempty_nodes t -> last_error (leaf_paths t) = Some (last_leaf_path t).
Proof. intros t W. destruct (last_leaf_is_last t W) as (r & ->). apply last_error_snoc. Qed.
Print Assumptions get_previous_leaf_spec.

(* ======================================================================================
   get_leaf_for_position: binary search over the children by end position, recursively.
   Positions are (line, column) pairs ordered lexicographically; here any type with a
   total preorder given as a boolean test. *)
Section Lookup.
Variable P : Type.
Variable leb : P -> P -> bool.                      (* position <= *)
Hypothesis leb_trans : forall a b c, leb a b = true -> leb b c = true -> leb a c = true.
Hypothesis leb_total : forall a b, leb a b = true \/ leb b a = true.
Variable lstart lend : tree -> P.                   (* start_pos / end_pos of a leaf *)
Variable dflt : P.

Definition ltb (a b : P) : bool := negb (leb b a).  (* a < b *)

Fixpoint spos (t : tree) : P :=                     (* BaseNode.start_pos = children[0].start_pos *)
  match t with
  | Leaf _ _ _ _ _ => lstart t
  | Node _ cs => match cs with c :: _ => spos c | [] => dflt end
  end.
Fixpoint epos (t : tree) : P :=                     (* BaseNode.end_pos = children[-1].end_pos *)
  match t with
  | Leaf _ _ _ _ _ => lend t
  | Node _ cs => (fix go (l : list tree) : P := match l with [] => dflt | [c] => epos c | _ :: r => go r end) cs
  end.

Definition nth_t (cs : list tree) (i : nat) : tree := nth i cs (Node KErrorNode []).

(* binary_search(lower, upper): index of the child to descend into *)
Fixpoint bsearch (fuel : nat) (cs : list tree) (pos : P) (lower upper : nat) : option nat :=
  match fuel with
  | O => None
  | S f =>
    if lower =? upper then Some lower
    else let index := (lower + upper) / 2 in
         if leb pos (epos (nth_t cs index)) then bsearch f cs pos lower index
         else bsearch f cs pos (index + 1) upper
  end.

(* ends of the children are non-decreasing *)
Definition mono (cs : list tree) : Prop :=
  forall i j, i <= j -> j < length cs -> leb (epos (nth_t cs i)) (epos (nth_t cs j)) = true.

Lemma bsearch_spec : forall fuel cs pos lower upper,
  mono cs -> lower <= upper -> upper < length cs -> upper - lower < fuel ->
  leb pos (epos (nth_t cs upper)) = true ->
  (forall i, i < lower -> leb pos (epos (nth_t cs i)) = false) ->
  exists k, bsearch fuel cs pos lower upper = Some k /\ lower <= k <= upper /\
            leb pos (epos (nth_t cs k)) = true /\ forall i, i < k -> leb pos (epos (nth_t cs i)) = false.
Proof.
  induction fuel as [|f IH]; intros cs pos lower upper M L U F HU HL; [lia|].
  cbn [bsearch]. destruct (lower =? upper) eqn:E.
  - apply Nat.eqb_eq in E. subst. exists upper. repeat split; auto; lia.
  - apply Nat.eqb_neq in E.
    assert (D: lower <= (lower + upper) / 2 < upper).
    { split; [apply Nat.div_le_lower_bound; lia|apply Nat.div_lt_upper_bound; lia]. }
    set (idx := (lower + upper) / 2) in *.
    destruct (leb pos (epos (nth_t cs idx))) eqn:T.
    + destruct (IH cs pos lower idx M) as (k & Hk & Hr & H1 & H2); auto; try lia.
      exists k. repeat split; auto; lia.
    + destruct (IH cs pos (idx + 1) upper M) as (k & Hk & Hr & H1 & H2); auto; try lia.
      * intros i Hi. destruct (Nat.lt_ge_cases i lower) as [Hl|Hl]; [apply HL; exact Hl|].
        destruct (leb pos (epos (nth_t cs i))) eqn:X; [|reflexivity].
        assert (M1: leb (epos (nth_t cs i)) (epos (nth_t cs idx)) = true) by (apply M; lia).
        rewrite (leb_trans _ _ _ X M1) in T. discriminate.
      * exists k. repeat split; auto; lia.
Qed.

(* the whole lookup; fuel bounds the depth of the tree, which is finite *)
Inductive found := FLeaf (p : path) | FNone | FFuel.

Fixpoint lookup (fuel : nat) (t : tree) (pos : P) (incl : bool) : found :=
  match fuel with
  | O => FFuel
  | S f =>
    match t with
    | Leaf _ _ _ _ _ => FLeaf []                         (* AttributeError branch: return element *)
    | Node _ cs =>
      match bsearch (S (length cs)) cs pos 0 (length cs - 1) with
      | None => FFuel
      | Some k =>
        let element := nth_t cs k in
        if negb incl && ltb pos (spos element) then FNone
        else match element with
             | Leaf _ _ _ _ _ => FLeaf [k]
             | Node _ _ => match lookup f element pos incl with
                           | FLeaf q => FLeaf (k :: q)
                           | x => x end
             end
      end
    end
  end.

(* specification side: the first leaf (in order) whose end is not before pos *)
Fixpoint first_ge (t : tree) (pos : P) : option path :=
  match t with
  | Leaf _ _ _ _ _ => if leb pos (lend t) then Some [] else None
  | Node _ cs =>
    (fix go (i : nat) (l : list tree) : option path :=
       match l with
       | [] => None
       | c :: r => match first_ge c pos with Some q => Some (i :: q) | None => go (S i) r end
       end) 0 cs
  end.
Fixpoint first_ge_children (i : nat) (l : list tree) (pos : P) : option path :=
  match l with [] => None | c :: r => match first_ge c pos with Some q => Some (i :: q) | None => first_ge_children (S i) r pos end end.
Lemma first_ge_node k cs pos : first_ge (Node k cs) pos = first_ge_children 0 cs pos.
Proof. simpl. generalize 0. induction cs as [|c r IH]; intros i; simpl; [reflexivity|]. rewrite IH. reflexivity. Qed.

Fixpoint depth (t : tree) : nat :=
  match t with
  | Leaf _ _ _ _ _ => 1
  | Node _ cs => S ((fix go (l : list tree) : nat := match l with [] => 0 | c :: r => Nat.max (depth c) (go r) end) cs)
  end.

(* leaf ends are monotone in the whole tree: every node's children have non-decreasing ends, recursively *)
Fixpoint wf_mono (t : tree) : Prop :=
  match t with
  | Leaf _ _ _ _ _ => True
  | Node _ cs => cs <> [] /\ mono cs /\ (fix all (l : list tree) : Prop := match l with [] => True | c :: r => wf_mono c /\ all r end) cs
  end.

Fixpoint all_wf (l : list tree) : Prop := match l with [] => True | c :: r => wf_mono c /\ all_wf r end.
Lemma wf_mono_node k cs : wf_mono (Node k cs) <-> cs <> [] /\ mono cs /\ all_wf cs.
Proof.
  simpl. assert (E: forall l, (fix all (l : list tree) : Prop := match l with [] => True | c :: r => wf_mono c /\ all r end) l = all_wf l).
  { induction l; simpl; [reflexivity|]. rewrite IHl. reflexivity. }
  rewrite E. reflexivity.
Qed.

Lemma epos_node k cs : cs <> [] -> epos (Node k cs) = epos (nth_t cs (length cs - 1)).
Proof.
  intros NE. simpl. induction cs as [|c r IH]; [contradiction|].
  destruct r as [|c2 r]; [reflexivity|]. rewrite IH by discriminate. unfold nth_t.
  replace (length (c :: c2 :: r) - 1) with (S (length (c2 :: r) - 1)) by (simpl; lia). reflexivity.
Qed.

Lemma all_wf_nth cs i : all_wf cs -> i < length cs -> wf_mono (nth_t cs i).
Proof.
  revert i. induction cs as [|c r IH]; intros i A L; simpl in L; [lia|]. destruct A as [Ac Ar].
  destruct i; [exact Ac|]. apply IH; [exact Ar|lia].
Qed.

(* nothing in a subtree ends after the subtree's end *)
Lemma first_ge_none : forall t pos, wf_mono t -> leb pos (epos t) = false -> first_ge t pos = None.
Proof.
  induction t as [k0 v0 p0 l0 c0|k cs IH] using tree_ind'; intros pos W H.
  - simpl in *. rewrite H. reflexivity.
  - apply wf_mono_node in W as (NE & M & A). rewrite first_ge_node. rewrite (epos_node k cs NE) in H.
    assert (G: forall i, i < length cs -> leb pos (epos (nth_t cs i)) = false).
    { intros i Hi. destruct (leb pos (epos (nth_t cs i))) eqn:X; [|reflexivity].
      assert (M1: leb (epos (nth_t cs i)) (epos (nth_t cs (length cs - 1))) = true) by (apply M; lia).
      rewrite (leb_trans _ _ _ X M1) in H. discriminate. }
    clear H M NE. generalize 0 as i0.
    induction cs as [|c r IHr]; intros i0; simpl; [reflexivity|].
    inversion IH as [|? ? Hc Hr]; subst. destruct A as [Ac Ar].
    rewrite (Hc pos Ac (G 0 ltac:(simpl; lia))).
    apply IHr; [exact Hr|exact Ar|]. intros i Hi. apply (G (S i)). simpl. lia.
Qed.

Lemma first_ge_some : forall t pos, wf_mono t -> leb pos (epos t) = true -> exists p, first_ge t pos = Some p.
Proof.
  induction t as [k0 v0 p0 l0 c0|k cs IH] using tree_ind'; intros pos W H.
  - simpl in *. rewrite H. eexists; reflexivity.
  - apply wf_mono_node in W as (NE & M & A). rewrite first_ge_node. rewrite (epos_node k cs NE) in H.
    clear M. generalize 0 as i0. revert H.
    induction cs as [|c r IHr]; intros H i0; [contradiction|]. simpl.
    inversion IH as [|? ? Hc Hr]; subst. destruct A as [Ac Ar].
    destruct (first_ge c pos) as [q|] eqn:E; [eexists; reflexivity|].
    destruct r as [|c2 r].
    + simpl in H. destruct (Hc pos Ac H) as (p & Hp). congruence.
    + apply IHr; [exact Hr|discriminate|exact Ar|].
      replace (length (c :: c2 :: r) - 1) with (S (length (c2 :: r) - 1)) in H by (simpl; lia). exact H.
Qed.

Lemma first_ge_children_at : forall cs i0 k pos,
  all_wf cs -> k < length cs ->
  (forall i, i < k -> leb pos (epos (nth_t cs i)) = false) ->
  first_ge_children i0 cs pos = match first_ge (nth_t cs k) pos with
                                | Some q => Some ((i0 + k) :: q)
                                | None => first_ge_children (i0 + S k) (skipn (S k) cs) pos end.
Proof.
  induction cs as [|c r IH]; intros i0 k pos A L HL; simpl in L; [lia|]. destruct A as [Ac Ar].
  destruct k as [|k].
  - simpl. rewrite Nat.add_0_r. replace (i0 + 1) with (S i0) by lia. reflexivity.
  - simpl. rewrite (first_ge_none c pos Ac (HL 0 ltac:(lia))).
    rewrite (IH (S i0) k pos Ar ltac:(lia)).
    + unfold nth_t. simpl. rewrite !Nat.add_succ_r. reflexivity.
    + intros i Hi. apply (HL (S i)). lia.
Qed.

(* leaves are well-formed: they do not end before they start *)
Hypothesis leaf_ok : forall t, match t with Leaf _ _ _ _ _ => leb (lstart t) (lend t) = true | Node _ _ => True end.

Definition leaf_start_at (t : tree) (p : path) : P :=
  match subtree t p with Some l => lstart l | None => dflt end.

Definition lookup_spec_fn (t : tree) (pos : P) (incl : bool) : found :=
  match first_ge t pos with
  | Some p => if negb incl && ltb pos (leaf_start_at t p) then FNone else FLeaf p
  | None => FFuel
  end.

(* if pos is before the start of a subtree, the first leaf with pos <= end is the subtree's first leaf *)
Lemma before_start_first : forall t pos, wf_mono t -> ltb pos (spos t) = true ->
  first_ge t pos = Some (first_leaf_path t) /\ leaf_start_at t (first_leaf_path t) = spos t.
Proof.
  induction t as [k0 v0 p0 l0 c0|k cs IH] using tree_ind'; intros pos W H.
  - simpl. unfold leaf_start_at. simpl. split; [|reflexivity].
    pose proof (leaf_ok (Leaf k0 v0 p0 l0 c0)) as LO. simpl in LO.
    unfold ltb in H. simpl in H. apply negb_true_iff in H.
    destruct (leb pos (lend (Leaf k0 v0 p0 l0 c0))) eqn:X; [reflexivity|].
    destruct (leb_total pos (lend (Leaf k0 v0 p0 l0 c0))) as [T|T]; [congruence|].
    rewrite (leb_trans _ _ _ LO T) in H. discriminate.
  - apply wf_mono_node in W as (NE & M & A). destruct cs as [|c r]; [contradiction|].
    inversion IH as [|? ? Hc _]; subst. destruct A as [Ac _]. simpl in H.
    destruct (Hc pos Ac H) as [F S]. rewrite first_ge_node. simpl. rewrite F. split; [reflexivity|].
    unfold leaf_start_at in *. simpl. exact S.
Qed.

Theorem lookup_spec : forall fuel t pos incl,
  wf_mono t -> depth t <= fuel -> leb pos (epos t) = true ->
  lookup fuel t pos incl = match t with
                           | Leaf _ _ _ _ _ => FLeaf []
                           | Node _ _ => lookup_spec_fn t pos incl end.
Proof.
  induction fuel as [|f IH]; intros t pos incl W D H; [destruct t; simpl in D; lia|].
  destruct t as [k0 v0 p0 l0 c0|k cs]; [reflexivity|].
  pose proof W as W0. apply wf_mono_node in W as (NE & M & A).
  cbn [lookup].
  rewrite (epos_node k cs NE) in H.
  destruct (bsearch_spec (S (length cs)) cs pos 0 (length cs - 1) M) as (i & Hb & Hr & Hi & Hl);
    [lia|destruct cs; [contradiction|simpl; lia]|lia|exact H|intros i Hi; lia|].
  rewrite Hb.
  assert (Li: i < length cs) by (destruct cs; [contradiction|simpl in *; lia]).
  pose proof (all_wf_nth cs i A Li) as Wi.
  unfold lookup_spec_fn. rewrite first_ge_node.
  rewrite (first_ge_children_at cs 0 i pos A Li Hl). simpl plus.
  destruct (first_ge_some _ pos Wi Hi) as (q & Hq). rewrite Hq.
  assert (SUB: forall q', leaf_start_at (Node k cs) (i :: q') = leaf_start_at (nth_t cs i) q').
  { intros q'. unfold leaf_start_at. simpl. unfold nth_t.
    rewrite (nth_error_nth' cs (Node KErrorNode []) Li). reflexivity. }
  rewrite SUB.
  destruct (negb incl && ltb pos (spos (nth_t cs i))) eqn:C.
  - (* on the prefix of the element *)
    apply andb_true_iff in C as [C1 C2].
    destruct (before_start_first _ pos Wi C2) as [F S]. rewrite F in Hq. inversion Hq; subst q.
    rewrite S, C1, C2. reflexivity.
  - assert (Dn: depth (nth_t cs i) <= f).
    { simpl in D. apply le_S_n in D. revert D. clear - Li. revert i Li.
      induction cs as [|c r IHr]; intros i Li D; simpl in Li; [lia|].
      destruct i; unfold nth_t; simpl; [lia|]. apply IHr; [lia|lia]. }
    destruct (nth_t cs i) as [k1 v1 p1 l1 c1|k1 cs1] eqn:En.
    + (* element is a leaf *)
      simpl in Hq. simpl in Hi. rewrite Hi in Hq. inversion Hq; subst q.
      unfold leaf_start_at. simpl. simpl in C. rewrite C. reflexivity.
    + rewrite (IH _ pos incl Wi Dn Hi). unfold lookup_spec_fn. rewrite Hq.
      destruct (negb incl && ltb pos (leaf_start_at (Node k1 cs1) q)); reflexivity.
Qed.
End Lookup.
Print Assumptions lookup_spec.

(* ---- instantiation with (line, column) positions as the tree records them ---- *)
From Coq Require Import NArith.
Require Lines.
Definition pos := (N * N)%type.
Definition pos_leb (a b : pos) : bool :=
  (N.ltb (fst a) (fst b)) || ((N.eqb (fst a) (fst b)) && (N.leb (snd a) (snd b))).
Lemma pos_leb_trans a b c : pos_leb a b = true -> pos_leb b c = true -> pos_leb a c = true.
Proof.
  unfold pos_leb. destruct a as [a1 a2], b as [b1 b2], c as [c1 c2]; simpl.
  rewrite !orb_true_iff, !andb_true_iff, !N.ltb_lt, !N.eqb_eq, !N.leb_le. lia.
Qed.
Lemma pos_leb_total a b : pos_leb a b = true \/ pos_leb b a = true.
Proof.
  unfold pos_leb. destruct a as [a1 a2], b as [b1 b2]; simpl.
  rewrite !orb_true_iff, !andb_true_iff, !N.ltb_lt, !N.eqb_eq, !N.leb_le. lia.
Qed.

Definition leaf_start (t : tree) : pos := match t with Leaf _ _ _ l c => (l, c) | Node _ _ => (0, 0)%N end.
(* Leaf.end_pos: split_lines(value); same line -> column + len(last line), else len(last line) *)
Definition leaf_end (t : tree) : pos :=
  match t with
  | Leaf _ v _ l c =>
    let ls := Lines.split_keep v in
    let lastl := last ls [] in
    if Nat.eqb (length ls) 1 then (l, (c + N.of_nat (length lastl))%N)
    else ((l + N.of_nat (length ls) - 1)%N, N.of_nat (length lastl))
  | Node _ _ => (0, 0)%N
  end.

Definition nav_lookup (t : tree) (p : pos) (incl : bool) : found :=
  lookup pos pos_leb leaf_start leaf_end (0, 0)%N (S (depth t)) t p incl.
Definition nav_end (t : tree) : pos := epos pos leaf_end (0, 0)%N t.

Lemma leaf_start_le_end : forall t, match t with Leaf _ _ _ _ _ => pos_leb (leaf_start t) (leaf_end t) = true | Node _ _ => True end.
Proof.
  destruct t as [k v p l c|]; [|exact I]. unfold leaf_start, leaf_end, pos_leb.
  destruct (Nat.eqb (length (Lines.split_keep v)) 1) eqn:E; simpl.
  - rewrite N.eqb_refl. simpl. rewrite orb_true_iff. right. apply N.leb_le. lia.
  - pose proof (Lines.split_keep_nonempty v) as NE. destruct (Lines.split_keep v) as [|x [|y r]]; [contradiction|discriminate|].
    rewrite orb_true_iff. left. apply N.ltb_lt. simpl length. lia.
Qed.

(* the position lookup on real positions: for every tree whose ends are monotone (C03 for parser output) *)
Theorem nav_lookup_spec : forall k cs p incl,
  wf_mono pos pos_leb leaf_end (0, 0)%N (Node k cs) -> pos_leb p (nav_end (Node k cs)) = true ->
  nav_lookup (Node k cs) p incl = lookup_spec_fn pos pos_leb leaf_start leaf_end (0, 0)%N (Node k cs) p incl.
Proof.
  intros k cs p incl W H. unfold nav_lookup.
  rewrite (lookup_spec pos pos_leb pos_leb_trans pos_leb_total leaf_start leaf_end (0, 0)%N leaf_start_le_end); auto.
Qed.
Print Assumptions nav_lookup_spec.
