From Coq Require Import List NArith ZArith Bool Lia.
Import ListNotations.
Require Import Regex Tok TokTiles Engine.
Open Scope N_scope.

(* C01 / C03, engine half: the tree keeps every text-carrying token, in order, with its value, prefix and position.
   Stated for an arbitrary per-leaf measure  g value prefix line column : list X  that is empty on leaves without
   text; `meas t` concatenates it over the leaves of t in order, `mtoks toks` over the tokens.  For all tables, both
   modes, every start rule and every token list whose INDENT/DEDENT tokens carry no text:
       parse ... toks = POk t  ->  meas t = mtoks toks.
   Instances: g = prefix ++ value gives get_code (C01: tcode t = emit toks); g = [(value, prefix, line, column)] on
   text-carrying leaves gives "the text-carrying leaves of the tree are exactly the text-carrying tokens" (C03).
   Error recovery re-homes leaves (error nodes, error leaves) but never drops or reorders them;
   convert_node('suite') drops only children without text (guard PGuard in Engine.v). *)

Section Meas.
Variable XT : Type.
Variable g : str -> str -> N -> N -> list XT.
Hypothesis g_nil : forall v p l c, p ++ v = [] -> g v p l c = [].

Fixpoint meas (t : tree) : list XT :=
  match t with
  | Leaf _ v p l c => g v p l c
  | Node _ cs => (fix go (l : list tree) : list XT := match l with [] => [] | c :: r => meas c ++ go r end) cs
  end.
Definition mtok (t : Token) : list XT := g (ts t) (tpre t) (tline t) (tcol t).
Definition mtoks (l : list Token) : list XT := concat (map mtok l).
Lemma mtoks_nil : mtoks [] = [].
Proof. reflexivity. Qed.

Definition meass (l : list tree) : list XT := concat (map meas l).
Lemma meas_node k cs : meas (Node k cs) = meass cs.
Proof. unfold meass. simpl. induction cs as [|c r IH]; simpl; [reflexivity|]. rewrite IH. reflexivity. Qed.
Lemma meass_app a b : meass (a ++ b) = meass a ++ meass b.
Proof. unfold meass. rewrite map_app, concat_app. reflexivity. Qed.
Lemma meass_one x : meass [x] = meas x.
Proof. unfold meass. simpl. apply app_nil_r. Qed.
Lemma meass_cons x l : meass (x :: l) = meas x ++ meass l.
Proof. reflexivity. Qed.

(* a subtree without text measures nothing *)
Lemma tcode_nil_meas : forall t, tcode t = [] -> meas t = [].
Proof.
  fix IH 1. intros [k v p l c|k cs] H.
  - apply g_nil. exact H.
  - rewrite meas_node. simpl in H. revert H. induction cs as [|c r IHr]; intros H; [reflexivity|].
    apply app_eq_nil in H as [H1 H2]. rewrite meass_cons, (IH c H1), (IHr H2). reflexivity.
Qed.

Variable G : gram.
Variable TR : list (N * list (label * plan)).

(* ---------- _create_params only regroups ---------- *)
Lemma split_params_text : forall cs cur, meass (split_params cs cur) = meass cur ++ meass cs.
Proof.
  assert (FL: forall pc, meass (match pc with
                                 | [] => []
                                 | p0 :: rest => if (is_op p0 star && match rest with [] => true | p1 :: _ => is_op p1 comma end) || is_op p0 slash
                                                 then pc else [Node KParam pc] end) = meass pc).
  { intros [|p0 rest]; [reflexivity|]. destruct ((is_op p0 star && _) || is_op p0 slash); [reflexivity|]. rewrite meass_one, meas_node. reflexivity. }
  induction cs as [|c t IH]; intros cur; cbn [split_params].
  - rewrite FL. unfold meass at 3. simpl. rewrite app_nil_r. reflexivity.
  - destruct (is_op c comma).
    + rewrite meass_app, FL, IH, meass_app, meass_one. unfold meass at 4. simpl. rewrite <- !app_assoc. reflexivity.
    + rewrite IH, meass_app, meass_one. rewrite <- !app_assoc. reflexivity.
Qed.

Lemma create_params_text l np : create_params G l = POk np -> meass np = meass l.
Proof.
  unfold create_params. destruct l as [|first rest]; [intros H; inversion H; reflexivity|].
  destruct rest as [|x rest]; [|discriminate]. cbn [is_nil_t negb].
  destruct (is_name first || match node_rule first with Some r => r =? r_fpdef G | None => false end).
  { intros H; inversion H. rewrite !meass_one, meas_node, meass_one. reflexivity. }
  destruct (is_op first star); [intros H; inversion H; reflexivity|].
  assert (K: forall cs, meass cs = meas first -> forall np0, POk (split_params cs []) = POk np0 -> meass np0 = meass [first]).
  { intros cs E np0 H. inversion H. rewrite split_params_text, meass_one, E. reflexivity. }
  destruct first as [k v p l c|k cs].
  - cbn [node_rule]. discriminate.
  - destruct k as [r| |]; cbn [node_rule].
    + destruct (r =? r_tfpdef G); intros H.
      * eapply K; [|exact H]. apply meass_one.
      * eapply K; [|exact H]. symmetry. apply meas_node.
    + discriminate.
    + intros H. eapply K; [|exact H]. symmetry. apply meas_node.
Qed.

Lemma rev_head_last {A} (l : list A) x r : rev l = x :: r -> l = rev r ++ [x].
Proof. intros H. apply (f_equal (@rev A)) in H. rewrite rev_involutive in H. simpl in H. exact H. Qed.

Lemma regroup_func_text : forall cs cs', regroup_func G cs = POk cs' -> meass cs' = meass cs.
Proof.
  induction cs as [|c t IH]; intros cs' H; simpl in H; [discriminate|].
  destruct c as [k v p l c0|k pcs].
  - destruct (regroup_func G t) as [t'|] eqn:E; [|discriminate]. inversion H; subst. rewrite !meass_cons, (IH t' eq_refl). reflexivity.
  - destruct k as [pr| |].
    + destruct (pr =? r_parameters G).
      * destruct (existsb is_param (removelast (tl pcs))); [inversion H; reflexivity|].
        destruct (create_params G (removelast (tl pcs))) as [np|] eqn:CP; [|discriminate].
        destruct pcs as [|p0 [|p1 pr2]]; [discriminate|discriminate|].
        destruct (rev (p0 :: p1 :: pr2)) as [|pl rr] eqn:RV; [discriminate|]. inversion H; subst. clear H.
        rewrite !meass_cons, !meas_node. f_equal.
        apply create_params_text in CP.
        (* p0 :: p1 :: pr2 = p0 :: inner ++ [pl] *)
        assert (TL: p1 :: pr2 = removelast (p1 :: pr2) ++ [pl]).
        { rewrite (app_removelast_last pl (l := p1 :: pr2)) at 1 by discriminate. f_equal. f_equal.
          apply rev_head_last in RV. destruct (rev rr) as [|y yr] eqn:RR.
          - simpl in RV. discriminate.
          - simpl in RV. inversion RV; subst. rewrite H1. rewrite last_last. reflexivity. }
        cbn [tl] in CP. rewrite (meass_cons p0 (np ++ [pl])), (meass_cons p0 (p1 :: pr2)). f_equal.
        transitivity (meass (removelast (p1 :: pr2) ++ [pl])); [|rewrite <- TL; reflexivity].
        rewrite !meass_app, CP. reflexivity.
      * destruct (regroup_func G t) as [t'|] eqn:E; [|discriminate]. inversion H; subst. rewrite !meass_cons, (IH t' eq_refl). reflexivity.
    + destruct (regroup_func G t) as [t'|] eqn:E; [|discriminate]. inversion H; subst. rewrite !meass_cons, (IH t' eq_refl). reflexivity.
    + destruct (regroup_func G t) as [t'|] eqn:E; [|discriminate]. inversion H; subst. rewrite !meass_cons, (IH t' eq_refl). reflexivity.
Qed.

Lemma no_text_nil t : no_text t = true -> meas t = [].
Proof. unfold no_text. intros H. apply tcode_nil_meas. destruct (tcode t); [reflexivity|discriminate]. Qed.

Lemma convert_node_text r ns t : convert_node G r ns = POk t -> meas t = meass ns.
Proof.
  unfold convert_node. destruct (r =? r_suite G).
  - destruct ns as [|c0 [|c1 rest]]; [discriminate|intros H; inversion H; rewrite meas_node; reflexivity|].
    destruct (blank c1 && match rev rest with [] => true | cl :: _ => blank cl end) eqn:NT; [|discriminate].
    apply andb_true_iff in NT as [N1 N2]. unfold blank in N1. apply andb_true_iff in N1 as [N1 _].
    assert (N2': match rev rest with [] => true | cl :: _ => no_text cl end = true).
    { destruct (rev rest) as [|cl rr]; [reflexivity|]. unfold blank in N2. apply andb_true_iff in N2 as [N2 _]. exact N2. }
    clear N2. rename N2' into N2. intros H; inversion H; subst. rewrite meas_node, !meass_cons, (no_text_nil _ N1). simpl. f_equal.
    destruct (rev rest) as [|cl rr] eqn:RV.
    + apply (f_equal (@rev tree)) in RV. rewrite rev_involutive in RV. subst. reflexivity.
    + apply rev_head_last in RV. subst rest. rewrite removelast_last, meass_app, meass_one, (no_text_nil _ N2), app_nil_r. reflexivity.
  - destruct (r =? r_funcdef G).
    + destruct (regroup_func G ns) as [cs|] eqn:E; [|discriminate]. intros H; inversion H. rewrite meas_node. apply regroup_func_text. exact E.
    + destruct ((r =? r_lambdef G) || (r =? r_lambdef_nocond G)); [|intros H; inversion H; apply meas_node].
      destruct ns as [|kw rest]; [discriminate|].
      destruct (existsb is_param (firstn (length rest - 2) rest)); [intros H; inversion H; apply meas_node|].
      destruct (create_params G (firstn (length rest - 2) rest)) as [np|] eqn:CP; [|discriminate].
      intros H; inversion H. rewrite meas_node, !meass_cons, meass_app. f_equal.
      apply create_params_text in CP. rewrite CP, <- meass_app, firstn_skipn. reflexivity.
Qed.

(* ---------- the text on the stack ---------- *)
Definition frame_code (fr : frame) : list XT := meass (f_nodes fr).
Definition stack_code (s : list frame) : list XT := concat (map frame_code (rev s)).   (* bottom frame first *)

Lemma stack_code_cons fr s : stack_code (fr :: s) = stack_code s ++ frame_code fr.
Proof. unfold stack_code. simpl. rewrite map_app, concat_app. simpl. rewrite app_nil_r. reflexivity. Qed.

Lemma pop_text s s' : pop G s = POk s' -> stack_code s' = stack_code s.
Proof.
  unfold pop. destruct s as [|tos [|below rest]]; [discriminate|discriminate|].
  assert (K: forall nd, meas nd = meass (f_nodes tos) ->
             stack_code (mkFr (f_dfa below) (f_nodes below ++ [nd]) :: rest) = stack_code (tos :: below :: rest)).
  { intros nd E. rewrite !stack_code_cons. unfold frame_code. cbn [f_nodes]. rewrite meass_app, meass_one, E, <- app_assoc. reflexivity. }
  destruct (f_nodes tos) as [|x [|y r]] eqn:FN.
  - destruct (convert_node G (rule_of G (f_dfa tos)) []) as [nd|] eqn:CV; [|discriminate]. intros H; inversion H. apply K. eapply convert_node_text. exact CV.
  - intros H; inversion H. apply K. rewrite meass_one. reflexivity.
  - destruct (convert_node G (rule_of G (f_dfa tos)) (x :: y :: r)) as [nd|] eqn:CV; [|discriminate]. intros H; inversion H. apply K. eapply convert_node_text. exact CV.
Qed.

Lemma stack_code_app a b : stack_code (a ++ b) = stack_code b ++ stack_code a.
Proof. unfold stack_code. rewrite rev_app_distr, map_app, concat_app. reflexivity. Qed.

Lemma current_suite_lt : forall s, s <> [] -> (current_suite G s < length s)%nat.
Proof.
  induction s as [|fr rest IH]; intros NE; [contradiction|]. destruct rest as [|fr2 rest]; [simpl; lia|].
  cbn [current_suite]. destruct (rule_of G (f_dfa fr) =? r_file_input G); [simpl; lia|].
  destruct ((rule_of G (f_dfa fr) =? r_suite G) && negb (Nat.eqb (length (f_nodes fr)) 1)); [simpl; lia|].
  specialize (IH ltac:(discriminate)). simpl in *. lia.
Qed.

Lemma flat_nodes_text (l : list frame) : meass (flat_map f_nodes l) = concat (map frame_code l).
Proof. induction l as [|fr r IH]; [reflexivity|]. simpl. rewrite meass_app, IH. reflexivity. Qed.

Lemma stack_removal_text s k s1 b : (k < length s)%nat -> stack_removal s k = (s1, b) -> stack_code s1 = stack_code s.
Proof.
  intros L H. unfold stack_removal in H.
  rewrite <- (firstn_skipn k s) at 1. rewrite stack_code_app.
  assert (RC: stack_code (firstn k s) = meass (flat_map f_nodes (rev (firstn k s)))) by (rewrite flat_nodes_text; reflexivity).
  destruct (flat_map f_nodes (rev (firstn k s))) as [|x xs] eqn:AN.
  - inversion H; subst. rewrite RC. unfold meass. simpl. rewrite app_nil_r. reflexivity.
  - destruct (skipn k s) as [|below r] eqn:SK.
    + exfalso. assert (length (skipn k s) = 0%nat) by (rewrite SK; reflexivity). rewrite skipn_length in H0. lia.
    + inversion H; subst. rewrite RC, !stack_code_cons. unfold frame_code. cbn [f_nodes]. rewrite meass_app, meass_one, meas_node, <- app_assoc. reflexivity.
Qed.

(* ---------- one token ---------- *)
Lemma fold_push_text ch : forall base top r,
  fold_left (fun st q => mkFr q [] :: st) ch base = top :: r -> stack_code (top :: r) = stack_code base.
Proof.
  induction ch as [|q ch IH]; intros base top r H; simpl in H; [subst; reflexivity|].
  rewrite (IH _ _ _ H), stack_code_cons. unfold frame_code. simpl. unfold meass. simpl. rewrite app_nil_r. reflexivity.
Qed.

Lemma add_token_text : forall fuel recover p t p',
  add_token G TR fuel recover p t = POk p' -> stack_code (stack p') = stack_code (stack p) ++ mtok t.
Proof.
  induction fuel as [|f IH]; intros recover p t p' H; [discriminate|]. cbn [add_token] in H.
  destruct (stack p) as [|tos rest] eqn:S; [discriminate|].
  destruct (trans TR (f_dfa tos) (token_label G t)) as [pl|].
  - destruct (fold_left (fun st q => mkFr q [] :: st) (p_pushes pl) (mkFr (p_next pl) (f_nodes tos) :: rest)) as [|top r] eqn:FL; [discriminate|].
    inversion H; subst. cbn [stack]. pose proof (fold_push_text _ _ _ _ FL) as E.
    rewrite !stack_code_cons in *. unfold frame_code in *. cbn [f_nodes] in *. rewrite meass_app, meass_one.
    rewrite app_assoc, E. unfold convert_leaf, emit1. simpl. reflexivity.
  - destruct (final G (f_dfa tos)).
    + destruct (pop G (tos :: rest)) as [s'|] eqn:P; [|discriminate].
      apply IH in H. cbn [stack] in H. rewrite H, (pop_text _ _ P). reflexivity.
    + match type of H with context [match ?sp with POk _ => _ | PErr _ => _ end] => destruct sp as [[p1|]|] eqn:SP; [| |discriminate] end.
      * (* the missing-newline repair: only the automaton state changes *)
        inversion H; subst p1. clear H.
        revert SP. match goal with |- context [match ?c with POk _ => _ | PErr _ => _ end] => destruct c as [[|]|]; try discriminate end.
        destruct (rule_of G (f_dfa tos) =? r_simple_stmt G); [|discriminate].
        destruct (trans TR (f_dfa tos) (LType NEWLINE)) as [pl|]; [|discriminate].
        destruct (final G (p_next pl) && match p_pushes pl with [] => true | _ => false end); [|discriminate].
        destruct (add_token G TR f recover (mkP (mkFr (p_next pl) (f_nodes tos) :: rest) (omit p) (icount p)) t) as [p2|] eqn:A; [|discriminate].
        intros X; inversion X; subst p2. apply IH in A. cbn [stack] in A. rewrite A, !stack_code_cons. reflexivity.
      * destruct (negb recover); [discriminate|].
        pose proof (current_suite_lt (tos :: rest) ltac:(discriminate)) as LT.
        destruct (stack_removal (tos :: rest) (current_suite G (tos :: rest))) as [s1 removed] eqn:SR.
        pose proof (stack_removal_text _ _ _ _ LT SR) as ST.
        match type of H with context [match ?af with POk _ => _ | PErr _ => _ end] => destruct af as [p2|] eqn:AF; [|discriminate] end.
        assert (E2: stack_code (stack p2) = stack_code (tos :: rest) ++ mtok t).
        { destruct removed.
          - apply IH in AF. cbn [stack] in AF. rewrite AF, ST. reflexivity.
          - destruct s1 as [|top r]; [discriminate|]. inversion AF; subst p2. cbn [stack].
            rewrite <- ST, !stack_code_cons. unfold frame_code. cbn [f_nodes]. rewrite meass_app, meass_one. simpl. rewrite <- app_assoc. reflexivity. }
        destruct (stack p2) as [|top r] eqn:S2; [discriminate|].
        destruct (rule_of G (f_dfa top) =? r_suite G).
        -- destruct (arc_nt G (f_dfa top) (r_stmt G)); inversion H; subst; cbn [stack]; [|rewrite S2; exact E2].
           rewrite <- E2, !stack_code_cons. reflexivity.
        -- inversion H; subst. rewrite S2. exact E2.
Qed.

(* ---------- all tokens ---------- *)
Definition zero_width_blocks (toks : list Token) : Prop :=
  forall t, In t toks -> (ty t = INDENT \/ ty t = DEDENT) -> emit1 t = [].

Lemma feed_text : forall toks recover p p',
  feed G TR recover p toks = POk p' -> zero_width_blocks toks ->
  stack_code (stack p') = stack_code (stack p) ++ mtoks toks.
Proof.
  induction toks as [|t toks IH]; intros recover p p' H Z; cbn [feed] in H.
  - inversion H; subst. rewrite mtoks_nil, app_nil_r. reflexivity.
  - assert (Z': zero_width_blocks toks) by (intros x I; apply Z; right; exact I).
    assert (EM: mtoks (t :: toks) = mtok t ++ mtoks toks) by reflexivity.
    match type of H with context [match ?st with Some _ => _ | None => _ end] => destruct st as [p1|] eqn:STEP end.
    + assert (SP: stack p1 = stack p).
      { destruct recover; [|inversion STEP; reflexivity].
        destruct (ty t); try (inversion STEP; reflexivity).
        destruct (last_z (omit p)) as [o|]; [destruct (o =? icount p)%Z; [discriminate|]|]; inversion STEP; reflexivity. }
      destruct (add_token G TR (S (S (2 * length (stack p1)))) recover p1 t) as [p2|] eqn:A; [|discriminate].
      apply add_token_text in A. rewrite (IH _ _ _ H Z'), A, SP, EM, <- app_assoc. reflexivity.
    + (* a DEDENT swallowed by _recovery_tokenize: it carries no text *)
      assert (TD: ty t = DEDENT).
      { destruct recover; [|discriminate]. destruct (ty t); try discriminate. reflexivity. }
      rewrite (IH _ _ _ H Z'). cbn [stack]. rewrite EM. unfold mtok. rewrite (g_nil _ _ _ _ (Z t (or_introl eq_refl) (or_intror TD))). reflexivity.
Qed.

Lemma finish_text : forall fuel s t, finish G fuel s = POk t -> meas t = stack_code s.
Proof.
  induction fuel as [|f IH]; intros s t H; [discriminate|]. cbn [finish] in H.
  destruct s as [|tos rest]; [discriminate|]. destruct (negb (final G (f_dfa tos))); [discriminate|].
  destruct rest as [|below rest].
  - apply convert_node_text in H. rewrite H. unfold stack_code, frame_code. simpl. rewrite app_nil_r. reflexivity.
  - destruct (pop G (tos :: below :: rest)) as [s'|] eqn:P; [|discriminate]. rewrite (IH _ _ H). apply pop_text. exact P.
Qed.

Theorem parse_keeps : forall recover start toks t,
  parse G TR recover start toks = POk t -> zero_width_blocks toks -> meas t = mtoks toks.
Proof.
  intros recover start toks t H Z. unfold parse in H.
  destruct (assocN start (g_start G)) as [q0|]; [|discriminate].
  destruct (feed G TR recover (mkP [mkFr q0 []] [] 0%Z) toks) as [p|] eqn:F; [|discriminate].
  apply finish_text in H. rewrite H, (feed_text _ _ _ _ F Z). reflexivity.
Qed.
End Meas.


(* ---------- instance 1: the code of the tree (C01) ---------- *)
Definition tcodes (l : list tree) : str := concat (map tcode l).
Lemma tcode_node k cs : tcode (Node k cs) = tcodes cs.
Proof. unfold tcodes. simpl. induction cs as [|c r IH]; simpl; [reflexivity|]. rewrite IH. reflexivity. Qed.
Definition g_code (v p : str) (l c : N) : str := p ++ v.
Lemma meas_code : forall t, meas N g_code t = tcode t.
Proof.
  fix IH 1. intros [k v p l c|k cs]; [reflexivity|]. simpl. induction cs as [|c r IHr]; [reflexivity|]. rewrite (IH c), IHr. reflexivity.
Qed.
Lemma mtoks_code toks : mtoks N g_code toks = emit toks.
Proof. reflexivity. Qed.

Theorem parse_keeps_text : forall G TR recover start toks t,
  parse G TR recover start toks = POk t -> zero_width_blocks toks -> tcode t = emit toks.
Proof.
  intros G TR recover start toks t H Z. rewrite <- meas_code, <- mtoks_code.
  eapply parse_keeps; [intros v p l c E; exact E|exact H|exact Z].
Qed.
Print Assumptions parse_keeps_text.

(* ---------- instance 2: the text-carrying leaves with their positions (C03) ---------- *)
Record linfo := mkLI { li_value : str; li_prefix : str; li_line : N; li_col : N }.
Definition g_info (v p : str) (l c : N) : list linfo := match p ++ v with [] => [] | _ => [mkLI v p l c] end.
Definition text_leaves (t : tree) : list linfo := meas linfo g_info t.
Definition text_tokens (toks : list Token) : list linfo := mtoks linfo g_info toks.

Theorem parse_keeps_leaves : forall G TR recover start toks t,
  parse G TR recover start toks = POk t -> zero_width_blocks toks -> text_leaves t = text_tokens toks.
Proof.
  intros G TR recover start toks t H Z. unfold text_leaves, text_tokens.
  eapply parse_keeps; [intros v p l c E; unfold g_info; rewrite E; reflexivity|exact H|exact Z].
Qed.
Print Assumptions parse_keeps_leaves.
