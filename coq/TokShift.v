From Coq Require Import List NArith ZArith Bool Lia.
Import ListNotations.
Require Import Regex Tok TokTiles.
Open Scope N_scope.

(* C04 / C03, locality of the tokenizer in the line number: tokenizing the same lines with the start line moved by k gives
   the same tokens with every line number moved by k (this is what lets the incremental parser re-tokenize a slice of a
   file from its own line number, and copy unchanged nodes by adding a line offset).
   The line number never influences control flow: it is only stamped on tokens and remembered for multi-line strings. *)

Definition shP (k : N) (p : N * N) : N * N := (fst p + k, snd p).
Definition shT (k : N) (t : Token) : Token := mkTok (ty t) (ts t) (tline t + k) (tcol t) (tpre t).

Definition RF (k : N) (f f' : fnode) : Prop :=
  quote f' = quote f /\ parens f' = parens f /\ prev_lines f' = prev_lines f /\ spec_count f' = spec_count f /\
  (prev_lines f <> [] -> last_start f' = shP k (last_start f)).
Definition RS (k : N) (s s' : st) : Prop :=
  paren s' = paren s /\ indents s' = indents s /\ contstr s' = contstr s /\ (contstr s <> [] -> endprog s' = endprog s) /\ new_line s' = new_line s /\
  (contstr s <> [] -> prefix s' = prefix s) /\ addp s' = addp s /\ max_ s' = max_ s /\ lnum s' = lnum s + k /\
  Forall2 (RF k) (fstack s) (fstack s') /\ (contstr s <> [] -> contstr_start s' = shP k (contstr_start s)).

Lemma RF_refl_fields k f f' : RF k f f' -> allow_multiline f' = allow_multiline f /\ in_expr f' = in_expr f /\ in_format_spec f' = in_format_spec f.
Proof. intros (Q & P & _ & S & _). unfold allow_multiline, in_expr, in_format_spec, in_expr. rewrite Q, P, S. repeat split; reflexivity. Qed.

Lemma F2_last {A B} (R : A -> B -> Prop) l l' : Forall2 R l l' ->
  match last_opt l, last_opt l' with Some x, Some y => R x y | None, None => True | _, _ => False end.
Proof.
  induction 1 as [|x y l l' H F IH]; [exact I|]. destruct F as [|x2 y2 l2 l2' H2 F2]; [exact H|exact IH].
Qed.
Lemma F2_removelast {A B} (R : A -> B -> Prop) l l' : Forall2 R l l' -> Forall2 R (removelast l) (removelast l').
Proof.
  induction 1 as [|x y l l' H F IH]; [constructor|]. destruct F as [|x2 y2 l2 l2' H2 F2]; [constructor|]. simpl. constructor; [exact H|exact IH].
Qed.
Lemma F2_app {A B} (R : A -> B -> Prop) a a' b b' : Forall2 R a a' -> Forall2 R b b' -> Forall2 R (a ++ b) (a' ++ b').
Proof. intros H1 H2. apply Forall2_app; assumption. Qed.
Lemma F2_set_last {A B} (R : A -> B -> Prop) l l' x y : Forall2 R l l' -> R x y -> Forall2 R (set_last l x) (set_last l' y).
Proof. intros F H. unfold set_last. apply F2_app; [apply F2_removelast; exact F|constructor; [exact H|constructor]]. Qed.

Section Shift.
Variable C : coll.
Variable isident : str -> bool.
Variable isspace : N -> bool.
Variable k : N.

Notation RFk := (RF k).
Notation RSk := (RS k).

(* helpers that read only quote / prev_lines of the stack *)
Lemma trunc_shift : forall fs fs' x, Forall2 RFk fs fs' -> trunc_by_quotes C fs' x = trunc_by_quotes C fs x.
Proof.
  intros fs fs' x F. revert x. induction F as [|f f' l l' H F IH]; intros x; [reflexivity|]. simpl.
  destruct H as (Q & _). rewrite Q. destruct (endpat C (quote f)); [|reflexivity].
  destruct (rmatch_at r x 0) as [[e cs]|]; apply IH.
Qed.
Lemma sll_shift : forall fs fs' line pos cur, Forall2 RFk fs fs' -> string_line_len C fs' line pos cur = string_line_len C fs line pos cur.
Proof.
  intros fs fs' line pos cur F. revert cur. induction F as [|f f' l l' H F IH]; intros cur; [reflexivity|]. simpl.
  destruct H as (Q & _). rewrite Q. destruct (endpat C (quote f)); [|reflexivity].
  destruct (rmatch_at r line pos) as [[e cs]|]; apply IH.
Qed.
Lemma no_pending_shift fs fs' : Forall2 RFk fs fs' -> no_pending fs' = no_pending fs.
Proof. unfold no_pending. induction 1 as [|f f' l l' H F IH]; [reflexivity|]. simpl. destruct H as (_ & _ & P & _). rewrite P, IH. reflexivity. Qed.
Lemma forallb_pending_shift fs fs' : Forall2 RFk fs fs' ->
  forallb (fun f => match prev_lines f with [] => true | _ => false end) fs' = forallb (fun f => match prev_lines f with [] => true | _ => false end) fs.
Proof. apply no_pending_shift. Qed.
Lemma existsb_multi_shift fs fs' : Forall2 RFk fs fs' ->
  existsb (fun f => negb (allow_multiline f)) fs' = existsb (fun f => negb (allow_multiline f)) fs.
Proof. induction 1 as [|f f' l l' H F IH]; [reflexivity|]. simpl. destruct (RF_refl_fields _ _ _ H) as (A & _). rewrite A, IH. reflexivity. Qed.
Lemma F2_nil_iff fs fs' : Forall2 RFk fs fs' -> (match fs' with [] => true | _ => false end) = (match fs with [] => true | _ => false end).
Proof. destruct 1; reflexivity. Qed.

Lemma dedent_loop_shift : forall fuel start ln spos inds acc,
  dedent_loop fuel start (ln + k) (shP k spos) inds (map (shT k) acc) =
  match dedent_loop fuel start ln spos inds acc with Ok (i, t) => Ok (i, map (shT k) t) | Err e => Err e end.
Proof.
  induction fuel as [|f IH]; intros start ln spos inds acc; [reflexivity|]. simpl.
  destruct (last_opt inds) as [top|]; [|reflexivity].
  destruct (start <? top); [|reflexivity].
  destruct (last_opt (removelast inds)) as [second|]; [|reflexivity].
  destruct (second <? start).
  - rewrite map_app. reflexivity.
  - rewrite <- IH. rewrite map_app. reflexivity.
Qed.
Lemma dedent_shift start ln spos inds :
  dedent_if_necessary start (ln + k) (shP k spos) inds =
  match dedent_if_necessary start ln spos inds with Ok (i, t) => Ok (i, map (shT k) t) | Err e => Err e end.
Proof. unfold dedent_if_necessary. apply (dedent_loop_shift _ _ _ _ _ []). Qed.

Lemma split_illegal_shift : forall chars i found illegal pos pfx sl sc,
  split_illegal isident chars i found illegal (shP k pos) pfx (sl + k) sc = map (shT k) (split_illegal isident chars i found illegal pos pfx sl sc).
Proof.
  induction chars as [|c rest IH]; intros i found illegal pos pfx sl sc.
  - simpl. destruct found; [reflexivity|]. destruct illegal; reflexivity.
  - cbn [split_illegal]. destruct illegal.
    + destruct (isident [c]); [|apply IH]. cbn [map]. f_equal. apply (IH (i + 1) [c] false (sl, sc + i) [] sl sc).
    + destruct (isident (found ++ [c])); [apply IH|]. destruct found as [|x f]; [apply IH|]. cbn [map]. f_equal. apply (IH (i + 1) [c] true (sl, sc + i) [] sl sc).
Qed.

Lemma shP_pair l c : shP k (l, c) = (l + k, c).
Proof. reflexivity. Qed.

Lemma ffs_shift : forall fs fs' tos tos' line ln pos, Forall2 RFk fs fs' -> RFk tos tos' ->
  match find_fstring_string C fs tos line ln pos, find_fstring_string C fs' tos' line (ln + k) pos with
  | Ok (str, p, t1), Ok (str', p', t1') => str' = str /\ p' = p /\ RFk t1 t1' /\ (str <> [] -> last_start t1' = shP k (last_start t1))
  | Err e, Err e' => e = e'
  | _, _ => False
  end.
Proof.
  intros fs fs' tos tos' line ln pos F R. unfold find_fstring_string.
  destruct (RF_refl_fields _ _ _ R) as (A1 & A2 & A3). rewrite A1, A3.
  match goal with |- context [rmatch_at ?r line pos] => destruct (rmatch_at r line pos) as [[e cs]|] end.
  - rewrite (trunc_shift fs fs' _ F).
    set (t1 := match prev_lines tos with [] => mkF (quote tos) (parens tos) (prev_lines tos) (ln, pos) (spec_count tos) | _ => tos end).
    set (t1' := match prev_lines tos' with [] => mkF (quote tos') (parens tos') (prev_lines tos') (ln + k, pos) (spec_count tos') | _ => tos' end).
    assert (R1: RFk t1 t1' /\ last_start t1' = shP k (last_start t1)).
    { pose proof R as R0. destruct R as (Q & P & PL & SC & LS). unfold t1, t1'. rewrite PL. destruct (prev_lines tos) as [|y pl] eqn:PT.
      - split; [|reflexivity]. unfold RF. cbn [quote parens prev_lines spec_count last_start]. rewrite Q, P, SC. repeat split; try reflexivity.
      - split; [exact R0|apply LS; discriminate]. }
    destruct R1 as [(Q1 & P1 & PL1 & SC1 & LS1) L1].
    destruct (trunc_by_quotes C fs (sub line pos e)) as [string0|]; [|reflexivity].
    destruct (ends_nl string0).
    + split; [reflexivity|split; [reflexivity|split; [|intros X; contradiction]]].
      unfold RF. cbn [quote parens prev_lines spec_count last_start]. rewrite Q1, P1, PL1, SC1. repeat split; try reflexivity. intros _. exact L1.
    + rewrite PL1. split; [reflexivity|split; [reflexivity|split; [unfold RF; repeat split; assumption|intros _; exact L1]]].
  - destruct R as (Q & P & PL & SC & LS). rewrite PL. split; [reflexivity|split; [reflexivity|split; [unfold RF; repeat split; assumption|exact LS]]].
Qed.

Lemma RS_upd_f s s' fs fs' : RSk s s' -> Forall2 RFk fs fs' -> RSk (upd_f s fs) (upd_f s' fs').
Proof. intros (A&B&C0&D&E&F&G&H&I0&J&K0) FF. unfold RS, upd_f. cbn. repeat split; assumption. Qed.
Lemma RS_upd_addp s s' a : RSk s s' -> RSk (upd_addp s a) (upd_addp s' a).
Proof. intros (A&B&C0&D&E&F&G&H&I0&J&K0). unfold RS, upd_addp. cbn. repeat split; try assumption; reflexivity. Qed.

Lemma close_shift : forall stack stack' before before' rest ln col ap, Forall2 RFk stack stack' -> Forall2 RFk before before' ->
  match close_fstring isspace before stack rest ln col ap, close_fstring isspace before' stack' rest (ln + k) col ap with
  | Ok None, Ok None => True
  | Ok (Some (t, q, rem)), Ok (Some (t', q', rem')) => t' = shT k t /\ q' = q /\ Forall2 RFk rem rem'
  | Err e, Err e' => e = e'
  | _, _ => False
  end.
Proof.
  intros stack stack' before before' rest ln col ap F. revert before before'.
  induction F as [|n n' t t' H F IH]; intros before before' FB; [exact I|]. simpl.
  pose proof H as H0. destruct H as (Q & _ & PL & _). rewrite Q, PL.
  destruct (starts_with (quote n) (from rest (lstrip_len isspace rest))).
  - destruct (prev_lines n); [|reflexivity].
    rewrite (forallb_pending_shift (before ++ t) (before' ++ t') (F2_app _ _ _ _ _ FB F)).
    destruct (forallb _ (before ++ t)); [|reflexivity]. split; [reflexivity|split; [reflexivity|exact FB]].
  - apply IH. apply F2_app; [exact FB|constructor; [exact H0|constructor]].
Qed.

Definition R4 (r r' : result (st * list Token * option loop_end * N)) : Prop :=
  match r, r' with
  | Ok (s1, t, oe, p), Ok (s1', t', oe', p') => RSk s1 s1' /\ t' = map (shT k) t /\ oe' = oe /\ p' = p
  | Err e, Err e' => e = e'
  | _, _ => False
  end.

Lemma R4_ok s1 s1' t oe p : RSk s1 s1' -> R4 (Ok (s1, t, oe, p)) (Ok (s1', map (shT k) t, oe, p)).
Proof. intros R. unfold R4. split; [exact R|repeat split; reflexivity]. Qed.

Lemma fs_text_shift : forall s s' tos tos' line pos, RSk s s' -> RFk tos tos' ->
  R4 (fs_text C s tos line pos) (fs_text C s' tos' line pos).
Proof.
  intros s s' tos tos' line pos R RT. unfold fs_text.
  destruct (RF_refl_fields _ _ _ RT) as (_ & A2 & _). rewrite A2.
  destruct (negb (in_expr tos)); [|apply (R4_ok _ _ []); exact R].
  pose proof R as R0. destruct R as (A&B&C0&D&E&F&G&H&I0&J&K0). rewrite I0.
  pose proof (ffs_shift _ _ _ _ line (lnum s) pos J RT) as FF.
  destruct (find_fstring_string C (fstack s) tos line (lnum s) pos) as [[[str p] t1]|];
    destruct (find_fstring_string C (fstack s') tos' line (lnum s + k) pos) as [[[str' p'] t1']|]; try contradiction; [|exact FF].
  destruct FF as (-> & -> & RT1 & LS).
  destruct str as [|x str].
  - rewrite H. destruct (p =? max_ s); apply (R4_ok _ _ []); (apply RS_upd_f; [exact R0|apply F2_set_last; assumption]).
  - rewrite G, (no_pending_shift _ _ (F2_removelast _ _ _ J)).
    destruct (is_nil (addp s) && no_pending (removelast (fstack s))); [|reflexivity].
    rewrite (LS ltac:(discriminate)).
    apply (R4_ok _ _ [mkTok FSTRING_STRING (x :: str) (fst (last_start t1)) (snd (last_start t1)) []]).
    apply RS_upd_f; [exact R0|]. apply F2_set_last; [exact J|]. destruct RT1 as (Q1 & P1 & _ & S1 & _).
    unfold RF. cbn. repeat split; try assumption.
Qed.

Lemma fs_part_shift : forall s s' line pos, RSk s s' -> R4 (fs_part C isspace s line pos) (fs_part C isspace s' line pos).
Proof.
  intros s s' line pos R. unfold fs_part.
  pose proof R as R0. destruct R as (A&B&C0&D&E&F&G&H&I0&J&K0).
  pose proof (F2_last _ _ _ J) as L.
  destruct (last_opt (fstack s)) as [tos|]; destruct (last_opt (fstack s')) as [tos'|]; try contradiction; [|apply (R4_ok _ _ []); exact R0].
  pose proof (fs_text_shift _ _ _ _ line pos R0 L) as FT. unfold R4 in FT.
  destruct (fs_text C s tos line pos) as [[[[s1 t] oe] p]|]; destruct (fs_text C s' tos' line pos) as [[[[s1' t'] oe'] p']|]; try contradiction; [|exact FT].
  destruct FT as (R1 & -> & -> & ->).
  destruct oe as [e|]; [apply R4_ok; exact R1|].
  pose proof R1 as R10. destruct R1 as (A1&B1&C1&D1&E1&F1&G1&H1&I1&J1&K1). rewrite I1, G1.
  pose proof (close_shift (fstack s1) (fstack s1') [] [] (from line p) (lnum s1) p (addp s1) J1 (Forall2_nil _)) as CL.
  destruct (close_fstring isspace [] (fstack s1) (from line p) (lnum s1) p (addp s1)) as [[[[tok q] rem]|]|];
    destruct (close_fstring isspace [] (fstack s1') (from line p) (lnum s1 + k) p (addp s1)) as [[[[tok' q'] rem']|]|]; try contradiction.
  - destruct CL as (-> & -> & FR). replace (map (shT k) t ++ [shT k tok]) with (map (shT k) (t ++ [tok])) by (rewrite map_app; reflexivity).
    apply R4_ok. apply RS_upd_addp; apply RS_upd_f; assumption.
  - apply R4_ok. exact R10.
  - exact CL.
Qed.

Lemma pm_info_shift : forall s s' line pos, RSk s s' -> pm_info C s' line pos = pm_info C s line pos.
Proof.
  intros s s' line pos (A&B&C0&D&E&F&G&H&I0&J&K0). unfold pm_info. rewrite G.
  assert (SL: match fstack s' with [] => Ok (len line) | _ :: _ => string_line_len C (fstack s') line pos (len line) end =
              match fstack s with [] => Ok (len line) | _ :: _ => string_line_len C (fstack s) line pos (len line) end).
  { rewrite (sll_shift _ _ _ _ _ J). destruct J; reflexivity. }
  rewrite SL. reflexivity.
Qed.

Definition R2 (r r' : result (st * list Token)) : Prop :=
  match r, r' with
  | Ok (s1, t), Ok (s1', t') => RSk s1 s1' /\ t' = map (shT k) t
  | Err e, Err e' => e = e'
  | _, _ => False
  end.
Definition R3 (r r' : result (st * list Token * loop_end)) : Prop :=
  match r, r' with
  | Ok (s1, t, le), Ok (s1', t', le') => RSk s1 s1' /\ t' = map (shT k) t /\ le' = le
  | Err e, Err e' => e = e'
  | _, _ => False
  end.
Lemma R2_ok s1 s1' t : RSk s1 s1' -> R2 (Ok (s1, t)) (Ok (s1', map (shT k) t)).
Proof. intros R. split; [exact R|reflexivity]. Qed.
Lemma R3_ok s1 s1' t le : RSk s1 s1' -> R3 (Ok (s1, t, le)) (Ok (s1', map (shT k) t, le)).
Proof. intros R. split; [exact R|split; reflexivity]. Qed.

Ltac rs0 := unfold RS; cbn [paren indents contstr contstr_start endprog new_line prefix addp fstack lnum max_ upd_f upd_addp];
  repeat split; try assumption; try reflexivity; try congruence; try apply Forall2_nil.

Lemma indent_part_shift : forall s2 s2' is_pm initial start spos, RSk s2 s2' ->
  R2 (indent_part s2 is_pm initial start spos) (indent_part s2' is_pm initial start (shP k spos)).
Proof.
  intros s2 s2' is_pm initial start spos R. unfold indent_part.
  pose proof R as R0. destruct R as (A&B&C0&D&E&F&G&H&I0&J&K0). rewrite E.
  destruct (new_line s2 && negb (chr_in initial [cr; nl; hash]) && (negb (initial =? bsl) || negb is_pm)); [|apply (R2_ok _ _ []); exact R0].
  cbn [paren fstack indents lnum]. rewrite A, (F2_nil_iff _ _ J), B.
  destruct ((paren s2 =? 0) && match fstack s2 with [] => true | _ => false end); [|apply (R2_ok _ _ []); rs0].
  destruct (last_opt (indents s2)) as [top|]; [|reflexivity].
  rewrite I0.
  destruct (top <? start).
  - rewrite dedent_shift. destruct (dedent_if_necessary start (lnum s2) spos (indents s2 ++ [start])) as [[inds' t1]|]; [|reflexivity].
    apply (R2_ok _ _ (mkTok INDENT [] (fst spos) (snd spos) [] :: t1)). rs0.
  - rewrite dedent_shift. destruct (dedent_if_necessary start (lnum s2) spos (indents s2)) as [[inds' t1]|]; [|reflexivity].
    apply (R2_ok _ _ ([] ++ t1)). rs0.
Qed.

Lemma error_token_shift : forall s3 s3' toks line pos spos, RSk s3 s3' ->
  R3 (error_token C s3 toks line pos spos) (error_token C s3' (map (shT k) toks) line pos (shP k spos)).
Proof.
  intros s3 s3' toks line pos spos R. unfold error_token.
  pose proof R as R0. destruct R as (A&B&C0&D&E&F&G&H&I0&J&K0).
  destruct (rmatch_at (whitespace C) line pos) as [[e cs]|]; [|reflexivity].
  rewrite E, A, (F2_nil_iff _ _ J), B, I0, G.
  destruct (new_line s3 && (paren s3 =? 0) && match fstack s3 with [] => true | _ => false end).
  - rewrite dedent_shift. destruct (dedent_if_necessary e (lnum s3) spos (indents s3)) as [[inds t3]|]; [|reflexivity].
    destruct (nth_error line (N.to_nat e)) as [c|]; [|reflexivity].
    replace (map (shT k) toks ++ map (shT k) t3 ++ [mkTok ERRORTOKEN [c] (lnum s3 + k) e (addp s3 ++ sub line pos e)])
      with (map (shT k) (toks ++ t3 ++ [mkTok ERRORTOKEN [c] (lnum s3) e (addp s3 ++ sub line pos e)])) by (rewrite !map_app; reflexivity).
    apply R3_ok. rs0.
  - destruct (nth_error line (N.to_nat e)) as [c|]; [|reflexivity].
    replace (map (shT k) toks ++ [] ++ [mkTok ERRORTOKEN [c] (lnum s3 + k) e (addp s3 ++ sub line pos e)])
      with (map (shT k) (toks ++ [] ++ [mkTok ERRORTOKEN [c] (lnum s3) e (addp s3 ++ sub line pos e)])) by (rewrite !map_app; reflexivity).
    apply R3_ok. rs0.
Qed.

Lemma R3_ok_app s1 s1' toks l le : RSk s1 s1' -> R3 (Ok (s1, toks ++ l, le)) (Ok (s1', map (shT k) toks ++ map (shT k) l, le)).
Proof. intros R. rewrite <- map_app. apply R3_ok. exact R. Qed.

Lemma R3_ok_app3 s1 s1' toks a b le : RSk s1 s1' -> R3 (Ok (s1, toks ++ a ++ b, le)) (Ok (s1', map (shT k) toks ++ map (shT k) a ++ map (shT k) b, le)).
Proof. intros R. rewrite <- !map_app. apply R3_ok. exact R. Qed.
Ltac fin3 := cbn [paren indents contstr contstr_start endprog new_line prefix addp fstack lnum max_];
  match goal with |- R3 (Ok (?s, ?toks ++ ?a ++ ?b, ?le)) _ => apply (R3_ok_app3 s _ toks a b le) end; rs0.

Ltac fin := match goal with
            | |- R3 (Ok (?s, ?toks ++ ?l, ?le)) _ => apply (R3_ok_app s _ toks l le)
            | |- R3 (Ok (?s, ?toks, ?le)) _ => apply (R3_ok s _ toks le)
            end; rs0.

Lemma classify_shift : forall s3 s3' toks line pfx start epos token has3 initial spos, RSk s3 s3' -> prefix s3' = prefix s3 ->
  R3 (classify C isident s3 toks line pfx start epos token has3 initial spos)
     (classify C isident s3' (map (shT k) toks) line pfx start epos token has3 initial (shP k spos)).
Proof.
  intros s3 s3' toks line pfx start epos token has3 initial spos R PX. unfold classify.
  pose proof R as R0. destruct R as (A&B&C0&D&E&F&G&H&I0&J&K0).
  cbn [fst snd shP].
  destruct (chr_in initial digits || ((initial =? dot) && negb (str_eqb token [dot]) && negb (str_eqb token [dot; dot; dot]))); [fin|].
  destruct has3.
  { rewrite A, (F2_nil_iff _ _ J), B, I0.
    destruct (mem_str token (always_break C) && (negb match fstack s3 with [] => true | _ => false end || negb (paren s3 =? 0))).
    - destruct (rmatch_at (ws_dollar C) (upto line start) 0) as [[e cs]|].
      + change (fst spos + k, snd spos) with (shP k spos). cbn [lnum indents]. rewrite dedent_shift.
        destruct (dedent_if_necessary e (lnum s3) spos (indents s3)) as [[inds t]|]; [|reflexivity].
        destruct (isident token); [fin3|]. cbn [fst snd shP]. change (fst spos + k, snd spos) with (shP k spos). rewrite split_illegal_shift. fin3.
      + destruct (isident token); [fin3|]. cbn [fst snd shP]. change (fst spos + k, snd spos) with (shP k spos). rewrite split_illegal_shift. fin3.
    - destruct (isident token); [fin3|]. cbn [fst snd shP]. change (fst spos + k, snd spos) with (shP k spos). rewrite split_illegal_shift. fin3. }
  destruct (chr_in initial [cr; nl]).
  { rewrite (existsb_multi_shift _ _ J), E, A.
    assert (FS: Forall2 RFk (if existsb (fun f => negb (allow_multiline f)) (fstack s3) then [] else fstack s3)
                            (if existsb (fun f => negb (allow_multiline f)) (fstack s3) then [] else fstack s3')).
    { destruct (existsb _ (fstack s3)); [constructor|exact J]. }
    rewrite (F2_nil_iff _ _ FS).
    destruct (negb (new_line s3) && (paren s3 =? 0) && match (if existsb (fun f => negb (allow_multiline f)) (fstack s3) then [] else fstack s3) with [] => true | _ => false end); fin. }
  destruct (initial =? hash).
  { pose proof (F2_last _ _ _ J) as L. destruct (last_opt (fstack s3)) as [f|]; destruct (last_opt (fstack s3')) as [f'|]; try contradiction.
    - destruct (RF_refl_fields _ _ _ L) as (_ & IE & _). rewrite IE. destruct (in_expr f); [fin|]. fin.
    - fin. }
  destruct (mem_str token (triple_quoted C)).
  { destruct (endpat C token) as [r|]; [|reflexivity]. destruct (rmatch_at r line epos) as [[e cs]|]; fin. }
  destruct (mem_str [initial] (single_quoted C) || mem_str (upto token 2) (single_quoted C) || mem_str (upto token 3) (single_quoted C)).
  { destruct (match last_chr token with Some c => chr_in c [cr; nl] | None => false end); fin. }
  destruct (assoc token (fstring_map C)) as [q|].
  { fin. apply F2_app; [exact J|]. constructor; [|constructor]. unfold RF. cbn. repeat split; try reflexivity. intros X. contradiction. }
  rewrite G.
  destruct ((initial =? bsl) && (str_eqb (from line start) [bsl; nl] || str_eqb (from line start) [bsl; cr; nl] || str_eqb (from line start) [bsl; cr])); [fin|].
  pose proof (F2_last _ _ _ J) as L. destruct (last_opt (fstack s3)) as [f|]; destruct (last_opt (fstack s3')) as [f'|]; try contradiction.
  - destruct L as (Q & P & PL & S & LS). rewrite Q, P, PL, S.
    assert (UP: forall p sc, Forall2 RFk (upd_top (fstack s3) (mkF (quote f) p (prev_lines f) (last_start f) sc)) (upd_top (fstack s3') (mkF (quote f) p (prev_lines f) (last_start f') sc))).
    { intros p sc. apply F2_set_last; [exact J|]. unfold RF. cbn. repeat split; try reflexivity. exact LS. }
    destruct (is_substr token [40; 91; 123]); [fin; apply UP|].
    destruct (is_substr token [41; 93; 125]).
    { destruct ((parens f - 1 =? 0)%Z); [fin; apply UP|]. destruct ((parens f - 1 <? spec_count f)%Z); fin; apply UP. }
    destruct (starts_with [colon] token && (parens f - spec_count f =? 1)%Z); [fin; apply UP|fin].
  - rewrite A. destruct (is_substr token [40; 91; 123]); [fin|]. destruct (is_substr token [41; 93; 125]); fin.
Qed.

Lemma body_shift : forall s s' line pos, RSk s s' -> R3 (body C isident isspace s line pos) (body C isident isspace s' line pos).
Proof.
  intros s s' line pos R. unfold Tok.body.
  pose proof (fs_part_shift _ _ line pos R) as FP. unfold R4 in FP.
  destruct (fs_part C isspace s line pos) as [[[[s1 t1] oe] p]|]; destruct (fs_part C isspace s' line pos) as [[[[s1' t1'] oe'] p']|]; try contradiction; [|exact FP].
  destruct FP as (R1 & -> & -> & ->).
  destruct oe as [e|]; [apply R3_ok; exact R1|].
  pose proof R1 as R10. destruct R1 as (A&B&C0&D&E&F&G&H&I0&J&K0).
  rewrite (no_pending_shift _ _ J). destruct (negb (no_pending (fstack s1))); [reflexivity|].
  rewrite (pm_info_shift _ _ line p R10).
  destruct (pm_info C s1 line p) as [[[pmi start] initial]|]; [|reflexivity].
  destruct pmi as [[[[[pfx a2] epos] token] has3]|].
  - destruct token as [|c tk].
    + destruct pfx as [|x pfx']; [reflexivity|]. rewrite H. destruct (epos =? len line); [|reflexivity]. fin.
    + set (s2 := mkSt (paren s1) (indents s1) (contstr s1) (contstr_start s1) (endprog s1) (new_line s1) pfx [] (fstack s1) (lnum s1) (max_ s1)).
      set (s2' := mkSt (paren s1') (indents s1') (contstr s1') (contstr_start s1') (endprog s1') (new_line s1') pfx [] (fstack s1') (lnum s1') (max_ s1')).
      assert (R2s: RSk s2 s2') by (unfold s2, s2'; rs0).
      assert (SP: (lnum s2', start) = shP k (lnum s2, start)) by (unfold s2, s2', shP; cbn [lnum fst snd]; rewrite I0; reflexivity).
      rewrite SP.
      pose proof (indent_part_shift s2 s2' true initial start (lnum s2, start) R2s) as IP. unfold R2 in IP.
      destruct (indent_part s2 true initial start (lnum s2, start)) as [[s3 t2]|] eqn:IPa; destruct (indent_part s2' true initial start (shP k (lnum s2, start))) as [[s3' t2']|] eqn:IPb; try contradiction; [|exact IP].
      destruct IP as (R3s & ->). rewrite <- map_app. apply classify_shift; [exact R3s|].
      destruct (indent_part_spec _ _ _ _ _ _ _ IPa) as (_&_&_&_&_&P1&_). destruct (indent_part_spec _ _ _ _ _ _ _ IPb) as (_&_&_&_&_&P2&_).
      rewrite P1, P2. reflexivity.
  - assert (SP: (lnum s1', start) = shP k (lnum s1, start)) by (unfold shP; cbn [fst snd]; rewrite I0; reflexivity).
    rewrite SP.
    pose proof (indent_part_shift s1 s1' false initial start (lnum s1, start) R10) as IP. unfold R2 in IP.
    destruct (indent_part s1 false initial start (lnum s1, start)) as [[s3 t2]|]; destruct (indent_part s1' false initial start (shP k (lnum s1, start))) as [[s3' t2']|]; try contradiction; [|exact IP].
    destruct IP as (R3s & ->). rewrite <- map_app. apply error_token_shift. exact R3s.
Qed.

Lemma scan_shift : forall fuel s s' line pos acc, RSk s s' ->
  R2 (scan C isident isspace fuel s line pos acc) (scan C isident isspace fuel s' line pos (map (shT k) acc)).
Proof.
  induction fuel as [|f IH]; intros s s' line pos acc R; [reflexivity|]. cbn [Tok.scan].
  pose proof R as R0. destruct R as (A&B&C0&D&E&F&G&H&I0&J&K0). rewrite H.
  destruct (pos <? max_ s); [|apply R2_ok; exact R0].
  pose proof (body_shift _ _ line pos R0) as BD. unfold R3 in BD.
  destruct (body C isident isspace s line pos) as [[[s1 t] le]|]; destruct (body C isident isspace s' line pos) as [[[s1' t'] le']|]; try contradiction; [|exact BD].
  destruct BD as (R1 & -> & ->). rewrite <- map_app.
  destruct le as [pos'|]; [apply IH; exact R1|apply R2_ok; exact R1].
Qed.

Lemma line_core_shift : forall s s' line pos, RSk s s' ->
  R2 (line_core C isident isspace s line pos) (line_core C isident isspace s' line pos).
Proof.
  intros s s' line pos R. unfold line_core.
  pose proof R as R0. destruct R as (A&B&C0&D&E&F&G&H&I0&J&K0). rewrite C0.
  destruct (contstr s) as [|cc ct] eqn:CS.
  - apply (scan_shift _ _ _ line pos [] R0).
  - specialize (K0 ltac:(discriminate)). specialize (D ltac:(discriminate)). specialize (F ltac:(discriminate)).
    rewrite D. destruct (endprog s) as [r|]; [|reflexivity].
    destruct (rmatch_at r line 0) as [[e cs]|].
    + rewrite K0, F.
      apply (scan_shift _ (mkSt (paren s) (indents s) [] (contstr_start s) (Some r) (new_line s) (prefix s) (addp s) (fstack s) (lnum s) (max_ s)) _ line e
               [mkTok STRING ((cc :: ct) ++ upto line e) (fst (contstr_start s)) (snd (contstr_start s)) (prefix s)]).
      rs0; intros X; contradiction.
    + apply (R2_ok _ _ []). rs0; try (intros _; exact K0).
Qed.

Lemma line_step_shift : forall s s' line0 first sc, RSk s s' ->
  R2 (line_step C isident isspace s line0 first sc) (line_step C isident isspace s' line0 first sc).
Proof.
  intros s s' line0 first sc R. unfold Tok.line_step.
  pose proof R as R0. destruct R as (A&B&C0&D&E&F&G&H&I0&J&K0).
  destruct first.
  - destruct line0 as [|c t].
    + apply line_core_shift. rs0. lia.
    + destruct (c =? bom); apply line_core_shift; rs0; lia.
  - apply line_core_shift. rs0. lia.
Qed.

Lemma lines_loop_shift : forall lines s s' first sc acc, RSk s s' ->
  R2 (lines_loop C isident isspace s lines first sc acc) (lines_loop C isident isspace s' lines first sc (map (shT k) acc)).
Proof.
  induction lines as [|l rest IH]; intros s s' first sc acc R; cbn [Tok.lines_loop]; [apply R2_ok; exact R|].
  pose proof (line_step_shift _ _ l first sc R) as LS. unfold R2 in LS.
  destruct (line_step C isident isspace s l first sc) as [[s1 t]|]; destruct (line_step C isident isspace s' l first sc) as [[s1' t']|]; try contradiction; [|exact LS].
  destruct LS as (R1 & ->). rewrite <- map_app. apply IH. exact R1.
Qed.

(* ---------- what tokenize_lines does after the last line ---------- *)
Definition finish (r : result (st * list Token)) : result (list Token) :=
  match r with
  | Err x => Err x
  | Ok (s, toks) =>
    let t1 := match contstr s with
              | [] => []
              | _ => [mkTok ERRORTOKEN (contstr s) (fst (contstr_start s)) (snd (contstr_start s)) (prefix s)] end in
    let t2 := match last_opt (fstack s) with
              | Some f => match prev_lines f with
                          | [] => []
                          | _ => [mkTok FSTRING_STRING (prev_lines f) (fst (last_start f)) (snd (last_start f)) []] end
              | None => [] end in
    let t3 := map (fun _ => mkTok DEDENT [] (lnum s) (max_ s) []) (tl (indents s)) in
    if forallb (fun f => match prev_lines f with [] => true | _ => false end) (removelast (fstack s))
       && (match t2 with [] => true | _ => match addp s with [] => true | _ => false end end)
    then Ok (toks ++ t1 ++ t2 ++ t3 ++ [mkTok ENDMARKER [] (lnum s) (max_ s) (addp s)])
    else Err Guard
  end.
Lemma tokenize_lines_finish : forall lines inds sl sc first,
  tokenize_lines C isident isspace lines inds sl sc first =
  finish (lines_loop C isident isspace (mkSt 0 inds [] (0, 0) None true [] [] [] (sl - 1) 0) lines first sc []).
Proof. intros. unfold tokenize_lines, finish. destruct (lines_loop _ _ _ _ _ _ _ _) as [[s t]|]; reflexivity. Qed.

Lemma finish_shift : forall r r', R2 r r' ->
  finish r' = match finish r with Ok toks => Ok (map (shT k) toks) | Err e => Err e end.
Proof.
  intros r r' LL. unfold R2 in LL. unfold finish.
  destruct r as [[s out]|]; destruct r' as [[s' out']|]; try contradiction; [|rewrite LL; reflexivity].
  destruct LL as (R & ->). destruct R as (A&B&C0&D&E&F&G&H&I0&J&K0).
  rewrite C0, (forallb_pending_shift _ _ (F2_removelast _ _ _ J)), G, B, I0, H.
  assert (T1: match contstr s with [] => [] | _ :: _ => [mkTok ERRORTOKEN (contstr s) (fst (contstr_start s')) (snd (contstr_start s')) (prefix s')] end =
              map (shT k) (match contstr s with [] => [] | _ :: _ => [mkTok ERRORTOKEN (contstr s) (fst (contstr_start s)) (snd (contstr_start s)) (prefix s)] end)).
  { destruct (contstr s) as [|cc ct]; [reflexivity|]. rewrite (K0 ltac:(discriminate)), (F ltac:(discriminate)). reflexivity. }
  rewrite T1. clear T1.
  pose proof (F2_last _ _ _ J) as L.
  assert (FIN: forall (g : bool) (t2 : list Token),
     (if g then Ok (map (shT k) out ++ map (shT k) (match contstr s with [] => [] | _ :: _ => [mkTok ERRORTOKEN (contstr s) (fst (contstr_start s)) (snd (contstr_start s)) (prefix s)] end) ++ map (shT k) t2 ++
        map (fun _ : N => mkTok DEDENT [] (lnum s + k) (max_ s) []) (tl (indents s)) ++ [mkTok ENDMARKER [] (lnum s + k) (max_ s) (addp s)]) else Err Guard) =
     match (if g then Ok (out ++ (match contstr s with [] => [] | _ :: _ => [mkTok ERRORTOKEN (contstr s) (fst (contstr_start s)) (snd (contstr_start s)) (prefix s)] end) ++ t2 ++
        map (fun _ : N => mkTok DEDENT [] (lnum s) (max_ s) []) (tl (indents s)) ++ [mkTok ENDMARKER [] (lnum s) (max_ s) (addp s)]) else Err Guard) with
     | Ok toks => Ok (map (shT k) toks) | Err e => Err e end).
  { intros g t2. destruct g; [|reflexivity]. f_equal. rewrite !map_app. f_equal. f_equal. f_equal. f_equal. rewrite map_map. reflexivity. }
  destruct (last_opt (fstack s)) as [f|]; destruct (last_opt (fstack s')) as [f'|]; try contradiction.
  - destruct L as (_ & _ & PL & _ & LS). rewrite PL. destruct (prev_lines f) as [|y pl].
    + apply (FIN _ []).
    + rewrite (LS ltac:(discriminate)).
      refine (eq_trans _ (FIN (forallb (fun f0 => match prev_lines f0 with [] => true | _ :: _ => false end) (removelast (fstack s)) && match addp s with [] => true | _ :: _ => false end) [mkTok FSTRING_STRING (y :: pl) (fst (last_start f)) (snd (last_start f)) []])). reflexivity.
  - apply (FIN _ []).
Qed.

(* ---------- the theorem ---------- *)
Theorem tok_shift : forall lines inds sl sc first,
  1 <= sl ->
  tokenize_lines C isident isspace lines inds (sl + k) sc first =
  match tokenize_lines C isident isspace lines inds sl sc first with Ok toks => Ok (map (shT k) toks) | Err e => Err e end.
Proof.
  intros lines inds sl sc first SL. rewrite !tokenize_lines_finish. apply finish_shift.
  apply (lines_loop_shift lines _ _ first sc []). rs0; try lia; intros X; contradiction.
Qed.
End Shift.
Print Assumptions tok_shift.
