From Coq Require Import List NArith Bool.
Import ListNotations.
Open Scope N_scope.

Inductive re :=
| Eps | Chr (c:N) | NotChr (c:N) | AnyNoNl
| CSet (neg:bool) (items: list (N*N))
| Cat (a b: re) | Alt (a b : re)
| Opt (a:re) | Star (a:re) | Plus (a:re)
| Group (n:nat) (a: re) | NLook (a: re) | AtEnd | AtEndStr.

Definition caps := list (nat * (N * N)).
Definition res := (N * caps)%type.

Definition in_set (c:N) (items: list (N*N)) : bool :=
  existsb (fun '(lo,hi) => (lo <=? c) && (c <=? hi)) items.

Fixpoint m (r:re) (i:N) (rest:list N) (cs:caps)
         (k: N -> list N -> caps -> option res) {struct r} : option res :=
  match r with
  | Eps => k i rest cs
  | Chr c => match rest with x::t => if x =? c then k (i+1) t cs else None | [] => None end
  | NotChr c => match rest with x::t => if x =? c then None else k (i+1) t cs | [] => None end
  | AnyNoNl => match rest with x::t => if x =? 10 then None else k (i+1) t cs | [] => None end
  | CSet neg items => match rest with
        | x::t => if xorb neg (in_set x items) then k (i+1) t cs else None | [] => None end
  | Cat a b => m a i rest cs (fun i' r' c' => m b i' r' c' k)
  | Alt a b => match m a i rest cs k with Some x => Some x | None => m b i rest cs k end
  | Opt a => match m a i rest cs k with Some x => Some x | None => k i rest cs end
  | Star a =>
      (fix loop (fuel:nat) (i:N) (rest:list N) (cs:caps) {struct fuel} : option res :=
         match fuel with
         | O => k i rest cs
         | S f =>
             match m a i rest cs (fun i' r' c' => if i' =? i then None else loop f i' r' c') with
             | Some x => Some x
             | None => k i rest cs
             end
         end) (S (length rest)) i rest cs
  | Plus a =>
      m a i rest cs (fun i0 r0 c0 =>
      (fix loop (fuel:nat) (i:N) (rest:list N) (cs:caps) {struct fuel} : option res :=
         match fuel with
         | O => k i rest cs
         | S f =>
             match m a i rest cs (fun i' r' c' => if i' =? i then None else loop f i' r' c') with
             | Some x => Some x
             | None => k i rest cs
             end
         end) (S (length r0)) i0 r0 c0)
  | Group n a => m a i rest cs (fun i' r' c' => k i' r' ((n,(i,i'))::c'))
  | NLook a => match m a i rest cs (fun i' _ c' => Some (i',c')) with
               | Some _ => None | None => k i rest cs end
  | AtEnd => match rest with [] => k i rest cs | [x] => if x =? 10 then k i rest cs else None | _ => None end
  | AtEndStr => match rest with [] => k i rest cs | _ => None end
  end.

Definition rmatch (r:re) (s:list N) (pos:N) : option res :=
  m r pos (skipn (N.to_nat pos) s) [] (fun i _ c => Some (i,c)).

Lemma m_mono_example : rmatch (Star (Chr 97)) [97;97;98] 0 = Some (2, []).
Proof. vm_compute. reflexivity. Qed.
