From Coq Require Import List NArith ZArith Bool Lia.
Import ListNotations.
Require Import Regex Tok Engine.
Open Scope N_scope.

(* C07, first half: whenever the strict parser accepts, the recovering parser takes exactly the
   same steps and returns the identical tree.  The two modes share add_token; they differ only in
   the error branch (strict raises) and in _recovery_tokenize, which is the identity as long as
   no INDENT was dropped by recovery (_omit_dedent_list = []). *)

Section Sim.
Variable G : gram.
Variable TR : list (N * list (label * plan)).

Ltac dmatch H :=
  match type of H with
  | context [match ?x with _ => _ end] =>
    match x with
    | context [match _ with _ => _ end] => fail 1
    | _ => destruct x eqn:?
    end
  end.

Lemma add_token_sim : forall f p t p',
  add_token G TR f false p t = POk p' ->
  forall om ic, add_token G TR f true (mkP (stack p) om ic) t = POk (mkP (stack p') om ic).
Proof.
  induction f as [|f IH]; intros p t p' H om ic; [discriminate|].
  cbn [add_token] in H |- *. cbn [stack omit icount].
  destruct (stack p) as [|tos rest] eqn:S; [discriminate|].
  destruct (trans TR (f_dfa tos) (token_label G t)) as [pl|] eqn:T.
  - destruct (fold_left (fun st q => mkFr q [] :: st) (p_pushes pl) (mkFr (p_next pl) (f_nodes tos) :: rest)) as [|top r]; [discriminate|].
    inversion H; subst. reflexivity.
  - destruct (final G (f_dfa tos)) eqn:F.
    + destruct (pop G (tos :: rest)) as [s'|e] eqn:P; [|discriminate].
      specialize (IH (mkP s' (omit p) (icount p)) t p' H om ic). cbn [stack] in IH. exact IH.
    + (* error recovery: in strict mode only the missing-newline repair can succeed *)
      set (last_leaf := match rev (f_nodes tos) with [] => None | x :: _ => last_leaf_value x end) in *.
      set (cond := match ty t with
                   | ENDMARKER => POk true
                   | DEDENT => match last_leaf with None => PErr PAttr | Some v => POk (negb (ends_newline v)) end
                   | _ => POk false end) in *.
      destruct cond as [[|]|e]; [| |discriminate].
      * destruct (rule_of G (f_dfa tos) =? r_simple_stmt G); [|simpl in H; discriminate].
        destruct (trans TR (f_dfa tos) (LType NEWLINE)) as [pl|]; [|simpl in H; discriminate].
        destruct (final G (p_next pl) && match p_pushes pl with [] => true | _ => false end); [|simpl in H; discriminate].
        destruct (add_token G TR f false (mkP (mkFr (p_next pl) (f_nodes tos) :: rest) (omit p) (icount p)) t) as [p1|e] eqn:A; [|discriminate].
        inversion H; subst p1.
        pose proof (IH _ t p' A om ic) as IH'. cbn [stack] in IH'. rewrite IH'. reflexivity.
      * simpl in H. discriminate.
Qed.

Lemma feed_sim : forall toks p p',
  feed G TR false p toks = POk p' ->
  forall ic, exists ic', feed G TR true (mkP (stack p) [] ic) toks = POk (mkP (stack p') [] ic').
Proof.
  induction toks as [|t toks IH]; intros p p' H ic.
  - simpl in H. inversion H; subst. exists ic. reflexivity.
  - cbn [feed] in H |- *. cbn [stack omit icount last_z rev].
    destruct (add_token G TR (S (S (2 * length (stack p)))) false p t) as [p2|e] eqn:A; [|discriminate].
    (* the recovery tokenizer only adjusts the indentation counter while the omit list is empty *)
    assert (K: forall ic0, exists ic1, feed G TR true (mkP (stack p2) [] ic0) toks = POk (mkP (stack p') [] ic1)) by (intros; eapply IH; exact H).
    destruct (ty t) eqn:TY; cbn [stack omit icount];
      try (rewrite (add_token_sim _ p t p2 A [] ic); apply K).
    + (* INDENT *) rewrite (add_token_sim _ p t p2 A [] (ic + 1)%Z). apply K.
    + (* DEDENT *) rewrite (add_token_sim _ p t p2 A [] (ic - 1)%Z). apply K.
Qed.

Theorem strict_accepts_recover_same : forall start toks t,
  parse G TR false start toks = POk t -> parse G TR true start toks = POk t.
Proof.
  intros start toks t H. unfold parse in *. destruct (assocN start (g_start G)) as [q0|]; [|discriminate].
  destruct (feed G TR false (mkP [mkFr q0 []] [] 0%Z) toks) as [p|e] eqn:F; [|discriminate].
  destruct (feed_sim toks _ p F 0%Z) as (ic' & E). cbn [stack] in E. rewrite E. exact H.
Qed.
End Sim.
Print Assumptions strict_accepts_recover_same.
