From Coq Require Import List NArith ZArith Bool Lia.
Import ListNotations.
Require Import Regex RegexFacts Tok TokFacts.
Open Scope N_scope.

(* C01 / C09: the token stream tiles the input.
   emit toks = concatenation of prefix ++ string of every token.  For every list of lines,
   whenever the (guarded) tokenizer model returns tokens, emit toks = concat lines. *)

(* ---------- slices ---------- *)
Lemma skipn_add {A} (l : list A) : forall a b, skipn a (skipn b l) = skipn (b + a) l.
Proof.
  intros a b. revert l. induction b as [|b IH]; intros l; [reflexivity|]. destruct l as [|x l]; simpl; [destruct a; reflexivity|apply IH].
Qed.
Lemma firstn_add' {A} (l : list A) : forall a b, firstn (a + b) l = firstn a l ++ firstn b (skipn a l).
Proof.
  intros a b. revert l. induction a as [|a IH]; intros l; [reflexivity|]. destruct l as [|x l]; simpl; [destruct b; reflexivity|rewrite IH; reflexivity].
Qed.
Lemma from_upto s a : upto s a ++ from s a = s.
Proof. unfold upto, from. apply firstn_skipn. Qed.

Lemma len_from s a : len (from s a) = len s - a.
Proof. unfold len, from. rewrite skipn_length. lia. Qed.

Lemma from_ge s a : len s <= a -> from s a = [].
Proof. unfold from, len. intros H. apply skipn_all2. lia. Qed.

Lemma from_from s a b : from (from s a) b = from s (a + b).
Proof. unfold from. rewrite skipn_add. f_equal. lia. Qed.

Lemma sub_from s a b : a <= b -> from s a = sub s a b ++ from s b.
Proof.
  intros H. unfold sub, from.
  replace (N.to_nat b) with (N.to_nat a + N.to_nat (b - a))%nat by lia.
  rewrite <- skipn_add. symmetry. apply firstn_skipn.
Qed.

Lemma sub_to_len s a : sub s a (len s) = from s a.
Proof.
  unfold sub, from, len. apply firstn_all2. rewrite skipn_length. lia.
Qed.

Lemma sub_cat s a b c : a <= b -> b <= c -> sub s a c = sub s a b ++ sub s b c.
Proof.
  intros H1 H2. unfold sub.
  replace (N.to_nat (c - a)) with (N.to_nat (b - a) + N.to_nat (c - b))%nat by lia.
  rewrite firstn_add'. f_equal. rewrite skipn_add. f_equal. f_equal. lia.
Qed.

Lemma sub_nil s a : sub s a a = [].
Proof. unfold sub. rewrite N.sub_diag. reflexivity. Qed.

Lemma upto_as_sub s b : upto s b = sub s 0 b.
Proof. unfold upto, sub. simpl. rewrite N.sub_0_r. reflexivity. Qed.

Lemma from_0 s : from s 0 = s.
Proof. reflexivity. Qed.

(* one character *)
Lemma from_nth s a c : nth_error s (N.to_nat a) = Some c -> from s a = c :: from s (a + 1).
Proof.
  unfold from. replace (N.to_nat (a + 1)) with (S (N.to_nat a)) by lia.
  generalize (N.to_nat a) as n. intros n. revert s. induction n as [|n IH]; intros s H; destruct s as [|x s]; simpl in *; try discriminate.
  - inversion H; reflexivity.
  - apply IH. exact H.
Qed.

Lemma sub_head s a b c r : sub s a b = c :: r -> nth_error s (N.to_nat a) = Some c.
Proof.
  unfold sub. generalize (N.to_nat (b - a)) as k, (N.to_nat a) as n. intros k n. revert s.
  induction n as [|n IH]; intros s H; destruct s as [|x s]; simpl in *.
  - destruct k; discriminate.
  - destruct k; [discriminate|]. inversion H; reflexivity.
  - destruct k; discriminate.
  - apply IH. exact H.
Qed.

(* prefixes *)
Lemma starts_with_app p s : starts_with p s = true -> exists r, s = p ++ r.
Proof.
  revert s. induction p as [|x p IH]; intros s H; [exists s; reflexivity|].
  destruct s as [|y s]; [discriminate|]. simpl in H. apply andb_true_iff in H as [H1 H2].
  apply N.eqb_eq in H1. subst. destruct (IH s H2) as (r & ->). exists r. reflexivity.
Qed.

Lemma upto_len_app (p r : str) : upto (p ++ r) (len p) = p.
Proof. unfold upto, len. rewrite Nat2N.id. rewrite firstn_app, Nat.sub_diag, firstn_all. simpl. apply app_nil_r. Qed.
Lemma from_len_app (p r : str) : from (p ++ r) (len p) = r.
Proof. unfold from, len. rewrite Nat2N.id. apply skipn_app_length. Qed.

(* ---------- emitted text ---------- *)
Definition emit1 (t : Token) : str := tpre t ++ ts t.
Definition emit (l : list Token) : str := concat (map emit1 l).
Lemma emit_app a b : emit (a ++ b) = emit a ++ emit b.
Proof. unfold emit. rewrite map_app, concat_app. reflexivity. Qed.
Lemma emit_one t : emit [t] = tpre t ++ ts t.
Proof. unfold emit. simpl. apply app_nil_r. Qed.
Lemma emit_nil : emit [] = [].
Proof. reflexivity. Qed.

Section Tiles.
Variable C : coll.
Variable isident : str -> bool.
Variable isspace : N -> bool.

Notation dedent_loop := (dedent_loop).
Notation body := (body C isident isspace).

(* text consumed but not yet emitted *)
Definition pend (s : st) : str :=
  (match contstr s with [] => addp s | _ => prefix s ++ contstr s end) ++ fpend (fstack s).

(* ---------- INDENT / DEDENT tokens carry no text ---------- *)
Lemma dedent_loop_emit : forall fuel start lnum spos inds acc inds' toks,
  dedent_loop fuel start lnum spos inds acc = Ok (inds', toks) -> emit toks = emit acc.
Proof.
  induction fuel as [|f IH]; intros start lnum spos inds acc inds' toks H; [discriminate|]. simpl in H.
  destruct (last_opt inds) as [top|]; [|discriminate].
  destruct (start <? top).
  - destruct (last_opt (removelast inds)) as [second|]; [|discriminate].
    destruct (second <? start).
    + inversion H; subst. rewrite emit_app, emit_one. simpl. rewrite app_nil_r. reflexivity.
    + apply IH in H. rewrite H, emit_app, emit_one. simpl. rewrite app_nil_r. reflexivity.
  - inversion H; subst. reflexivity.
Qed.
Lemma dedent_emit start lnum spos inds inds' toks :
  dedent_if_necessary start lnum spos inds = Ok (inds', toks) -> emit toks = [].
Proof. unfold dedent_if_necessary. intros H. apply dedent_loop_emit in H. exact H. Qed.

(* ---------- _split_illegal_unicode_name keeps every character ---------- *)
Lemma split_illegal_emit : forall chars i found illegal pos pfx sl sc,
  (chars <> [] \/ found <> []) ->
  emit (split_illegal isident chars i found illegal pos pfx sl sc) = pfx ++ found ++ chars.
Proof.
  induction chars as [|c rest IH]; intros i found illegal pos pfx sl sc H.
  - simpl. destruct found as [|x f]; [destruct H as [H|H]; contradiction|]. rewrite emit_one. simpl. destruct illegal; simpl; rewrite app_nil_r; reflexivity.
  - cbn [split_illegal]. destruct illegal.
    + destruct (isident [c]).
      * change (?t :: ?l) with ([t] ++ l) at 1. rewrite emit_app, emit_one, IH by (right; discriminate). simpl. rewrite <- app_assoc. reflexivity.
      * rewrite IH by (right; destruct found; discriminate). rewrite <- !app_assoc. reflexivity.
    + destruct (isident (found ++ [c])).
      * rewrite IH by (right; destruct found; discriminate). rewrite <- !app_assoc. reflexivity.
      * destruct found as [|x f].
        -- rewrite IH by (right; discriminate). reflexivity.
        -- change (?t :: ?l) with ([t] ++ l) at 1. rewrite emit_app, emit_one, IH by (right; discriminate). simpl. rewrite <- !app_assoc. reflexivity.
Qed.

(* ---------- f-string bookkeeping ---------- *)
Lemma last_opt_split {A} (l : list A) x : last_opt l = Some x -> l = removelast l ++ [x].
Proof.
  induction l as [|a r IH]; [discriminate|]. destruct r as [|b r]; simpl; intros H.
  - inversion H; reflexivity.
  - simpl in IH. rewrite <- IH by exact H. reflexivity.
Qed.
Lemma last_opt_none {A} (l : list A) : last_opt l = None -> l = [].
Proof. induction l as [|a r IH]; [reflexivity|]. destruct r as [|b r]; [discriminate|]. intros H. simpl in H. specialize (IH H). discriminate. Qed.
Lemma fpend_app a b : fpend (a ++ b) = fpend a ++ fpend b.
Proof. unfold fpend. rewrite map_app, concat_app. reflexivity. Qed.
Lemma fpend_one f : fpend [f] = prev_lines f.
Proof. unfold fpend. simpl. apply app_nil_r. Qed.
Lemma no_pending_fpend fs : no_pending fs = true -> fpend fs = [].
Proof.
  unfold no_pending, fpend. induction fs as [|f r IH]; simpl; [reflexivity|]. intros H.
  apply andb_true_iff in H as [H1 H2]. destruct (prev_lines f); [|discriminate]. simpl. apply IH. exact H2.
Qed.
Lemma fpend_upd_top fs f tos : last_opt fs = Some tos -> fpend (upd_top fs f) = fpend (removelast fs) ++ prev_lines f.
Proof. intros H. unfold upd_top, set_last. rewrite fpend_app, fpend_one. reflexivity. Qed.
Lemma fpend_last fs tos : last_opt fs = Some tos -> fpend fs = fpend (removelast fs) ++ prev_lines tos.
Proof. intros H. rewrite (last_opt_split fs tos H) at 1. rewrite fpend_app, fpend_one. reflexivity. Qed.

Lemma trunc_prefix : forall stack x y, trunc_by_quotes C stack x = Ok y -> exists z, x = y ++ z.
Proof.
  induction stack as [|n t IH]; intros x y H; simpl in H; [inversion H; exists []; rewrite app_nil_r; reflexivity|].
  destruct (endpat C (quote n)) as [r|]; [|discriminate].
  destruct (rmatch_at r x 0) as [[e cs]|].
  - apply IH in H as (z & Hz). exists (z ++ from x (e - len (quote n))).
    rewrite app_assoc, <- Hz. symmetry. apply from_upto.
  - apply IH. exact H.
Qed.

(* the closing quote: the token plus the rest of the line is the old rest of the line *)
Lemma close_spec : forall stack before rest lnum col ap tok qlen remaining,
  close_fstring isspace before stack rest lnum col ap = Ok (Some (tok, qlen, remaining)) ->
  emit1 tok ++ from rest qlen = ap ++ rest /\ fpend (before ++ stack) = [] /\ fpend remaining = [].
Proof.
  induction stack as [|n t IH]; intros before rest lnum col ap tok qlen remaining H; simpl in H; [discriminate|].
  destruct (starts_with (quote n) (from rest (lstrip_len isspace rest))) eqn:SW.
  - destruct (prev_lines n) eqn:PL; [|discriminate].
    destruct (forallb (fun f => match prev_lines f with [] => true | _ => false end) (before ++ t)) eqn:G; [|discriminate].
    inversion H; subst. clear H. unfold emit1. simpl.
    apply starts_with_app in SW as (r & Hr).
    split; [|split].
    + set (k := lstrip_len isspace rest) in *.
      assert (F: from rest (len (quote n) + k) = r).
      { rewrite N.add_comm, <- from_from, Hr. apply from_len_app. }
      rewrite F. transitivity (ap ++ upto rest k ++ quote n ++ r); [rewrite <- !app_assoc; reflexivity|].
      rewrite <- Hr, from_upto. reflexivity.
    + pose proof (no_pending_fpend _ G) as F. rewrite fpend_app in F |- *. apply app_eq_nil in F as [F1 F2].
      rewrite F1. unfold fpend. simpl. rewrite PL. exact F2.
    + pose proof (no_pending_fpend _ G) as F. rewrite fpend_app in F. apply app_eq_nil in F as [F1 F2]. exact F1.
  - apply IH in H as (H1 & H2 & H3). split; [exact H1|split; [|exact H3]]. rewrite <- app_assoc in H2. exact H2.
Qed.

Lemma ffs_spec : forall stack tos line lnum pos string pos' tos',
  find_fstring_string C stack tos line lnum pos = Ok (string, pos', tos') ->
  exists s0, from line pos = s0 ++ from line pos' /\
    ((string = [] /\ prev_lines tos' = prev_lines tos ++ s0) \/ (string = prev_lines tos ++ s0 /\ prev_lines tos' = prev_lines tos)).
Proof.
  intros stack tos line lnum pos string pos' tos' H. unfold find_fstring_string in H.
  match type of H with context [rmatch_at ?r line pos] => destruct (rmatch_at r line pos) as [[e cs]|] eqn:M end.
  - set (tos1 := match prev_lines tos with [] => _ | _ => tos end) in *.
    assert (P1: prev_lines tos1 = prev_lines tos) by (unfold tos1; destruct (prev_lines tos) eqn:E; [reflexivity|exact E]).
    destruct (trunc_by_quotes C stack (sub line pos e)) as [string0|] eqn:TQ; [|discriminate].
    destruct (trunc_prefix _ _ _ TQ) as (z & Hz).
    pose proof (rmatch_ge_pos _ _ _ _ _ M) as GE.
    assert (F: from line pos = string0 ++ from line (pos + len string0)).
    { assert (F0: from line pos = string0 ++ (z ++ from line e)) by (rewrite (sub_from line pos e GE), Hz, <- app_assoc; reflexivity).
      rewrite <- from_from. rewrite F0. rewrite from_len_app. reflexivity. }
    destruct (ends_nl string0).
    + inversion H; subst. exists string0. split; [exact F|]. left. split; [reflexivity|]. simpl. rewrite P1. reflexivity.
    + inversion H; subst. exists string0. split; [exact F|]. right. split; [rewrite P1; reflexivity|exact P1].
  - inversion H; subst. exists []. split; [reflexivity|]. right. split; [rewrite app_nil_r; reflexivity|reflexivity].
Qed.

Lemma fs_text_tiles : forall s tos line pos s1 toks oe p,
  fs_text C s tos line pos = Ok (s1, toks, oe, p) -> last_opt (fstack s) = Some tos -> contstr s = [] ->
  emit toks ++ pend s1 ++ from line p = pend s ++ from line pos /\ contstr s1 = [] /\ max_ s1 = max_ s /\ lnum s1 = lnum s /\
  (oe = Some Break -> p = max_ s) /\ (forall q, oe = Some (Continue q) -> q = p).
Proof.
  intros s tos line pos s1 toks oe p H L CS. unfold fs_text in H.
  destruct (negb (in_expr tos)).
  2:{ inversion H; subst. repeat split; try reflexivity; try assumption; intros; discriminate. }
  destruct (find_fstring_string C (fstack s) tos line (lnum s) pos) as [[[string pos'] tos']|] eqn:FF; [|discriminate].
  destruct (ffs_spec _ _ _ _ _ _ _ _ FF) as (s0 & F & D).
  unfold pend. rewrite CS. destruct string as [|x string].
  - (* nothing to emit *)
    assert (E: addp s ++ fpend (upd_top (fstack s) tos') ++ from line pos' = (addp s ++ fpend (fstack s)) ++ from line pos).
    { rewrite (fpend_upd_top _ tos' tos L), (fpend_last _ tos L), F.
      destruct D as [[_ D]|[D1 D2]].
      - rewrite D. rewrite <- !app_assoc. reflexivity.
      - symmetry in D1. apply app_eq_nil in D1 as [D1 D3]. subst s0. rewrite D2. rewrite <- !app_assoc. reflexivity. }
    destruct (pos' =? max_ s) eqn:PM; inversion H; subst; cbn [contstr upd_f addp fstack max_ lnum];
      rewrite CS; (split; [rewrite <- app_assoc; exact E|]); repeat split; try reflexivity; try (intros; discriminate).
    intros _. apply N.eqb_eq. exact PM.
  - destruct (is_nil (addp s) && no_pending (removelast (fstack s))) eqn:G; [|discriminate].
    apply andb_true_iff in G as [G1 G2]. inversion H; subst. clear H.
    cbn [contstr upd_f addp fstack max_ lnum]. rewrite CS.
    destruct (addp s) eqn:AP; [|discriminate]. apply no_pending_fpend in G2.
    split; [|repeat split; try reflexivity; try (intros; discriminate); intros q Hq; inversion Hq; reflexivity].
    rewrite emit_one. cbn [tpre ts]. rewrite (fpend_upd_top _ _ tos L), (fpend_last _ tos L), G2. cbn [prev_lines].
    destruct D as [[D _]|[D _]]; [discriminate|]. rewrite D, F. simpl. rewrite ?app_nil_r, <- ?app_assoc. reflexivity.
Qed.

Lemma fs_part_tiles : forall s line pos s1 toks oe p,
  fs_part C isspace s line pos = Ok (s1, toks, oe, p) -> contstr s = [] ->
  emit toks ++ pend s1 ++ from line p = pend s ++ from line pos /\ contstr s1 = [] /\ max_ s1 = max_ s /\ lnum s1 = lnum s /\
  (oe = Some Break -> p = max_ s) /\ (forall q, oe = Some (Continue q) -> q = p).
Proof.
  intros s line pos s1 toks oe p H CS. unfold fs_part in H.
  destruct (last_opt (fstack s)) as [tos|] eqn:L.
  2:{ inversion H; subst. repeat split; try reflexivity; try assumption; intros; discriminate. }
  destruct (fs_text C s tos line pos) as [[[[s1' toks'] oe'] p']|] eqn:FT; [|discriminate].
  destruct (fs_text_tiles _ _ _ _ _ _ _ _ FT L CS) as (E & C1 & M1 & L1 & B1 & Q1).
  destruct oe' as [e|].
  - inversion H; subst. repeat split; assumption.
  - destruct (close_fstring isspace [] (fstack s1') (from line p') (lnum s1') p' (addp s1')) as [[[[tok qlen] remaining]|]|] eqn:CL; [| |discriminate].
    + inversion H; subst. clear H.
      destruct (close_spec _ _ _ _ _ _ _ _ _ CL) as (X1 & X2 & X3). simpl in X2.
      split; [|repeat split; cbn [contstr upd_addp upd_f max_ lnum]; try assumption; try (intros; discriminate); intros q Hq; inversion Hq; reflexivity].
      unfold pend at 1. cbn [contstr upd_addp upd_f addp fstack]. rewrite C1, X3. simpl.
      rewrite emit_app, emit_one. fold (emit1 tok). rewrite <- E. unfold pend at 1. rewrite C1, X2, app_nil_r.
      rewrite from_from in X1. rewrite <- !app_assoc. f_equal. exact X1.
    + inversion H; subst. repeat split; try assumption; intros; discriminate.
Qed.

Hypothesis shape : shape12 (pseudo C) = true.

Definition tail_of (line : str) (le : loop_end) : str := match le with Continue p => from line p | Break => [] end.
(* while a string continues over lines nothing else is pending *)
Definition CInv (s : st) : Prop := contstr s <> [] -> addp s = [] /\ fpend (fstack s) = [].

Lemma pm_info_spec : forall s1 line pos pfx a2 b2 token has3 start initial,
  pm_info C s1 line pos = Ok (Some (pfx, a2, b2, token, has3), start, initial) ->
  exists ws, pfx = addp s1 ++ ws /\ from line pos = ws ++ from line a2 /\ from line a2 = token ++ from line b2 /\
             start = a2 /\ token = sub line a2 b2 /\ a2 <= b2 /\ initial = match token with c :: _ => c | [] => 0 end.
Proof.
  intros s1 line pos pfx a2 b2 token has3 start initial H. unfold pm_info in H.
  match type of H with context [match ?sl with Ok _ => _ | Err _ => _ end] => destruct sl as [slen|]; [|discriminate] end.
  destruct (rmatch_at (pseudo C) (upto line slen) pos) as [[e cs]|] eqn:M.
  - destruct (shape12_spans _ _ _ _ _ shape M) as (j & G1 & G2 & L1 & L2). rewrite G1, G2 in H.
    exists (sub line pos j). pose proof (sub_from line pos j L1) as S1. pose proof (sub_from line j e L2) as S2.
    inversion H; subst. repeat split; try reflexivity; try assumption.
  - destruct (rmatch_at (whitespace C) line pos) as [[e cs]|]; [|discriminate]. destruct (nth_error line (N.to_nat e)); discriminate.
Qed.

Lemma indent_part_spec : forall s2 is_pm initial start spos s3 toks2,
  indent_part s2 is_pm initial start spos = Ok (s3, toks2) ->
  emit toks2 = [] /\ contstr s3 = contstr s2 /\ addp s3 = addp s2 /\ fstack s3 = fstack s2 /\ max_ s3 = max_ s2 /\ prefix s3 = prefix s2 /\ lnum s3 = lnum s2.
Proof.
  intros s2 is_pm initial start spos s3 toks2 H. unfold indent_part in H.
  destruct (new_line s2 && negb (chr_in initial [cr; nl; hash]) && (negb (initial =? bsl) || negb is_pm)).
  2:{ inversion H; subst. repeat split; reflexivity. }
  cbn [paren fstack indents] in H.
  destruct ((paren s2 =? 0) && match fstack s2 with [] => true | _ => false end).
  2:{ inversion H; subst. repeat split; reflexivity. }
  destruct (last_opt (indents s2)) as [top|]; [|discriminate].
  destruct (top <? start).
  - destruct (dedent_if_necessary start _ spos (indents s2 ++ [start])) as [[inds' t1]|] eqn:D; [|discriminate].
    inversion H; subst. apply dedent_emit in D. unfold emit in *. simpl. rewrite D. repeat split; reflexivity.
  - destruct (dedent_if_necessary start _ spos (indents s2)) as [[inds' t1]|] eqn:D; [|discriminate].
    inversion H; subst. apply dedent_emit in D. unfold emit in *. simpl. rewrite D. repeat split; reflexivity.
Qed.

Lemma error_token_tiles : forall s3 toks line pos spos s' out le,
  error_token C s3 toks line pos spos = Ok (s', out, le) -> contstr s3 = [] -> fpend (fstack s3) = [] ->
  emit out ++ pend s' ++ tail_of line le = emit toks ++ pend s3 ++ from line pos /\ max_ s' = max_ s3 /\ contstr s' = [] /\ le <> Break.
Proof.
  intros s3 toks line pos spos s' out le H CS FP. unfold error_token in H.
  destruct (rmatch_at (whitespace C) line pos) as [[e cs]|] eqn:M; [|discriminate].
  match type of H with context [match ?dd with Ok _ => _ | Err _ => _ end] => destruct dd as [[inds t3]|] eqn:D; [|discriminate] end.
  destruct (nth_error line (N.to_nat e)) as [c|] eqn:NT; [|discriminate].
  inversion H; subst. clear H.
  assert (E3: emit t3 = []).
  { destruct (new_line s3 && (paren s3 =? 0) && match fstack s3 with [] => true | _ => false end); [eapply dedent_emit; exact D|inversion D; reflexivity]. }
  unfold pend. cbn [contstr addp fstack max_]. rewrite CS, FP. cbn [tail_of].
  rewrite !emit_app, E3, emit_one. cbn [tpre ts].
  pose proof (rmatch_ge_pos _ _ _ _ _ M) as GE.
  rewrite (sub_from line pos e GE), (from_nth line e c NT).
  repeat split; try reflexivity; try discriminate. simpl. rewrite <- !app_assoc. simpl. reflexivity.
Qed.

Lemma fpend_upd_same fs f f' : last_opt fs = Some f -> prev_lines f' = prev_lines f -> fpend (upd_top fs f') = fpend fs.
Proof. intros L E. rewrite (fpend_upd_top _ _ f L), (fpend_last _ f L), E. reflexivity. Qed.

Lemma colon_head token r : starts_with [colon] token = true -> token = colon :: r -> True.
Proof. trivial. Qed.

Lemma starts_with_head c token : starts_with [c] token = true -> exists r, token = c :: r.
Proof. intros H. apply starts_with_app in H as (r & ->). exists r. reflexivity. Qed.

Lemma finish4 (P : Prop) (s' s3 : st) (le : loop_end) : P -> max_ s' = max_ s3 -> contstr s' = [] ->
  P /\ max_ s' = max_ s3 /\ (le <> Break -> contstr s' = []) /\ CInv s'.
Proof. intros p m c. split; [exact p|]. split; [exact m|]. split; [intros _; exact c|]. intros X. rewrite c in X. contradiction. Qed.

Ltac lists := repeat rewrite <- app_assoc; repeat rewrite app_nil_r; cbn [app]; repeat rewrite <- app_assoc; repeat rewrite app_nil_r; try reflexivity.

Ltac norm_state :=
  unfold pend; cbn [contstr addp fstack max_ prefix upd_f upd_addp contstr_start endprog new_line paren indents lnum tail_of].

Lemma classify_tiles : forall s3 toks line pfx start epos token has3 initial spos s' out le,
  classify C isident s3 toks line pfx start epos token has3 initial spos = Ok (s', out, le) ->
  contstr s3 = [] -> addp s3 = [] -> prefix s3 = pfx -> fpend (fstack s3) = [] ->
  from line start = token ++ from line epos -> token = sub line start epos -> start <= epos ->
  token <> [] -> initial = match token with c :: _ => c | [] => 0 end ->
  emit out ++ pend s' ++ tail_of line le = emit toks ++ pfx ++ from line start /\ max_ s' = max_ s3 /\
  (le <> Break -> contstr s' = []) /\ CInv s'.
Proof.
  intros s3 toks line pfx start epos token has3 initial spos s' out le H CS AP PF FP FR TK LE NE IN.
  unfold classify in H.
  (* a token emitted with prefix pfx and string token, continuing at epos *)
  assert (STD: forall t st0, contstr st0 = [] -> addp st0 = [] -> fpend (fstack st0) = [] -> max_ st0 = max_ s3 ->
     emit (toks ++ [mkTok t token (fst spos) (snd spos) pfx]) ++ pend st0 ++ tail_of line (Continue epos) = emit toks ++ pfx ++ from line start /\
     max_ st0 = max_ s3 /\ (Continue epos <> Break -> contstr st0 = []) /\ CInv st0).
  { intros t st0 c0 a0 f0 m0. apply finish4; [|exact m0|exact c0].
    unfold pend. rewrite c0, a0, f0. cbn [tail_of]. rewrite emit_app, emit_one. cbn [tpre ts].
    rewrite FR. lists. }
  destruct (chr_in initial digits || ((initial =? dot) && negb (str_eqb token [dot]) && negb (str_eqb token [dot; dot; dot]))).
  { inversion H; subst. apply STD; auto. }
  destruct has3.
  { (* names and keywords *)
    match type of H with context [match ?brk with Ok _ => _ | Err _ => _ end] => destruct brk as [[s4 t4]|] eqn:BRK; [|discriminate] end.
    assert (B: emit t4 = [] /\ contstr s4 = [] /\ addp s4 = [] /\ fpend (fstack s4) = [] /\ max_ s4 = max_ s3).
    { destruct (mem_str token (always_break C) && (negb match fstack s3 with [] => true | _ => false end || negb (paren s3 =? 0))).
      - destruct (rmatch_at (ws_dollar C) (upto line start) 0) as [[e cs]|].
        + destruct (dedent_if_necessary e _ spos _) as [[inds t]|] eqn:D; [|discriminate]. inversion BRK; subst.
          apply dedent_emit in D. repeat split; try assumption; reflexivity.
        + inversion BRK; subst. repeat split; try assumption; reflexivity.
      - inversion BRK; subst. repeat split; try assumption; reflexivity. }
    destruct B as (B1 & B2 & B3 & B4 & B5).
    destruct (isident token).
    - inversion H; subst. apply finish4; [|exact B5|exact B2].
      unfold pend. rewrite B2, B3, B4. cbn [tail_of]. rewrite !emit_app, B1, emit_one. cbn [tpre ts].
      rewrite FR. lists.
    - inversion H; subst. apply finish4; [|exact B5|exact B2].
      unfold pend. rewrite B2, B3, B4. cbn [tail_of]. rewrite !emit_app, B1.
      rewrite split_illegal_emit by (left; exact NE).
      rewrite FR. lists. }
  destruct (chr_in initial [cr; nl]).
  { (* newline *)
    set (fs := if existsb (fun f => negb (allow_multiline f)) (fstack s3) then [] else fstack s3) in *.
    assert (FS: fpend fs = []) by (unfold fs; destruct (existsb _ (fstack s3)); [reflexivity|exact FP]).
    destruct (negb (new_line s3) && (paren s3 =? 0) && match fs with [] => true | _ => false end).
    - inversion H; subst. apply STD; auto.
    - inversion H; subst. apply finish4; [|reflexivity|exact CS].
      norm_state. rewrite CS, FS. rewrite FR. lists. }
  destruct (initial =? hash) eqn:IH.
  { destruct (match last_opt (fstack s3) with Some f => in_expr f | None => false end).
    - (* '#' inside an f-string expression: one error token *)
      inversion H; subst. apply finish4; [|reflexivity|exact CS].
      norm_state. rewrite CS, AP, FP. rewrite emit_app, emit_one. cbn [tpre ts].
      destruct (sub line start epos) as [|c r] eqn:TK; [contradiction|].
      pose proof (sub_head line start epos c r TK) as NT. rewrite (from_nth line start c NT).
      lists.
    - inversion H; subst. apply finish4; [|reflexivity|exact CS].
      norm_state. rewrite CS, FP. rewrite FR. lists. }
  destruct (mem_str token (triple_quoted C)).
  { destruct (endpat C token) as [r|]; [|discriminate].
    destruct (rmatch_at r line epos) as [[e cs]|] eqn:M.
    - inversion H; subst. apply finish4; [|reflexivity|exact CS].
      norm_state. rewrite CS, AP, FP. rewrite emit_app, emit_one. cbn [tpre ts].
      pose proof (rmatch_ge_pos _ _ _ _ _ M) as GE.
      rewrite (sub_from line start e) by lia. lists.
    - inversion H; subst.
      assert (NEf: from line start <> []) by (rewrite FR; destruct (sub line start epos); [contradiction|discriminate]).
      split; [|split; [reflexivity|split; [intros X; contradiction|]]].
      + norm_state. destruct (from line start) eqn:FS0; [contradiction|]. rewrite FP. lists.
      + intros _. cbn [addp fstack]. split; [exact AP|exact FP]. }
  destruct (mem_str [initial] (single_quoted C) || mem_str (upto token 2) (single_quoted C) || mem_str (upto token 3) (single_quoted C)).
  { destruct (match last_chr token with Some c => chr_in c [cr; nl] | None => false end).
    - inversion H; subst.
      assert (NEf: from line start <> []) by (rewrite FR; destruct (sub line start epos); [contradiction|discriminate]).
      split; [|split; [reflexivity|split; [intros X; contradiction|]]].
      + norm_state. destruct (from line start) eqn:FS0; [contradiction|]. rewrite FP. lists.
      + intros _. cbn [addp fstack]. split; [exact AP|exact FP].
    - inversion H; subst. apply STD; auto. }
  destruct (assoc token (fstring_map C)) as [q|].
  { inversion H; subst. apply STD; auto. cbn [upd_f fstack]. rewrite fpend_app, FP, fpend_one. reflexivity. }
  destruct ((initial =? bsl) && (str_eqb (from line start) [bsl; nl] || str_eqb (from line start) [bsl; cr; nl] || str_eqb (from line start) [bsl; cr])).
  { inversion H; subst. apply finish4; [|reflexivity|exact CS].
    norm_state. rewrite CS, AP, FP. lists. }
  destruct (last_opt (fstack s3)) as [f|] eqn:LO.
  - destruct (is_substr token [40; 91; 123]).
    { inversion H; subst. apply STD; auto. cbn [upd_f fstack]. rewrite (fpend_upd_same _ f _ LO) by reflexivity. exact FP. }
    destruct (is_substr token [41; 93; 125]).
    { inversion H; subst. apply STD; auto. cbn [upd_f fstack]. rewrite (fpend_upd_same _ f _ LO); [exact FP|]. destruct ((parens f - 1 =? 0)%Z); [reflexivity|]. destruct ((parens f - 1 <? spec_count f)%Z); reflexivity. }
    destruct (starts_with [colon] token && (parens f - spec_count f =? 1)%Z) eqn:CO.
    + apply andb_true_iff in CO as [CO _]. apply starts_with_head in CO as (r & Hr).
      inversion H; subst. apply finish4; [|reflexivity|exact CS].
      norm_state. rewrite CS, AP. rewrite (fpend_upd_same _ f _ LO) by reflexivity. rewrite FP.
      rewrite emit_app, emit_one. cbn [tpre ts].
      pose proof (sub_head line start epos colon r (eq_sym TK)) as NT. rewrite (from_nth line start colon NT).
      lists.
    + inversion H; subst. apply STD; auto.
  - destruct (is_substr token [40; 91; 123]); [inversion H; subst; apply STD; auto|].
    destruct (is_substr token [41; 93; 125]); inversion H; subst; apply STD; auto.
Qed.

Lemma body_tiles : forall s line pos s' toks le,
  body s line pos = Ok (s', toks, le) -> contstr s = [] -> max_ s = len line ->
  emit toks ++ pend s' ++ tail_of line le = pend s ++ from line pos /\ max_ s' = max_ s /\ (le <> Break -> contstr s' = []) /\ CInv s'.
Proof.
  intros s line pos s' toks le H CS MX. unfold Tok.body in H.
  destruct (fs_part C isspace s line pos) as [[[[s1 toks1] oe] p]|] eqn:FS; [|discriminate].
  destruct (fs_part_tiles _ _ _ _ _ _ _ FS CS) as (E1 & C1 & M1 & L1 & B1 & Q1).
  destruct oe as [e|].
  { inversion H; subst. apply finish4; [|exact M1|exact C1].
    destruct le as [q|]; cbn [tail_of].
    - rewrite (Q1 q eq_refl). exact E1.
    - rewrite (B1 eq_refl), MX in E1. rewrite from_ge in E1 by lia. exact E1. }
  destruct (negb (no_pending (fstack s1))) eqn:G9; [discriminate|]. apply negb_false_iff in G9. apply no_pending_fpend in G9.
  destruct (pm_info C s1 line p) as [[[pmi start] initial]|] eqn:PM; [|discriminate].
  assert (P1: pend s1 = addp s1) by (unfold pend; rewrite C1, G9, app_nil_r; reflexivity).
  destruct pmi as [[[[[pfx a2] epos] token] has3]|].
  - destruct (pm_info_spec _ _ _ _ _ _ _ _ _ _ PM) as (ws & Hp & F1 & F2 & Hs & Ht & Hle & Hi).
    destruct token as [|c tk].
    + (* only white space / comments left on the line *)
      destruct pfx as [|x pfx']; [discriminate|].
      destruct (epos =? len line) eqn:G8; [|discriminate]. apply N.eqb_eq in G8.
      inversion H; subst s' toks le. clear H.
      split; [|split; [exact M1|split; [intros X; contradiction|intros X; cbn [contstr] in X; rewrite C1 in X; contradiction]]].
      unfold pend at 1. cbn [contstr addp fstack tail_of]. rewrite C1, G9. rewrite <- E1, P1.
      simpl in F2. rewrite F2, G8 in F1. rewrite (from_ge line (len line)) in F1 by lia.
      rewrite F1, Hp. lists.
    + set (s2 := mkSt (paren s1) (indents s1) (contstr s1) (contstr_start s1) (endprog s1) (new_line s1) pfx [] (fstack s1) (lnum s1) (max_ s1)) in *.
      destruct (indent_part s2 true initial start (lnum s2, start)) as [[s3 toks2]|] eqn:IP; [|discriminate].
      destruct (indent_part_spec _ _ _ _ _ _ _ IP) as (I1 & I2 & I3 & I4 & I5 & I6 & I7).
      assert (CT: classify C isident s3 (toks1 ++ toks2) line pfx start epos (c :: tk) has3 initial (lnum s2, start) = Ok (s', toks, le)) by exact H.
      subst start.
      destruct (classify_tiles _ _ _ _ _ _ _ _ _ _ _ _ _ CT) as (X1 & X2 & X3 & X4);
        [rewrite I2; exact C1|rewrite I3; reflexivity|rewrite I6; reflexivity|rewrite I4; exact G9|exact F2|exact Ht|exact Hle|discriminate|exact Hi|].
      split; [|split; [rewrite X2, I5; exact M1|split; [exact X3|exact X4]]].
      rewrite X1, emit_app, I1, app_nil_r. rewrite <- E1, P1, F1, Hp. lists.
  - (* no pseudo match: error token *)
    destruct (indent_part s1 false initial start (lnum s1, start)) as [[s3 toks2]|] eqn:IP; [|discriminate].
    destruct (indent_part_spec _ _ _ _ _ _ _ IP) as (I1 & I2 & I3 & I4 & I5 & I6 & I7).
    assert (ET: error_token C s3 (toks1 ++ toks2) line p (lnum s1, start) = Ok (s', toks, le)) by exact H.
    destruct (error_token_tiles _ _ _ _ _ _ _ _ ET) as (X1 & X2 & X3 & X4); [rewrite I2; exact C1|rewrite I4; exact G9|].
    split; [|split; [rewrite X2, I5; exact M1|split; [intros _; exact X3|intros X; rewrite X3 in X; contradiction]]].
    rewrite X1, emit_app, I1, app_nil_r. rewrite <- E1.
    assert (P3: pend s3 = pend s1) by (unfold pend; rewrite I2, I3, I4, I6; reflexivity).
    rewrite P3. lists.
Qed.

Notation scan := (scan C isident isspace).
Notation line_step := (line_step C isident isspace).
Notation lines_loop := (lines_loop C isident isspace).

Lemma CInv_nil s : contstr s = [] -> CInv s.
Proof. intros c X. rewrite c in X. contradiction. Qed.

Lemma scan_tiles : forall fuel s line pos acc s' out,
  scan fuel s line pos acc = Ok (s', out) -> contstr s = [] -> max_ s = len line ->
  emit out ++ pend s' = emit acc ++ pend s ++ from line pos /\ CInv s' /\ max_ s' = max_ s.
Proof.
  induction fuel as [|f IH]; intros s line pos acc s' out H CS MX; [discriminate|]. cbn [Tok.scan] in H.
  destruct (pos <? max_ s) eqn:LT.
  - destruct (body s line pos) as [[[s1 toks] le]|] eqn:B; [|discriminate].
    destruct (body_tiles _ _ _ _ _ _ B CS MX) as (E & M & CC & CI).
    destruct le as [pos'|].
    + destruct (IH _ _ _ _ _ _ H (CC ltac:(discriminate)) ltac:(rewrite M; exact MX)) as (E2 & CI2 & M2).
      split; [|split; [exact CI2|rewrite M2; exact M]].
      rewrite E2, emit_app. cbn [tail_of] in E. rewrite <- E. lists.
    + inversion H; subst. split; [|split; [exact CI|exact M]].
      rewrite emit_app. cbn [tail_of] in E. rewrite app_nil_r in E. rewrite <- E. lists.
  - inversion H; subst. apply N.ltb_ge in LT. rewrite from_ge by lia. rewrite app_nil_r.
    split; [reflexivity|split; [apply CInv_nil; exact CS|reflexivity]].
Qed.

Lemma line_core_tiles : forall sB line s' toks,
  line_core C isident isspace sB line 0 = Ok (s', toks) -> CInv sB -> max_ sB = len line ->
  emit toks ++ pend s' = pend sB ++ line /\ CInv s'.
Proof.
  intros sB line s' toks H NB7 NB5. unfold line_core in H.
  destruct (contstr sB) as [|cc ct] eqn:CB.
  - destruct (scan_tiles _ _ _ _ _ _ _ H CB NB5) as (E & CI2 & _).
    split; [|exact CI2]. rewrite E. rewrite emit_nil. reflexivity.
  - destruct (endprog sB) as [r|]; [|discriminate].
    destruct (NB7 ltac:(rewrite CB; discriminate)) as [A0 F0].
    destruct (rmatch_at r line 0) as [[e cs]|] eqn:M.
    + destruct (scan_tiles _ _ _ _ _ _ _ H eq_refl NB5) as (E & CI2 & _).
      split; [|exact CI2]. rewrite E, emit_one. cbn [tpre ts].
      unfold pend. cbn [contstr addp fstack]. rewrite CB, A0, F0.
      pose proof (from_upto line e) as FU. set (u := upto line e) in *. set (v := from line e) in *. rewrite <- FU. lists.
    + inversion H; subst. split.
      * unfold pend. cbn [contstr prefix fstack]. rewrite CB, F0. simpl. lists.
      * intros _. cbn [addp fstack]. split; assumption.
Qed.

Lemma line_step_tiles : forall s line0 first s' toks,
  line_step s line0 first 0 = Ok (s', toks) -> CInv s ->
  (first = true -> contstr s = [] /\ addp s = [] /\ fpend (fstack s) = []) ->
  emit toks ++ pend s' = pend s ++ line0 /\ CInv s'.
Proof.
  intros s line0 first s' toks H CI FI. unfold Tok.line_step in H.
  set (sA := mkSt (paren s) (indents s) (contstr s) (contstr_start s) (endprog s) (new_line s) (prefix s) (addp s) (fstack s) (lnum s + 1) (len line0)) in *.
  destruct first.
  - destruct (FI eq_refl) as (F1 & F2 & F3).
    assert (CIx: forall a m, CInv (mkSt (paren sA) (indents sA) (contstr sA) (contstr_start sA) (endprog sA) (new_line sA) (prefix sA) a (fstack sA) (lnum sA) m)).
    { intros a m X. cbn [contstr] in X. unfold sA in X. cbn [contstr] in X. rewrite F1 in X. contradiction. }
    destruct line0 as [|c t].
    + cbn [repeat N.to_nat app] in H. apply line_core_tiles in H; [|apply CIx|reflexivity]. exact H.
    + destruct (c =? bom) eqn:BM.
      * apply N.eqb_eq in BM. subst c. cbn [repeat N.to_nat app upd_addp paren indents contstr contstr_start endprog new_line prefix addp fstack lnum] in H.
        apply line_core_tiles in H; [|apply CIx|cbn [max_]; lia].
        destruct H as [E X]. split; [|exact X]. rewrite E.
        unfold pend. cbn [contstr addp fstack]. unfold sA. cbn [contstr addp fstack]. rewrite F1, F2, F3. reflexivity.
      * cbn [repeat N.to_nat app] in H. apply line_core_tiles in H; [|apply CIx|cbn [max_]; lia]. exact H.
  - apply line_core_tiles in H; [exact H|exact CI|reflexivity].
Qed.

Lemma lines_loop_tiles : forall lines s first acc s' out,
  lines_loop s lines first 0 acc = Ok (s', out) -> CInv s ->
  (first = true -> contstr s = [] /\ addp s = [] /\ fpend (fstack s) = []) ->
  emit out ++ pend s' = emit acc ++ pend s ++ concat lines /\ CInv s'.
Proof.
  induction lines as [|l rest IH]; intros s first acc s' out H CI FI; cbn [Tok.lines_loop] in H.
  - inversion H; subst. simpl. rewrite app_nil_r. split; [reflexivity|exact CI].
  - destruct (line_step s l first 0) as [[s1 toks]|] eqn:LS; [|discriminate].
    destruct (line_step_tiles _ _ _ _ _ LS CI FI) as (E1 & CI1).
    destruct (IH _ _ _ _ _ H CI1 ltac:(discriminate)) as (E2 & CI2).
    split; [|exact CI2]. rewrite E2, emit_app. cbn [concat]. rewrite (app_assoc (pend s) l), <- E1. lists.
Qed.

(* ---------- the theorem ---------- *)
Theorem tok_tiles : forall lines inds sl first toks,
  tokenize_lines C isident isspace lines inds sl 0 first = Ok toks -> emit toks = concat lines.
Proof.
  intros lines inds sl first toks H. unfold tokenize_lines in H.
  set (s0 := mkSt 0 inds [] (0, 0) None true [] [] [] (sl - 1) 0) in *.
  destruct (lines_loop s0 lines first 0 []) as [[s out]|] eqn:LL; [|discriminate].
  destruct (lines_loop_tiles _ _ _ _ _ _ LL (CInv_nil s0 eq_refl) (fun _ => conj eq_refl (conj eq_refl eq_refl))) as (E & CI).
  simpl in E. rewrite <- E. clear E LL.
  match type of H with (if ?g then _ else _) = _ => destruct g eqn:G7; [|discriminate] end.
  inversion H; subst toks. clear H.
  apply andb_true_iff in G7 as [G7a G7b]. apply no_pending_fpend in G7a.
  rewrite !emit_app, emit_one. cbn [tpre ts].
  assert (D: emit (map (fun _ => mkTok DEDENT [] (lnum s) (max_ s) []) (tl (indents s))) = []).
  { induction (tl (indents s)) as [|x r IHr]; [reflexivity|]. unfold emit in *. simpl. exact IHr. }
  rewrite D. unfold pend.
  destruct (contstr s) as [|cc ct] eqn:CS.
  - (* no open string *)
    rewrite emit_nil. destruct (last_opt (fstack s)) as [f|] eqn:LO.
    + rewrite (fpend_last _ f LO), G7a. destruct (prev_lines f) as [|y pl] eqn:PL.
      * rewrite emit_nil. lists.
      * destruct (addp s) eqn:AP; [|discriminate]. rewrite emit_one. cbn [tpre ts]. lists.
    + rewrite (last_opt_none _ LO). rewrite emit_nil. lists.
  - destruct (CI ltac:(rewrite CS; discriminate)) as [A0 F0]. rewrite emit_one. cbn [tpre ts]. rewrite A0, F0.
    destruct (last_opt (fstack s)) as [f|] eqn:LO.
    + rewrite (fpend_last _ f LO) in F0. apply app_eq_nil in F0 as [_ F0]. rewrite F0. rewrite emit_nil. lists.
    + rewrite emit_nil. lists.
Qed.
End Tiles.
Print Assumptions tok_tiles.
