From Coq Require Import List Arith Bool Lia.
Import ListNotations.

(* One file, one grammar, one cache directory: the freshness protocol of
   Grammar.parse / load_module / _load_from_file_system / try_to_save_module,
   with the parse split at its real I/O points and the environment writing the file
   in between.  Version k of the file has modification time mt k. *)
Section Cache.
Variable mt : nat -> nat.
Hypothesis mt_mono : forall a b, a < b -> mt a < mt b.

Record state := mkS { cur : nat;                              (* current version of the file *)
                      mem : option (nat * nat);               (* (version parsed, change_time) *)
                      disk : option (nat * nat * nat) }.      (* (version, change_time, pickle mtime) *)

Definition writes (n : nat) (s : state) : state := mkS (cur s + n) (mem s) (disk s).

(* fixA: record an mtime sampled BEFORE the read (Grammar.parse stats again right before file_io.read());
   fixB: judge a disk entry by the time recorded in it as well *)
Definition full_parse (fixA : bool) (p1 : nat) (w2 w3 : nat) (s : state) : state * nat :=
  let p1' := mt (cur s) in                            (* file_io.get_last_modified() before the read *)
  let s := writes w2 s in
  let v := cur s in                                   (* file_io.read() *)
  let s := writes w3 s in
  let p2 := mt (cur s) in                             (* file_io.get_last_modified() in try_to_save_module *)
  let ct := if fixA then p1' else p2 in
  (mkS (cur s) (Some (v, ct)) (Some (v, ct, mt (cur s))), v).

Definition parse (fixA fixB : bool) (w1 w2 w3 : nat) (s : state) : state * nat :=
  let p1 := mt (cur s) in                             (* load_module: get_last_modified() *)
  let s := writes w1 s in
  match mem s with
  | Some (v, ct) => if p1 <=? ct then (s, v) else full_parse fixA p1 w2 w3 s
  | None =>
    match disk s with
    | Some (v, ct, pm) =>
      if pm <? p1 then full_parse fixA p1 w2 w3 s
      else if fixB && (ct <? p1) then full_parse fixA p1 w2 w3 s
      else (mkS (cur s) (Some (v, ct)) (disk s), v)
    | None => full_parse fixA p1 w2 w3 s
    end
  end.

Inductive op := Parse (w1 w2 w3 : nat) | Write | DropMemory | DeleteDisk.

Definition step (fixA fixB : bool) (s : state) (o : op) : state * option (nat * nat) :=
  match o with
  | Parse w1 w2 w3 => let '(s', v) := parse fixA fixB w1 w2 w3 s in (s', Some (cur s, v))
  | Write => (writes 1 s, None)
  | DropMemory => (mkS (cur s) None (disk s), None)
  | DeleteDisk => (mkS (cur s) (mem s) None, None)
  end.

(* run a history; collect (version current when the parse started, version served) *)
Fixpoint run (fixA fixB : bool) (s : state) (h : list op) : list (nat * nat) :=
  match h with
  | [] => []
  | o :: r => let '(s', obs) := step fixA fixB s o in
              match obs with Some x => x :: run fixA fixB s' r | None => run fixA fixB s' r end
  end.

Definition not_stale (obs : list (nat * nat)) : Prop := forall c v, In (c, v) obs -> c <= v.

Definition entry_ok (s : state) (v ct : nat) : Prop := v <= cur s /\ exists u, u <= v /\ ct = mt u.
Definition Inv (s : state) : Prop :=
  (forall v ct, mem s = Some (v, ct) -> entry_ok s v ct) /\
  (forall v ct pm, disk s = Some (v, ct, pm) -> entry_ok s v ct).

Lemma mt_le a b : mt a <= mt b -> a <= b.
Proof. intros H. destruct (le_lt_dec a b) as [L|L]; [exact L|]. apply mt_mono in L. lia. Qed.

Lemma entry_ok_writes n s v ct : entry_ok s v ct -> entry_ok (writes n s) v ct.
Proof. intros [H1 H2]. split; [simpl; lia|exact H2]. Qed.
Lemma Inv_writes n s : Inv s -> Inv (writes n s).
Proof. intros [H1 H2]. split; intros; apply entry_ok_writes; [eapply H1|eapply H2]; eassumption. Qed.

Lemma full_parse_ok p1 c0 w2 w3 s s' v :
  p1 = mt c0 -> c0 <= cur s -> full_parse true p1 w2 w3 s = (s', v) -> Inv s' /\ c0 <= v.
Proof.
  intros -> Hc H. unfold full_parse in H. inversion H; subst; clear H. simpl.
  split; [|lia].
  split; simpl; intros v ct; [intros E|intros pm E]; inversion E; subst;
    (split; [simpl; lia|exists (cur s); split; [lia|reflexivity]]).
Qed.

Lemma parse_ok w1 w2 w3 s s' v :
  Inv s -> parse true true w1 w2 w3 s = (s', v) -> Inv s' /\ cur s <= v.
Proof.
  intros I H. unfold parse in H.
  pose proof (Inv_writes w1 s I) as I1. set (s1 := writes w1 s) in *.
  assert (C: cur s <= cur s1) by (simpl; lia).
  destruct (mem s1) as [[mv mct]|] eqn:M.
  - destruct (mt (cur s) <=? mct) eqn:T.
    + inversion H; subst. split; [exact I1|].
      destruct I1 as [I1 _]. destruct (I1 _ _ M) as [_ (u & Hu & ->)].
      apply Nat.leb_le in T. apply mt_le in T. lia.
    + eapply full_parse_ok; [reflexivity|exact C|exact H].
  - destruct (disk s1) as [[[dv dct] dpm]|] eqn:D; [|eapply full_parse_ok; [reflexivity|exact C|exact H]].
    destruct (dpm <? mt (cur s)); [eapply full_parse_ok; [reflexivity|exact C|exact H]|].
    simpl in H. destruct (dct <? mt (cur s)) eqn:T; [eapply full_parse_ok; [reflexivity|exact C|exact H]|].
    inversion H; subst. destruct I1 as [_ I1d]. pose proof (I1d _ _ _ D) as E.
    split.
    + split; simpl; [intros v' ct' X; inversion X; subst; exact E|intros v' ct' pm' X; inversion X; subst; exact E].
    + destruct E as [_ (u & Hu & ->)]. apply Nat.ltb_ge in T. apply mt_le in T. lia.
Qed.

Theorem cache_transparent_fixed : forall h s, Inv s -> not_stale (run true true s h).
Proof.
  induction h as [|o r IH]; intros s I c v Hin; simpl in Hin; [contradiction|].
  destruct o as [w1 w2 w3| | |]; simpl in Hin.
  - destruct (parse true true w1 w2 w3 s) as [s' v'] eqn:P.
    destruct (parse_ok _ _ _ _ _ _ I P) as [I' L].
    destruct Hin as [E|Hin]; [inversion E; subst; exact L|eapply IH; eassumption].
  - eapply IH; [|exact Hin]. apply Inv_writes. exact I.
  - eapply IH; [|exact Hin]. destruct I as [_ I2]. split; simpl; [discriminate|exact I2].
  - eapply IH; [|exact Hin]. destruct I as [I1 _]. split; simpl; [exact I1|discriminate].
Qed.
End Cache.

(* the code as it stands (fixA = fixB = false), and each single repair, serve a stale tree *)
Definition init := mkS 0 None None.
Example current_code_refuted :
  run S false false init [Parse 0 0 1; Parse 0 0 0] = [(0, 0); (1, 0)].
Proof. reflexivity. Qed.
Example fixA_alone_refuted :
  run S true false init [Parse 0 0 1; DropMemory; Parse 0 0 0] = [(0, 0); (1, 0)].
Proof. reflexivity. Qed.
Example fixB_alone_refuted :
  run S false true init [Parse 0 0 1; Parse 0 0 0] = [(0, 0); (1, 0)].
Proof. reflexivity. Qed.
Lemma init_inv : Inv S init. Proof. split; simpl; discriminate. Qed.
Print Assumptions cache_transparent_fixed.
