From Coq Require Import List NArith ZArith Bool.
Import ListNotations.
Require Import Regex Tok.
Open Scope N_scope.

Inductive label := LType (t : ttype) | LRes (id : N).
Definition ttype_eqb (a b : ttype) : bool :=
  match a, b with
  | STRING, STRING | NUMBER, NUMBER | NAME, NAME | ERRORTOKEN, ERRORTOKEN | NEWLINE, NEWLINE
  | INDENT, INDENT | DEDENT, DEDENT | ERROR_DEDENT, ERROR_DEDENT | FSTRING_STRING, FSTRING_STRING
  | FSTRING_START, FSTRING_START | FSTRING_END, FSTRING_END | OP, OP | ENDMARKER, ENDMARKER => true
  | _, _ => false end.
Definition label_eqb (a b : label) : bool :=
  match a, b with
  | LType x, LType y => ttype_eqb x y
  | LRes x, LRes y => x =? y
  | _, _ => false end.
Inductive sym := T (l : label) | NT (r : N).

(* automata as dumped from the running generator *)
Record dstate := mkD { d_id : N; d_rule : N; d_final : bool; d_arcs : list (sym * N) }.
Record plan := mkPlan { p_next : N; p_pushes : list N }.
Record gram := mkG {
  g_states : list dstate;
  g_start : list (N * N);                 (* rule -> start state *)
  g_reserved : list (str * N);
  r_file_input : N; r_suite : N; r_simple_stmt : N; r_stmt : N;
  r_funcdef : N; r_lambdef : N; r_lambdef_nocond : N; r_parameters : N;
  r_tfpdef : N; r_fpdef : N
}.

Fixpoint find_state (l : list dstate) (q : N) : option dstate :=
  match l with [] => None | d :: t => if d_id d =? q then Some d else find_state t q end.
Fixpoint assocN {A} (k : N) (l : list (N * A)) : option A :=
  match l with [] => None | (a, v) :: t => if a =? k then Some v else assocN k t end.
Fixpoint assocL {A} (k : label) (l : list (label * A)) : option A :=
  match l with [] => None | (a, v) :: t => if label_eqb a k then Some v else assocL k t end.

(* ---------- model of _calculate_first_plans / _calculate_tree_traversal ---------- *)
Inductive gen_err := LeftRecursion (r : N) | Ambiguous (q : N) | Missing | GenFuel.
Inductive gres (A : Type) := GOk (a : A) | GErr (e : gen_err).
Arguments GOk {A}. Arguments GErr {A}.

Section Gen.
Variable G : gram.
Definition state_of (q : N) := find_state (g_states G) q.

(* first_plans of rule r: list (label * push chain); `visiting` detects left recursion *)
Fixpoint first_plans (fuel : nat) (visiting : list N) (r : N) : gres (list (label * list N)) :=
  match fuel with
  | O => GErr GenFuel
  | S f =>
    if existsb (N.eqb r) visiting then GErr (LeftRecursion r) else
    match assocN r (g_start G) with
    | None => GErr Missing
    | Some q0 =>
      match state_of q0 with
      | None => GErr Missing
      | Some d =>
        let terms := flat_map (fun '(s, nx) => match s with T l => [(l, [nx])] | NT _ => [] end) (d_arcs d) in
        (fix go (arcs : list (sym * N)) (acc : list (label * list N)) : gres (list (label * list N)) :=
           match arcs with
           | [] => GOk acc
           | (T _, _) :: rest => go rest acc
           | (NT r2, nx) :: rest =>
             match first_plans f (r :: visiting) r2 with
             | GErr e => GErr e
             | GOk fp2 =>
               (* dict update: later entries overwrite earlier ones with the same key *)
               let upd := fold_left (fun a '(l, ch) =>
                             (filter (fun '(l', _) => negb (label_eqb l l')) a) ++ [(l, nx :: ch)]) fp2 acc in
               go rest upd
             end
           end) (d_arcs d) terms
      end
    end
  end.

Definition transitions_of (fuel : nat) (d : dstate) : gres (list (label * plan)) :=
  let direct := flat_map (fun '(s, nx) => match s with T l => [(l, mkPlan nx [])] | NT _ => [] end) (d_arcs d) in
  (fix go (arcs : list (sym * N)) (acc : list (label * plan)) : gres (list (label * plan)) :=
     match arcs with
     | [] => GOk acc
     | (T _, _) :: rest => go rest acc
     | (NT r, nx) :: rest =>
       match first_plans fuel [] r with
       | GErr e => GErr e
       | GOk fp =>
         (fix add (l : list (label * list N)) (acc : list (label * plan)) : gres (list (label * plan)) :=
            match l with
            | [] => go rest acc
            | (lb, ch) :: t =>
              match assocL lb acc with
              | Some _ => GErr (Ambiguous (d_id d))
              | None => add t (acc ++ [(lb, mkPlan nx ch)])
              end
            end) fp acc
       end
     end) (d_arcs d) direct.

Fixpoint all_transitions (fuel : nat) (l : list dstate) : gres (list (N * list (label * plan))) :=
  match l with
  | [] => GOk []
  | d :: t =>
    match transitions_of fuel d with
    | GErr e => GErr e
    | GOk tr => match all_transitions fuel t with GErr e => GErr e | GOk r => GOk ((d_id d, tr) :: r) end
    end
  end.
End Gen.

(* ---------- trees ---------- *)
Inductive leafkind := KName | KKeyword | KOperator | KNumber | KString | KNewline | KEndMarker
                    | KFStringString | KFStringStart | KFStringEnd | KErrorLeaf (t : ttype).
Inductive nodekind := KRule (r : N) | KErrorNode | KParam.
Inductive tree :=
| Leaf (k : leafkind) (value prefix : str) (line col : N)
| Node (k : nodekind) (children : list tree).

Fixpoint last_leaf_value (t : tree) : option str :=
  match t with
  | Leaf _ v _ _ _ => Some v
  | Node _ cs => (fix go (l : list tree) : option str :=
                    match l with [] => None | [x] => last_leaf_value x | _ :: r => go r end) cs
  end.

Definition is_op (t : tree) (v : str) : bool :=
  match t with Leaf KOperator x _ _ _ => str_eqb x v | Leaf KKeyword x _ _ _ => str_eqb x v | _ => false end.
Definition node_rule (t : tree) : option N := match t with Node (KRule r) _ => Some r | _ => None end.
Definition is_name (t : tree) : bool := match t with Leaf KName _ _ _ _ => true | _ => false end.
Definition is_param (t : tree) : bool := match t with Node KParam _ => true | _ => false end.

(* the text of a tree: prefix ++ value of its leaves in order (NodeOrLeaf.get_code) *)
Fixpoint tcode (t : tree) : str :=
  match t with
  | Leaf _ v p _ _ => p ++ v
  | Node _ cs => (fix go (l : list tree) : str := match l with [] => [] | c :: r => tcode c ++ go r end) cs
  end.
Definition is_nil_t (l : list tree) : bool := match l with [] => true | _ => false end.
Definition no_text (t : tree) : bool := match tcode t with [] => true | _ => false end.

(* no error node / error leaf inside *)
Fixpoint no_error (t : tree) : bool :=
  match t with
  | Leaf (KErrorLeaf _) _ _ _ _ => false
  | Leaf _ _ _ _ _ => true
  | Node KErrorNode _ => false
  | Node _ cs => (fix all (l : list tree) : bool := match l with [] => true | c :: r => no_error c && all r end) cs
  end.
(* what convert_node('suite') may drop: a subtree without text and without error marker (the INDENT / DEDENT leaves) *)
Definition blank (t : tree) : bool := no_text t && no_error t.

Inductive perr := IncompleteInput | TooMuchInput | PFuel | PAttr | PIndex | PGuard | SyntaxErr (t : Token).
Inductive pres (A : Type) := POk (a : A) | PErr (e : perr).
Arguments POk {A}. Arguments PErr {A}.

Section Parser.
Variable G : gram.
Variable TR : list (N * list (label * plan)).

Definition st_of (q : N) := find_state (g_states G) q.
Definition final (q : N) : bool := match st_of q with Some d => d_final d | None => false end.
Definition rule_of (q : N) : N := match st_of q with Some d => d_rule d | None => 0 end.
Definition trans (q : N) (l : label) : option plan :=
  match assocN q TR with Some tr => assocL l tr | None => None end.
Definition arc_nt (q : N) (r : N) : option N :=
  match st_of q with
  | Some d => (fix go (l : list (sym * N)) := match l with
                | [] => None | (NT r', nx) :: t => if r' =? r then Some nx else go t
                | _ :: t => go t end) (d_arcs d)
  | None => None end.

Definition token_label (t : Token) : label :=
  match ty t with
  | NAME | OP => match assoc (ts t) (g_reserved G) with Some id => LRes id | None => LType (ty t) end
  | x => LType x end.

Definition convert_leaf (t : Token) : tree :=
  let k := match ty t with
           | NAME => match assoc (ts t) (g_reserved G) with Some _ => KKeyword | None => KName end
           | STRING => KString | NUMBER => KNumber | NEWLINE => KNewline | ENDMARKER => KEndMarker
           | FSTRING_STRING => KFStringString | FSTRING_START => KFStringStart | FSTRING_END => KFStringEnd
           | _ => KOperator end in
  Leaf k (ts t) (tpre t) (tline t) (tcol t).

(* _create_params *)
Definition comma : str := [44]. Definition star : str := [42]. Definition slash : str := [47].
Fixpoint split_params (children : list tree) (cur : list tree) : list tree :=
  let flush := fun (pc : list tree) =>
    match pc with
    | [] => []
    | p0 :: rest =>
      if (is_op p0 star && match rest with [] => true | p1 :: _ => is_op p1 comma end) || is_op p0 slash
      then pc else [Node KParam pc]
    end in
  match children with
  | [] => flush cur
  | c :: t => if is_op c comma then flush (cur ++ [c]) ++ split_params t []
              else split_params t (cur ++ [c])
  end.
(* Guards (PGuard): create_params is never handed an error node; the Python code takes parameters.children[1:-1] / the lambda's middle children, which the grammar
   makes a list of at most one element, and drops suite.children[1] and [-1], which the grammar makes the zero-width
   INDENT/DEDENT leaves (the guard: no text and no error leaf/node inside).  The model checks these facts where the code relies on them silently; the parse
   correspondence shows that PGuard never occurs on generated inputs. *)
Definition create_params (argslist : list tree) : pres (list tree) :=
  match argslist with
  | [] => POk []
  | first :: rest =>
    if negb (is_nil_t rest) then PErr PGuard else
    if is_name first || match node_rule first with Some r => r =? r_fpdef G | None => false end
    then POk [Node KParam [first]]
    else if is_op first star then POk [first]
    else
      match first with
      | Node KErrorNode _ => PErr PGuard     (* guard: an error node is never the parameter list (it would be unwrapped) *)
      | _ =>
      let children := match node_rule first with
                      | Some r => if r =? r_tfpdef G then Some [first]
                                  else match first with Node _ cs => Some cs | _ => None end
                      | None => match first with Node _ cs => Some cs | _ => None end end in
      match children with Some cs => POk (split_params cs []) | None => PErr PAttr end
      end
  end.


Definition removelast_n {A} (l : list A) := removelast l.

(* Function.__init__: regroup the children of the `parameters` child *)
Fixpoint regroup_func (cs : list tree) : pres (list tree) :=
  match cs with
  | [] => PErr PAttr   (* "A function should always have parameters" *)
  | Node (KRule pr) pcs :: t =>
    if pr =? r_parameters G then
      let inner := removelast (tl pcs) in
      if existsb is_param inner then POk (cs)
      else match create_params inner with
           | PErr e => PErr e
           | POk np => match pcs with
                       | p0 :: _ :: _ => match rev pcs with
                                         | pl :: _ => POk (Node (KRule pr) (p0 :: np ++ [pl]) :: t)
                                         | [] => PErr PIndex end
                       | [_] => PErr PGuard
                       | [] => PErr PIndex end
           end
    else match regroup_func t with POk t' => POk (Node (KRule pr) pcs :: t') | PErr e => PErr e end
  | c :: t => match regroup_func t with POk t' => POk (c :: t') | PErr e => PErr e end
  end.

Definition convert_node (r : N) (children : list tree) : pres tree :=
  if r =? r_suite G then
    match children with
    | c0 :: c1 :: rest =>
      if blank c1 && match rev rest with [] => true | cl :: _ => blank cl end
      then POk (Node (KRule r) (c0 :: removelast rest)) else PErr PGuard
    | [c0] => POk (Node (KRule r) [c0])     (* [children[0]] + children[2:-1] *)
    | [] => PErr PIndex
    end
  else if r =? r_funcdef G then
    match regroup_func children with POk cs => POk (Node (KRule r) cs) | PErr e => PErr e end
  else if (r =? r_lambdef G) || (r =? r_lambdef_nocond G) then
    match children with
    | kw :: rest =>
      let n := length rest in
      let params := firstn (n - 2) rest in
      let tail := skipn (n - 2) rest in
      if existsb is_param params then POk (Node (KRule (r_lambdef G)) children)
      else match create_params params with
           | PErr e => PErr e
           | POk np => POk (Node (KRule (r_lambdef G)) (kw :: np ++ tail))
           end
    | [] => PErr PIndex
    end
  else POk (Node (KRule r) children).

Record frame := mkFr { f_dfa : N; f_nodes : list tree }.
Record pstate := mkP { stack : list frame;       (* top first *)
                       omit : list Z; icount : Z }.

Definition pop (s : list frame) : pres (list frame) :=
  match s with
  | tos :: below :: rest =>
    let new := match f_nodes tos with
               | [x] => POk x
               | ns => convert_node (rule_of (f_dfa tos)) ns end in
    match new with
    | POk nd => POk (mkFr (f_dfa below) (f_nodes below ++ [nd]) :: rest)
    | PErr e => PErr e end
  | _ => PErr PIndex
  end.

(* current_suite: index counted from the bottom, as in Python; stack given top first *)
Fixpoint current_suite (s : list frame) : nat :=
  (* returns number of frames ABOVE the chosen one, i.e. how many to remove *)
  match s with
  | [] => 0%nat
  | [_] => 0%nat
  | fr :: rest =>
    let r := rule_of (f_dfa fr) in
    if r =? r_file_input G then 0%nat
    else if (r =? r_suite G) && negb (Nat.eqb (length (f_nodes fr)) 1) then 0%nat
    else S (current_suite rest)
  end.

Definition stack_removal (s : list frame) (k : nat) : list frame * bool :=
  let removed := firstn k s in
  let rest := skipn k s in
  let all_nodes := flat_map f_nodes (rev removed) in
  match all_nodes, rest with
  | _ :: _, below :: r => (mkFr (f_dfa below) (f_nodes below ++ [Node KErrorNode all_nodes]) :: r, true)
  | _, _ => (rest, false)
  end.

Definition ends_newline (v : str) : bool := ends_nl v.

Fixpoint add_token (fuel : nat) (recover : bool) (p : pstate) (t : Token) {struct fuel} : pres pstate :=
  match fuel with
  | O => PErr PFuel
  | S f =>
    match stack p with
    | [] => PErr TooMuchInput
    | tos :: rest =>
      match trans (f_dfa tos) (token_label t) with
      | Some pl =>
        let tos' := mkFr (p_next pl) (f_nodes tos) in
        let pushed := fold_left (fun st q => mkFr q [] :: st) (p_pushes pl) (tos' :: rest) in
        match pushed with
        | top :: r => POk (mkP (mkFr (f_dfa top) (f_nodes top ++ [convert_leaf t]) :: r) (omit p) (icount p))
        | [] => PErr PIndex
        end
      | None =>
        if final (f_dfa tos) then
          match pop (stack p) with
          | POk s' => add_token f recover (mkP s' (omit p) (icount p)) t
          | PErr e => PErr e
          end
        else
          (* error_recovery *)
          let last_leaf := match rev (f_nodes tos) with [] => None | x :: _ => last_leaf_value x end in
          let special : pres (option pstate) :=
            let cond : pres bool :=
              match ty t with
              | ENDMARKER => POk true
              | DEDENT => match last_leaf with
                          | None => PErr PAttr
                          | Some v => POk (negb (ends_newline v)) end
              | _ => POk false end in
            match cond with
            | PErr e => PErr e
            | POk false => POk None
            | POk true =>
              if rule_of (f_dfa tos) =? r_simple_stmt G then
                match trans (f_dfa tos) (LType NEWLINE) with
                | Some pl =>
                  if final (p_next pl) && match p_pushes pl with [] => true | _ => false end then
                    match add_token f recover (mkP (mkFr (p_next pl) (f_nodes tos) :: rest) (omit p) (icount p)) t with
                    | POk p' => POk (Some p')
                    | PErr e => PErr e end
                  else POk None
                | None => POk None
                end
              else POk None
            end in
          match special with
          | PErr e => PErr e
          | POk (Some p') => POk p'
          | POk None =>
            if negb recover then PErr (SyntaxErr t)
            else
              let k := current_suite (stack p) in
              let '(s1, removed) := stack_removal (stack p) k in
              let after : pres pstate :=
                if removed then add_token f recover (mkP s1 (omit p) (icount p)) t
                else
                  let om := match ty t with INDENT => omit p ++ [icount p] | _ => omit p end in
                  match s1 with
                  | top :: r => POk (mkP (mkFr (f_dfa top) (f_nodes top ++ [Leaf (KErrorLeaf (ty t)) (ts t) (tpre t) (tline t) (tcol t)]) :: r) om (icount p))
                  | [] => PErr PIndex
                  end in
              match after with
              | PErr e => PErr e
              | POk p2 =>
                match stack p2 with
                | top :: r =>
                  if rule_of (f_dfa top) =? r_suite G then
                    match arc_nt (f_dfa top) (r_stmt G) with
                    | Some q => POk (mkP (mkFr q (f_nodes top) :: r) (omit p2) (icount p2))
                    | None => POk p2 end
                  else POk p2
                | [] => PErr PIndex
                end
              end
          end
      end
    end
  end.

Definition last_z (l : list Z) : option Z := match rev l with [] => None | x :: _ => Some x end.

Fixpoint feed (recover : bool) (p : pstate) (toks : list Token) : pres pstate :=
  match toks with
  | [] => POk p
  | t :: rest =>
    (* _recovery_tokenize *)
    let step : option pstate :=
      if recover then
        match ty t with
        | DEDENT =>
          match last_z (omit p) with
          | Some o => if (o =? icount p)%Z then None (* skipped *) else Some (mkP (stack p) (omit p) (icount p - 1)%Z)
          | None => Some (mkP (stack p) (omit p) (icount p - 1)%Z)
          end
        | INDENT => Some (mkP (stack p) (omit p) (icount p + 1)%Z)
        | _ => Some p
        end
      else Some p in
    match step with
    | None => feed recover (mkP (stack p) (removelast (omit p)) (icount p - 1)%Z) rest
    | Some p1 =>
      match add_token (S (S (2 * length (stack p1)))) recover p1 t with
      | POk p2 => feed recover p2 rest
      | PErr e => PErr e
      end
    end
  end.

Fixpoint finish (fuel : nat) (s : list frame) : pres tree :=
  match fuel with
  | O => PErr PFuel
  | S f =>
    match s with
    | [] => PErr PIndex
    | tos :: rest =>
      if negb (final (f_dfa tos)) then PErr IncompleteInput
      else match rest with
           | [] => convert_node (rule_of (f_dfa tos)) (f_nodes tos)
           | _ => match pop s with POk s' => finish f s' | PErr e => PErr e end
           end
    end
  end.

Definition parse (recover : bool) (start_rule : N) (toks : list Token) : pres tree :=
  match assocN start_rule (g_start G) with
  | None => PErr PIndex
  | Some q0 =>
    match feed recover (mkP [mkFr q0 []] [] 0%Z) toks with
    | PErr e => PErr e
    | POk p => finish (S (length (stack p))) (stack p)
    end
  end.
End Parser.
