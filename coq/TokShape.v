From Coq Require Import List NArith ZArith Bool Lia.
Import ListNotations.
Require Import Regex Tok TokTiles.
Open Scope N_scope.

(* C09 / C02: the shape of the token stream.
   Whenever the tokenizer model returns tokens, the stream is  body ++ [ENDMARKER]  where, walking `body` with a
   depth counter that starts at (length of the initial indentation stack - 1):
     - no token of body is an ENDMARKER,
     - every INDENT / DEDENT token has empty string and empty prefix,
     - INDENT increments, DEDENT decrements the counter, which never goes below zero,
     - the counter is 0 at the end (INDENT and DEDENT are balanced over the whole stream). *)

Definition zero (t : Token) : bool := is_nil (ts t) && is_nil (tpre t).
Definition step (o : option nat) (t : Token) : option nat :=
  match o with
  | None => None
  | Some n =>
    match ty t with
    | INDENT => if zero t then Some (S n) else None
    | DEDENT => if zero t then match n with S k => Some k | O => None end else None
    | ENDMARKER => None
    | _ => Some n
    end
  end.
Definition run (n : nat) (toks : list Token) : option nat := fold_left step toks (Some n).
Definition plain (t : Token) : bool := match ty t with INDENT | DEDENT | ENDMARKER => false | _ => true end.
Definition depth (inds : list N) : nat := pred (length inds).

Lemma fold_none l : fold_left step l None = None.
Proof. induction l as [|t l IH]; [reflexivity|exact IH]. Qed.
Lemma run_app n a b m : run n a = Some m -> run n (a ++ b) = run m b.
Proof. unfold run. intros H. rewrite fold_left_app, H. reflexivity. Qed.
Lemma run_nil n : run n [] = Some n.
Proof. reflexivity. Qed.
Lemma run_plain l : forall n, forallb plain l = true -> run n l = Some n.
Proof.
  induction l as [|t l IH]; intros n H; [reflexivity|]. simpl in H. apply andb_true_iff in H as [H1 H2].
  unfold run. simpl. unfold plain in H1. destruct (ty t); try discriminate; apply IH; exact H2.
Qed.
Lemma run_app_plain n a b m : run n a = Some m -> forallb plain b = true -> run n (a ++ b) = Some m.
Proof. intros H P. rewrite (run_app _ _ _ _ H). apply run_plain. exact P. Qed.

Lemma length_split_last {A} (l : list A) x : last_opt l = Some x -> length l = S (length (removelast l)).
Proof. intros H. rewrite (last_opt_split l x H) at 1. rewrite app_length. simpl. lia. Qed.
Lemma last_opt_nonnil {A} (l : list A) x : last_opt l = Some x -> l <> [].
Proof. intros H E. subst. discriminate. Qed.

Section Shape.
Variable C : coll.
Variable isident : str -> bool.
Variable isspace : N -> bool.

(* ---------- dedent_if_necessary ---------- *)
Lemma dedent_loop_run : forall fuel start lnum spos inds acc inds' toks n0,
  dedent_loop fuel start lnum spos inds acc = Ok (inds', toks) ->
  run n0 acc = Some (depth inds) -> run n0 toks = Some (depth inds') /\ inds' <> [].
Proof.
  induction fuel as [|f IH]; intros start lnum spos inds acc inds' toks n0 H R; [discriminate|]. simpl in H.
  destruct (last_opt inds) as [top|] eqn:L1; [|discriminate].
  destruct (start <? top).
  - destruct (last_opt (removelast inds)) as [second|] eqn:L2; [|discriminate].
    destruct (second <? start).
    + inversion H; subst. split.
      * rewrite (run_app _ _ _ _ R). unfold run. simpl. f_equal. unfold depth, set_last. rewrite app_length, (length_split_last _ _ L1). simpl. lia.
      * unfold set_last. intros E. apply app_eq_nil in E as [_ E]. discriminate.
    + apply IH with (n0 := n0) in H; [exact H|].
      rewrite (run_app _ _ _ _ R). unfold run, depth. simpl.
      rewrite (length_split_last _ _ L1), (length_split_last _ _ L2). reflexivity.
  - inversion H; subst. split; [exact R|eapply last_opt_nonnil; exact L1].
Qed.
Lemma dedent_run start lnum spos inds inds' toks :
  dedent_if_necessary start lnum spos inds = Ok (inds', toks) ->
  run (depth inds) toks = Some (depth inds') /\ inds' <> [].
Proof. unfold dedent_if_necessary. intros H. eapply dedent_loop_run; [exact H|reflexivity]. Qed.

Lemma split_illegal_plain : forall chars i found illegal pos pfx sl sc,
  forallb plain (split_illegal isident chars i found illegal pos pfx sl sc) = true.
Proof.
  induction chars as [|c rest IH]; intros i found illegal pos pfx sl sc.
  - simpl. destruct found; [reflexivity|]. destruct illegal; reflexivity.
  - cbn [split_illegal]. destruct illegal.
    + destruct (isident [c]); [|apply IH]. cbn [forallb]. rewrite IH. reflexivity.
    + destruct (isident (found ++ [c])); [apply IH|]. destruct found; [apply IH|]. cbn [forallb]. rewrite IH. reflexivity.
Qed.

(* ---------- f-string part: only plain tokens, indentation untouched ---------- *)
Lemma close_plain : forall stack before rest lnum col ap tok qlen remaining,
  close_fstring isspace before stack rest lnum col ap = Ok (Some (tok, qlen, remaining)) -> ty tok = FSTRING_END.
Proof.
  induction stack as [|n t IH]; intros before rest lnum col ap tok qlen remaining H; simpl in H; [discriminate|].
  destruct (starts_with (quote n) (from rest (lstrip_len isspace rest))).
  - destruct (prev_lines n); [|discriminate]. destruct (forallb _ (before ++ t)); [|discriminate]. inversion H; subst. reflexivity.
  - eapply IH. exact H.
Qed.

Lemma fs_text_shape : forall s tos line pos s1 toks oe p,
  fs_text C s tos line pos = Ok (s1, toks, oe, p) -> indents s1 = indents s /\ forallb plain toks = true.
Proof.
  intros s tos line pos s1 toks oe p H. unfold fs_text in H.
  destruct (negb (in_expr tos)); [|inversion H; subst; split; reflexivity].
  destruct (find_fstring_string C (fstack s) tos line (lnum s) pos) as [[[string pos'] tos']|]; [|discriminate].
  destruct string as [|x string].
  - destruct (pos' =? max_ s); inversion H; subst; split; reflexivity.
  - destruct (is_nil (addp s) && no_pending (removelast (fstack s))); [|discriminate]. inversion H; subst. split; reflexivity.
Qed.

Lemma fs_part_shape : forall s line pos s1 toks oe p,
  fs_part C isspace s line pos = Ok (s1, toks, oe, p) -> indents s1 = indents s /\ forallb plain toks = true.
Proof.
  intros s line pos s1 toks oe p H. unfold fs_part in H.
  destruct (last_opt (fstack s)) as [tos|]; [|inversion H; subst; split; reflexivity].
  destruct (fs_text C s tos line pos) as [[[[s1' toks'] oe'] p']|] eqn:FT; [|discriminate].
  destruct (fs_text_shape _ _ _ _ _ _ _ _ FT) as (I & P).
  destruct oe' as [e|]; [inversion H; subst; split; assumption|].
  destruct (close_fstring isspace [] (fstack s1') (from line p') (lnum s1') p' (addp s1')) as [[[[tok qlen] remaining]|]|] eqn:CL; [| |discriminate].
  - inversion H; subst. split; [exact I|]. rewrite forallb_app, P. simpl. unfold plain. rewrite (close_plain _ _ _ _ _ _ _ _ _ CL). reflexivity.
  - inversion H; subst. split; assumption.
Qed.

(* ---------- indentation at the start of a logical line ---------- *)
Lemma indent_part_run : forall s2 is_pm initial start spos s3 toks2,
  indent_part s2 is_pm initial start spos = Ok (s3, toks2) -> indents s2 <> [] ->
  run (depth (indents s2)) toks2 = Some (depth (indents s3)) /\ indents s3 <> [].
Proof.
  intros s2 is_pm initial start spos s3 toks2 H NE. unfold indent_part in H.
  destruct (new_line s2 && negb (chr_in initial [cr; nl; hash]) && (negb (initial =? bsl) || negb is_pm)).
  2:{ inversion H; subst. split; [reflexivity|exact NE]. }
  cbn [paren fstack indents] in H.
  destruct ((paren s2 =? 0) && match fstack s2 with [] => true | _ => false end).
  2:{ inversion H; subst. split; [reflexivity|exact NE]. }
  destruct (last_opt (indents s2)) as [top|] eqn:L; [|discriminate].
  destruct (top <? start).
  - destruct (dedent_if_necessary start _ spos (indents s2 ++ [start])) as [[inds' t1]|] eqn:D; [|discriminate].
    inversion H; subst. cbn [indents]. apply dedent_run in D as [D1 D2]. split; [|exact D2].
    replace (depth (indents s2 ++ [start])) with (S (depth (indents s2))) in D1
      by (unfold depth; rewrite app_length; simpl; destruct (indents s2); [contradiction|simpl; lia]).
    unfold run in *. simpl. exact D1.
  - destruct (dedent_if_necessary start _ spos (indents s2)) as [[inds' t1]|] eqn:D; [|discriminate].
    inversion H; subst. cbn [indents]. apply dedent_run in D. exact D.
Qed.

Lemma error_token_run : forall s3 toks line pos spos s' out le n0,
  error_token C s3 toks line pos spos = Ok (s', out, le) -> indents s3 <> [] -> run n0 toks = Some (depth (indents s3)) ->
  run n0 out = Some (depth (indents s')) /\ indents s' <> [].
Proof.
  intros s3 toks line pos spos s' out le n0 H NE R. unfold error_token in H.
  destruct (rmatch_at (whitespace C) line pos) as [[e cs]|]; [|discriminate].
  match type of H with context [match ?dd with Ok _ => _ | Err _ => _ end] => destruct dd as [[inds t3]|] eqn:D; [|discriminate] end.
  destruct (nth_error line (N.to_nat e)) as [c|]; [|discriminate].
  inversion H; subst. clear H. cbn [indents].
  assert (X: run (depth (indents s3)) t3 = Some (depth inds) /\ inds <> []).
  { destruct (new_line s3 && (paren s3 =? 0) && match fstack s3 with [] => true | _ => false end); [apply dedent_run in D; exact D|inversion D; subst; split; [reflexivity|exact NE]]. }
  destruct X as [X1 X2]. split; [|exact X2].
  rewrite (run_app _ _ _ _ R). rewrite (run_app _ _ _ _ X1). reflexivity.
Qed.

Lemma classify_run : forall s3 toks line pfx start epos token has3 initial spos s' out le n0,
  classify C isident s3 toks line pfx start epos token has3 initial spos = Ok (s', out, le) ->
  indents s3 <> [] -> run n0 toks = Some (depth (indents s3)) ->
  run n0 out = Some (depth (indents s')) /\ indents s' <> [].
Proof.
  intros s3 toks line pfx start epos token has3 initial spos s' out le n0 H NE R. unfold classify in H.
  assert (STD: forall t tk, run n0 (toks ++ [mkTok t tk (fst spos) (snd spos) pfx]) = Some (depth (indents s3)) \/ plain (mkTok t tk (fst spos) (snd spos) pfx) = false).
  { intros t tk. destruct (plain (mkTok t tk (fst spos) (snd spos) pfx)) eqn:P; [left|right; reflexivity]. apply run_app_plain; [exact R|]. simpl. rewrite P. reflexivity. }
  Ltac std H R NE := inversion H; subst; cbn [indents upd_f upd_addp]; split; [first [exact R | apply run_app_plain; [exact R|reflexivity]]|exact NE].
  destruct (chr_in initial digits || ((initial =? dot) && negb (str_eqb token [dot]) && negb (str_eqb token [dot; dot; dot]))); [std H R NE|].
  destruct has3.
  { match type of H with context [match ?brk with Ok _ => _ | Err _ => _ end] => destruct brk as [[s4 t4]|] eqn:BRK; [|discriminate] end.
    assert (B: run (depth (indents s3)) t4 = Some (depth (indents s4)) /\ indents s4 <> []).
    { destruct (mem_str token (always_break C) && (negb match fstack s3 with [] => true | _ => false end || negb (paren s3 =? 0))).
      - destruct (rmatch_at (ws_dollar C) (upto line start) 0) as [[e cs]|].
        + destruct (dedent_if_necessary e _ spos _) as [[inds t]|] eqn:D; [|discriminate]. inversion BRK; subst.
          cbn [indents] in *. apply dedent_run in D. exact D.
        + inversion BRK; subst. split; [reflexivity|exact NE].
      - inversion BRK; subst. split; [reflexivity|exact NE]. }
    destruct B as [B1 B2].
    destruct (isident token); inversion H; subst; (split; [|exact B2]); rewrite (run_app _ _ _ _ R), (run_app _ _ _ _ B1); apply run_plain; [reflexivity|apply split_illegal_plain]. }
  destruct (chr_in initial [cr; nl]).
  { match type of H with context [if ?c then _ else _] => destruct c end; std H R NE. }
  destruct (initial =? hash).
  { destruct (match last_opt (fstack s3) with Some f => in_expr f | None => false end); std H R NE. }
  destruct (mem_str token (triple_quoted C)).
  { destruct (endpat C token) as [r|]; [|discriminate]. destruct (rmatch_at r line epos) as [[e cs]|]; std H R NE. }
  destruct (mem_str [initial] (single_quoted C) || mem_str (upto token 2) (single_quoted C) || mem_str (upto token 3) (single_quoted C)).
  { destruct (match last_chr token with Some c => chr_in c [cr; nl] | None => false end); std H R NE. }
  destruct (assoc token (fstring_map C)) as [q|]; [std H R NE|].
  destruct ((initial =? bsl) && (str_eqb (from line start) [bsl; nl] || str_eqb (from line start) [bsl; cr; nl] || str_eqb (from line start) [bsl; cr])); [std H R NE|].
  destruct (last_opt (fstack s3)) as [f|].
  - destruct (is_substr token [40; 91; 123]); [std H R NE|].
    destruct (is_substr token [41; 93; 125]); [std H R NE|].
    destruct (starts_with [colon] token && (parens f - spec_count f =? 1)%Z); std H R NE.
  - destruct (is_substr token [40; 91; 123]); [std H R NE|].
    destruct (is_substr token [41; 93; 125]); std H R NE.
Qed.

Lemma body_run : forall s line pos s' toks le,
  body C isident isspace s line pos = Ok (s', toks, le) -> indents s <> [] ->
  run (depth (indents s)) toks = Some (depth (indents s')) /\ indents s' <> [].
Proof.
  intros s line pos s' toks le H NE. unfold Tok.body in H.
  destruct (fs_part C isspace s line pos) as [[[[s1 toks1] oe] p]|] eqn:FS; [|discriminate].
  destruct (fs_part_shape _ _ _ _ _ _ _ FS) as (I1 & P1).
  assert (R1: run (depth (indents s)) toks1 = Some (depth (indents s1))) by (rewrite I1; apply run_plain; exact P1).
  assert (NE1: indents s1 <> []) by (rewrite I1; exact NE).
  destruct oe as [e|]; [inversion H; subst; split; assumption|].
  destruct (negb (no_pending (fstack s1))); [discriminate|].
  destruct (pm_info C s1 line p) as [[[pmi start] initial]|]; [|discriminate].
  destruct pmi as [[[[[pfx a2] epos] token] has3]|].
  - destruct token as [|c tk].
    + destruct pfx; [discriminate|]. destruct (epos =? len line); [|discriminate]. inversion H; subst. cbn [indents]. split; assumption.
    + set (s2 := mkSt (paren s1) (indents s1) (contstr s1) (contstr_start s1) (endprog s1) (new_line s1) pfx [] (fstack s1) (lnum s1) (max_ s1)) in *.
      destruct (indent_part s2 true initial start (lnum s2, start)) as [[s3 toks2]|] eqn:IP; [|discriminate].
      destruct (indent_part_run _ _ _ _ _ _ _ IP NE1) as (R2 & NE3). cbn [indents s2] in R2.
      eapply classify_run; [exact H|exact NE3|]. rewrite (run_app _ _ _ _ R1). exact R2.
  - destruct (indent_part s1 false initial start (lnum s1, start)) as [[s3 toks2]|] eqn:IP; [|discriminate].
    destruct (indent_part_run _ _ _ _ _ _ _ IP NE1) as (R2 & NE3).
    eapply error_token_run; [exact H|exact NE3|]. rewrite (run_app _ _ _ _ R1). exact R2.
Qed.

Lemma scan_run : forall fuel s line pos acc s' out n0,
  scan C isident isspace fuel s line pos acc = Ok (s', out) -> indents s <> [] -> run n0 acc = Some (depth (indents s)) ->
  run n0 out = Some (depth (indents s')) /\ indents s' <> [].
Proof.
  induction fuel as [|f IH]; intros s line pos acc s' out n0 H NE R; [discriminate|]. cbn [Tok.scan] in H.
  destruct (pos <? max_ s).
  - destruct (body C isident isspace s line pos) as [[[s1 toks] le]|] eqn:B; [|discriminate].
    destruct (body_run _ _ _ _ _ _ B NE) as (R1 & NE1).
    destruct le as [pos'|].
    + eapply IH; [exact H|exact NE1|]. rewrite (run_app _ _ _ _ R). exact R1.
    + inversion H; subst. split; [|exact NE1]. rewrite (run_app _ _ _ _ R). exact R1.
  - inversion H; subst. split; assumption.
Qed.

Lemma line_core_run : forall s line pos s' toks,
  line_core C isident isspace s line pos = Ok (s', toks) -> indents s <> [] ->
  run (depth (indents s)) toks = Some (depth (indents s')) /\ indents s' <> [].
Proof.
  intros s line pos s' toks H NE. unfold line_core in H.
  destruct (contstr s).
  - eapply scan_run; [exact H|exact NE|reflexivity].
  - destruct (endprog s) as [r|]; [|discriminate].
    destruct (rmatch_at r line 0) as [[e cs]|].
    + eapply scan_run in H; [exact H|exact NE|reflexivity].
    + inversion H; subst. split; [reflexivity|exact NE].
Qed.

Lemma line_step_run : forall s line0 first sc s' toks,
  line_step C isident isspace s line0 first sc = Ok (s', toks) -> indents s <> [] ->
  run (depth (indents s)) toks = Some (depth (indents s')) /\ indents s' <> [].
Proof.
  intros s line0 first sc s' toks H NE. unfold Tok.line_step in H.
  destruct first.
  - destruct line0 as [|c t].
    + apply line_core_run in H; [exact H|exact NE].
    + destruct (c =? bom); apply line_core_run in H; try exact H; exact NE.
  - apply line_core_run in H; [exact H|exact NE].
Qed.

Lemma lines_loop_run : forall lines s first sc acc s' out n0,
  lines_loop C isident isspace s lines first sc acc = Ok (s', out) -> indents s <> [] -> run n0 acc = Some (depth (indents s)) ->
  run n0 out = Some (depth (indents s')) /\ indents s' <> [].
Proof.
  induction lines as [|l rest IH]; intros s first sc acc s' out n0 H NE R; cbn [Tok.lines_loop] in H.
  - inversion H; subst. split; assumption.
  - destruct (line_step C isident isspace s l first sc) as [[s1 toks]|] eqn:LS; [|discriminate].
    destruct (line_step_run _ _ _ _ _ _ LS NE) as (R1 & NE1).
    eapply IH; [exact H|exact NE1|]. rewrite (run_app _ _ _ _ R). exact R1.
Qed.

Lemma run_dedents (ln mx : N) : forall (l : list N) n, length l = n -> run n (map (fun _ => mkTok DEDENT [] ln mx []) l) = Some O.
Proof.
  induction l as [|x l IH]; intros n E; simpl in E; subst n; [reflexivity|]. unfold run in *. simpl. apply IH. reflexivity.
Qed.

(* ---------- the theorem ---------- *)
Theorem tok_shape : forall lines inds sl sc first toks,
  tokenize_lines C isident isspace lines inds sl sc first = Ok toks -> inds <> [] ->
  exists body e, toks = body ++ [e] /\ ty e = ENDMARKER /\ ts e = [] /\ run (depth inds) body = Some O.
Proof.
  intros lines inds sl sc first toks H NE. unfold tokenize_lines in H.
  set (s0 := mkSt 0 inds [] (0, 0) None true [] [] [] (sl - 1) 0) in *.
  destruct (lines_loop C isident isspace s0 lines first sc []) as [[s out]|] eqn:LL; [|discriminate].
  destruct (lines_loop_run _ _ _ _ _ _ _ (depth inds) LL NE eq_refl) as (R & NE').
  match type of H with (if ?g then _ else _) = _ => destruct g; [|discriminate] end.
  inversion H; subst toks. clear H.
  match goal with |- context [out ++ ?t1 ++ ?t2 ++ ?t3 ++ [?e]] => exists (out ++ t1 ++ t2 ++ t3), e end.
  split; [rewrite <- !app_assoc; reflexivity|]. split; [reflexivity|]. split; [reflexivity|].
  rewrite (run_app _ _ _ _ R).
  match goal with |- run _ (?t1 ++ ?t2 ++ ?t3) = _ =>
    assert (P1: forallb plain t1 = true) by (destruct (contstr s); reflexivity);
    assert (P2: forallb plain t2 = true) by (destruct (last_opt (fstack s)) as [f|]; [destruct (prev_lines f)|]; reflexivity)
  end.
  rewrite (run_app _ _ _ _ (run_plain _ _ P1)). rewrite (run_app _ _ _ _ (run_plain _ _ P2)).
  apply run_dedents. unfold depth. destruct (indents s); [contradiction|reflexivity].
Qed.
End Shape.

(* ---------- what the walk means ---------- *)
Definition count (k : ttype -> bool) (l : list Token) : nat := length (filter (fun t => k (ty t)) l).
Definition is_indent (t : ttype) := match t with INDENT => true | _ => false end.
Definition is_dedent (t : ttype) := match t with DEDENT => true | _ => false end.
Definition is_end (t : ttype) := match t with ENDMARKER => true | _ => false end.

Lemma run_cons n t l : run n (t :: l) = match step (Some n) t with Some m => run m l | None => None end.
Proof. unfold run. cbn [fold_left]. destruct (step (Some n) t); [reflexivity|apply fold_none]. Qed.

(* balance, with the starting depth *)
Lemma run_balance : forall l n m, run n l = Some m -> (n + count is_indent l = m + count is_dedent l)%nat.
Proof.
  induction l as [|t l IH]; intros n m H; [inversion H; unfold count; simpl; lia|].
  rewrite run_cons in H. unfold step in H. unfold count in *. simpl.
  destruct (ty t) eqn:T; simpl; try (apply IH in H; lia).
  - destruct (zero t); [|discriminate]. apply IH in H. lia.
  - destruct (zero t); [|discriminate]. destruct n as [|k]; [discriminate|]. apply IH in H. lia.
  - discriminate.
Qed.
(* every prefix of the stream has at least as many INDENTs (plus the starting depth) as DEDENTs *)
Lemma run_prefix : forall a b n m, run n (a ++ b) = Some m -> exists k, run n a = Some k.
Proof.
  intros a b n m H. destruct (run n a) as [k|] eqn:E; [exists k; reflexivity|].
  unfold run in *. rewrite fold_left_app, E, fold_none in H. discriminate.
Qed.
Lemma run_never_negative : forall a b n m, run n (a ++ b) = Some m -> (count is_dedent a <= n + count is_indent a)%nat.
Proof. intros a b n m H. destruct (run_prefix _ _ _ _ H) as (k & K). apply run_balance in K. lia. Qed.
(* INDENT / DEDENT are zero-width, no ENDMARKER inside *)
Lemma run_tokens : forall l n m t, run n l = Some m -> In t l ->
  ty t <> ENDMARKER /\ (ty t = INDENT \/ ty t = DEDENT -> ts t = [] /\ tpre t = []).
Proof.
  induction l as [|x l IH]; intros n m t H I; [contradiction|]. rewrite run_cons in H.
  destruct (step (Some n) x) as [k|] eqn:S; [|discriminate].
  destruct I as [I|I]; [subst x|eapply IH; eassumption].
  unfold step, zero in S. split.
  - intros E. rewrite E in S. discriminate.
  - intros [E|E]; rewrite E in S; destruct (ts t); destruct (tpre t); try discriminate; split; reflexivity.
Qed.
