From Coq Require Import List NArith ZArith Bool Lia.
Import ListNotations.
Require Import Regex RegexFacts Tok TokFacts TokTiles TokShape.
Open Scope N_scope.

(* C09 / C03: where the zero-width INDENT / DEDENT tokens are.
   Every maximal run of INDENT / DEDENT tokens (ERROR_DEDENT tokens may sit in between) is followed by a token that is
   not a block token, and all of them carry the (line, column) of that token: a block token is positioned at the
   start of the token it precedes.  brun walks the stream with the position owed by the current run. *)

Definition tpos (t : Token) : N * N := (tline t, tcol t).
Definition pos_eqb (a b : N * N) : bool := (fst a =? fst b) && (snd a =? snd b).
Lemma pos_eqb_refl a : pos_eqb a a = true.
Proof. unfold pos_eqb. rewrite !N.eqb_refl. reflexivity. Qed.
Lemma pos_eqb_eq a b : pos_eqb a b = true -> a = b.
Proof. unfold pos_eqb. destruct a, b. simpl. intros H. apply andb_true_iff in H as [H1 H2]. apply N.eqb_eq in H1, H2. subst. reflexivity. Qed.

Definition bstep (w : option (option (N * N))) (t : Token) : option (option (N * N)) :=
  match w with
  | None => None
  | Some pend =>
    match ty t with
    | INDENT | DEDENT => match pend with
                         | None => Some (Some (tpos t))
                         | Some p => if pos_eqb p (tpos t) then Some (Some p) else None end
    | ERROR_DEDENT => Some pend
    | _ => match pend with
           | None => Some None
           | Some p => if pos_eqb p (tpos t) then Some None else None end
    end
  end.
Definition brun (w : option (N * N)) (toks : list Token) : option (option (N * N)) := fold_left bstep toks (Some w).
Lemma bfold_none l : fold_left bstep l None = None.
Proof. induction l as [|t l IH]; [reflexivity|exact IH]. Qed.
Lemma brun_app w a b w' : brun w a = Some w' -> brun w (a ++ b) = brun w' b.
Proof. unfold brun. intros H. rewrite fold_left_app, H. reflexivity. Qed.
Lemma brun_nil w : brun w [] = Some w.
Proof. reflexivity. Qed.

Definition isblock (t : Token) : bool := match ty t with INDENT | DEDENT => true | _ => false end.
Definition transparent (t : Token) : bool := match ty t with ERROR_DEDENT => true | _ => false end.
Definition real (t : Token) : bool := negb (isblock t) && negb (transparent t).

(* tokens that do not start a run: nothing is owed afterwards *)
Lemma brun_noblocks : forall l, forallb (fun t => negb (isblock t)) l = true -> brun None l = Some None.
Proof.
  induction l as [|t l IH]; intros H; [reflexivity|]. simpl in H. apply andb_true_iff in H as [H1 H2].
  unfold brun. simpl. unfold isblock in H1. destruct (ty t); try discriminate; apply IH; exact H2.
Qed.

(* a run of block tokens at position p (with ERROR_DEDENTs in between) *)
Definition blocks_at (p : N * N) (l : list Token) : Prop := forall t, In t l -> (isblock t = true /\ tpos t = p) \/ transparent t = true.
Lemma blocks_at_nil p : blocks_at p [].
Proof. intros t []. Qed.
Lemma blocks_at_app p a b : blocks_at p a -> blocks_at p b -> blocks_at p (a ++ b).
Proof. intros A B t I. apply in_app_or in I as [I|I]; [apply A|apply B]; exact I. Qed.
Lemma blocks_at_one p t : (isblock t = true /\ tpos t = p) \/ transparent t = true -> blocks_at p [t].
Proof. intros H x [<-|[]]. exact H. Qed.

Definition owes (w : option (N * N)) (p : N * N) : Prop := w = None \/ w = Some p.
Lemma brun_blocks p : forall l w, blocks_at p l -> owes w p -> exists w', brun w l = Some w' /\ owes w' p.
Proof.
  induction l as [|t l IH]; intros w B O; [exists w; split; [reflexivity|exact O]|].
  assert (Bl: blocks_at p l) by (intros x I; apply B; right; exact I).
  destruct (B t (or_introl eq_refl)) as [[K P]|K].
  - unfold brun. cbn [fold_left]. unfold isblock in K.
    assert (S1: bstep (Some w) t = Some (Some p)).
    { unfold bstep. destruct (ty t); try discriminate; (destruct O as [->| ->]; [rewrite P; reflexivity|rewrite P, pos_eqb_refl; reflexivity]). }
    rewrite S1. apply (IH (Some p) Bl). right. reflexivity.
  - unfold brun. cbn [fold_left]. unfold transparent in K.
    assert (S1: bstep (Some w) t = Some w) by (unfold bstep; destruct (ty t); try discriminate; reflexivity).
    rewrite S1. apply (IH w Bl O).
Qed.
(* a real token at the owed position settles the run *)
Lemma brun_real p t w : real t = true -> tpos t = p -> owes w p -> brun w [t] = Some None.
Proof.
  unfold real, isblock, transparent, brun. simpl. intros R P O. unfold bstep.
  destruct (ty t); try discriminate; (destruct O as [->| ->]; [reflexivity|rewrite P, pos_eqb_refl; reflexivity]).
Qed.

Section BP.
Variable C : coll.
Variable isident : str -> bool.
Variable isspace : N -> bool.
Hypothesis shape : shape12 (pseudo C) = true.

Lemma dedent_loop_at : forall fuel start lnum spos inds acc inds' toks,
  dedent_loop fuel start lnum spos inds acc = Ok (inds', toks) -> blocks_at spos acc -> blocks_at spos toks.
Proof.
  induction fuel as [|f IH]; intros start lnum spos inds acc inds' toks H A; [discriminate|]. simpl in H.
  destruct (last_opt inds) as [top|]; [|discriminate].
  destruct (start <? top).
  - destruct (last_opt (removelast inds)) as [second|]; [|discriminate].
    destruct (second <? start).
    + inversion H; subst. apply blocks_at_app; [exact A|apply blocks_at_one; right; reflexivity].
    + eapply IH; [exact H|]. apply blocks_at_app; [exact A|apply blocks_at_one; left; split; [reflexivity|destruct spos; reflexivity]].
  - inversion H; subst. exact A.
Qed.
Lemma dedent_at start lnum spos inds inds' toks : dedent_if_necessary start lnum spos inds = Ok (inds', toks) -> blocks_at spos toks.
Proof. unfold dedent_if_necessary. intros H. eapply dedent_loop_at; [exact H|apply blocks_at_nil]. Qed.

Lemma split_illegal_real : forall chars i found illegal pos pfx sl sc,
  forallb real (split_illegal isident chars i found illegal pos pfx sl sc) = true /\
  match split_illegal isident chars i found illegal pos pfx sl sc with t :: _ => tpos t = pos | [] => True end.
Proof.
  induction chars as [|c rest IH]; intros i found illegal pos pfx sl sc.
  - simpl. destruct found; [split; [reflexivity|exact I]|]. destruct illegal; (split; [reflexivity|destruct pos; reflexivity]).
  - cbn [split_illegal]. destruct illegal.
    + destruct (isident [c]).
      * cbn [forallb]. destruct (IH (i + 1) [c] false (sl, sc + i) [] sl sc) as [A _]. rewrite A. split; [reflexivity|destruct pos; reflexivity].
      * apply IH.
    + destruct (isident (found ++ [c])).
      * apply IH.
      * destruct found as [|x f].
        -- apply IH.
        -- cbn [forallb]. destruct (IH (i + 1) [c] true (sl, sc + i) [] sl sc) as [A _]. rewrite A. split; [reflexivity|destruct pos; reflexivity].
Qed.
Lemma real_noblock l : forallb real l = true -> forallb (fun t => negb (isblock t)) l = true.
Proof.
  induction l as [|t l IH]; [reflexivity|]. simpl. intros H. apply andb_true_iff in H as [H1 H2]. rewrite (IH H2), andb_true_r.
  unfold real in H1. apply andb_true_iff in H1. tauto.
Qed.

Definition BI (w : option (N * N)) (s : st) : Prop := w = None \/ (w = Some (contstr_start s) /\ contstr s <> []).

Lemma plain_noblock l : forallb plain l = true -> forallb (fun t => negb (isblock t)) l = true.
Proof.
  induction l as [|t l IH]; [reflexivity|]. simpl. intros H. apply andb_true_iff in H as [H1 H2]. rewrite (IH H2), andb_true_r.
  unfold plain in H1. unfold isblock. destruct (ty t); try discriminate; reflexivity.
Qed.

Definition indent_cond (initial : N) (is_pm : bool) : bool :=
  negb (chr_in initial [cr; nl; hash]) && (negb (initial =? bsl) || negb is_pm).

Lemma indent_part_at : forall s2 is_pm initial start spos s3 toks2,
  indent_part s2 is_pm initial start spos = Ok (s3, toks2) ->
  blocks_at spos toks2 /\ (toks2 = [] \/ indent_cond initial is_pm = true).
Proof.
  intros s2 is_pm initial start spos s3 toks2 H. unfold indent_part in H. unfold indent_cond.
  destruct (new_line s2); cbn [andb] in H; [|inversion H; subst; split; [apply blocks_at_nil|left; reflexivity]].
  destruct (negb (chr_in initial [cr; nl; hash]) && (negb (initial =? bsl) || negb is_pm)) eqn:CND; [|inversion H; subst; split; [apply blocks_at_nil|left; reflexivity]].
  cbn [paren fstack indents] in H.
  destruct ((paren s2 =? 0) && match fstack s2 with [] => true | _ => false end); [|inversion H; subst; split; [apply blocks_at_nil|left; reflexivity]].
  destruct (last_opt (indents s2)) as [top|]; [|discriminate].
  destruct (top <? start).
  - destruct (dedent_if_necessary start _ spos (indents s2 ++ [start])) as [[inds' t1]|] eqn:D; [|discriminate].
    inversion H; subst. split; [|right; reflexivity].
    apply (blocks_at_app _ [_]); [apply blocks_at_one; left; split; [reflexivity|destruct spos; reflexivity]|eapply dedent_at; exact D].
  - destruct (dedent_if_necessary start _ spos (indents s2)) as [[inds' t1]|] eqn:D; [|discriminate].
    inversion H; subst. split; [eapply dedent_at; exact D|right; reflexivity].
Qed.

Lemma pm_info_none : forall s1 line pos start initial,
  pm_info C s1 line pos = Ok (None, start, initial) -> exists cs, rmatch_at (whitespace C) line pos = Some (start, cs).
Proof.
  intros s1 line pos start initial H. unfold pm_info in H.
  match type of H with context [match ?sl with Ok _ => _ | Err _ => _ end] => destruct sl as [slen|]; [|discriminate] end.
  destruct (rmatch_at (pseudo C) (upto line slen) pos) as [[e cs]|].
  - destruct (grp 1 cs) as [[a1 b1]|]; [|discriminate]. destruct (grp 2 cs) as [[a2 b2]|]; discriminate.
  - destruct (rmatch_at (whitespace C) line pos) as [[e cs]|]; [|discriminate]. destruct (nth_error line (N.to_nat e)); [|discriminate].
    inversion H; subst. exists cs. reflexivity.
Qed.

Lemma error_token_b : forall s3 toks line pos start s' out le w cs,
  error_token C s3 toks line pos (lnum s3, start) = Ok (s', out, le) -> rmatch_at (whitespace C) line pos = Some (start, cs) ->
  contstr s3 = [] -> brun None toks = Some w -> owes w (lnum s3, start) ->
  brun None out = Some None /\ contstr s' = [].
Proof.
  intros s3 toks line pos start s' out le w cs H M CS R O. unfold error_token in H. rewrite M in H.
  match type of H with context [match ?dd with Ok _ => _ | Err _ => _ end] => destruct dd as [[inds t3]|] eqn:D; [|discriminate] end.
  destruct (nth_error line (N.to_nat start)) as [c|]; [|discriminate].
  inversion H; subst. clear H. split; [|exact CS].
  assert (B3: blocks_at (lnum s3, start) t3).
  { destruct (new_line s3 && (paren s3 =? 0) && match fstack s3 with [] => true | _ => false end); [eapply dedent_at; exact D|inversion D; apply blocks_at_nil]. }
  destruct (brun_blocks _ _ _ B3 O) as (w2 & R2 & O2).
  rewrite (brun_app _ _ _ _ R), (brun_app _ _ _ _ R2). apply (brun_real (lnum s3, start)); [reflexivity|reflexivity|exact O2].
Qed.

Lemma chr_in_sub initial : chr_in initial [cr; nl] = true -> chr_in initial [cr; nl; hash] = true.
Proof. unfold chr_in. simpl. intros H. destruct (initial =? cr); [reflexivity|]. destruct (initial =? nl); [reflexivity|discriminate]. Qed.
Lemma chr_in_hash initial : (initial =? hash) = true -> chr_in initial [cr; nl; hash] = true.
Proof. unfold chr_in. simpl. intros H. rewrite H. rewrite !orb_true_r. reflexivity. Qed.

Lemma classify_b : forall s3 toks line pfx start epos token has3 initial spos s' out le w,
  classify C isident s3 toks line pfx start epos token has3 initial spos = Ok (s', out, le) ->
  contstr s3 = [] -> from line start <> [] -> token <> [] -> brun None toks = Some w -> owes w spos ->
  (w = None \/ indent_cond initial true = true) ->
  exists w', brun None out = Some w' /\ BI w' s'.
Proof.
  intros s3 toks line pfx start epos token has3 initial spos s' out le w H CS NE TN R O WC.
  destruct spos as [sl sc].
  assert (STD: forall t tk st0, real (mkTok t tk sl sc pfx) = true -> exists w', brun None (toks ++ [mkTok t tk sl sc pfx]) = Some w' /\ BI w' st0).
  { intros t tk st0 RL. exists None. split; [|left; reflexivity]. rewrite (brun_app _ _ _ _ R). apply (brun_real (sl, sc)); [exact RL|reflexivity|exact O]. }
  assert (NOP: forall st0, indent_cond initial true = false -> exists w', brun None toks = Some w' /\ BI w' st0).
  { intros st0 IC. exists None. split; [|left; reflexivity]. destruct WC as [->|X]; [exact R|rewrite X in IC; discriminate]. }
  assert (CONT: forall st0, contstr_start st0 = (sl, sc) -> contstr st0 <> [] -> exists w', brun None toks = Some w' /\ BI w' st0).
  { intros st0 c0 n0. exists w. split; [exact R|]. destruct O as [->| ->]; [left; reflexivity|right; split; [rewrite c0; reflexivity|exact n0]]. }
  unfold classify in H. cbn [fst snd] in H.
  destruct (chr_in initial digits || ((initial =? dot) && negb (str_eqb token [dot]) && negb (str_eqb token [dot; dot; dot]))).
  { inversion H; subst s' out le. apply STD. reflexivity. }
  destruct has3.
  { match type of H with context [match ?brk with Ok _ => _ | Err _ => _ end] => destruct brk as [[s4 t4]|] eqn:BRK; [|discriminate] end.
    assert (B4: blocks_at (sl, sc) t4).
    { destruct (mem_str token (always_break C) && (negb match fstack s3 with [] => true | _ => false end || negb (paren s3 =? 0))).
      - destruct (rmatch_at (ws_dollar C) (upto line start) 0) as [[e cs]|].
        + destruct (dedent_if_necessary e _ (sl, sc) _) as [[inds t]|] eqn:D; [|discriminate]. inversion BRK; subst. eapply dedent_at. exact D.
        + inversion BRK; subst. apply blocks_at_nil.
      - inversion BRK; subst. apply blocks_at_nil. }
    destruct (brun_blocks _ _ _ B4 O) as (w2 & R2 & O2).
    destruct (isident token); inversion H; subst s' out le; exists None; (split; [|left; reflexivity]); rewrite (brun_app _ _ _ _ R), (brun_app _ _ _ _ R2).
    - apply (brun_real (sl, sc)); [reflexivity|reflexivity|exact O2].
    - destruct (split_illegal_real token 0 [] false (sl, sc) pfx sl sc) as [A B].
      pose proof (split_illegal_emit isident token 0 [] false (sl, sc) pfx sl sc (or_introl TN)) as EM.
      destruct (split_illegal isident token 0 [] false (sl, sc) pfx sl sc) as [|t0 tr] eqn:SI.
      + exfalso. rewrite emit_nil in EM. symmetry in EM. apply app_eq_nil in EM as [_ EM]. simpl in EM. contradiction.
      + cbn [forallb] in A. apply andb_true_iff in A as [A0 A1].
        change (t0 :: tr) with ([t0] ++ tr). rewrite (brun_app _ [t0] tr None); [apply brun_noblocks; apply real_noblock; exact A1|].
        apply (brun_real (sl, sc)); [exact A0|exact B|exact O2]. }
  destruct (chr_in initial [cr; nl]) eqn:CN.
  { assert (IC: indent_cond initial true = false) by (unfold indent_cond; rewrite (chr_in_sub _ CN); reflexivity).
    match type of H with context [if ?c then _ else _] => destruct c end; inversion H; subst s' out le; [|apply NOP; exact IC].
    apply STD. reflexivity. }
  destruct (initial =? hash) eqn:IH.
  { assert (IC: indent_cond initial true = false) by (unfold indent_cond; rewrite (chr_in_hash _ IH); reflexivity).
    destruct (match last_opt (fstack s3) with Some f => in_expr f | None => false end); inversion H; subst s' out le; [apply STD; reflexivity|apply NOP; exact IC]. }
  destruct (mem_str token (triple_quoted C)).
  { destruct (endpat C token) as [r|]; [|discriminate]. destruct (rmatch_at r line epos) as [[e cs]|]; inversion H; subst s' out le.
    - apply STD. reflexivity.
    - apply CONT; [reflexivity|exact NE]. }
  destruct (mem_str [initial] (single_quoted C) || mem_str (upto token 2) (single_quoted C) || mem_str (upto token 3) (single_quoted C)).
  { destruct (match last_chr token with Some c => chr_in c [cr; nl] | None => false end); inversion H; subst s' out le; [apply CONT; [reflexivity|exact NE]|apply STD; reflexivity]. }
  destruct (assoc token (fstring_map C)) as [q|]; [inversion H; subst s' out le; apply STD; reflexivity|].
  destruct ((initial =? bsl) && (str_eqb (from line start) [bsl; nl] || str_eqb (from line start) [bsl; cr; nl] || str_eqb (from line start) [bsl; cr])) eqn:BS.
  { apply andb_true_iff in BS as [BS _]. inversion H; subst s' out le. apply NOP. unfold indent_cond. rewrite BS. cbn [negb orb]. apply andb_false_r. }
  destruct (last_opt (fstack s3)) as [f|].
  - destruct (is_substr token [40; 91; 123]); [inversion H; subst s' out le; apply STD; reflexivity|].
    destruct (is_substr token [41; 93; 125]); [inversion H; subst s' out le; apply STD; reflexivity|].
    destruct (starts_with [colon] token && (parens f - spec_count f =? 1)%Z); inversion H; subst s' out le; apply STD; reflexivity.
  - destruct (is_substr token [40; 91; 123]); [inversion H; subst s' out le; apply STD; reflexivity|].
    destruct (is_substr token [41; 93; 125]); inversion H; subst s' out le; apply STD; reflexivity.
Qed.

Lemma body_b : forall s line pos s' toks le,
  body C isident isspace s line pos = Ok (s', toks, le) -> contstr s = [] -> max_ s = len line ->
  exists w', brun None toks = Some w' /\ BI w' s'.
Proof.
  intros s line pos s' toks le H CS MX. unfold Tok.body in H.
  destruct (fs_part C isspace s line pos) as [[[[s1 toks1] oe] p]|] eqn:FS; [|discriminate].
  destruct (fs_part_shape _ _ _ _ _ _ _ _ _ FS) as (_ & P1).
  destruct (fs_part_tiles _ _ _ _ _ _ _ _ _ FS CS) as (_ & C1 & _ & L1 & _).
  pose proof (brun_noblocks _ (plain_noblock _ P1)) as R1.
  destruct oe as [e|]; [inversion H; subst; exists None; split; [exact R1|left; reflexivity]|].
  destruct (negb (no_pending (fstack s1))); [discriminate|].
  destruct (pm_info C s1 line p) as [[[pmi start] initial]|] eqn:PM; [|discriminate].
  destruct pmi as [[[[[pfx a2] epos] token] has3]|].
  - destruct (pm_info_spec _ shape _ _ _ _ _ _ _ _ _ _ PM) as (ws & Hp & F1 & F2 & Hs & Ht & Hle & Hi).
    destruct token as [|c tk].
    + destruct pfx; [discriminate|]. destruct (epos =? len line); [|discriminate]. inversion H; subst. exists None. split; [exact R1|left; reflexivity].
    + set (s2 := mkSt (paren s1) (indents s1) (contstr s1) (contstr_start s1) (endprog s1) (new_line s1) pfx [] (fstack s1) (lnum s1) (max_ s1)) in *.
      destruct (indent_part s2 true initial start (lnum s2, start)) as [[s3 toks2]|] eqn:IP; [|discriminate].
      destruct (indent_part_spec _ _ _ _ _ _ _ IP) as (_ & I2 & _).
      destruct (indent_part_at _ _ _ _ _ _ _ IP) as (B2 & IC).
      destruct (brun_blocks _ _ None B2 (or_introl eq_refl)) as (w2 & R2 & O2).
      eapply classify_b; [exact H|rewrite I2; exact C1| |discriminate| |exact O2|].
      * subst start. rewrite F2. discriminate.
      * rewrite (brun_app _ _ _ _ R1). exact R2.
      * destruct IC as [->|IC]; [left; simpl in R2; inversion R2; reflexivity|right; exact IC].
  - destruct (indent_part s1 false initial start (lnum s1, start)) as [[s3 toks2]|] eqn:IP; [|discriminate].
    destruct (indent_part_spec _ _ _ _ _ _ _ IP) as (_ & I2 & _ & _ & _ & _ & I7).
    destruct (indent_part_at _ _ _ _ _ _ _ IP) as (B2 & _).
    destruct (brun_blocks _ _ None B2 (or_introl eq_refl)) as (w2 & R2 & O2).
    destruct (pm_info_none _ _ _ _ _ PM) as (cs & M).
    rewrite <- I7 in H, O2.
    destruct (error_token_b _ _ _ _ _ _ _ _ w2 cs H M) as [R3 C3]; [rewrite I2; exact C1|rewrite (brun_app _ _ _ _ R1); exact R2|exact O2|].
    exists None. split; [exact R3|left; reflexivity].
Qed.

Lemma BI_nocont w s : BI w s -> contstr s = [] -> w = None.
Proof. intros [H|[_ H]] C0; [exact H|contradiction]. Qed.

Lemma scan_b : forall fuel s line pos acc s' out w0,
  scan C isident isspace fuel s line pos acc = Ok (s', out) -> contstr s = [] -> max_ s = len line -> brun w0 acc = Some None ->
  exists w', brun w0 out = Some w' /\ BI w' s'.
Proof.
  induction fuel as [|f IH]; intros s line pos acc s' out w0 H CS MX R; [discriminate|]. cbn [Tok.scan] in H.
  destruct (pos <? max_ s).
  - destruct (body C isident isspace s line pos) as [[[s1 toks] le]|] eqn:B; [|discriminate].
    destruct (body_b _ _ _ _ _ _ B CS MX) as (w1 & R1 & BI1).
    destruct (body_tiles _ _ _ shape _ _ _ _ _ _ B CS MX) as (_ & M & CC & _).
    destruct le as [pos'|].
    + pose proof (CC ltac:(discriminate)) as C1. rewrite (BI_nocont _ _ BI1 C1) in R1.
      eapply IH; [exact H|exact C1|rewrite M; exact MX|]. rewrite (brun_app _ _ _ _ R). exact R1.
    + inversion H; subst. exists w1. split; [rewrite (brun_app _ _ _ _ R); exact R1|exact BI1].
  - inversion H; subst. exists None. split; [exact R|left; reflexivity].
Qed.

Lemma line_core_b : forall sB line s' toks acc w,
  line_core C isident isspace sB line 0 = Ok (s', toks) -> max_ sB = len line -> brun None acc = Some w -> BI w sB ->
  exists w', brun None (acc ++ toks) = Some w' /\ BI w' s'.
Proof.
  intros sB line s' toks acc w H MX R B. unfold line_core in H.
  destruct (contstr sB) as [|cc ct] eqn:CB.
  - pose proof (BI_nocont _ _ B CB) as ->.
    destruct (scan_b _ _ _ _ _ _ _ None H CB MX (brun_nil None)) as (w1 & R1 & B1).
    exists w1. split; [rewrite (brun_app _ _ _ _ R); exact R1|exact B1].
  - destruct (endprog sB) as [r|]; [|discriminate].
    destruct (rmatch_at r line 0) as [[e cs]|].
    + set (tok := mkTok STRING ((cc :: ct) ++ upto line e) (fst (contstr_start sB)) (snd (contstr_start sB)) (prefix sB)) in *.
      assert (RT: brun w [tok] = Some None).
      { apply (brun_real (contstr_start sB)); [reflexivity|unfold tpos, tok; cbn [tline tcol]; destruct (contstr_start sB); reflexivity|].
        destruct B as [->|[-> _]]; [left; reflexivity|right; reflexivity]. }
      eapply (scan_b _ _ _ _ _ _ _ w) in H; [|reflexivity|exact MX|exact RT].
      destruct H as (w1 & R1 & B1). exists w1. split; [|exact B1].
      rewrite (brun_app _ _ _ _ R). exact R1.
    + inversion H; subst. rewrite app_nil_r. exists w. split; [exact R|].
      destruct B as [->|[-> _]]; [left; reflexivity|right; split; [reflexivity|cbn [contstr]; discriminate]].
Qed.

Lemma line_step_b : forall s line0 first s' toks acc w,
  line_step C isident isspace s line0 first 0 = Ok (s', toks) -> brun None acc = Some w -> BI w s ->
  exists w', brun None (acc ++ toks) = Some w' /\ BI w' s'.
Proof.
  intros s line0 first s' toks acc w H R B. unfold Tok.line_step in H.
  set (sA := mkSt (paren s) (indents s) (contstr s) (contstr_start s) (endprog s) (new_line s) (prefix s) (addp s) (fstack s) (lnum s + 1) (len line0)) in *.
  assert (BA: forall a m, BI w (mkSt (paren sA) (indents sA) (contstr sA) (contstr_start sA) (endprog sA) (new_line sA) (prefix sA) a (fstack sA) (lnum sA) m)) by (intros a m; exact B).
  destruct first.
  - destruct line0 as [|c t].
    + cbn [repeat N.to_nat app] in H. eapply line_core_b in H; [exact H|reflexivity|exact R|apply BA].
    + destruct (c =? bom).
      * cbn [repeat N.to_nat app upd_addp paren indents contstr contstr_start endprog new_line prefix addp fstack lnum] in H.
        eapply line_core_b in H; [exact H|cbn [max_]; lia|exact R|apply BA].
      * cbn [repeat N.to_nat app] in H. eapply line_core_b in H; [exact H|cbn [max_]; lia|exact R|apply BA].
  - eapply line_core_b in H; [exact H|reflexivity|exact R|exact B].
Qed.

Lemma lines_loop_b : forall lines s first acc s' out w,
  lines_loop C isident isspace s lines first 0 acc = Ok (s', out) -> brun None acc = Some w -> BI w s ->
  exists w', brun None out = Some w' /\ BI w' s'.
Proof.
  induction lines as [|l rest IH]; intros s first acc s' out w H R B; cbn [Tok.lines_loop] in H.
  - inversion H; subst. exists w. split; assumption.
  - destruct (line_step C isident isspace s l first 0) as [[s1 toks]|] eqn:LS; [|discriminate].
    destruct (line_step_b _ _ _ _ _ _ _ LS R B) as (w1 & R1 & B1). eapply IH; [exact H|exact R1|exact B1].
Qed.

Theorem tok_block_positions : forall lines inds sl first toks,
  tokenize_lines C isident isspace lines inds sl 0 first = Ok toks -> brun None toks = Some None.
Proof.
  intros lines inds sl first toks H. unfold tokenize_lines in H.
  set (s0 := mkSt 0 inds [] (0, 0) None true [] [] [] (sl - 1) 0) in *.
  destruct (lines_loop C isident isspace s0 lines first 0 []) as [[s out]|] eqn:LL; [|discriminate].
  destruct (lines_loop_b _ _ _ _ _ _ None LL (brun_nil None) (or_introl eq_refl)) as (w & R & B).
  match type of H with (if ?g then _ else _) = _ => destruct g; [|discriminate] end.
  inversion H; subst toks. clear H.
  rewrite (brun_app _ _ _ _ R).
  (* the unterminated string, if any, settles what is owed *)
  assert (R1: brun w (match contstr s with [] => [] | _ :: _ => [mkTok ERRORTOKEN (contstr s) (fst (contstr_start s)) (snd (contstr_start s)) (prefix s)] end) = Some None).
  { destruct (contstr s) as [|cc ct] eqn:CS.
    - rewrite (BI_nocont _ _ B CS). reflexivity.
    - apply (brun_real (contstr_start s)); [reflexivity|unfold tpos; cbn [tline tcol]; destruct (contstr_start s); reflexivity|].
      destruct B as [->|[-> _]]; [left; reflexivity|right; reflexivity]. }
  rewrite (brun_app _ _ _ _ R1).
  assert (R2: brun None (match last_opt (fstack s) with
                          | Some f => match prev_lines f with [] => [] | _ :: _ => [mkTok FSTRING_STRING (prev_lines f) (fst (last_start f)) (snd (last_start f)) []] end
                          | None => [] end) = Some None).
  { destruct (last_opt (fstack s)) as [f|]; [destruct (prev_lines f)|]; reflexivity. }
  rewrite (brun_app _ _ _ _ R2).
  assert (B3: blocks_at (lnum s, max_ s) (map (fun _ => mkTok DEDENT [] (lnum s) (max_ s) []) (tl (indents s)))).
  { induction (tl (indents s)) as [|x r IHr]; [apply blocks_at_nil|]. cbn [map]. apply (blocks_at_app _ [_]); [apply blocks_at_one; left; split; reflexivity|exact IHr]. }
  destruct (brun_blocks _ _ None B3 (or_introl eq_refl)) as (w3 & R3 & O3).
  rewrite (brun_app _ _ _ _ R3). apply (brun_real (lnum s, max_ s)); [reflexivity|reflexivity|exact O3].
Qed.
End BP.
Print Assumptions tok_block_positions.

(* what the walk means: every block token is followed, after block / ERROR_DEDENT tokens only, by a real token at its position *)
Lemma brun_block_followed : forall l w t, brun w (t :: l) = Some None -> isblock t = true ->
  exists bs u rest, l = bs ++ u :: rest /\ forallb (fun x => isblock x || transparent x) bs = true /\ real u = true /\ tpos u = tpos t.
Proof.
  induction l as [|x l IH]; intros w t H K.
  - exfalso. unfold brun in H. simpl in H. unfold isblock in K. unfold bstep in H.
    destruct (ty t); try discriminate; destruct w as [p|]; try (destruct (pos_eqb p (tpos t)); [|discriminate]); inversion H.
  - unfold brun in H. cbn [fold_left] in H.
    assert (S1: bstep (Some w) t = Some (Some (tpos t))).
    { unfold isblock in K. unfold bstep in *. destruct (ty t); try discriminate;
        (destruct w as [p|]; [destruct (pos_eqb p (tpos t)) eqn:E; [apply pos_eqb_eq in E; subst; reflexivity|rewrite bfold_none in H; discriminate]|reflexivity]). }
    rewrite S1 in H.
    assert (SAME: forall y, isblock y = true \/ real y = true -> fold_left bstep l (bstep (Some (Some (tpos t))) y) = Some None -> tpos y = tpos t).
    { intros y KY HY. unfold bstep in HY. unfold real, isblock, transparent in KY.
      destruct (ty y); try (destruct KY as [KY|KY]; discriminate);
        (destruct (pos_eqb (tpos t) (tpos y)) eqn:E2; [apply pos_eqb_eq in E2; symmetry; exact E2|rewrite bfold_none in HY; discriminate]). }
    destruct (isblock x) eqn:KX.
    + destruct (IH (Some (tpos t)) x H KX) as (bs & u & rest & E & F & RU & PU).
      exists (x :: bs), u, rest. split; [rewrite E; reflexivity|split; [cbn [forallb]; rewrite KX; exact F|split; [exact RU|]]].
      rewrite PU. apply SAME; [left; exact KX|exact H].
    + destruct (transparent x) eqn:TX.
      * assert (S2: bstep (Some (Some (tpos t))) x = Some (Some (tpos t))) by (unfold transparent in TX; unfold bstep; destruct (ty x); try discriminate; reflexivity).
        cbn [fold_left] in H. rewrite S2 in H.
        assert (H': brun w (t :: l) = Some None) by (unfold brun; cbn [fold_left]; rewrite S1; exact H).
        destruct (IH w t H' K) as (bs & u & rest & E & F & RU & PU).
        exists (x :: bs), u, rest. split; [rewrite E; reflexivity|split; [cbn [forallb]; rewrite KX, TX; exact F|split; assumption]].
      * exists [], x, l. split; [reflexivity|split; [reflexivity|split; [unfold real; rewrite KX, TX; reflexivity|]]].
        apply SAME; [right; unfold real; rewrite KX, TX; reflexivity|exact H].
Qed.

(* hence, in a stream the walk accepts: every INDENT / DEDENT token sits at the position of the next real token *)
Theorem block_tokens_at_next_real : forall toks pre t post, brun None toks = Some None -> toks = pre ++ t :: post -> isblock t = true ->
  exists bs u rest, post = bs ++ u :: rest /\ forallb (fun x => isblock x || transparent x) bs = true /\ real u = true /\ tpos u = tpos t.
Proof.
  intros toks pre t post H E K. subst toks. unfold brun in H. rewrite fold_left_app in H.
  destruct (fold_left bstep pre (Some None)) as [w|] eqn:P; [|rewrite bfold_none in H; discriminate].
  eapply brun_block_followed; [exact H|exact K].
Qed.
