From Coq Require Import List NArith ZArith Bool Lia.
Import ListNotations.
Require Import Regex Tok Engine LL1 LL1Inst LL1Engine.
Open Scope N_scope.

(* C05 for RECOVERED trees (and for runs that use the missing-newline repair): every tree the engine returns, in both
   modes and for every token list, is the conversion of the collapsed form of a derivation with error markers in which
   every rule node - also those inside error nodes - is a complete instance of its rule: its children drive the rule's
   automaton from the start state to a final state, where
     - a leaf takes the terminal arc of its label, a rule node the nonterminal arc of its rule,
     - an error marker (error leaf / error node) stands for a possibly empty sequence of nonterminal arcs
       (the statement or block that could not be built),                                             [rr_err]
     - inside a suite the arc of `stmt` may be taken without a child (the fix-up at the end of error_recovery:
       a block all of whose statements went into error nodes),                                        [rr_suite]
     - inside a simple_stmt the arc of NEWLINE may be taken without a child (the final newline may be absent at
       the end of the file / of a block).                                                             [rr_nonl]
   The last two relaxations are the documented tree conventions; the model does not tie rr_suite to the presence of an
   error marker in that suite (the implementation-side conformance predicate does). *)

Section Rec.
Variable G : gram.
Variable TR : list (N * list (label * plan)).
Notation mkn := (mk_node G).
Notation aT := (arcT G).
Notation aN := (arcN G).
Notation st := (startR G).
Notation ruleof := (rule_of G).

Inductive rd := RLeaf (a : label) (x : tree) | RNode (B : N) (kids : list rd) | RErrLeaf (x : tree) | RErrNode (kids : list rd).

Fixpoint rcollapse (d : rd) : tree :=
  match d with
  | RLeaf _ x => x
  | RErrLeaf x => x
  | RNode B kb => match kb with [k] => rcollapse k | _ => mkn B (map rcollapse kb) end
  | RErrNode kb => Node KErrorNode (map rcollapse kb)
  end.

Definition is_err (d : rd) : bool := match d with RErrLeaf _ | RErrNode _ => true | _ => false end.

Inductive nts : N -> N -> Prop :=
| nts_refl q : nts q q
| nts_step q B q1 q2 : aN q B = Some q1 -> nts q1 q2 -> nts q q2.

Inductive runR : N -> list rd -> N -> Prop :=
| rr_nil q : runR q [] q
| rr_leaf q a x q1 r q' : aT q a = Some q1 -> runR q1 r q' -> runR q (RLeaf a x :: r) q'
| rr_node q B kb q1 r q' : aN q B = Some q1 -> runR q1 r q' -> runR q (RNode B kb :: r) q'
| rr_err q e q1 r q' : is_err e = true -> nts q q1 -> runR q1 r q' -> runR q (e :: r) q'
| rr_suite q q1 r q' : ruleof q = r_suite G -> aN q (r_stmt G) = Some q1 -> runR q1 r q' -> runR q r q'
| rr_nonl q q1 r q' : ruleof q = r_simple_stmt G -> aT q (LType NEWLINE) = Some q1 -> runR q1 r q' -> runR q r q'.

Fixpoint rwf (d : rd) : Prop :=
  match d with
  | RLeaf _ _ => True
  | RErrLeaf _ => True
  | RNode B kb => validR G B /\ (exists qf, runR (st B) kb qf /\ final G qf = true) /\
                  (fix all (l : list rd) : Prop := match l with [] => True | k :: r => rwf k /\ all r end) kb
  | RErrNode kb => (fix all (l : list rd) : Prop := match l with [] => True | k :: r => rwf k /\ all r end) kb
  end.
Fixpoint all_rwf (l : list rd) : Prop := match l with [] => True | k :: r => rwf k /\ all_rwf r end.
Lemma all_eq l : (fix all (l : list rd) : Prop := match l with [] => True | k :: r => rwf k /\ all r end) l = all_rwf l.
Proof. induction l as [|k r IH]; simpl; [reflexivity|]. rewrite IH. reflexivity. Qed.
Lemma rwf_node B kb : rwf (RNode B kb) <-> validR G B /\ (exists qf, runR (st B) kb qf /\ final G qf = true) /\ all_rwf kb.
Proof. simpl. rewrite all_eq. reflexivity. Qed.
Lemma rwf_errnode kb : rwf (RErrNode kb) <-> all_rwf kb.
Proof. simpl. rewrite all_eq. reflexivity. Qed.
Lemma all_rwf_app l1 l2 : all_rwf (l1 ++ l2) <-> all_rwf l1 /\ all_rwf l2.
Proof. induction l1 as [|k r IH]; simpl; [tauto|]. rewrite IH. tauto. Qed.

Lemma runR_app q l1 q1 : runR q l1 q1 -> forall l2 q2, runR q1 l2 q2 -> runR q (l1 ++ l2) q2.
Proof.
  induction 1 as [q|q a x q1 r q' A R IH|q B kb q1 r q' A R IH|q e q1 r q' E NT R IH|q q1 r q' RS A R IH|q q1 r q' RS A R IH]; intros l2 q2 H2; cbn [app].
  - exact H2.
  - eapply rr_leaf; [exact A|apply IH; exact H2].
  - eapply rr_node; [exact A|apply IH; exact H2].
  - eapply rr_err; [exact E|exact NT|apply IH; exact H2].
  - eapply rr_suite; [exact RS|exact A|apply IH; exact H2].
  - eapply rr_nonl; [exact RS|exact A|apply IH; exact H2].
Qed.

Lemma nts_trans a b c : nts a b -> nts b c -> nts a c.
Proof. induction 1 as [q|q B q1 q2 A N IH]; intros H; [exact H|]. eapply nts_step; [exact A|apply IH; exact H]. Qed.

(* ---------- table facts ---------- *)
Hypothesis OK : tables_sound_ok G TR = true.
Lemma ok_parts : arcs_in_rule_ok G = true /\ starts_ok G = true /\ plans_sound_ok G TR = true /\ arcN_valid_ok G = true.
Proof. unfold tables_sound_ok in OK. repeat (apply andb_true_iff in OK as [OK ?]). repeat split; assumption. Qed.
Lemma r_arcT q a q' : aT q a = Some q' -> ruleof q' = ruleof q.
Proof. apply rule_arcT_ok. apply ok_parts. Qed.
Lemma r_arcN q B q' : aN q B = Some q' -> ruleof q' = ruleof q.
Proof. apply rule_arcN_ok. apply ok_parts. Qed.
Lemma r_start B : validR G B -> ruleof (st B) = B.
Proof. apply rule_start_ok. apply ok_parts. Qed.
Lemma v_arcN q B q' : aN q B = Some q' -> validR G B.
Proof. apply arcN_valid_sound. apply ok_parts. Qed.
Lemma nts_rule a b : nts a b -> ruleof b = ruleof a.
Proof. induction 1 as [q|q B q1 q2 A N IH]; [reflexivity|]. rewrite IH. eapply r_arcN; exact A. Qed.

(* ---------- the stack invariant ---------- *)
Definition FI (link : N -> N -> Prop) (fr : Engine.frame) : Prop :=
  exists kb q0, f_nodes fr = map rcollapse kb /\ all_rwf kb /\ runR (st (ruleof (f_dfa fr))) kb q0 /\ link q0 (f_dfa fr) /\
                validR G (ruleof (f_dfa fr)).
Definition lnk (B : N) (q0 q : N) : Prop := aN q0 B = Some q.
Fixpoint chain (B : N) (s : list Engine.frame) : Prop :=
  match s with
  | [] => True
  | fr :: rest => FI (lnk B) fr /\ chain (ruleof (f_dfa fr)) rest
  end.
Definition SOKR (s : list Engine.frame) : Prop :=
  match s with [] => False | top :: rest => FI eq top /\ chain (ruleof (f_dfa top)) rest end.
Definition TopW (s : list Engine.frame) : Prop :=
  match s with [] => False | top :: rest => FI nts top /\ chain (ruleof (f_dfa top)) rest end.

Lemma FI_weaken (l1 l2 : N -> N -> Prop) fr : (forall a b, l1 a b -> l2 a b) -> FI l1 fr -> FI l2 fr.
Proof. intros W (kb & q0 & E & A & R & L & V). exists kb, q0. repeat split; try assumption. apply W. exact L. Qed.
Lemma SOKR_TopW s : SOKR s -> TopW s.
Proof. destruct s as [|top r]; [exact (fun x => x)|]. intros [F C]. split; [|exact C]. eapply FI_weaken; [|exact F]. intros a b ->. apply nts_refl. Qed.

(* every frame holds collapsed derivations *)
Definition WI (fr : Engine.frame) : Prop := exists kb, f_nodes fr = map rcollapse kb /\ all_rwf kb.
Lemma FI_WI l fr : FI l fr -> WI fr.
Proof. intros (kb & q0 & E & A & _). exists kb. split; assumption. Qed.
Lemma chain_WI : forall s B, chain B s -> Forall WI s.
Proof. induction s as [|fr r IH]; intros B H; [constructor|]. destruct H as [F C]. constructor; [eapply FI_WI; exact F|eapply IH; exact C]. Qed.
Lemma SOKR_WI s : SOKR s -> Forall WI s.
Proof. destruct s as [|top r]; [intros []|]. intros [F C]. constructor; [eapply FI_WI; exact F|eapply chain_WI; exact C]. Qed.
Lemma WI_flat : forall l, Forall WI l -> exists KB, flat_map f_nodes l = map rcollapse KB /\ all_rwf KB.
Proof.
  induction l as [|fr r IH]; intros H; [exists []; split; [reflexivity|exact I]|].
  inversion H as [|x y (kb & E & A) HR]; subst. destruct (IH HR) as (KB & E2 & A2).
  exists (kb ++ KB). cbn [flat_map]. rewrite map_app, E, E2. split; [reflexivity|]. apply all_rwf_app. split; assumption.
Qed.

(* ---------- pop ---------- *)
Lemma rcollapse_node B kb : rcollapse (RNode B kb) = match kb with [k] => rcollapse k | _ => mkn B (map rcollapse kb) end.
Proof. reflexivity. Qed.

Lemma pop_ok s s1 : SOKR s -> pop G s = POk s1 -> match s with tos :: _ => final G (f_dfa tos) = true | [] => True end -> SOKR s1.
Proof.
  unfold pop. destruct s as [|tos [|below rest]]; [intros []|discriminate|]. intros [FT [FB CR]] H FQ.
  destruct FT as (kb & q0 & E & A & R & -> & V).
  destruct FB as (kbb & q0b & Eb & Ab & Rb & Lb & Vb). unfold lnk in Lb.
  assert (K: forall nd, nd = rcollapse (RNode (ruleof (f_dfa tos)) kb) -> SOKR (mkFr (f_dfa below) (f_nodes below ++ [nd]) :: rest)).
  { intros nd ->. split; [|exact CR]. cbn [f_dfa f_nodes]. exists (kbb ++ [RNode (ruleof (f_dfa tos)) kb]), (f_dfa below).
    split; [rewrite map_app, Eb; reflexivity|]. split.
    { apply all_rwf_app. split; [exact Ab|]. split; [|exact I]. apply rwf_node. split; [exact V|]. split; [|exact A]. exists (f_dfa tos). split; assumption. }
    split; [|split; [reflexivity|exact Vb]].
    eapply runR_app; [exact Rb|]. eapply rr_node; [exact Lb|apply rr_nil]. }
  rewrite rcollapse_node in K. rewrite E in H.
  destruct kb as [|k [|k2 kr]]; cbn [map] in H.
  - destruct (convert_node G (ruleof (f_dfa tos)) []) as [nd|] eqn:CV; [|discriminate]. inversion H; subst. apply K. cbn [map]. unfold mk_node. rewrite CV. reflexivity.
  - inversion H; subst. apply K. reflexivity.
  - destruct (convert_node G (ruleof (f_dfa tos)) (rcollapse k :: rcollapse k2 :: map rcollapse kr)) as [nd|] eqn:CV; [|discriminate].
    inversion H; subst. apply K. cbn [map]. unfold mk_node. rewrite CV. reflexivity.
Qed.

(* ---------- shift ---------- *)
Lemma push_chain : forall B a ch, first_chain N label N aT aN st B a ch -> validR G B ->
  forall base x, chain B base ->
  exists top r, fold_left (fun s q => mkFr q [] :: s) ch base = top :: r /\ SOKR (mkFr (f_dfa top) (f_nodes top ++ [x]) :: r).
Proof.
  induction 1 as [B a s1 A|B C a s ch A FC IH]; intros V base x CH.
  - exists (mkFr s1 []), base. split; [reflexivity|]. cbn [f_dfa f_nodes app].
    assert (RS: ruleof s1 = B) by (rewrite (r_arcT _ _ _ A); apply r_start; exact V).
    split; [|cbn [f_dfa]; rewrite RS; exact CH]. exists [RLeaf a x], s1. cbn [f_dfa f_nodes]. rewrite RS.
    split; [reflexivity|]. split; [split; exact I|]. split; [eapply rr_leaf; [exact A|apply rr_nil]|]. split; [reflexivity|exact V].
  - cbn [fold_left]. apply IH; [eapply v_arcN; exact A|].
    assert (RS: ruleof s = B) by (rewrite (r_arcN _ _ _ A); apply r_start; exact V).
    split; [|cbn [f_dfa]; rewrite RS; exact CH].
    exists [], (st B). cbn [f_dfa f_nodes]. rewrite RS. split; [reflexivity|]. split; [exact I|]. split; [apply rr_nil|]. split; [exact A|exact V].
Qed.

Lemma shift_ok tos rest pl a x top r : SOKR (tos :: rest) -> trans TR (f_dfa tos) a = Some pl ->
  fold_left (fun s q => mkFr q [] :: s) (p_pushes pl) (mkFr (p_next pl) (f_nodes tos) :: rest) = top :: r ->
  SOKR (mkFr (f_dfa top) (f_nodes top ++ [x]) :: r).
Proof.
  intros [FT CR] TRS FL. destruct FT as (kb & q0 & E & A & R & -> & V).
  assert (P: plansI TR (f_dfa tos) a = Some (p_next pl, p_pushes pl)) by (unfold plansI; rewrite TRS; reflexivity).
  destruct (plans_sound_sound G TR (proj1 (proj2 (proj2 ok_parts))) _ _ _ _ P) as [[CE AT]|(B & AN & FC)].
  - rewrite CE in FL. cbn [fold_left] in FL. inversion FL; subst top r. cbn [f_dfa f_nodes].
    pose proof (r_arcT _ _ _ AT) as RS. split; [|cbn [f_dfa]; rewrite RS; exact CR].
    exists (kb ++ [RLeaf a x]), (p_next pl). cbn [f_dfa f_nodes]. rewrite RS.
    split; [rewrite map_app, E; reflexivity|]. split; [apply all_rwf_app; split; [exact A|split; exact I]|].
    split; [eapply runR_app; [exact R|eapply rr_leaf; [exact AT|apply rr_nil]]|]. split; [reflexivity|exact V].
  - pose proof (r_arcN _ _ _ AN) as RS.
    destruct (push_chain B a (p_pushes pl) FC (v_arcN _ _ _ AN) (mkFr (p_next pl) (f_nodes tos) :: rest) x) as (top' & r' & FL' & S).
    { split; [|cbn [f_dfa]; rewrite RS; exact CR]. exists kb, (f_dfa tos). cbn [f_dfa f_nodes]. rewrite RS.
      split; [exact E|]. split; [exact A|]. split; [exact R|]. split; [exact AN|exact V]. }
    rewrite FL in FL'. inversion FL'; subst. exact S.
Qed.

(* ---------- error markers, stack removal ---------- *)
Lemma mark_ok top r e : TopW (top :: r) -> is_err e = true -> rwf e ->
  SOKR (mkFr (f_dfa top) (f_nodes top ++ [rcollapse e]) :: r).
Proof.
  intros [(kb & q0 & E & A & R & L & V) C] IE W. split; [|exact C]. cbn [f_dfa f_nodes].
  exists (kb ++ [e]), (f_dfa top). split; [rewrite map_app, E; reflexivity|].
  split; [apply all_rwf_app; split; [exact A|split; [exact W|exact I]]|].
  split; [|split; [reflexivity|exact V]]. eapply runR_app; [exact R|]. eapply rr_err; [exact IE|exact L|apply rr_nil].
Qed.

Lemma chain_skipn : forall k s B, chain B s -> match skipn k s with [] => True | b :: r => exists B', FI (lnk B') b /\ chain (ruleof (f_dfa b)) r end.
Proof.
  induction k as [|k IH]; intros s B H.
  - cbn [skipn]. destruct s as [|b r]; [exact I|]. destruct H as [F C]. exists B. split; assumption.
  - destruct s as [|b r]; [exact I|]. cbn [skipn]. destruct H as [F C]. eapply IH. exact C.
Qed.
Lemma skipn_TopW k s : SOKR s -> match skipn k s with [] => True | _ :: _ => TopW (skipn k s) end.
Proof.
  intros S. destruct k as [|k].
  - cbn [skipn]. destruct s; [exact I|]. apply SOKR_TopW. exact S.
  - destruct s as [|top r]; [exact I|]. cbn [skipn]. destruct S as [F C].
    pose proof (chain_skipn k r _ C) as H. destruct (skipn k r) as [|b r2]; [exact I|].
    destruct H as (B' & FB & C2). split; [|exact C2]. eapply FI_weaken; [|exact FB].
    intros a b0 L. eapply nts_step; [exact L|apply nts_refl].
Qed.

Lemma Forall_firstn {A} (P : A -> Prop) k : forall l, Forall P l -> Forall P (firstn k l).
Proof. induction k as [|k IH]; intros l H; [constructor|]. destruct l; [constructor|]. inversion H; subst. cbn [firstn]. constructor; [assumption|apply IH; assumption]. Qed.
Lemma Forall_rev' {A} (P : A -> Prop) l : Forall P l -> Forall P (rev l).
Proof. intros H. apply Forall_forall. intros x I. apply in_rev in I. rewrite Forall_forall in H. apply H. exact I. Qed.

Lemma stack_removal_ok s k s1 b : SOKR s -> stack_removal s k = (s1, b) ->
  if b then SOKR s1 else (s1 = skipn k s).
Proof.
  intros S H. unfold stack_removal in H.
  destruct (WI_flat (rev (firstn k s)) (Forall_rev' _ _ (Forall_firstn _ k _ (SOKR_WI _ S)))) as (KB & E & A).
  destruct (flat_map f_nodes (rev (firstn k s))) as [|n0 nr] eqn:FM.
  - inversion H; subst. reflexivity.
  - pose proof (skipn_TopW k s S) as T. destruct (skipn k s) as [|below r] eqn:SK.
    + inversion H; subst. reflexivity.
    + inversion H; subst. rewrite E.
      change (Node KErrorNode (map rcollapse KB)) with (rcollapse (RErrNode KB)).
      apply mark_ok; [exact T|reflexivity|apply rwf_errnode; exact A].
Qed.

(* ---------- the suite fix-up and the missing-newline repair ---------- *)
Lemma fixup_ok top r q : SOKR (top :: r) -> ruleof (f_dfa top) = r_suite G -> arc_nt G (f_dfa top) (r_stmt G) = Some q ->
  SOKR (mkFr q (f_nodes top) :: r).
Proof.
  intros [(kb & q0 & E & A & R & -> & V) C] RS AN. change (aN (f_dfa top) (r_stmt G) = Some q) in AN.
  pose proof (r_arcN _ _ _ AN) as RQ. split; [|cbn [f_dfa]; rewrite RQ; exact C].
  exists kb, q. cbn [f_dfa f_nodes]. rewrite RQ. split; [exact E|]. split; [exact A|]. split; [|split; [reflexivity|exact V]].
  rewrite <- (app_nil_r kb). eapply runR_app; [exact R|]. eapply rr_suite; [exact RS|exact AN|apply rr_nil].
Qed.

Lemma nonl_ok tos rest pl : SOKR (tos :: rest) -> ruleof (f_dfa tos) = r_simple_stmt G ->
  trans TR (f_dfa tos) (LType NEWLINE) = Some pl -> p_pushes pl = [] ->
  SOKR (mkFr (p_next pl) (f_nodes tos) :: rest).
Proof.
  intros [(kb & q0 & E & A & R & -> & V) C] RS TRS PE.
  assert (P: plansI TR (f_dfa tos) (LType NEWLINE) = Some (p_next pl, p_pushes pl)) by (unfold plansI; rewrite TRS; reflexivity).
  destruct (plans_sound_sound G TR (proj1 (proj2 (proj2 ok_parts))) _ _ _ _ P) as [[CE AT]|(B & AN & FC)].
  - pose proof (r_arcT _ _ _ AT) as RQ. split; [|cbn [f_dfa]; rewrite RQ; exact C].
    exists kb, (p_next pl). cbn [f_dfa f_nodes]. rewrite RQ. split; [exact E|]. split; [exact A|]. split; [|split; [reflexivity|exact V]].
    rewrite <- (app_nil_r kb). eapply runR_app; [exact R|]. eapply rr_nonl; [exact RS|exact AT|apply rr_nil].
  - rewrite PE in FC. inversion FC.
Qed.

(* ---------- add_token, feed, finish ---------- *)
Lemma add_token_ok : forall f recover p t p', SOKR (stack p) -> add_token G TR f recover p t = POk p' -> SOKR (stack p').
Proof.
  induction f as [|f IH]; intros recover p t p' S H; [discriminate|]. cbn [add_token] in H.
  destruct (stack p) as [|tos rest] eqn:SP; [discriminate|].
  destruct (trans TR (f_dfa tos) (token_label G t)) as [pl|] eqn:TRS.
  { destruct (fold_left (fun st0 q => mkFr q [] :: st0) (p_pushes pl) (mkFr (p_next pl) (f_nodes tos) :: rest)) as [|top r] eqn:FL; [discriminate|].
    inversion H; subst p'. cbn [stack]. eapply shift_ok; eassumption. }
  destruct (final G (f_dfa tos)) eqn:FQ.
  { destruct (pop G (tos :: rest)) as [s'|] eqn:P; [|discriminate].
    eapply IH; [|exact H]. cbn [stack]. eapply pop_ok; [exact S|exact P|exact FQ]. }
  (* error recovery *)
  match type of H with context [match ?sp with POk _ => _ | PErr _ => _ end] => destruct sp as [[p1|]|] eqn:SPC; [| |discriminate] end.
  { inversion H; subst p1. clear H.
    revert SPC. match goal with |- context [match ?c with POk _ => _ | PErr _ => _ end] => destruct c as [[|]|]; try discriminate end.
    destruct (ruleof (f_dfa tos) =? r_simple_stmt G) eqn:RS; [|discriminate]. apply N.eqb_eq in RS.
    destruct (trans TR (f_dfa tos) (LType NEWLINE)) as [pl|] eqn:TN; [|discriminate].
    destruct (final G (p_next pl) && match p_pushes pl with [] => true | _ => false end) eqn:C; [|discriminate].
    apply andb_true_iff in C as [_ C]. destruct (p_pushes pl) eqn:PP; [|discriminate].
    destruct (add_token G TR f recover (mkP (mkFr (p_next pl) (f_nodes tos) :: rest) (omit p) (icount p)) t) as [p2|] eqn:AT; [|discriminate].
    intros Y; inversion Y; subst p2. eapply IH; [|exact AT]. cbn [stack]. eapply nonl_ok; eassumption. }
  destruct (negb recover); [discriminate|].
  destruct (stack_removal (tos :: rest) (current_suite G (tos :: rest))) as [s1 removed] eqn:SR.
  pose proof (stack_removal_ok _ _ _ _ S SR) as SRO.
  match type of H with context [match ?af with POk _ => _ | PErr _ => _ end] => destruct af as [p2|] eqn:AFTER; [|discriminate] end.
  assert (S2: SOKR (stack p2)).
  { destruct removed.
    - eapply IH; [|exact AFTER]. exact SRO.
    - destruct s1 as [|top r]; [discriminate|]. inversion AFTER; subst p2. cbn [stack].
      change (Leaf (KErrorLeaf (ty t)) (ts t) (tpre t) (tline t) (tcol t)) with (rcollapse (RErrLeaf (Leaf (KErrorLeaf (ty t)) (ts t) (tpre t) (tline t) (tcol t)))).
      apply mark_ok; [|reflexivity|exact I].
      pose proof (skipn_TopW (current_suite G (tos :: rest)) _ S) as T. rewrite <- SRO in T. exact T. }
  destruct (stack p2) as [|top r] eqn:SP2; [discriminate|].
  destruct (ruleof (f_dfa top) =? r_suite G) eqn:RS.
  - apply N.eqb_eq in RS. destruct (arc_nt G (f_dfa top) (r_stmt G)) as [q|] eqn:AN.
    + inversion H; subst p'. cbn [stack]. eapply fixup_ok; eassumption.
    + inversion H; subst p'. rewrite SP2. exact S2.
  - inversion H; subst p'. rewrite SP2. exact S2.
Qed.

Lemma feed_ok : forall toks recover p p', SOKR (stack p) -> Engine.feed G TR recover p toks = POk p' -> SOKR (stack p').
Proof.
  induction toks as [|t toks IH]; intros recover p p' S H; cbn [Engine.feed] in H; [inversion H; subst; exact S|].
  match type of H with context [match ?s0 with Some _ => _ | None => _ end] => destruct s0 as [p1|] eqn:STEP end.
  - assert (SP: stack p1 = stack p).
    { destruct recover; [|inversion STEP; reflexivity].
      destruct (ty t); try (inversion STEP; reflexivity).
      destruct (last_z (omit p)) as [o|]; [destruct (o =? icount p)%Z; [discriminate|]|]; inversion STEP; reflexivity. }
    assert (S1: SOKR (stack p1)) by (rewrite SP; exact S).
    destruct (add_token G TR _ recover p1 t) as [p2|] eqn:AT; [|discriminate].
    eapply IH; [|exact H]. eapply add_token_ok; eassumption.
  - eapply IH; [|exact H]. exact S.
Qed.

Lemma finish_ok : forall fuel s t, SOKR s -> finish G fuel s = POk t ->
  exists R kb, rwf (RNode R kb) /\ convert_node G R (map rcollapse kb) = POk t.
Proof.
  induction fuel as [|f IH]; intros s t S H; [discriminate|]. cbn [finish] in H.
  destruct s as [|tos rest]; [discriminate|]. destruct (final G (f_dfa tos)) eqn:FQ; [|discriminate]. cbn [negb] in H.
  destruct rest as [|below rest].
  - destruct S as [(kb & q0 & E & A & R & -> & V) _]. exists (ruleof (f_dfa tos)), kb. rewrite <- E. split; [|exact H].
    apply rwf_node. split; [exact V|]. split; [|exact A]. exists (f_dfa tos). split; assumption.
  - destruct (pop G (tos :: below :: rest)) as [s1|] eqn:P; [|discriminate].
    eapply IH; [|exact H]. eapply pop_ok; [exact S|exact P|exact FQ].
Qed.

Theorem recovered_conform : forall recover S0 toks t, parse G TR recover S0 toks = POk t ->
  exists R kb, rwf (RNode R kb) /\ convert_node G R (map rcollapse kb) = POk t.
Proof.
  intros recover S0 toks t H. unfold parse in H.
  destruct (assocN S0 (g_start G)) as [q0|] eqn:A; [|discriminate].
  assert (V: validR G S0).
  { unfold validR. clear - A. induction (g_start G) as [|[b q] r IH]; [discriminate|]. simpl in *. destruct (b =? S0) eqn:E; [left; apply N.eqb_eq; exact E|right; apply IH; exact A]. }
  assert (S0q: st S0 = q0) by (unfold startR; rewrite A; reflexivity).
  destruct (Engine.feed G TR recover (mkP [mkFr q0 []] [] 0%Z) toks) as [p|] eqn:F; [|discriminate].
  eapply finish_ok; [|exact H]. eapply feed_ok; [|exact F]. cbn [stack].
  split; [|exact I]. exists [], q0. cbn [f_dfa f_nodes]. rewrite <- S0q, (r_start _ V).
  split; [reflexivity|]. split; [exact I|]. split; [apply rr_nil|]. split; [reflexivity|exact V].
Qed.
End Rec.
Print Assumptions recovered_conform.
