From Coq Require Import List NArith Bool Lia.
Import ListNotations.
Open Scope N_scope.

(* Regular expressions over labels (terminals and nonterminals of a rule). *)
Inductive rx := Empty | Eps | Sym (a:N) | Cat (r s:rx) | Alt (r s:rx) | Star (r:rx).

Inductive matches : rx -> list N -> Prop :=
| m_eps : matches Eps []
| m_sym a : matches (Sym a) [a]
| m_cat r s u v : matches r u -> matches s v -> matches (Cat r s) (u ++ v)
| m_altl r s w : matches r w -> matches (Alt r s) w
| m_altr r s w : matches s w -> matches (Alt r s) w
| m_star0 r : matches (Star r) []
| m_star1 r u v : u <> [] -> matches r u -> matches (Star r) v -> matches (Star r) (u ++ v).

Fixpoint rx_eqb (r s : rx) : bool :=
  match r, s with
  | Empty, Empty | Eps, Eps => true
  | Sym a, Sym b => a =? b
  | Cat a b, Cat c d | Alt a b, Alt c d => rx_eqb a c && rx_eqb b d
  | Star a, Star b => rx_eqb a b
  | _, _ => false
  end.

Lemma rx_eqb_eq r s : rx_eqb r s = true <-> r = s.
Proof.
  revert s; induction r; destruct s; simpl; split; intros H; try discriminate; try reflexivity;
    try (apply N.eqb_eq in H; subst; reflexivity);
    try (inversion H; subst; apply N.eqb_refl).
  - apply andb_true_iff in H as [H1 H2]. apply IHr1 in H1. apply IHr2 in H2. subst. reflexivity.
  - inversion H; subst. apply andb_true_iff; split; [apply IHr1|apply IHr2]; reflexivity.
  - apply andb_true_iff in H as [H1 H2]. apply IHr1 in H1. apply IHr2 in H2. subst. reflexivity.
  - inversion H; subst. apply andb_true_iff; split; [apply IHr1|apply IHr2]; reflexivity.
  - apply IHr in H. subst. reflexivity.
  - inversion H; subst. apply IHr. reflexivity.
Qed.

Fixpoint nullable (r:rx) : bool :=
  match r with
  | Empty => false | Eps => true | Sym _ => false
  | Cat r s => nullable r && nullable s
  | Alt r s => nullable r || nullable s
  | Star _ => true
  end.

(* Smart constructors: enough normalisation to keep the derivative sets of grammar
   rules finite in practice; exploration runs on fuel, so only soundness is needed. *)
Definition cat (r s:rx) : rx :=
  match r, s with
  | Empty, _ => Empty | _, Empty => Empty
  | Eps, _ => s | _, Eps => r
  | _, _ => Cat r s
  end.
Definition rank (r:rx) : N :=
  match r with Empty => 0 | Eps => 1 | Sym _ => 2 | Cat _ _ => 3 | Alt _ _ => 4 | Star _ => 5 end.
Fixpoint rx_cmp (r s:rx) : comparison :=
  match r, s with
  | Sym a, Sym b => N.compare a b
  | Cat a b, Cat c d | Alt a b, Alt c d =>
      match rx_cmp a c with Eq => rx_cmp b d | x => x end
  | Star a, Star b => rx_cmp a b
  | _, _ => N.compare (rank r) (rank s)
  end.
(* insert r into a right-nested, sorted, duplicate-free alternative list *)
Fixpoint insert (r s:rx) : rx :=
  match s with
  | Alt a b =>
      if rx_eqb r a then s else
      match rx_cmp r a with Lt => Alt r s | _ => Alt a (insert r b) end
  | Empty => r
  | _ =>
      if rx_eqb r s then s else
      match rx_cmp r s with Lt => Alt r s | _ => Alt s r end
  end.
Fixpoint alt (r s:rx) : rx :=
  match r with
  | Empty => s
  | Alt a b => alt a (alt b s)
  | _ => insert r s
  end.

Fixpoint deriv (a:N) (r:rx) : rx :=
  match r with
  | Empty | Eps => Empty
  | Sym b => if a =? b then Eps else Empty
  | Cat r s => if nullable r then alt (cat (deriv a r) s) (deriv a s) else cat (deriv a r) s
  | Alt r s => alt (deriv a r) (deriv a s)
  | Star r => cat (deriv a r) (Star r)
  end.

Lemma cat_inv r s w : matches (Cat r s) w -> exists u v, w = u ++ v /\ matches r u /\ matches s v.
Proof. intros H; inversion H; subst; eauto. Qed.
Lemma alt_inv r s w : matches (Alt r s) w -> matches r w \/ matches s w.
Proof. intros H; inversion H; subst; auto. Qed.
Lemma eps_inv w : matches Eps w -> w = [].
Proof. intros H; inversion H; reflexivity. Qed.
Lemma sym_inv a w : matches (Sym a) w -> w = [a].
Proof. intros H; inversion H; reflexivity. Qed.
Lemma empty_inv w : matches Empty w -> False.
Proof. intros H; inversion H. Qed.
Lemma star_inv r w : matches (Star r) w ->
  w = [] \/ exists a u v, w = a :: u ++ v /\ matches r (a :: u) /\ matches (Star r) v.
Proof.
  intros H; inversion H; subst; [left; reflexivity|right].
  match goal with X : ?u <> [] |- _ => destruct u as [|a u]; [contradiction|] end.
  exists a, u. eexists. split; [reflexivity|]. split; assumption.
Qed.

Lemma nullable_ok r : nullable r = true <-> matches r [].
Proof.
  induction r as [| |a|r1 IH1 r2 IH2|r1 IH1 r2 IH2|r IH]; simpl; split; intros H.
  - discriminate.
  - apply empty_inv in H; contradiction.
  - constructor.
  - reflexivity.
  - discriminate.
  - apply sym_inv in H; discriminate.
  - apply andb_true_iff in H as [H1 H2].
    change (@nil N) with (@nil N ++ []). constructor; [apply IH1|apply IH2]; assumption.
  - apply cat_inv in H as (u & v & E & Hu & Hv). symmetry in E.
    apply app_eq_nil in E as [-> ->].
    apply andb_true_iff; split; [apply IH1|apply IH2]; assumption.
  - apply orb_true_iff in H as [H|H]; [apply m_altl, IH1|apply m_altr, IH2]; assumption.
  - apply orb_true_iff. apply alt_inv in H as [H|H]; [left; apply IH1|right; apply IH2]; assumption.
  - constructor.
  - reflexivity.
Qed.

Lemma cat_ok r s w : matches (cat r s) w <-> matches (Cat r s) w.
Proof.
  assert (E0: forall s w, matches (Cat Empty s) w <-> matches Empty w).
  { intros s0 w0; split; intros H; [|apply empty_inv in H; contradiction].
    apply cat_inv in H as (u & v & _ & Hu & _). apply empty_inv in Hu; contradiction. }
  assert (E1: forall r w, matches (Cat r Empty) w <-> matches Empty w).
  { intros r0 w0; split; intros H; [|apply empty_inv in H; contradiction].
    apply cat_inv in H as (u & v & _ & _ & Hv). apply empty_inv in Hv; contradiction. }
  assert (P0: forall s w, matches (Cat Eps s) w <-> matches s w).
  { intros s0 w0; split; intros H.
    - apply cat_inv in H as (u & v & -> & Hu & Hv). apply eps_inv in Hu; subst. exact Hv.
    - change w0 with ([] ++ w0). constructor; [constructor|exact H]. }
  assert (P1: forall r w, matches (Cat r Eps) w <-> matches r w).
  { intros r0 w0; split; intros H.
    - apply cat_inv in H as (u & v & -> & Hu & Hv). apply eps_inv in Hv; subst. rewrite app_nil_r. exact Hu.
    - rewrite <- (app_nil_r w0). constructor; [exact H|constructor]. }
  unfold cat; destruct r; destruct s;
    first [ reflexivity | rewrite E0; reflexivity | rewrite E1; reflexivity
          | rewrite P0; reflexivity | rewrite P1; reflexivity ].
Qed.

Lemma insert_ok r s w : matches (insert r s) w <-> matches (Alt r s) w.
Proof.
  revert w. induction s as [| |b|s1 IH1 s2 IH2|s1 IH1 s2 IH2|s IH]; intros w; simpl;
    try (destruct (rx_eqb r _) eqn:E;
         [apply rx_eqb_eq in E; subst; split; intros H;
            [apply m_altl; exact H|apply alt_inv in H as [H|H]; exact H]
         |destruct (rx_cmp r _); try reflexivity;
            (split; intros H; apply alt_inv in H as [H|H]; solve [apply m_altl; exact H|apply m_altr; exact H])]).
  - split; intros H; [apply m_altl; exact H|apply alt_inv in H as [H|H]; [exact H|apply empty_inv in H; contradiction]].
  - (* s = Alt s1 s2 *)
    destruct (rx_eqb r s1) eqn:E.
    + apply rx_eqb_eq in E; subst. split; intros H; [apply m_altr; exact H|].
      apply alt_inv in H as [H|H]; [apply m_altl; exact H|exact H].
    + assert (G: matches (Alt s1 (insert r s2)) w <-> matches (Alt r (Alt s1 s2)) w).
      { split; intros H.
        - apply alt_inv in H as [H|H]; [apply m_altr, m_altl; exact H|].
          apply IH2 in H. apply alt_inv in H as [H|H]; [apply m_altl; exact H|apply m_altr, m_altr; exact H].
        - apply alt_inv in H as [H|H]; [apply m_altr, IH2, m_altl; exact H|].
          apply alt_inv in H as [H|H]; [apply m_altl; exact H|apply m_altr, IH2, m_altr; exact H]. }
      destruct (rx_cmp r s1); [exact G|reflexivity|exact G].
Qed.

Lemma alt_ok r s w : matches (alt r s) w <-> matches (Alt r s) w.
Proof.
  revert s w. induction r as [| |b|r1 IH1 r2 IH2|r1 IH1 r2 IH2|r IH]; intros s w; simpl;
    try apply insert_ok.
  - split; intros H; [apply m_altr; exact H|apply alt_inv in H as [H|H]; [apply empty_inv in H; contradiction|exact H]].
  - rewrite IH1. split; intros H.
    + apply alt_inv in H as [H|H]; [apply m_altl, m_altl; exact H|].
      apply IH2 in H. apply alt_inv in H as [H|H]; [apply m_altl, m_altr; exact H|apply m_altr; exact H].
    + apply alt_inv in H as [H|H].
      * apply alt_inv in H as [H|H]; [apply m_altl; exact H|apply m_altr, IH2, m_altl; exact H].
      * apply m_altr, IH2, m_altr; exact H.
Qed.

Lemma deriv_ok a r : forall w, matches (deriv a r) w <-> matches r (a :: w).
Proof.
  induction r as [| |b|r1 IH1 r2 IH2|r1 IH1 r2 IH2|r IH]; intros w; simpl.
  - split; intros H; apply empty_inv in H; contradiction.
  - split; intros H; [apply empty_inv in H; contradiction|apply eps_inv in H; discriminate].
  - destruct (N.eqb_spec a b) as [->|Hne]; split; intros H.
    + apply eps_inv in H; subst. constructor.
    + apply sym_inv in H. inversion H; subst. constructor.
    + apply empty_inv in H; contradiction.
    + apply sym_inv in H. inversion H; subst. contradiction.
  - (* Cat *)
    assert (C: matches (cat (deriv a r1) r2) w <-> exists u v, w = u ++ v /\ matches r1 (a::u) /\ matches r2 v).
    { rewrite cat_ok. split.
      - intros H. apply cat_inv in H as (u & v & -> & Hu & Hv). exists u, v.
        split; [reflexivity|]. split; [apply IH1; exact Hu|exact Hv].
      - intros (u & v & -> & Hu & Hv). constructor; [apply IH1; exact Hu|exact Hv]. }
    assert (D: matches (Cat r1 r2) (a :: w) <->
               (exists u v, w = u ++ v /\ matches r1 (a::u) /\ matches r2 v) \/ (matches r1 [] /\ matches r2 (a::w))).
    { split.
      - intros H. apply cat_inv in H as (u & v & E & Hu & Hv).
        destruct u as [|x u]; simpl in E.
        + right. subst. split; assumption.
        + inversion E; subst. left. exists u, v. auto.
      - intros [(u & v & -> & Hu & Hv)|[H1 H2]].
        + change (a :: u ++ v) with ((a :: u) ++ v). constructor; assumption.
        + change (a :: w) with ([] ++ a :: w). constructor; assumption. }
    destruct (nullable r1) eqn:N1.
    + rewrite alt_ok. rewrite D. split.
      * intros H. apply alt_inv in H as [H|H]; [left; apply C; assumption|right; split; [apply nullable_ok; exact N1|apply IH2; assumption]].
      * intros [H|[_ H]]; [apply m_altl, C; exact H|apply m_altr, IH2; exact H].
    + rewrite C, D. split; [intros H; left; exact H|].
      intros [H|[H _]]; [exact H|]. apply nullable_ok in H. congruence.
  - rewrite alt_ok. split; intros H.
    + apply alt_inv in H as [H|H]; [apply m_altl, IH1|apply m_altr, IH2]; assumption.
    + apply alt_inv in H as [H|H]; [apply m_altl, IH1|apply m_altr, IH2]; assumption.
  - (* Star *)
    rewrite cat_ok. split; intros H.
    + apply cat_inv in H as (u & v & -> & Hu & Hv).
      change (a :: u ++ v) with ((a :: u) ++ v). apply m_star1; [discriminate|apply IH; exact Hu|exact Hv].
    + apply star_inv in H as [H|(x & u & v & E & Hu & Hv)]; [discriminate|].
      inversion E; subst. constructor; [apply IH; exact Hu|exact Hv].
Qed.
