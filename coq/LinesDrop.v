(* split_lines(keepends=False) = re.split(r'\n|\r\n|\r', s): the same lines as keepends=True without their line ends *)
From Coq Require Import List NArith Lia Bool.
Import ListNotations.
Require Import Lines.
Local Open Scope N_scope.

(* re.split on the alternation \n | \r\n | \r (every match is non-empty, tried in that order at each position) *)
Fixpoint split_drop (s cur : str) : list str :=
  match s with
  | [] => [cur]
  | c :: t =>
    if c =? 10 then cur :: split_drop t []
    else if c =? 13 then
      match t with
      | x :: t' => if x =? 10 then cur :: split_drop t' [] else cur :: split_drop t []
      | [] => cur :: split_drop t []
      end
    else split_drop t (cur ++ [c])
  end.

Definition split_plain (s : str) : list str := split_drop s [].

Definition line_end (e : str) : Prop := e = [10] \/ e = [13] \/ e = [13; 10].

(* dropped lines vs kept lines: every line but the last carries exactly one line end, the last none *)
Inductive lines_rel : list str -> list str -> Prop :=
| lr_last d : lines_rel [d] [d]
| lr_cons d e ds ks : line_end e -> lines_rel ds ks -> lines_rel (d :: ds) ((d ++ e) :: ks).

Definition no_break (l : str) : Prop := forallb (fun c => negb (is_break c)) l = true.

Lemma no_break_app l c : no_break l -> is_break c = false -> no_break (l ++ [c]).
Proof. unfold no_break. intros H Hc. rewrite forallb_app, H. simpl. rewrite Hc. reflexivity. Qed.

Transparent cut.
Lemma drop_rel_n : forall n s, (length s <= n)%nat -> forall cur, lines_rel (split_drop s cur) (cut s cur).
Proof.
  induction n as [|n IH]; intros s Hn cur; destruct s as [|c t]; simpl in Hn; try lia; try (simpl; constructor).
  cbn [split_drop cut]. unfold is_break.
  destruct (c =? 10) eqn:E10.
  - apply N.eqb_eq in E10. subst c. cbn [orb N.eqb Pos.eqb andb].
    destruct t as [|x t'].
    + apply (lr_cons cur [10]); [left; reflexivity|]. apply IH. simpl. lia.
    + apply (lr_cons cur [10]); [left; reflexivity|]. apply IH. lia.
  - destruct (c =? 13) eqn:E13.
    + apply N.eqb_eq in E13. subst c. cbn [orb andb].
      destruct t as [|x t'].
      * apply (lr_cons cur [13]); [right; left; reflexivity|]. apply IH. simpl. lia.
      * destruct (x =? 10) eqn:Ex.
        -- apply N.eqb_eq in Ex. subst x. apply (lr_cons cur [13; 10]); [right; right; reflexivity|].
           apply IH. simpl in Hn. lia.
        -- apply (lr_cons cur [13]); [right; left; reflexivity|]. apply IH. lia.
    + cbn [orb]. apply IH. lia.
Qed.

Lemma drop_no_break_n : forall n s, (length s <= n)%nat -> forall cur, no_break cur ->
  Forall no_break (split_drop s cur).
Proof.
  induction n as [|n IH]; intros s Hn cur Hc; destruct s as [|c t]; simpl in Hn; try lia;
    try (simpl; constructor; [exact Hc|constructor]).
  cbn [split_drop].
  destruct (c =? 10) eqn:E10.
  - constructor; [exact Hc|]. apply IH; [lia|reflexivity].
  - destruct (c =? 13) eqn:E13.
    + destruct t as [|x t'].
      * constructor; [exact Hc|]. apply IH; [simpl; lia|reflexivity].
      * destruct (x =? 10); (constructor; [exact Hc|]); (apply IH; [simpl in *; lia|reflexivity]).
    + apply IH; [lia|]. apply no_break_app; [exact Hc|]. unfold is_break. rewrite E10, E13. reflexivity.
Qed.
Opaque cut.

Lemma lines_rel_length a b : lines_rel a b -> length a = length b.
Proof. induction 1; simpl; congruence. Qed.

(* keepends=False gives the lines of keepends=True, each without its \n / \r\n / \r, the last (unterminated) one unchanged *)
Theorem split_plain_spec s : lines_rel (split_plain s) (split_keep s).
Proof. rewrite split_keep_spec. apply (drop_rel_n (length s)). lia. Qed.

Theorem split_plain_same_count s : length (split_plain s) = length (split_keep s).
Proof. apply lines_rel_length, split_plain_spec. Qed.

(* no returned line contains a line break character *)
Theorem split_plain_no_break s : Forall no_break (split_plain s).
Proof. apply (drop_no_break_n (length s)); [lia|reflexivity]. Qed.

Theorem split_plain_nonempty s : split_plain s <> [].
Proof. pose proof (split_plain_same_count s) as H. pose proof (split_keep_nonempty s) as K.
  destruct (split_plain s); [destruct (split_keep s); [congruence|discriminate]|discriminate]. Qed.

(* non-vacuity: a text with all three line ends and a form feed *)
Example split_plain_example :
  split_plain [97; 10; 98; 13; 10; 12; 99; 13; 100] = [[97]; [98]; [12; 99]; [100]]
  /\ split_keep [97; 10; 98; 13; 10; 12; 99; 13; 100] = [[97; 10]; [98; 13; 10]; [12; 99; 13]; [100]].
Proof. split; vm_compute; reflexivity. Qed.
Print Assumptions split_plain_spec.
