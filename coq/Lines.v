From Coq Require Import List NArith Bool Lia.
Import ListNotations.
Open Scope N_scope.

Definition str := list N.

(* Python's str.splitlines separators *)
Definition is_sep (c : N) : bool :=
  existsb (N.eqb c) [10; 13; 11; 12; 28; 29; 30; 133; 8232; 8233].
(* parso.utils._NON_LINE_BREAKS *)
Definition non_line_break (c : N) : bool :=
  existsb (N.eqb c) [11; 12; 28; 29; 30; 133; 8232; 8233].
Definition is_break (c : N) : bool := (c =? 10) || (c =? 13).

Lemma sep_cases c : is_sep c = is_break c || non_line_break c.
Proof.
  unfold is_sep, is_break, non_line_break; simpl.
  repeat (destruct (c =? _); simpl; try reflexivity).
Qed.
Lemma break_not_nlb c : is_break c = true -> non_line_break c = false.
Proof.
  unfold is_break, non_line_break; simpl. intros H.
  apply orb_true_iff in H as [H|H]; apply N.eqb_eq in H; subst; reflexivity.
Qed.

(* ---- model of str.splitlines(keepends=True) ---- *)
Fixpoint splitlines (s cur : str) : list str :=
  match s with
  | [] => match cur with [] => [] | _ => [cur] end
  | c :: t =>
    if is_sep c then
      match t with
      | x :: t' => if (c =? 13) && (x =? 10) then (cur ++ [c; x]) :: splitlines t' []
                   else (cur ++ [c]) :: splitlines t []
      | [] => (cur ++ [c]) :: splitlines t []
      end
    else splitlines t (cur ++ [c])
  end.

(* ---- the merge pass of parso.utils.split_lines(keepends=True) ---- *)
Definition last_chr (l : str) : option N := match rev l with [] => None | x :: _ => Some x end.
Definition ends_nlb (l : str) : bool := match last_chr l with Some c => non_line_break c | None => false end.
Definition ends_break (l : str) : bool := match last_chr l with Some c => is_break c | None => false end.

Fixpoint merge (l : list str) : list str :=
  match l with
  | [] => []
  | x :: rest =>
    let r := merge rest in
    if ends_nlb x then match r with y :: r' => (x ++ y) :: r' | [] => [x] end
    else x :: r
  end.

Definition trail (w : str) : list str :=
  if ends_break w || match w with [] => true | _ => false end then [[]] else [].

Definition split_keep (s : str) : list str := merge (splitlines s []) ++ trail s.

(* ---- specification: cut at \n, \r\n, \r only ---- *)
Fixpoint cut (s cur : str) : list str :=
  match s with
  | [] => [cur]
  | c :: t =>
    if is_break c then
      match t with
      | x :: t' => if (c =? 13) && (x =? 10) then (cur ++ [c; x]) :: cut t' []
                   else (cur ++ [c]) :: cut t []
      | [] => (cur ++ [c]) :: cut t []
      end
    else cut t (cur ++ [c])
  end.

Lemma last_chr_app l c : last_chr (l ++ [c]) = Some c.
Proof. unfold last_chr. rewrite rev_app_distr. reflexivity. Qed.
Lemma last_chr_app2 l c d : last_chr (l ++ [c; d]) = Some d.
Proof. unfold last_chr. rewrite rev_app_distr. reflexivity. Qed.

Lemma cut_nonempty s : forall cur, cut s cur <> [].
Proof.
  induction s as [|c t IH]; intros cur; simpl; [discriminate|].
  destruct (is_break c); [|apply IH].
  destruct t as [|x t']; [discriminate|]. destruct ((c =? 13) && (x =? 10)); discriminate.
Qed.

Lemma cut_cur s : forall cur, cut s cur = match cut s [] with y :: r => (cur ++ y) :: r | [] => [] end.
Proof.
  induction s as [|c t IH]; intros cur; simpl; [rewrite app_nil_r; reflexivity|].
  destruct (is_break c).
  - destruct t as [|x t']; [reflexivity|]. destruct ((c =? 13) && (x =? 10)); reflexivity.
  - rewrite (IH (cur ++ [c])). rewrite (IH [c]).
    destruct (cut t []) as [|y r]; [reflexivity|]. rewrite <- app_assoc. reflexivity.
Qed.

Definition no_sep (l : str) : Prop := forallb (fun c => negb (is_sep c)) l = true.

Lemma no_sep_app l c : no_sep l -> is_sep c = false -> no_sep (l ++ [c]).
Proof. unfold no_sep. intros H1 H2. rewrite forallb_app, H1. simpl. rewrite H2. reflexivity. Qed.

Lemma no_sep_ends l : no_sep l -> ends_nlb l = false /\ ends_break l = false.
Proof.
  unfold no_sep, ends_nlb, ends_break, last_chr. intros H.
  destruct (rev l) as [|x r] eqn:E; [split; reflexivity|].
  assert (Hx: In x l) by (apply in_rev; rewrite E; left; reflexivity).
  rewrite forallb_forall in H. specialize (H x Hx). apply negb_true_iff in H.
  rewrite sep_cases in H. apply orb_false_iff in H as [H1 H2]. split; assumption.
Qed.

Lemma trail_app_nonempty w t : t <> [] -> trail (w ++ t) = trail t.
Proof.
  intros Ht. unfold trail, ends_break, last_chr. rewrite rev_app_distr.
  destruct (rev t) as [|x r] eqn:E.
  - exfalso. apply Ht. apply (f_equal (@rev N)) in E. rewrite rev_involutive in E. exact E.
  - simpl. destruct t; [contradiction|]. destruct (w ++ n :: t) eqn:E2; [destruct w; discriminate|]. reflexivity.
Qed.

Definition take_break (c : N) (t : str) : str * str :=
  match t with
  | x :: t' => if (c =? 13) && (x =? 10) then ([c; x], t') else ([c], t)
  | [] => ([c], t)
  end.

Lemma splitlines_eq c t cur :
  splitlines (c :: t) cur =
  if is_sep c then (cur ++ fst (take_break c t)) :: splitlines (snd (take_break c t)) []
  else splitlines t (cur ++ [c]).
Proof.
  simpl. destruct (is_sep c); [|reflexivity]. unfold take_break.
  destruct t as [|x t']; [reflexivity|]. destruct ((c =? 13) && (x =? 10)); reflexivity.
Qed.
Lemma cut_eq c t cur :
  cut (c :: t) cur =
  if is_break c then (cur ++ fst (take_break c t)) :: cut (snd (take_break c t)) []
  else cut t (cur ++ [c]).
Proof.
  simpl. destruct (is_break c); [|reflexivity]. unfold take_break.
  destruct t as [|x t']; [reflexivity|]. destruct ((c =? 13) && (x =? 10)); reflexivity.
Qed.
Lemma take_break_len c t : (length (snd (take_break c t)) <= length t)%nat.
Proof. unfold take_break. destruct t as [|x t']; simpl; [lia|]. destruct ((c =? 13) && (x =? 10)); simpl; lia. Qed.
Lemma take_break_app c t : fst (take_break c t) ++ snd (take_break c t) = c :: t.
Proof. unfold take_break. destruct t as [|x t']; simpl; [reflexivity|]. destruct ((c =? 13) && (x =? 10)); reflexivity. Qed.
Lemma take_break_last c t : is_break c = true ->
  exists l d, fst (take_break c t) = l ++ [d] /\ is_break d = true.
Proof.
  intros B. unfold take_break. destruct t as [|x t'].
  - exists [], c. split; [reflexivity|exact B].
  - destruct ((c =? 13) && (x =? 10)) eqn:E.
    + apply andb_true_iff in E as [_ E]. apply N.eqb_eq in E; subst. exists [c], 10. split; reflexivity.
    + exists [], c. split; [reflexivity|exact B].
Qed.
Lemma take_break_not13 c t : (c =? 13) = false -> take_break c t = ([c], t).
Proof. intros H. unfold take_break. destruct t; [reflexivity|]. rewrite H. reflexivity. Qed.

Lemma splitlines_nonempty t : forall cur, t <> [] -> splitlines t cur <> [].
Proof.
  induction t as [|c t IH]; intros cur H; [contradiction|].
  rewrite splitlines_eq. destruct (is_sep c); [discriminate|].
  destruct t as [|x t']; [simpl; destruct (cur ++ [c]) eqn:E; [destruct cur; discriminate|discriminate]|].
  apply IH. discriminate.
Qed.
Lemma merge_nil l : merge l = [] -> l = [].
Proof.
  destruct l as [|x r]; [reflexivity|]. simpl.
  destruct (ends_nlb x); [destruct (merge r); discriminate|discriminate].
Qed.

Global Opaque splitlines cut.

(* main lemma, generalised over the partial line `cur` *)
Lemma merge_splitlines_cut : forall n s, length s = n -> forall cur, no_sep cur ->
  cut s cur = merge (splitlines s cur) ++ trail (cur ++ s).
Proof.
  induction n as [n IH] using (well_founded_induction Wf_nat.lt_wf). intros s Hn cur Hc.
  destruct s as [|c t].
  - (* end of input *)
    Transparent splitlines cut. simpl. Opaque splitlines cut.
    rewrite app_nil_r. destruct (no_sep_ends _ Hc) as [E1 E2].
    destruct cur as [|a cur']; [reflexivity|].
    simpl merge. rewrite E1. simpl. unfold trail. rewrite E2. reflexivity.
  - simpl in Hn. rewrite cut_eq, splitlines_eq, sep_cases.
    pose proof (take_break_len c t) as L. pose proof (take_break_app c t) as A.
    destruct (is_break c) eqn:B; simpl orb.
    + (* a Python line break *)
      destruct (take_break_last c t B) as (l & d & Eb & Bd).
      destruct (take_break c t) as [b r]; simpl in *. subst b.
      assert (NL: non_line_break d = false) by (apply break_not_nlb; exact Bd).
      simpl merge. unfold ends_nlb at 1. rewrite app_assoc, last_chr_app, NL.
      rewrite (IH (length r)) with (s := r) (cur := []) by (try lia; reflexivity).
      simpl app at 3.
      assert (W: cur ++ c :: t = (cur ++ l ++ [d]) ++ r) by (rewrite <- A, <- !app_assoc; reflexivity).
      rewrite W. destruct r as [|y r'].
      * rewrite app_nil_r. Transparent splitlines. simpl. Opaque splitlines.
        unfold trail at 1. simpl. unfold trail, ends_break. rewrite app_assoc, last_chr_app, Bd. reflexivity.
      * rewrite trail_app_nonempty by discriminate. rewrite <- app_assoc. reflexivity.
    + destruct (non_line_break c) eqn:NL; simpl.
      * (* a separator that Python does not treat as a line break: merged back *)
        assert (C13: (c =? 13) = false).
        { unfold is_break in B. apply orb_false_iff in B as [_ B]. exact B. }
        rewrite take_break_not13 by exact C13. simpl fst; simpl snd.
        simpl merge. unfold ends_nlb at 1. rewrite last_chr_app, NL.
        rewrite cut_cur.
        rewrite (IH (length t)) with (s := t) (cur := []) by (try lia; reflexivity).
        simpl app at 2.
        destruct (merge (splitlines t [])) as [|y r] eqn:M.
        -- apply merge_nil in M.
           destruct t as [|x t']; [|exfalso; eapply splitlines_nonempty; [|exact M]; discriminate].
           simpl. rewrite app_nil_r. unfold trail, ends_break. rewrite last_chr_app, B.
           destruct (cur ++ [c]) eqn:E; [destruct cur; discriminate|]. reflexivity.
        -- simpl. replace (cur ++ c :: t) with ((cur ++ [c]) ++ t) by (rewrite <- app_assoc; reflexivity).
           destruct t as [|x t'].
           ++ Transparent splitlines. simpl in M. Opaque splitlines. discriminate.
           ++ rewrite trail_app_nonempty by discriminate. reflexivity.
      * (* ordinary character *)
        assert (Hc': no_sep (cur ++ [c])) by (apply no_sep_app; [exact Hc|rewrite sep_cases, B, NL; reflexivity]).
        rewrite (IH (length t)) with (s := t) (cur := cur ++ [c]) by (try lia; reflexivity || exact Hc').
        rewrite <- app_assoc. reflexivity.
Qed.

Theorem split_keep_spec s : split_keep s = cut s [].
Proof.
  unfold split_keep. symmetry. erewrite merge_splitlines_cut; [reflexivity|reflexivity|reflexivity].
Qed.

(* consequences proved on the specification side *)
Lemma cut_concat s0 : forall cur, concat (cut s0 cur) = cur ++ s0.
Proof.
  assert (G: forall n s, length s = n -> forall cur, concat (cut s cur) = cur ++ s).
  { induction n as [n IH] using (well_founded_induction Wf_nat.lt_wf). intros s Hn cur.
    destruct s as [|c t].
    - Transparent cut. simpl. Opaque cut. rewrite app_nil_r. reflexivity.
    - simpl in Hn. rewrite cut_eq. pose proof (take_break_len c t) as L. pose proof (take_break_app c t) as A.
      destruct (is_break c).
      + destruct (take_break c t) as [b r]; simpl in *.
        rewrite (IH (length r)) by (try lia; reflexivity). simpl. rewrite <- app_assoc, A. reflexivity.
      + rewrite (IH (length t)) by (try lia; reflexivity). rewrite <- app_assoc. reflexivity. }
  intros cur. eapply G; reflexivity.
Qed.

Theorem split_keep_concat s : concat (split_keep s) = s.
Proof. rewrite split_keep_spec, cut_concat. reflexivity. Qed.
Theorem split_keep_nonempty s : split_keep s <> [].
Proof. rewrite split_keep_spec. apply cut_nonempty. Qed.
Print Assumptions split_keep_spec.
Print Assumptions split_keep_concat.
