(* Hand-written driver around the extracted model (model.ml).  One request per line
   (space separated decimal integers after the operation name), one answer per line. *)
open Model

let rec pos_of_int n = if n = 1 then XH else if n land 1 = 0 then XO (pos_of_int (n lsr 1)) else XI (pos_of_int (n lsr 1))
let n_of_int n = if n = 0 then N0 else Npos (pos_of_int n)
let rec int_of_pos = function XH -> 1 | XO p -> 2 * int_of_pos p | XI p -> 2 * int_of_pos p + 1
let int_of_n = function N0 -> 0 | Npos p -> int_of_pos p
let int_of_z = function Z0 -> 0 | Zpos p -> int_of_pos p | Zneg p -> - (int_of_pos p)
let rec nat_of_int n = if n = 0 then O else S (nat_of_int (n-1))
let rec int_of_nat = function O -> 0 | S n -> 1 + int_of_nat n

let tyname = function STRING -> "STRING" | NUMBER -> "NUMBER" | NAME -> "NAME" | ERRORTOKEN -> "ERRORTOKEN" | NEWLINE -> "NEWLINE"
  | INDENT -> "INDENT" | DEDENT -> "DEDENT" | ERROR_DEDENT -> "ERROR_DEDENT" | FSTRING_STRING -> "FSTRING_STRING"
  | FSTRING_START -> "FSTRING_START" | FSTRING_END -> "FSTRING_END" | OP -> "OP" | ENDMARKER -> "ENDMARKER"
let pstr l = String.concat "," (List.map (fun c -> string_of_int (int_of_n c)) l)
let kname = function KName -> "name" | KKeyword -> "keyword" | KOperator -> "operator" | KNumber -> "number" | KString -> "string"
  | KNewline -> "newline" | KEndMarker -> "endmarker" | KFStringString -> "fstring_string" | KFStringStart -> "fstring_start"
  | KFStringEnd -> "fstring_end" | KErrorLeaf t -> "error_leaf:" ^ tyname t
let rec show b = function
  | Leaf (k, v, p, l, c) -> Buffer.add_string b (Printf.sprintf "(L %s %d %d [%s] [%s])" (kname k) (int_of_n l) (int_of_n c) (pstr v) (pstr p))
  | Node (k, cs) ->
    Buffer.add_string b (match k with KRule r -> Printf.sprintf "(N %d" (int_of_n r) | KErrorNode -> "(N error_node" | KParam -> "(N param");
    List.iter (fun c -> Buffer.add_char b ' '; show b c) cs; Buffer.add_char b ')'

let tokerr = function OutOfFuel -> "ERR fuel" | AssertFail -> "ERR AssertionError" | IndexError -> "ERR IndexError" | AttrError -> "ERR AttributeError" | Guard -> "ERR Guard"
let parseerr = function
  | IncompleteInput -> "ERR incomplete" | TooMuchInput -> "ERR toomuch" | PFuel -> "ERR fuel"
  | PAttr -> "ERR AttributeError" | PIndex -> "ERR IndexError" | PGuard -> "ERR Guard"
  | SyntaxErr t -> Printf.sprintf "SYNTAXERR %s %d %d [%s] [%s]" (tyname t.ty) (int_of_n t.tline) (int_of_n t.tcol) (pstr t.ts) (pstr t.tpre)

let show_tokens toks =
  String.concat ";" (List.map (fun t -> Printf.sprintf "%s %d %d [%s] [%s]" (tyname t.ty) (int_of_n t.tline) (int_of_n t.tcol) (pstr t.ts) (pstr t.tpre)) toks)

let ptname = function PComment -> "comment" | PNewline -> "newline" | PBackslash -> "backslash" | PBom -> "bom"
  | PFormfeed -> "formfeed" | PSpacing -> "spacing"

let () =
  try while true do
    let line = input_line stdin in
    match String.split_on_char ' ' line |> List.filter (fun s -> s <> "") with
    | [] -> print_endline ""
    | op :: rest ->
      let a = Array.of_list (List.map int_of_string rest) in
      let i = ref 0 in
      let next () = let v = a.(!i) in incr i; v in
      let nextn () = n_of_int (next ()) in
      let str () = let m = next () in List.init m (fun _ -> nextn ()) in
      (match op with
       | "lines" ->
         let s = str () in
         print_endline (String.concat "|" (List.map pstr (split_keep s)))
       | "linesdrop" ->
         let s = str () in
         print_endline (String.concat "|" (List.map pstr (split_plain s)))
       | "endpos" ->
         let l = nextn () in let c = nextn () in let s = str () in
         let (el, ec) = end_pos s l c in
         print_endline (Printf.sprintf "%d %d" (int_of_n el) (int_of_n ec))
       | "re" ->
         let v = nextn () in let id = nextn () in let pos = nextn () in let s = str () in
         (match regex_by_id id v with
          | None -> print_endline "NOPATTERN"
          | Some r ->
            (match rmatch r s pos with
             | None -> print_endline "None"
             | Some (e, cs) ->
               (* last assignment of each group wins: caps has most recent first *)
               let seen = Hashtbl.create 8 in
               let gs = List.filter (fun (g, _) -> let g = int_of_nat g in if Hashtbl.mem seen g then false else (Hashtbl.add seen g (); true)) cs in
               let gs = List.sort compare (List.map (fun (g, (x, y)) -> (int_of_nat g, int_of_n x, int_of_n y)) gs) in
               print_endline (String.concat " " (string_of_int (int_of_n e) :: List.map (fun (g, x, y) -> Printf.sprintf "%d:%d-%d" g x y) gs))))
       | "tok" ->
         let v = nextn () in let sl = nextn () in let sc = nextn () in let first = next () = 1 in
         let inds = str () in
         let nl = next () in
         let lines = List.init nl (fun _ -> str ()) in
         (match run_tok v lines inds sl sc first with
          | Err e -> print_endline (tokerr e)
          | Ok toks -> print_endline (show_tokens toks))
       | "resume" ->
         let v = nextn () in let sl = nextn () in let sc = nextn () in let first = next () = 1 in
         let inds = str () in
         let nl = next () in
         let lines = List.init nl (fun _ -> str ()) in
         print_endline (String.concat "|" (List.map (function None -> "-" | Some l -> pstr l) (run_resume_points v lines inds sl sc first)))
       | "text" ->
         let v = nextn () in let m = if next () = 1 then Recover else Strict in let start = nextn () in
         let s = str () in
         (match parse_text v m start s with
          | OTokErr e -> print_endline ("TOK" ^ tokerr e)
          | OParseErr e -> print_endline (parseerr e)
          | OTree t -> let b = Buffer.create 1024 in show b t; print_endline (Buffer.contents b))
       | "ptoks" ->
         (* parse a given token list: v mode start_rule ntoks (type line col str prefix)* ; type by index in the ttype enumeration *)
         let v = nextn () in let m = if next () = 1 then Recover else Strict in let start = nextn () in
         let n = next () in
         let tys = [| STRING; NUMBER; NAME; ERRORTOKEN; NEWLINE; INDENT; DEDENT; ERROR_DEDENT; FSTRING_STRING; FSTRING_START; FSTRING_END; OP; ENDMARKER |] in
         let toks = List.init n (fun _ -> let t = tys.(next ()) in let l = nextn () in let c = nextn () in let s = str () in let p = str () in
                                   { ty = t; ts = s; tline = l; tcol = c; tpre = p }) in
         (match parse_tokens v m start toks with
          | PErr e -> print_endline (parseerr e)
          | POk t -> let b = Buffer.create 1024 in show b t; print_endline (Buffer.contents b))
       | "prefix" ->
         let l = nextn () in let c = nextn () in let p = str () in
         (match split_prefix_m p l c with
          | PErr0 PAttrError -> print_endline "ERR AttributeError"
          | PErr0 PKeyError -> print_endline "ERR KeyError"
          | PErr0 PFuel0 -> print_endline "ERR fuel"
          | PErr0 PGuardP -> print_endline "ERR Guard"
          | POk0 parts ->
            print_endline (String.concat ";" (List.map (fun pt ->
              let (el, ec) = part_end pt in
              Printf.sprintf "%s %d %d %d %d [%s] [%s]" (ptname pt.p_type) (int_of_n pt.p_line) (int_of_z pt.p_col)
                (int_of_n el) (int_of_z ec) (pstr pt.p_spacing) (pstr pt.p_value)) parts)))
       | "dfa" ->
         (* rx in prefix form: 0 Empty | 1 Eps | 2 a Sym | 3 Cat | 4 Alt | 5 Star ; then arcs and finals *)
         let fuel = next () in
         let rec rx () = match next () with
           | 0 -> Empty | 1 -> Eps0 | 2 -> Sym (nextn ()) | 3 -> let a = rx () in let b = rx () in Cat0 (a, b)
           | 4 -> let a = rx () in let b = rx () in Alt0 (a, b) | _ -> Star0 (rx ()) in
         let r = rx () in
         let na = next () in
         let arcs = List.init na (fun _ -> let f = nextn () in let l = nextn () in let t = nextn () in ((f, l), t)) in
         let nf = next () in
         let finals = List.init nf (fun _ -> nextn ()) in
         print_endline (if check_rule (nat_of_int fuel) r { arcs = arcs; finals = finals } then "true" else "false")
       | "cache" ->
         let fa = next () = 1 in let fb = next () = 1 in
         let n = next () in
         let ops = List.init n (fun _ -> match next () with
           | 0 -> let w1 = nat_of_int (next ()) in let w2 = nat_of_int (next ()) in let w3 = nat_of_int (next ()) in Parse (w1, w2, w3)
           | 1 -> Write | 2 -> DropMemory | _ -> DeleteDisk) in
         print_endline (String.concat " " (List.map (fun (c, v) -> Printf.sprintf "%d:%d" (int_of_nat c) (int_of_nat v)) (cache_run fa fb ops)))
       | "refactor" ->
         (* v text nmaps (path string)* : refactor the model's own recovering parse of text *)
         let v = nextn () in let s = str () in
         let n = next () in
         let maps = List.init n (fun _ -> let pl = next () in let path = List.init pl (fun _ -> next ()) in let r = str () in (path, r)) in
         let m (q : nat list) = let qi = List.map int_of_nat q in (try Some (List.assoc qi maps) with Not_found -> None) in
         (match parse_text v Recover N0 s with
          | OTree t -> print_endline (pstr (refactor m t))
          | _ -> print_endline "ERR")
       | "issues" ->
         (* kind n (code line col)* : kind 0 = Normalizer.add_issue store, 1 = ErrorFinder per-line dict *)
         let kind = next () in let n = next () in
         let xs = List.init n (fun i -> let c = nat_of_int (next ()) in let l = nat_of_int (next ()) in let co = nat_of_int (next ()) in
                                  { i_code = c; i_line = l; i_col = co; i_msg = nat_of_int i }) in
         let res = if kind = 0 then List.fold_left add_issue [] xs else finalize (List.fold_left err_add [] xs) in
         print_endline (String.concat ";" (List.map (fun x -> Printf.sprintf "%d %d %d %d" (int_of_nat x.i_code) (int_of_nat x.i_line) (int_of_nat x.i_col) (int_of_nat x.i_msg)) res))
       | "nav" ->
         (* v text npos (line col)* : leaf stepping for every leaf and position lookup on the model's own recovering parse *)
         let v = nextn () in let s = str () in
         let np = next () in
         let poss = List.init np (fun _ -> let l = nextn () in let c = nextn () in (l, c)) in
         (match parse_text v Recover N0 s with
          | OTree t ->
            let ps p = String.concat "." (List.map (fun i -> string_of_int (int_of_nat i)) p) in
            let opt = function None -> "None" | Some p -> ps p in
            let leaves = leaf_paths t in
            let a = String.concat ";" (List.map (fun p -> ps p ^ ">" ^ opt (get_next_leaf t p) ^ "<" ^ opt (get_previous_leaf t p)) leaves) in
            let e = nav_end t in
            let b = String.concat ";" (List.concat (List.map (fun (l, c) ->
              List.map (fun incl ->
                let inside = pos_leb (n_of_int 1, N0) (l, c) && pos_leb (l, c) e in
                Printf.sprintf "%d,%d,%d=%s" (int_of_n l) (int_of_n c) (if incl then 1 else 0)
                  (if not inside then "ValueError" else match nav_lookup t (l, c) incl with FLeaf p -> ps p | FNone -> "None" | FFuel -> "FUEL")) [true; false]) poss)) in
            print_endline ("F:" ^ ps (first_leaf_path t) ^ " L:" ^ ps (last_leaf_path t) ^ "|" ^ a ^ "|" ^ b)
          | _ -> print_endline "ERR")
       | "plans" ->
         let v = nextn () in
         print_endline (String.concat "|" (List.map (fun (q, tr) ->
           string_of_int (int_of_n q) ^
           String.concat "" (List.map (fun (l, p) ->
             Printf.sprintf " %s=%d%s" (match l with LType t -> tyname t | LRes i -> "R" ^ string_of_int (int_of_n i))
               (int_of_n p.p_next) (String.concat "" (List.map (fun x -> "," ^ string_of_int (int_of_n x)) p.p_pushes))) tr)) (plan_table v)))
       | _ -> print_endline "BADOP")
  done with End_of_file -> ()
