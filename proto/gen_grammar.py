import sys
sys.path.insert(0,'/repo')
import parso
from parso.pgen2.generator import ReservedString
from parso.python.token import PythonTokenTypes as T
def S(s): return '['+';'.join(str(ord(c)) for c in s)+']'
vers=['3.6','3.10']
out=['Require Import Regex Tok Engine Tables. From Coq Require Import List NArith ZArith Bool. Import ListNotations. Open Scope N_scope.']
import json
meta={}
for v in vers:
    g=parso.load_grammar(version=v)._pgen_grammar; n=v.replace('.','')
    rules=list(g.nonterminal_to_dfas); rid={r:i+1 for i,r in enumerate(rules)}
    sid={}
    for r in rules:
        for s in g.nonterminal_to_dfas[r]: sid[id(s)]=len(sid)+1
    res=sorted(g.reserved_syntax_strings); resid={s:i+1 for i,s in enumerate(res)}
    def lab(l):
        if l[0].isalpha(): return 'T (LType %s)'%l
        import ast; return 'T (LRes %d)'%resid[ast.literal_eval(l)]
    states=[]
    for r in rules:
        for s in g.nonterminal_to_dfas[r]:
            arcs=';'.join('(%s,%d)'%(('NT %d'%rid[l]) if l in rid else lab(l), sid[id(nx)]) for l,nx in s.arcs.items())
            states.append('mkD %d %d %s [%s]'%(sid[id(s)],rid[r],'true' if s.is_final else 'false',arcs))
    starts=';'.join('(%d,%d)'%(rid[r],sid[id(g.nonterminal_to_dfas[r][0])]) for r in rules)
    R=lambda name: rid.get(name,0)
    out.append('Definition gram%s : gram := mkG [%s] [%s] [%s] %d %d %d %d %d %d %d %d %d %d.'%(n,';'.join(states),starts,
        ';'.join('(%s,%d)'%(S(s),resid[s]) for s in res), R('file_input'),R('suite'),R('simple_stmt'),R('stmt'),R('funcdef'),R('lambdef'),R('lambdef_nocond'),R('parameters'),R('tfpdef'),R('fpdef')))
    out.append('Definition tr%s := match all_transitions gram%s 200 (g_states gram%s) with GOk t => t | GErr _ => [] end.'%(n,n,n))
    # also dump implementation plan table for comparison
    plans={}
    for r in rules:
        for s in g.nonterminal_to_dfas[r]:
            d={}
            for t,p in s.transitions.items():
                key=('R%d'%resid[t.value]) if isinstance(t,ReservedString) else t.name
                d[key]=[sid[id(p.next_dfa)]]+[sid[id(x)] for x in p.dfa_pushes]
            plans[sid[id(s)]]=d
    meta[v]={'rid':rid,'plans':plans,'res':resid}
out.append('''Definition grams := [%s].
Definition trs := [%s].
Definition parse_text (vi : nat) (recover : bool) (lines : list str) : pres tree :=
  match run vi lines [0] 1 0 true with
  | Tok.Err _ => PErr PFuel
  | Tok.Ok toks => let G := nth vi grams gram36 in parse G (nth vi trs []) recover (r_file_input G) toks
  end.
Definition plan_table (vi : nat) := nth vi trs [].
From Coq Require Extraction ExtrOcamlBasic.
Extraction "model2.ml" parse_text plan_table run.'''%(';'.join('gram'+v.replace('.','') for v in vers),';'.join('tr'+v.replace('.','') for v in vers)))
open('Grammars.v','w').write('\n'.join(out)+'\n')
json.dump(meta,open('meta.json','w'))
