open Model2
let rec pos_of_int n = if n = 1 then XH else if n land 1 = 0 then XO (pos_of_int (n lsr 1)) else XI (pos_of_int (n lsr 1))
let n_of_int n = if n = 0 then N0 else Npos (pos_of_int n)
let rec int_of_pos = function XH -> 1 | XO p -> 2 * int_of_pos p | XI p -> 2 * int_of_pos p + 1
let int_of_n = function N0 -> 0 | Npos p -> int_of_pos p
let rec nat_of_int n = if n = 0 then O else S (nat_of_int (n-1))
let tyname = function STRING -> "STRING" | NUMBER -> "NUMBER" | NAME -> "NAME" | ERRORTOKEN -> "ERRORTOKEN" | NEWLINE -> "NEWLINE"
  | INDENT -> "INDENT" | DEDENT -> "DEDENT" | ERROR_DEDENT -> "ERROR_DEDENT" | FSTRING_STRING -> "FSTRING_STRING"
  | FSTRING_START -> "FSTRING_START" | FSTRING_END -> "FSTRING_END" | OP -> "OP" | ENDMARKER -> "ENDMARKER"
let pstr l = String.concat "," (List.map (fun c -> string_of_int (int_of_n c)) l)
let kname = function KName -> "name" | KKeyword -> "keyword" | KOperator -> "operator" | KNumber -> "number" | KString -> "string"
  | KNewline -> "newline" | KEndMarker -> "endmarker" | KFStringString -> "fstring_string" | KFStringStart -> "fstring_start"
  | KFStringEnd -> "fstring_end" | KErrorLeaf t -> "error_leaf:" ^ tyname t
let rec show b = function
  | Leaf (k, v, p, l, c) -> Buffer.add_string b (Printf.sprintf "(L %s %d %d [%s] [%s])" (kname k) (int_of_n l) (int_of_n c) (pstr v) (pstr p))
  | Node (k, cs) ->
    Buffer.add_string b (match k with KRule r -> Printf.sprintf "(N %d" (int_of_n r) | KErrorNode -> "(N error_node" | KParam -> "(N param");
    List.iter (fun c -> Buffer.add_char b ' '; show b c) cs; Buffer.add_char b ')'
let () =
  if Array.length Sys.argv > 1 && Sys.argv.(1) = "plans" then begin
    let vi = int_of_string Sys.argv.(2) in
    List.iter (fun (q, tr) ->
      Printf.printf "%d" (int_of_n q);
      List.iter (fun (l, p) ->
        Printf.printf " %s=%d%s" (match l with LType t -> tyname t | LRes i -> "R" ^ string_of_int (int_of_n i))
          (int_of_n p.p_next) (String.concat "" (List.map (fun x -> "," ^ string_of_int (int_of_n x)) p.p_pushes))) tr;
      print_newline ()) (plan_table (nat_of_int vi))
  end else
  try while true do
    let line = input_line stdin in
    let a = Array.of_list (List.map int_of_string (List.filter (fun s -> s <> "") (String.split_on_char ' ' line))) in
    let i = ref 0 in
    let next () = let v = a.(!i) in incr i; v in
    let vi = next () in let recover = next () = 1 in
    let nl = next () in
    let lines = List.init nl (fun _ -> let m = next () in List.init m (fun _ -> n_of_int (next ()))) in
    (match parse_text (nat_of_int vi) recover lines with
     | PErr e -> print_endline (match e with IncompleteInput -> "ERR incomplete" | TooMuchInput -> "ERR toomuch" | PFuel -> "ERR fuel"
                                | PAttr -> "ERR AttributeError" | PIndex -> "ERR IndexError"
                                | SyntaxErr t -> Printf.sprintf "SYNTAXERR %s %d %d [%s] [%s]" (tyname t.ty) (int_of_n t.tline) (int_of_n t.tcol) (pstr t.ts) (pstr t.tpre))
     | POk t -> let b = Buffer.create 1024 in show b t; print_endline (Buffer.contents b))
  done with End_of_file -> ()
