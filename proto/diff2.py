import sys, random, subprocess, time, collections, json
sys.path.insert(0,'/repo'); sys.path.insert(0,'/tmp/probe')
import parso
from parso.utils import split_lines
import fuzz1
meta=json.load(open('meta.json'))
vers=['3.6','3.10']
# 1. plan tables
for vi,v in enumerate(vers):
    out=subprocess.run(['./drv2','plans',str(vi)],capture_output=True,text=True).stdout.strip().split('\n')
    model={}
    for l in out:
        p=l.split(); model[p[0]]={kv.split('=')[0]:[int(x) for x in kv.split('=')[1].split(',')] for kv in p[1:]}
    impl={k:v for k,v in meta[v]['plans'].items()}
    same = all(model.get(k,{})==impl[k] for k in impl) and len(model)==len(impl)
    order_same = all(list(model.get(k,{}))==list(impl[k]) for k in impl)
    print('plans',v,'states',len(impl),'equal',same,'same key order',order_same, 'total plans',sum(len(x) for x in impl.values()))
# 2. parse
random.seed(int(sys.argv[1])); N=int(sys.argv[2])
ATOMS=fuzz1.ATOMS+['def f(x, *a, y=1, **k):\n','    ','lambda x, y=2: 0',' = ','x','pass\n','if x:\n','class C:\n','return\n','(',')','\n']*2
cases=[]
for i in range(N):
    r=random.random()
    code=fuzz1.gen() if r<0.6 else ''.join(random.choice(ATOMS) for _ in range(random.randint(0,20)))
    cases.append((random.randrange(2),random.random()<0.75,code))
def enc(c):
    vi,rec,code=c; lines=split_lines(code,keepends=True)
    return ' '.join(map(str,[vi,int(rec),len(lines)]+[x for l in lines for x in [len(l)]+[ord(ch) for ch in l]]))
t=time.time()
out=subprocess.run(['./drv2'],input='\n'.join(enc(c) for c in cases)+'\n',capture_output=True,text=True).stdout.split('\n')
tm=time.time()-t
def ser(n,rid):
    if hasattr(n,'children'):
        t=n.type
        head='error_node' if t=='error_node' else 'param' if t=='param' else str(rid[t])
        return '(N %s%s)'%(head,''.join(' '+ser(c,rid) for c in n.children))
    k=n.type
    if k=='error_leaf': k='error_leaf:'+n.token_type
    return '(L %s %d %d [%s] [%s])'%(k,n.line,n.column,','.join(str(ord(x)) for x in n.value),','.join(str(ord(x)) for x in n.prefix))
def impl(c):
    vi,rec,code=c; g=parso.load_grammar(version=vers[vi]); rid=meta[vers[vi]]['rid']
    try: m=g.parse(code,error_recovery=rec)
    except parso.ParserSyntaxError as e:
        l=e.error_leaf
        return 'SYNTAXERR %s %d %d [%s] [%s]'%(l.token_type.name if hasattr(l.token_type,'name') else l.token_type,l.line,l.column,','.join(str(ord(x)) for x in l.value),','.join(str(ord(x)) for x in l.prefix))
    except Exception as e: return 'ERR '+type(e).__name__
    return ser(m,rid)
bad=0; st=collections.Counter()
for c,o in zip(cases,out):
    e=impl(c)
    st[e.split()[0]]+=1
    if e!=o:
        bad+=1
        if bad<=4:
            print('MISMATCH',c); k=next((i for i,(x,y) in enumerate(zip(e,o)) if x!=y),0)
            print('  impl :',e[max(0,k-80):k+120]); print('  model:',o[max(0,k-80):k+120])
print('cases',len(cases),'mismatches',bad,'model time %.2fs'%tm,dict(st))
