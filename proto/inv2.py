import sys; sys.path.insert(0,'/tmp/scratch2'); sys.path.insert(0,'/tmp/probe')
import parso, random, collections
assert parso.__file__.startswith('/tmp/scratch2')
import fuzz1
ATOMS=fuzz1.ATOMS+['f"""','f"""{','"""','\\\n','{','}',':','!r','f\'','\'','\n','\r\n','#x','  ','x']*3
random.seed(int(sys.argv[1])); N=int(sys.argv[2])
st=collections.Counter(); ex={}
for i in range(N):
    code=''.join(random.choice(ATOMS) for _ in range(random.randint(0,25)))
    v=random.choice(['3.6','3.8','3.12','3.14'])
    try:
        toks=list(parso.load_grammar(version=v)._tokenize(code))
        assert ''.join(t.prefix+t.string for t in toks)==code,'TILES'
        st['ok']+=1
        if any(t.type.name=='FSTRING_STRING' for t in toks): st['with fstring_string']+=1
        if any(t.type.name=='FSTRING_STRING' and '\n' in t.string for t in toks): st['multiline fstring_string']+=1
    except AssertionError as e:
        k=str(e)[:40]; st[k]+=1; ex.setdefault(k,(v,code))
for k,c in st.most_common(): print(c,k)
for k,e in ex.items(): print(k,repr(e)[:400])
