open Model
let rec pos_of_int n = if n = 1 then XH else if n land 1 = 0 then XO (pos_of_int (n lsr 1)) else XI (pos_of_int (n lsr 1))
let n_of_int n = if n = 0 then N0 else Npos (pos_of_int n)
let rec int_of_pos = function XH -> 1 | XO p -> 2 * int_of_pos p | XI p -> 2 * int_of_pos p + 1
let int_of_n = function N0 -> 0 | Npos p -> int_of_pos p
let rec int_of_nat = function O -> 0 | S n -> 1 + int_of_nat n
let () =
  try while true do
    let line = input_line stdin in
    let parts = List.filter (fun s -> s <> "") (String.split_on_char ' ' line) in
    match List.map int_of_string parts with
    | pi :: pos :: cps ->
      let r = List.nth pats pi in
      (match rmatch r (List.map n_of_int cps) (n_of_int pos) with
       | None -> print_endline "None"
       | Some (e, caps) ->
         let caps = List.sort compare (List.map (fun (g,(a,b)) -> (int_of_nat g, int_of_n a, int_of_n b)) caps) in
         (* keep last binding per group: caps list is most-recent-first, so take first occurrence *)
         Printf.printf "%d" (int_of_n e);
         List.iter (fun (g,a,b) -> Printf.printf " %d:%d-%d" g a b) caps; print_newline ())
    | _ -> print_endline "?"
  done with End_of_file -> ()
