import sys, random, collections
sys.path.insert(0,'/repo'); sys.path.insert(0,'/tmp/probe')
import parso
from parso.pgen2.generator import ReservedString
from parso.python.token import PythonTokenTypes as T
from functools import lru_cache

LEAFTYPE={'name':T.NAME,'number':T.NUMBER,'string':T.STRING,'newline':T.NEWLINE,'endmarker':T.ENDMARKER,
          'fstring_string':T.FSTRING_STRING,'fstring_start':T.FSTRING_START,'fstring_end':T.FSTRING_END}
class Conf:
    def __init__(self, grammar):
        self.g=grammar._pgen_grammar; self.dfas=self.g.nonterminal_to_dfas; self.res=self.g.reserved_syntax_strings
        self.memo={}
    def leaf_label(self, leaf):
        if leaf.type in ('keyword','operator'):
            if leaf.value in self.res: return self.res[leaf.value]
            return T.OP if leaf.type=='operator' else T.NAME
        return LEAFTYPE[leaf.type]
    def ntype(self, node):
        return node.type
    def stands_for(self, X, child, depth=0):
        # X: rule name (nonterminal)
        if depth>60: return False
        if hasattr(child,'children'):
            t=child.type
            if t==X or (t=='lambdef' and X=='lambdef_nocond'): return True
        # unit chain: X accepts [child]
        start=self.dfas[X][0]
        if not hasattr(child,'children'):
            lab=self.leaf_label(child)
            p=start.transitions.get(lab)
            # direct terminal arc from start to final
            for l,nxt in start.arcs.items():
                pass
        for label,nxt in start.arcs.items():
            if not nxt.is_final:
                if not (X=='simple_stmt' and nxt.arcs.get('NEWLINE') is not None and nxt.arcs['NEWLINE'].is_final):
                    continue
            if label in self.dfas:
                if self.stands_for(label, child, depth+1): return True
            else:
                if not hasattr(child,'children') and self.term_matches(label, child): return True
        return False
    def term_matches(self, label, leaf):
        lab=self.leaf_label(leaf)
        if label[0].isalpha():
            return lab is getattr(T,label)
        import ast
        return isinstance(lab,ReservedString) and lab.value==ast.literal_eval(label)
    def run(self, rule, children, allow_missing_newline=False):
        states=[self.dfas[rule][0]]
        for c in children:
            nxt=[]
            for s in states:
                for label,n in s.arcs.items():
                    if label in self.dfas:
                        ok=self.stands_for(label,c) or (label=='suite' and c.type=='error_node')
                    else:
                        ok=(not hasattr(c,'children')) and c.type not in('error_leaf',) and self.term_matches(label,c)
                    if ok and not any(n is x for x in nxt): nxt.append(n)
            states=nxt
            if not states: return False
        if any(s.is_final for s in states): return True
        if allow_missing_newline:
            for s in states:
                n=s.arcs.get('NEWLINE')
                if n is not None and n.is_final: return True
        return False
class Virt:
    def __init__(self,typ,value=''): self.type=typ; self.value=value
def check(conf, node, problems, at_eof_ok):
    t=node.type
    if t=='error_node': return
    ch=list(node.children)
    # error placement
    for c in ch:
        if c.type=='error_leaf' and t not in('file_input','suite'):
            problems.append(('error-inside',t,node)); 
    if t=='file_input':
        seq=[c for c in ch if c.type not in('error_node','error_leaf')]
        ok=conf.run('file_input',seq)
    elif t=='suite':
        seq=[]
        for c in ch:
            if c.type in('error_node','error_leaf'): seq.append(Virt('ERRSTMT'))
            else: seq.append(c)
        if ch and ch[0].type=='newline':
            seq=[seq[0],'INDENT']+seq[1:]+['DEDENT']
        ok=run_suite(conf,seq)
    elif t in('parameters',):
        inner=[]
        for c in ch[1:-1]:
            if c.type=='param': inner+=c.children
            else: inner.append(c)
        ok = (not inner) or conf.run('typedargslist',inner) or (len(inner)==1 and conf.stands_for('typedargslist',inner[0]))
        ok = ok and ch[0].value=='(' and ch[-1].value==')'
    elif t=='lambdef':
        inner=[]
        for c in ch[1:-2]:
            if c.type=='param': inner+=c.children
            else: inner.append(c)
        okp=(not inner) or conf.run('varargslist',inner) or (len(inner)==1 and conf.stands_for('varargslist',inner[0]))
        ok= okp and (conf.run('lambdef',[ch[0]]+([Virt2('varargslist')] if inner else [])+ch[-2:]) or conf.run('lambdef_nocond',[ch[0]]+([Virt2('varargslist')] if inner else [])+ch[-2:]))
    elif t=='param':
        ok=True  # checked via parent
    else:
        rule=t
        if rule not in conf.dfas:
            problems.append(('unknown-rule',t,node)); ok=True
        else:
            ok=conf.run(rule,ch,allow_missing_newline=(rule=='simple_stmt'))
    if not ok: problems.append(('nonconform',t,node))
    for c in ch:
        if hasattr(c,'children'): check(conf,c,problems,at_eof_ok)
class Virt2:
    def __init__(self,t): self.type=t; self.children=[None,None]
def run_suite(conf, seq):
    states=[conf.dfas['suite'][0]]
    for c in seq:
        nxt=[]
        for s in states:
            for label,n in s.arcs.items():
                if c=='INDENT' or c=='DEDENT': ok=(label==c)
                elif isinstance(c,Virt): ok=(label=='stmt')
                elif label in conf.dfas: ok=conf.stands_for(label,c)
                else: ok=(not hasattr(c,'children')) and conf.term_matches(label,c)
                if ok and not any(n is x for x in nxt): nxt.append(n)
        states=nxt
        if not states: return False
    return any(s.is_final for s in states)
if __name__=='__main__':
    from fuzz1 import gen, ATOMS
    random.seed(int(sys.argv[1])); N=int(sys.argv[2])
    versions=['3.6','3.7','3.8','3.9','3.10','3.11','3.12','3.13','3.14']
    confs={v:Conf(parso.load_grammar(version=v)) for v in versions}
    stats=collections.Counter(); ex={}
    import glob
    files=glob.glob('/repo/parso/**/*.py',recursive=True)+glob.glob('/repo/test/*.py')
    inputs=[(random.choice(versions),gen()) for _ in range(N)]+[(v,open(f).read()) for f in files for v in ('3.6','3.10','3.14')]
    for v,code in inputs:
        m=parso.load_grammar(version=v).parse(code)
        probs=[]; check(confs[v],m,probs,True)
        stats['trees']+=1
        for p in probs:
            k=p[0]+':'+p[1]; stats[k]+=1
            if k not in ex: ex[k]=(v,code[:200],p[2])
    for k,c in stats.most_common(): print(c,k)
    for k,e in ex.items(): print(k,repr(e)[:400])
