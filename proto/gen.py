import sys, glob
sys.path.insert(0,'/tmp/probe'); sys.path.insert(0,'/repo')
from ebnf import P, lex
from parso.pgen2 import generate_grammar
from parso.python.token import PythonTokenTypes as T
f=sys.argv[1]
text=open(f).read(); rules=P(lex(text)).grammar(); g=generate_grammar(text,T)
labels={}
def lid(l): return labels.setdefault(l,len(labels)+1)
def tr(a):
    k=a[0]
    if k=='sym': return 'Sym %d'%lid(a[1])
    if k=='seq':
        out=tr(a[1][-1])
        for x in reversed(a[1][:-1]): out='Cat (%s) (%s)'%(tr(x),out)
        return out
    if k=='alt':
        out=tr(a[1][-1])
        for x in reversed(a[1][:-1]): out='Alt (%s) (%s)'%(tr(x),out)
        return out
    if k=='opt': return 'Alt (%s) Eps'%tr(a[1])
    if k=='star': return 'Star (%s)'%tr(a[1])
    if k=='plus':
        t=tr(a[1]); return 'Cat (%s) (Star (%s))'%(t,t)
out=['Require Import Deriv DfaCheck. From Coq Require Import List NArith Bool. Import ListNotations. Open Scope N_scope.']
names=[]
for name,ast in rules:
    dfas=g.nonterminal_to_dfas[name]
    idx={id(s):i for i,s in enumerate(dfas)}
    arcs=';'.join('(%d,%d,%d)'%(i,lid(l),idx[id(n)]) for i,s in enumerate(dfas) for l,n in s.arcs.items())
    fin=';'.join(str(i) for i,s in enumerate(dfas) if s.is_final)
    out.append('Definition r_%s : rx := %s.'%(name,tr(ast)))
    out.append('Definition d_%s : dfa := {| arcs := [%s]; finals := [%s] |}.'%(name,arcs,fin))
    names.append(name)
out.append('Definition all_rules : list (rx * dfa) := [%s].'%';'.join('(r_%s,d_%s)'%(n,n) for n in names))
out.append('Lemma all_ok : forallb (fun \'(r,d) => check_rule 2000 r d) all_rules = true.\nProof. vm_compute. reflexivity. Qed.')
open('G.v','w').write('\n'.join(out)+'\n')
print(len(names),'rules',len(labels),'labels')
