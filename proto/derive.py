import sys, random, collections
sys.path.insert(0,'/repo')
import parso
from parso.python.parser import Parser
from parso.python.tokenize import PythonToken
from parso.python.token import PythonTokenTypes as T
from parso.pgen2.generator import ReservedString
import ast as pyast

class Gen:
    def __init__(self, version, rnd):
        self.g=parso.load_grammar(version=version)._pgen_grammar
        self.dfas=self.g.nonterminal_to_dfas; self.rnd=rnd
        # min depth to finish from each state / each rule (for termination)
        self.cost_rule={r:10**9 for r in self.dfas}; self.cost_state={}
        changed=True
        while changed:
            changed=False
            for r,states in self.dfas.items():
                for s in states:
                    best=0 if s.is_final else 10**9
                    for l,nx in s.arcs.items():
                        c=(self.cost_rule[l] if l in self.dfas else 1)+self.cost_state.get(id(nx),10**9)
                        best=min(best,c)
                    if best<self.cost_state.get(id(s),10**9): self.cost_state[id(s)]=best; changed=True
                c=self.cost_state.get(id(states[0]),10**9)
                if c<self.cost_rule[r]: self.cost_rule[r]=c; changed=True
        self.arc_use=collections.Counter()
    def derive(self, rule, budget):
        """returns (tree, tokens) ; tree = ('N',rule,kids) / ('L',label)"""
        s=self.dfas[rule][0]; kids=[]
        while True:
            opts=list(s.arcs.items())
            stop_ok=s.is_final
            if budget[0]<=0:
                # go the cheapest way
                if stop_ok: break
                l,nx=min(opts,key=lambda o:(self.cost_rule[o[0]] if o[0] in self.dfas else 1)+self.cost_state[id(o[1])])
            else:
                if stop_ok and (not opts or self.rnd.random()<0.45): break
                # prefer rarely used arcs
                w=[1.0/(1+self.arc_use[(id(s),l)]) for l,_ in opts]
                l,nx=self.rnd.choices(opts,weights=w)[0]
            self.arc_use[(id(s),l)]+=1
            budget[0]-=1
            if l in self.dfas: kids.append(self.derive(l,budget))
            else: kids.append(('L',l))
            s=nx
        return ('N',rule,kids)
def yield_(t,out):
    if t[0]=='L': out.append(t[1])
    else:
        for k in t[2]: yield_(k,out)
VAL={'NAME':'x','NUMBER':'1','STRING':'"s"','NEWLINE':'\n','INDENT':'','DEDENT':'','ENDMARKER':'','FSTRING_START':'f"','FSTRING_STRING':'a','FSTRING_END':'"'}
def tokens(labels):
    toks=[]
    for i,l in enumerate(labels):
        if l[0].isalpha(): typ=getattr(T,l); val=VAL[l]
        else:
            val=pyast.literal_eval(l); typ=T.NAME if val[0].isalpha() else T.OP
        toks.append(PythonToken(typ,val,(1,i),''))
    return toks
def collapse(t, suite_rule='suite'):
    """expected parso tree as nested tuples (type, children) / ('leaf', value-or-type)"""
    if t[0]=='L':
        l=t[1]
        return ('leaf', VAL[l] if l[0].isalpha() else pyast.literal_eval(l))
    _,rule,kids=t
    ck=[collapse(k) for k in kids]
    return (rule,ck)
def finish(t, top=True):
    # apply conventions bottom-up: single child collapse (except top), suite strips children[1], [-1]
    if t[0]=='leaf': return t
    rule,ck=t
    ck=[finish(k,False) for k in ck]
    if len(ck)==1 and not top: return ck[0]
    if rule=='suite': ck=[ck[0]]+ck[2:-1]
    if rule in('lambdef','lambdef_nocond'):
        mid=ck[1:-2]
        if len(mid)==1 and mid[0][0]=='varargslist': ck=ck[:1]+mid[0][1]+ck[-2:]
    if rule=='parameters':
        mid=ck[1:-1]
        if len(mid)==1 and mid[0][0]=='typedargslist': ck=ck[:1]+mid[0][1]+ck[-1:]
    return (rule,ck)
def actual(n):
    if hasattr(n,'children'):
        t=n.type
        ch=[]
        for c in n.children:
            if c.type=='param': ch+= [actual(x) for x in c.children]   # flatten params
            else: ch.append(actual(c))
        return (t,ch)
    return ('leaf',n.value)
def flatten_params(t):
    return t
if __name__=='__main__':
    rnd=random.Random(int(sys.argv[1])); N=int(sys.argv[2])
    for v in ['3.6','3.7','3.8','3.9','3.10','3.11','3.12','3.13','3.14']:
        G=Gen(v,rnd); bad=collections.Counter(); ex={}
        for start in ['file_input','eval_input']:
            for i in range(N):
                d=G.derive(start,[rnd.randint(5,120)])
                labs=[]; yield_(d,labs)
                exp=finish(collapse(d))
                # lambdef_nocond -> lambdef naming
                def ren(t):
                    if t[0]=='leaf': return t
                    return ('lambdef' if t[0]=='lambdef_nocond' else t[0],[ren(k) for k in t[1]])
                exp=ren(exp)
                for rec in ([False,True] if start=='file_input' else [False]):
                    p=Parser(G.g,error_recovery=rec,start_nonterminal=start)
                    try:
                        m=p.parse(tokens=iter(tokens(labs)))
                        act=actual(m)
                        if act!=exp:
                            bad['tree differs rec=%s'%rec]+=1; ex.setdefault('tree',(labs[:40],))
                        else: bad['ok']+=1
                    except Exception as e:
                        k='raise %s rec=%s'%(type(e).__name__,rec); bad[k]+=1
                        ex.setdefault(k,(labs[:60], str(e)[:100] if not hasattr(e,'error_leaf') else (e.error_leaf,e.error_leaf.start_pos)))
        total=sum(len(s.arcs) for ss in G.dfas.values() for s in ss)
        reach=set()
        print(v,dict(bad),'arcs used %d/%d'%(len(G.arc_use),total))
        for k,e in ex.items(): print('   ',k,repr(e)[:600])
