import random
HEAD=['if x: ','while 1: ','def f(): ','class C: ','for a in b: ','try: ','else: ','with a as b: ','if x:\n  if y: ','async def g(): ','elif z: ','finally: ','except E: ','lambda: ','@dec\n','def f(a, *b, c=1, **d): ','class D(x, y=2): ','  ','    ','\t']
BODY=['foo(','x = (','return [','pass','a.b.','1 +','x = 1','print(x)',')','yield','import','from . import (','"abc','f"{x','del','x: int =','a, *b = ','[i for i in','{1:','not','x if y else','await','global','@','$','\\','"""','x; y','pass;']
TAIL=['','\n','\n  y\n','\nz = 2\n','\n    w\n',' ; q\n','\nelse: pass\n','\n\n','\r\n','\r','\n\tq\n','\n  \n']
def gen(rnd=random):
    return ''.join(rnd.choice(HEAD)+rnd.choice(BODY)+rnd.choice(TAIL) for _ in range(rnd.randint(1,4)))
