import sys, random, subprocess, time, collections
sys.path.insert(0,'/repo'); sys.path.insert(0,'/tmp/probe')
from parso.python.tokenize import tokenize_lines
from parso.utils import split_lines, parse_version_string
import fuzz1
ATOMS=fuzz1.ATOMS+['f"""','f"""{','"""','\\\n','{','}',':','!r','f\'','\'','\n','\r\n','#x','  ','x','def ','class ','(',')']*2
random.seed(int(sys.argv[1])); N=int(sys.argv[2])
vers=['3.6','3.10']
cases=[]
for i in range(N):
    r=random.random()
    code=fuzz1.gen() if r<0.5 else ''.join(random.choice(ATOMS) for _ in range(random.randint(0,25)))
    vi=random.randrange(2)
    if random.random()<0.15:
        sl=random.randint(1,5); first=random.random()<0.3; sc=random.choice([0,0,0,2,4]) if first else 0
        inds=random.choice([[0],[0,4],[0,2,4],[0,4,8]])
    else: sl,sc,first,inds=1,0,True,[0]
    cases.append((vi,code,sl,sc,first,inds))
def enc(c):
    vi,code,sl,sc,first,inds=c
    lines=split_lines(code,keepends=True)
    return ' '.join(map(str,[vi,sl,sc,int(first),len(inds)]+inds+[len(lines)]+[x for l in lines for x in [len(l)]+[ord(ch) for ch in l]]))
t=time.time()
out=subprocess.run(['./drv'],input='\n'.join(enc(c) for c in cases)+'\n',capture_output=True,text=True).stdout.split('\n')
tm=time.time()-t
def impl(c):
    vi,code,sl,sc,first,inds=c
    lines=split_lines(code,keepends=True)
    try:
        toks=list(tokenize_lines(lines,version_info=parse_version_string(vers[vi]),indents=list(inds),start_pos=(sl,sc),is_first_token=first))
    except Exception as e: return 'ERR '+type(e).__name__
    return ';'.join('%s %d %d [%s] [%s]'%(t.type.name,t.start_pos[0],t.start_pos[1],','.join(str(ord(x)) for x in t.string),','.join(str(ord(x)) for x in t.prefix)) for t in toks)
bad=0; st=collections.Counter()
for c,o in zip(cases,out):
    e=impl(c)
    if e!=o:
        bad+=1
        if bad<=4:
            print('MISMATCH',c); 
            et=e.split(';'); ot=o.split(';')
            k=next((i for i,(x,y) in enumerate(zip(et,ot)) if x!=y),min(len(et),len(ot)))
            print('  impl :',et[max(0,k-1):k+2]); print('  model:',ot[max(0,k-1):k+2])
    st['err' if e.startswith('ERR') else 'ok']+=1
print('cases',len(cases),'mismatches',bad,'model time %.2fs'%tm,dict(st))
errs=collections.Counter()
for c,o in zip(cases,out):
    if o.startswith('ERR'): errs[(o, c[2:5], tuple(c[5]))]+=1; 
for k,v in errs.most_common(12): print(v,k)
for c,o in zip(cases,out):
    if o.startswith('ERR') and c[2:]==(1,0,True,[0]): print('DEFAULT-PARAM ERROR',o,repr(c[1])); break
