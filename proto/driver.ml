open Model
let rec pos_of_int n = if n = 1 then XH else if n land 1 = 0 then XO (pos_of_int (n lsr 1)) else XI (pos_of_int (n lsr 1))
let n_of_int n = if n = 0 then N0 else Npos (pos_of_int n)
let rec int_of_pos = function XH -> 1 | XO p -> 2 * int_of_pos p | XI p -> 2 * int_of_pos p + 1
let int_of_n = function N0 -> 0 | Npos p -> int_of_pos p
let rec nat_of_int n = if n = 0 then O else S (nat_of_int (n-1))
let tyname = function STRING -> "STRING" | NUMBER -> "NUMBER" | NAME -> "NAME" | ERRORTOKEN -> "ERRORTOKEN" | NEWLINE -> "NEWLINE"
  | INDENT -> "INDENT" | DEDENT -> "DEDENT" | ERROR_DEDENT -> "ERROR_DEDENT" | FSTRING_STRING -> "FSTRING_STRING"
  | FSTRING_START -> "FSTRING_START" | FSTRING_END -> "FSTRING_END" | OP -> "OP" | ENDMARKER -> "ENDMARKER"
let pstr l = String.concat "," (List.map (fun c -> string_of_int (int_of_n c)) l)
let () =
  try while true do
    let line = input_line stdin in
    let a = Array.of_list (List.map int_of_string (List.filter (fun s -> s <> "") (String.split_on_char ' ' line))) in
    let i = ref 0 in
    let next () = let v = a.(!i) in incr i; v in
    let vi = next () in let sl = next () in let sc = next () in let first = next () = 1 in
    let k = next () in let inds = List.init k (fun _ -> n_of_int (next ())) in
    let nl = next () in
    let lines = List.init nl (fun _ -> let m = next () in List.init m (fun _ -> n_of_int (next ()))) in
    (match run (nat_of_int vi) lines inds (n_of_int sl) (n_of_int sc) first with
     | Err e -> print_endline (match e with OutOfFuel -> "ERR OutOfFuel" | AssertFail -> "ERR AssertionError" | IndexError -> "ERR IndexError" | AttrError -> "ERR AttributeError")
     | Ok toks ->
       print_endline (String.concat ";" (List.map (fun t ->
         Printf.sprintf "%s %d %d [%s] [%s]" (tyname t.ty) (int_of_n t.tline) (int_of_n t.tcol) (pstr t.ts) (pstr t.tpre)) toks)))
  done with End_of_file -> ()
