import sys; sys.path.insert(0,'/repo'); sys.path.insert(0,'/tmp/probe')
import parso, random, collections
from conform import *
from fuzz1 import gen
random.seed(3)
versions=['3.6','3.7','3.8','3.9','3.10','3.11','3.12','3.13','3.14']
confs={v:Conf(parso.load_grammar(version=v)) for v in versions}
cnt=collections.Counter(); shown=0
for i in range(1500):
    v=random.choice(versions); code=gen()
    m=parso.load_grammar(version=v).parse(code)
    seq=[c for c in m.children if c.type not in('error_node','error_leaf')]
    if not confs[v].run('file_input',seq):
        # find first offending child
        for k in range(len(seq)):
            if not confs[v].run('file_input',seq[:k+1]+[seq[-1]] if k<len(seq)-1 else seq):
                c=seq[k]; cnt[(c.type, getattr(c,'value',None) if not hasattr(c,'children') else [x.type for x in c.children][-2:])] +=1 if False else 0
                key=(c.type, tuple(x.type for x in c.children)[-2:] if hasattr(c,'children') else c.value)
                cnt[key]+=1
                if shown<6: shown+=1; print(v, repr(code[:120])); print('   offending', c, key)
                break
for k,c in cnt.most_common(20): print(c,k)
