import sys; sys.path.insert(0,'/repo'); sys.path.insert(0,'/tmp/probe')
import parso, random, collections
from parso.python import parser as pp, tokenize as tk
from parso.python.token import PythonTokenTypes as T
from fuzz1 import gen
random.seed(int(sys.argv[1])); N=int(sys.argv[2])
st=collections.Counter(); ex={}
def rec(k,extra=None):
    st[k]+=1
    if k not in ex: ex[k]=extra
# --- invariant for parser: after each _add_token
orig_add=pp.Parser._add_token
depth=[0]
cur=[None]
def add(self, token):
    depth[0]+=1
    r=orig_add(self, token)
    depth[0]-=1
    if depth[0]==0:
        suites_with_indent=sum(1 for s in self.stack if s.nonterminal=='suite' and len(s.nodes)>=2)
        # suite nodes: [NEWLINE, INDENT, ...]
        lhs=self._indent_counter-len(self._omit_dedent_list)
        if lhs!=suites_with_indent:
            rec('INV1 counter-omit != suites_with_indent', (cur[0], token, lhs, suites_with_indent, [ (s.nonterminal,len(s.nodes)) for s in self.stack]))
        else: st['inv1 ok']+=1
        # all non-top frames non-empty? top frame nodes non-empty
        if not self.stack[-1].nodes: rec('top frame empty nodes',(cur[0],token))
    return r
pp.Parser._add_token=add
versions=['3.6','3.8','3.10','3.14']
for i in range(N):
    v=random.choice(versions); code=gen(); cur[0]=(v,code)
    parso.load_grammar(version=v).parse(code)
for k,c in st.most_common(): print(c,k)
for k,e in ex.items(): print(k,repr(e)[:700])
