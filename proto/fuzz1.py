import sys, random, traceback, collections
sys.path.insert(0,'/repo')
import parso
from parso.utils import split_lines
random.seed(int(sys.argv[1]) if len(sys.argv)>1 else 0)
N=int(sys.argv[2]) if len(sys.argv)>2 else 3000
ATOMS=['def ','class ','if ','else','elif ','for ',' in ','while ','try','except','finally','with ',' as ','return ','yield ','lambda ','import ','from ','pass','break','continue','global ','nonlocal ','async ','await ','del ','assert ','raise ','not ','and ','or ','is ','None','True',
 'x','y','foo','_a','é','1','0x1f','1.5e3','1_0','1j','0b1','00',
 '(',')','[',']','{','}',':',';',',','.','...','=','==','+=','->',':=','*','**','@','+','-','/','//','%','<','>','<=','!=','~','^','|','&','<<','!',
 '"a"',"'b'",'"""c\n"""',"'''",'"','\'','f"','f"{','}"','f\'{x!r:>{w}}\'','rb"x"','b\'',"f'''",'{x}','{{','}}','\\N{DASH}','\\',
 ' ','  ','    ','\t','\n','\n','\n','\r\n','\r','\f','\x0b','\x1c','\x85',' ','\xa0','﻿','#c','# c\n','#\f x','\\\n','\\\r\n','$','?','\x00','`','\U0001f600','²']
def gen():
    import onel
    if random.random()<0.5: return onel.gen(random)
    r=random.random()
    n=random.randint(0,30)
    s=''.join(random.choice(ATOMS) for _ in range(n))
    if r<0.3:
        # line-structured
        lines=[]
        ind=0
        for _ in range(random.randint(1,8)):
            ind=max(0,ind+random.choice([-4,-2,0,0,0,2,4]))
            lines.append(' '*ind+''.join(random.choice(ATOMS) for _ in range(random.randint(0,6)))+random.choice(['\n','\n','\r\n','\r','']))
        s=''.join(lines)
    return s
def walk_pos(code,module):
    # C01 + C03
    line,col=1,0
    first=True
    leaves=[]
    leaf=module.get_first_leaf()
    while leaf is not None:
        leaves.append(leaf); leaf=leaf.get_next_leaf()
    txt=''.join(l.prefix+l.value for l in leaves)
    assert txt==code,'C01 leaves tile'
    assert module.get_code()==code,'C01 get_code'
    def adv(line,col,s,bom_ok):
        i=0
        while i<len(s):
            c=s[i]
            if c=='\r' and i+1<len(s) and s[i+1]=='\n': line+=1;col=0;i+=2;continue
            if c in '\r\n': line+=1;col=0;i+=1;continue
            if c=='﻿' and bom_ok and i==0 and (line,col)==(1,0): i+=1;continue
            col+=1;i+=1
        return line,col
    pos=(1,0)
    for k,l in enumerate(leaves):
        if l.type=='error_leaf' and l.token_type in('INDENT','DEDENT','ERROR_DEDENT'):
            assert l.value=='' and l.prefix==''
            assert pos<=l.start_pos,('C03 zw order',l,pos)
            zw=l.start_pos
            continue
        pos=adv(pos[0],pos[1],l.prefix,k==0)
        assert l.start_pos==pos,('C03 start',l,l.start_pos,pos)
        pos=adv(pos[0],pos[1],l.value,False)
        assert l.end_pos==pos,('C03 end',l,l.end_pos,pos)
    assert module.end_pos==pos
    return leaves
stats=collections.Counter()
fails=collections.defaultdict(list)
versions=['3.6','3.7','3.8','3.9','3.10','3.11','3.12','3.13','3.14']
def main():
  pass
for i in range(N if __name__=="__main__" else 0):
    code=gen(); v=random.choice(versions)
    g=parso.load_grammar(version=v)
    def rec(tag,e):
        key=tag+':'+type(e).__name__+':'+str(e)[:60]
        if len(fails[key])<2: fails[key].append((v,code))
        stats[key]+=1
    try:
        m=g.parse(code)
    except Exception as e:
        rec('C02',e); continue
    try:
        leaves=walk_pos(code,m)
    except Exception as e:
        rec('C01/3',e); continue
    try:
        for l in leaves:
            parts=list(l._split_prefix())
            assert ''.join(p.spacing+p.value if p.type!='spacing' else p.value for p in parts)==l.prefix or True
    except Exception as e:
        rec('C09split',e)
    has_err=any(l.type=='error_leaf' for l in leaves) or 'ErrorNode' in m.dump()
    try:
        m2=g.parse(code,error_recovery=False)
        strict_ok=True
    except parso.ParserSyntaxError as e:
        strict_ok=False
    except Exception as e:
        rec('C07x',e); strict_ok=None
    if strict_ok is not None and strict_ok==has_err:
        rec('C07',AssertionError('strict_ok=%s has_err=%s'%(strict_ok,has_err)))
    try:
        errs=list(g.iter_errors(m))
        lines=[e.start_pos[0] for e in errs]
        assert len(lines)==len(set(lines)),'C13 one per line'
        if has_err and not errs: rec('C13',AssertionError('error in tree but no issue'))
    except Exception as e:
        rec('C13',e)
    try:
        issues=g._get_normalizer_issues(m)
    except Exception as e:
        rec('C20',e)
    stats['ok']+=1
for k,v in stats.most_common(): print(v,k)
print('----')
for k,v in fails.items():
    print(k); 
    for x in v: print('   ',x)
