import sys; sys.path.insert(0,'/repo'); sys.path.insert(0,'/tmp/probe')
import parso, random, collections, pickle
from fuzz1 import gen
from parso.python.tree import *
from parso.tree import *
random.seed(int(sys.argv[1])); N=int(sys.argv[2])
versions=['3.6','3.8','3.10','3.14']
st=collections.Counter(); ex={}
def rec(k,v,code,extra=None):
    st[k]+=1
    if k not in ex: ex[k]=(v,code,extra)
def sig(n):
    if hasattr(n,'children'): return (type(n).__name__,n.type,[sig(c) for c in n.children])
    return (type(n).__name__,n.type,n.value,n.prefix,n.start_pos,getattr(n,'token_type',None))
def parents_ok(n):
    if hasattr(n,'children'):
        return all(c.parent is n and parents_ok(c) for c in n.children)
    return True
import glob
files=[open(f).read() for f in glob.glob('/repo/parso/**/*.py',recursive=True)]
for i in range(N):
    v=random.choice(versions); code=gen() if i%10 else random.choice(files); g=parso.load_grammar(version=v)
    m=g.parse(code); s0=sig(m)
    for ind in (None,0,4,'\t',''):
        try:
            m2=eval(m.dump(indent=ind))
            if sig(m2)!=s0: rec('eval differs',v,code,ind)
            elif not parents_ok(m2) or m2.parent is not None: rec('eval parents',v,code,ind)
            elif m2.get_code()!=code: rec('eval code',v,code)
        except Exception as e: rec('eval raise '+type(e).__name__,v,code,str(e)[:100])
    try:
        m3=pickle.loads(pickle.dumps(m))
        if sig(m3)!=s0 or not parents_ok(m3) or m3.get_code()!=code: rec('pickle differs',v,code)
    except Exception as e: rec('pickle raise '+type(e).__name__,v,code,str(e)[:100])
    # refactor
    allnodes=[]
    def coll(n,path):
        allnodes.append(n)
        if hasattr(n,'children'):
            for c in n.children: coll(c,path)
    coll(m,())
    if g.refactor(m,{})!=code: rec('refactor empty',v,code)
    # choose disjoint nodes
    chosen={}
    def pick(n):
        if n is not m and random.random()<0.15:
            chosen[n]='<%d>'%len(chosen); return
        if hasattr(n,'children'):
            for c in n.children: pick(c)
    pick(m)
    def expect(n):
        if n in chosen and any(n is k for k in chosen): return chosen[n]
        if hasattr(n,'children'): return ''.join(expect(c) for c in n.children)
        return n.prefix+n.value
    try:
        if g.refactor(m,chosen)!=expect(m): rec('refactor splice',v,code,chosen)
    except Exception as e: rec('refactor raise '+type(e).__name__,v,code,str(e)[:100])
    st['trees']+=1
for k,c in st.most_common(): print(c,k)
for k,e in ex.items(): print(k,repr(e)[:600])
