import re, sys, glob, itertools
sys.path.insert(0, '/repo')
from parso.pgen2 import generate_grammar
from parso.python.token import PythonTokenTypes as T

TOK = re.compile(r"\s*(?:(#[^\n]*)|([A-Za-z_][A-Za-z_0-9]*)|('[^']*'|\"[^\"]*\")|([()\[\]|*+:])|(\n))")
def lex(text):
    # join continuation: rules end at newline at bracket depth 0
    toks=[]; depth=0; pos=0
    while pos < len(text):
        m = re.compile(r"[ \t\f]*(?:(#[^\n]*)|([A-Za-z_][A-Za-z_0-9]*)|('[^'\n]*'|\"[^\"\n]*\")|([()\[\]|*+:])|(\n))").match(text,pos)
        if not m: raise SyntaxError(text[pos:pos+20])
        pos = m.end()
        if m.group(1): continue
        if m.group(2): toks.append(('NAME',m.group(2)))
        elif m.group(3): toks.append(('STR',m.group(3)))
        elif m.group(4):
            v=m.group(4)
            if v in '([': depth+=1
            if v in ')]': depth-=1
            toks.append(('OP',v))
        else:
            if depth==0: toks.append(('NL','\n'))
    toks.append(('END',''))
    return toks
class P:
    def __init__(s,toks): s.t=toks; s.i=0
    def peek(s): return s.t[s.i]
    def nxt(s): s.i+=1; return s.t[s.i-1]
    def grammar(s):
        rules=[]
        while s.peek()[0]!='END':
            if s.peek()[0]=='NL': s.nxt(); continue
            name=s.nxt()[1]; assert s.nxt()==('OP',':')
            r=s.rhs(); assert s.nxt()[0]=='NL'
            rules.append((name,r))
        return rules
    def rhs(s):
        alts=[s.items()]
        while s.peek()==('OP','|'):
            s.nxt(); alts.append(s.items())
        return ('alt',alts) if len(alts)>1 else alts[0]
    def items(s):
        its=[s.item()]
        while s.peek()[0] in ('NAME','STR') or s.peek() in (('OP','('),('OP','[')):
            its.append(s.item())
        return ('seq',its) if len(its)>1 else its[0]
    def item(s):
        if s.peek()==('OP','['):
            s.nxt(); r=s.rhs(); assert s.nxt()==('OP',']'); return ('opt',r)
        a=s.atom()
        if s.peek()==('OP','*'): s.nxt(); return ('star',a)
        if s.peek()==('OP','+'): s.nxt(); return ('plus',a)
        return a
    def atom(s):
        if s.peek()==('OP','('):
            s.nxt(); r=s.rhs(); assert s.nxt()==('OP',')'); return r
        k,v=s.nxt(); assert k in('NAME','STR'),(k,v); return ('sym',v)
# Thompson NFA
def thompson(ast):
    states=[]  # list of dict: eps list, sym arcs
    def new(): states.append({'eps':[], 'arcs':[]}); return len(states)-1
    def build(a):
        k=a[0]
        if k=='sym':
            s=new(); e=new(); states[s]['arcs'].append((a[1],e)); return s,e
        if k=='seq':
            s,e=build(a[1][0])
            for x in a[1][1:]:
                s2,e2=build(x); states[e]['eps'].append(s2); e=e2
            return s,e
        if k=='alt':
            s=new(); e=new()
            for x in a[1]:
                s2,e2=build(x); states[s]['eps'].append(s2); states[e2]['eps'].append(e)
            return s,e
        if k in('opt','star','plus'):
            s=new(); e=new(); s2,e2=build(a[1])
            states[s]['eps'].append(s2); states[e2]['eps'].append(e)
            if k in('opt','star'): states[s]['eps'].append(e)
            if k in('star','plus'): states[e2]['eps'].append(s2)
            return s,e
    s,e=build(ast); return states,s,e
def closure(states,S):
    S=set(S); st=list(S)
    while st:
        x=st.pop()
        for y in states[x]['eps']:
            if y not in S: S.add(y); st.append(y)
    return frozenset(S)
def compare(ast, dfas):
    states,s,e=thompson(ast)
    start=(closure(states,[s]), dfas[0])
    seen={(start[0],id(start[1])):()}; todo=[start]
    while todo:
        S,d=todo.pop()
        w=seen[(S,id(d))]
        f1 = e in S; f2 = d is not None and d.is_final
        if f1!=f2: return ('final-mismatch', w, f1, f2)
        labels=set(l for x in S for (l,_) in states[x]['arcs'])
        if d is not None: labels|=set(d.arcs)
        for l in labels:
            S2=closure(states,[y for x in S for (l2,y) in states[x]['arcs'] if l2==l])
            d2=d.arcs.get(l) if d is not None else None
            if not S2 and d2 is None: continue
            if (not S2) != (d2 is None):
                # one side dead: need check if other side can accept anything; treat as mismatch if live
                return ('dead-mismatch', w+(l,), bool(S2), d2 is not None)
            k=(S2,id(d2))
            if k not in seen: seen[k]=w+(l,); todo.append((S2,d2))
    return None
if __name__=='__main__':
    for f in sorted(glob.glob('/repo/parso/python/grammar*.txt')):
        text=open(f).read()
        rules=P(lex(text)).grammar()
        g=generate_grammar(text,T)
        bad=0
        for name,ast in rules:
            r=compare(ast,g.nonterminal_to_dfas[name])
            if r: bad+=1; print(f,name,r)
        print(f,len(rules),'rules, mismatches:',bad)
