import sys, random, subprocess, time, collections, json
sys.path.insert(0,'/repo'); sys.path.insert(0,'/tmp/probe')
import parso
from parso.utils import split_lines
import fuzz1
meta=json.load(open('meta.json'))
vers=['3.6','3.10']
def enc(c):
    vi,rec,code=c; lines=split_lines(code,keepends=True)
    return ' '.join(map(str,[vi,int(rec),len(lines)]+[x for l in lines for x in [len(l)]+[ord(ch) for ch in l]]))
def ser(n,rid):
    if hasattr(n,'children'):
        t=n.type
        head='error_node' if t=='error_node' else 'param' if t=='param' else str(rid[t])
        return '(N %s%s)'%(head,''.join(' '+ser(c,rid) for c in n.children))
    k=n.type
    if k=='error_leaf': k='error_leaf:'+n.token_type
    return '(L %s %d %d [%s] [%s])'%(k,n.line,n.column,','.join(str(ord(x)) for x in n.value),','.join(str(ord(x)) for x in n.prefix))
def impl(c):
    vi,rec,code=c; g=parso.load_grammar(version=vers[vi]); rid=meta[vers[vi]]['rid']
    try: m=g.parse(code,error_recovery=rec)
    except parso.ParserSyntaxError as e:
        l=e.error_leaf
        return 'SYNTAXERR %s %d %d [%s] [%s]'%(l.token_type.name if hasattr(l.token_type,'name') else l.token_type,l.line,l.column,','.join(str(ord(x)) for x in l.value),','.join(str(ord(x)) for x in l.prefix))
    except Exception as e: return 'ERR '+type(e).__name__
    return ser(m,rid)
