import sys, json, subprocess, glob, collections
sys.path.insert(0,'/repo')
import parso
from parso.python.tokenize import tokenize
from parso.utils import parse_version_string
v=sys.argv[1]; full={'3.6':'3.6.15','3.7':'3.7.16','3.8':'3.8.18','3.9':'3.9.18','3.10':'3.10.13','3.11':'3.11.7','3.12':'3.12.1','3.13':'3.13.0'}[v]
files=sorted(glob.glob('/root/.pyenv/versions/%s/lib/python%s/*.py'%(full,v)))[:int(sys.argv[2])]
ref=json.loads(subprocess.run(['/root/.pyenv/versions/%s/bin/python'%full,'ref_tok.py']+files,capture_output=True,text=True).stdout)
st=collections.Counter(); ex={}
for f in files:
    r=ref[f]
    if r is None: st['ref fails']+=1; continue
    code=parso.python_bytes_to_unicode(open(f,'rb').read(),errors='replace')
    mine=[]; toks=list(tokenize(code,version_info=parse_version_string(v)))
    i=0
    while i<len(toks):
        t=toks[i]; n=t.type.name
        if n=='FSTRING_START':
            depth=0; j=i
            while j<len(toks):
                if toks[j].type.name=='FSTRING_START': depth+=1
                if toks[j].type.name=='FSTRING_END':
                    depth-=1
                    if depth==0: break
                j+=1
            mine.append(['STRING',None,t.start_pos[0],t.start_pos[1]]); i=j+1; continue
        s=t.string
        if n in('INDENT','DEDENT','ENDMARKER'): s=''
        mine.append([n, s if n!='STRING' else None, t.start_pos[0], t.start_pos[1]]); i+=1
    # reference ENDMARKER/DEDENT positions differ (CPython puts them on next line); compare only types for those; NEWLINE at EOF may be synthetic ''
    def norm(seq):
        out=[]
        for n,s,l,c in seq:
            if n in('ASYNC','AWAIT'): n='NAME'
            if n in('DEDENT','ENDMARKER','INDENT'): out.append((n,))
            elif n=='NEWLINE': out.append((n,l,c))
            else: out.append((n,s,l,c))
        return out
    a=norm(r); b=norm(mine)
    if a==b: st['same']+=1
    else:
        k=next((i for i,(x,y) in enumerate(zip(a,b)) if x!=y), min(len(a),len(b)))
        key='diff: ref=%s mine=%s'%(a[k][0] if k<len(a) else None, b[k][0] if k<len(b) else None)
        st[key]+=1; ex.setdefault(key,(f.split('/')[-1],a[k-1:k+2],b[k-1:k+2]))
for k,c in st.most_common(): print(c,k)
for k,e in ex.items(): print('  ',k,e)
