# runs under any CPython 3.6+: prints canonical significant tokens of a file
import sys, tokenize, io, json
def canon(path):
    src=open(path,'rb').read()
    out=[]
    try:
        toks=list(tokenize.tokenize(io.BytesIO(src).readline))
    except Exception as e:
        return None
    i=0; n=len(toks)
    FS=getattr(tokenize,'FSTRING_START',None)
    while i<n:
        t=toks[i]
        name=tokenize.tok_name[t.type]
        if name in('ENCODING','COMMENT','NL'): i+=1; continue
        if FS is not None and t.type==FS:
            # merge until matching FSTRING_END (nesting)
            depth=0; start=t.start; j=i
            while True:
                tj=toks[j]; nj=tokenize.tok_name[tj.type]
                if nj=='FSTRING_START': depth+=1
                if nj=='FSTRING_END':
                    depth-=1
                    if depth==0: break
                j+=1
            out.append(('STRING',None,start[0],start[1])); i=j+1; continue
        if name=='OP': name='OP'
        s=t.string
        if name in('INDENT','DEDENT','ENDMARKER'): s=''
        if name=='NEWLINE' and s=='' : pass
        out.append((name,s if name!='STRING' else None,t.start[0],t.start[1]))
        i+=1
    return out
if __name__=='__main__':
    res={}
    for p in sys.argv[1:]:
        res[p]=canon(p)
    json.dump(res,sys.stdout)
