import sys, re, random
sys.path.insert(0,'/repo')
import re._parser as sp
from re._constants import *
from parso.python import tokenize as tk
from parso.python import prefix as pf
from parso.utils import parse_version_string
def tr_in(av):
    neg=False; items=[]
    for op,a in av:
        if op is NEGATE: neg=True
        elif op is LITERAL: items.append((a,a))
        elif op is RANGE: items.append(a)
        else: raise NotImplementedError(op)
    return 'CSet %s [%s]'%('true' if neg else 'false', ';'.join('(%d,%d)'%x for x in items))
def tr_seq(p):
    items=[tr(op,av) for op,av in p]
    if not items: return 'Eps'
    out=items[-1]
    for x in reversed(items[:-1]): out='Cat (%s) (%s)'%(x,out)
    return out
def tr(op,av):
    if op is LITERAL: return 'Chr %d'%av
    if op is NOT_LITERAL: return 'NotChr %d'%av
    if op is ANY: return 'AnyNoNl'
    if op is IN: return tr_in(av)
    if op is BRANCH:
        alts=[tr_seq(x) for x in av[1]]
        out=alts[-1]
        for x in reversed(alts[:-1]): out='Alt (%s) (%s)'%(x,out)
        return out
    if op is SUBPATTERN:
        g,addf,delf,p=av
        assert not addf and not delf
        inner=tr_seq(p)
        return inner if g is None else 'Group %d (%s)'%(g,inner)
    if op is MAX_REPEAT:
        lo,hi,p=av; inner=tr_seq(p)
        if (lo,hi)==(0,1): return 'Opt (%s)'%inner
        if (lo,hi)==(0,MAXREPEAT): return 'Star (%s)'%inner
        if (lo,hi)==(1,MAXREPEAT): return 'Plus (%s)'%inner
        raise NotImplementedError((lo,hi))
    if op is ASSERT_NOT:
        d,p=av; assert d==1; return 'NLook (%s)'%tr_seq(p)
    if op is AT:
        if av is AT_END: return 'AtEnd'
        if av is AT_END_STRING: return 'AtEndStr'
    raise NotImplementedError((op,av))
def translate(pattern): return tr_seq(sp.parse(pattern, re.UNICODE))
if __name__=='__main__':
    tc=tk._get_token_collection(parse_version_string('3.10'))
    pats={'pseudo':tc.pseudo_token.pattern,'fss':tk.fstring_string_single_line.pattern,'fsm':tk.fstring_string_multi_line.pattern,'pre':pf._regex.pattern,'d3':tc.endpats['"""'].pattern,'s1':tc.endpats["'"].pattern}
    with open('Pats.v','w') as f:
        f.write('Require Import Regex. From Coq Require Import List NArith. Import ListNotations. Open Scope N_scope.\n')
        for k,v in pats.items(): f.write('Definition p_%s : re := %s.\n'%(k,translate(v)))
        f.write('Definition pats : list re := [%s].\n'%';'.join('p_'+k for k in pats))
        f.write('From Coq Require Extraction ExtrOcamlBasic.\nExtraction "model.ml" rmatch pats.\n')
    import json; json.dump(pats,open('pats.json','w'))
