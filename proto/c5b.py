import sys; sys.path.insert(0,'/repo'); sys.path.insert(0,'/tmp/probe')
import parso, random, collections
from conform import *
random.seed(5)
HEAD=['if x: ','while 1: ','def f(): ','class C: ','for a in b: ','try: ','else: ','with a as b: ','if x:\n  if y: ','async def g(): ','elif z: ','finally: ','except E: ','lambda: ','@dec\n','def f(a, *b, c=1, **d): ','class D(x, y=2): ']
BODY=['foo(','x = (','return [','pass','a.b.','1 +','x = 1','print(x)',')','yield','import','from . import (','"abc','f"{x','del','x: int =','a, *b = ','[i for i in','{1:','not','x if y else','await','global','@','$']
TAIL=['','\n','\n  y\n','\nz = 2\n','\n    w\n',' ; q\n','\nelse: pass\n','\n\n']
versions=['3.6','3.8','3.10','3.12','3.14']
confs={v:Conf(parso.load_grammar(version=v)) for v in versions}
st=collections.Counter(); ex={}
for i in range(6000):
    code=''.join(random.choice(HEAD)+random.choice(BODY)+random.choice(TAIL) for _ in range(random.randint(1,3)))
    v=random.choice(versions)
    m=parso.load_grammar(version=v).parse(code)
    probs=[]; check(confs[v],m,probs,True)
    st['trees']+=1
    for p in probs:
        par=p[2]
        k=p[0]+':'+p[1]
        if p[0]=='error-inside':
            idx=[j for j,c in enumerate(par.children) if c.type in('error_node','error_leaf')]
            k+=' pos=%s of %d last=%s'%(idx,len(par.children), par.children[-1].type)
        st[k]+=1; ex.setdefault(k,(v,code))
for k,c in st.most_common(25): print(c,k)
for k,e in list(ex.items())[:12]: print('  ',k,repr(e)[:200])
