import sys; sys.path.insert(0,'/repo')
import parso, glob, collections, warnings
warnings.simplefilter('ignore')
v=sys.argv[1]; full={'3.6':'3.6.15','3.8':'3.8.18','3.10':'3.10.13','3.12':'3.12.1','3.13':'3.13.0'}[v]
files=sorted(glob.glob('/root/.pyenv/versions/%s/lib/python%s/**/*.py'%(full,v),recursive=True))
files=[f for f in files if '/test/' not in f and 'lib2to3/tests' not in f and 'site-packages' not in f][:int(sys.argv[2])]
g=parso.load_grammar(version=v); st=collections.Counter(); ex={}
for f in files:
    try: code=open(f,'rb').read()
    except Exception: continue
    try: m=g.parse(code)
    except Exception as e: st['parse raise '+type(e).__name__]+=1; ex.setdefault('parse raise',f); continue
    try: errs=list(g.iter_errors(m))
    except Exception as e: st['iter_errors raise '+type(e).__name__]+=1; ex.setdefault('ie raise '+type(e).__name__,f); continue
    if errs:
        for e in errs[:1]:
            k=e.message; st[k]+=1; ex.setdefault(k,(f,e.start_pos))
    else: st['clean']+=1
for k,c in st.most_common(): print(c,k)
for k,e in ex.items(): print('  ',k,e)
