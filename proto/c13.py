import sys; sys.path.insert(0,'/repo'); sys.path.insert(0,'/tmp/probe')
import parso, random, collections
from fuzz1 import gen
random.seed(int(sys.argv[1])); N=int(sys.argv[2])
versions=['3.6','3.7','3.8','3.9','3.10','3.11','3.12','3.13','3.14']
st=collections.Counter(); ex={}
def rec(k,v,code,extra=None):
    st[k]+=1
    if k not in ex: ex[k]=(v,code,extra)
for i in range(N):
    v=random.choice(versions); code=gen(); g=parso.load_grammar(version=v)
    m=g.parse(code); d0=m.dump()
    try: issues=list(g.iter_errors(m))
    except Exception as e: rec('raise:'+type(e).__name__,v,code); continue
    if m.dump()!=d0: rec('tree modified',v,code)
    lines=collections.Counter(i.start_pos[0] for i in issues)
    if any(c>1 for c in lines.values()): rec('two per line',v,code)
    for i in issues:
        if i.code not in(901,903): rec('bad code',v,code,i.code)
        if i.code==901 and not i.message.startswith('SyntaxError: '): rec('bad prefix',v,code,i.message)
        if i.code==903 and not i.message.startswith('IndentationError: '): rec('bad prefix',v,code,i.message)
        if not ((1,0)<=i.start_pos<=i.end_pos<=m.end_pos): rec('range outside',v,code,(i.start_pos,i.end_pos,m.end_pos))
    # required lines
    def walk(n,inerr):
        if n.type=='error_leaf' and not inerr:
            if n.start_pos[0] not in lines: rec('error leaf line unreported:'+n.token_type,v,code,n)
        elif n.type=='error_node' and not inerr:
            nl=n.get_next_leaf()
            if nl.start_pos[0] not in lines: rec('error node next-leaf line unreported fstr=%s v>=3.9=%s ownline=%s'%(any(c.type=='fstring_start' for c in n.children) or n.search_ancestor('fstring') is not None, tuple(map(int,v.split('.')))>=(3,9), n.start_pos[0] in lines),v,code,(n,nl))
            return
        if hasattr(n,'children'):
            for c in n.children: walk(c,inerr)
    walk(m,False)
    i2=list(g.iter_errors(m))
    if [(i.code,i.message,i.start_pos,i.end_pos) for i in issues]!=[(i.code,i.message,i.start_pos,i.end_pos) for i in i2]: rec('nondeterministic',v,code)
    st['trees']+=1
for k,c in st.most_common(): print(c,k)
for k,e in ex.items(): print(k,repr(e)[:500])
