import sys; sys.path.insert(0,'/repo'); sys.path.insert(0,'/tmp/probe')
import parso, random, collections
from fuzz1 import gen
from parso.utils import split_lines
random.seed(int(sys.argv[1])); N=int(sys.argv[2])
versions=['3.6','3.8','3.10','3.14']
st=collections.Counter(); ex={}
def rec(k,v,code,extra=None):
    st[k]+=1
    if k not in ex: ex[k]=(v,code,extra)
def leaves_of(n,out):
    if hasattr(n,'children'):
        for c in n.children:
            if c.parent is not n: rec('parent mismatch',None,None,c)
            leaves_of(c,out)
    else: out.append(n)
for i in range(N):
    v=random.choice(versions); code=gen(); g=parso.load_grammar(version=v)
    m=g.parse(code); L=[]; leaves_of(m,L)
    # leaf stepping
    for k,l in enumerate(L):
        nx=l.get_next_leaf(); pv=l.get_previous_leaf()
        if nx is not (L[k+1] if k+1<len(L) else None): rec('next_leaf',v,code,l)
        if pv is not (L[k-1] if k>0 else None): rec('prev_leaf',v,code,l)
        if l.get_root_node() is not m: rec('root',v,code,l)
    if m.get_first_leaf() is not L[0] or m.get_last_leaf() is not L[-1]: rec('first/last',v,code)
    # monotone ends
    for a,b in zip(L,L[1:]):
        if not (a.end_pos<=b.end_pos): rec('ends not monotone',v,code,(a,b,a.end_pos,b.end_pos))
        if not (a.start_pos<=b.start_pos): rec('starts not monotone',v,code,(a,b))
    # positions
    lines=split_lines(code)
    endp=m.end_pos
    for ln,text in enumerate(lines,1):
        for col in range(len(text)+2):
            p=(ln,col)
            for incl in (True,False):
                try: r=m.get_leaf_for_position(p,include_prefixes=incl); exc=False
                except ValueError: exc=True; r=None
                inside=(1,0)<=p<=endp
                if exc!=(not inside): rec('range rejection',v,code,(p,endp,exc)); continue
                if not inside: continue
                exp=next(l for l in L if p<=l.end_pos)
                if not incl and p<exp.start_pos: exp=None
                if r is not exp: rec('lookup incl=%s'%incl,v,code,(p,r,exp))
    st['trees']+=1
for k,c in st.most_common(): print(c,k)
for k,e in ex.items(): print(k,repr(e)[:600])
