import sys, re
sys.path.insert(0,'/repo')
from tr import translate
from parso.python import tokenize as tk
from parso.utils import parse_version_string
def S(s): return '['+';'.join(str(ord(c)) for c in s)+']'
def ranges(pred):
    r=[];s=None
    for c in range(0x110000):
        if pred(chr(c)):
            if s is None: s=c
        elif s is not None: r.append((s,c-1)); s=None
    if s is not None: r.append((s,0x10ffff))
    return r
out=['Require Import Regex Tok. From Coq Require Import List NArith Bool. Import ListNotations. Open Scope N_scope.']
vers=['3.6','3.10']
for v in vers:
    tc=tk._get_token_collection(parse_version_string(v)); n=v.replace('.','')
    out.append('Definition coll%s : coll := mkColl (%s) (%s) [%s] [%s] [%s] [%s] [%s] (%s) (%s) (%s) (%s) (%s).'%(
        n, translate(tc.pseudo_token.pattern), translate(tc.whitespace.pattern),
        ';'.join('(%s, %s)'%(S(k),translate(p.pattern)) for k,p in sorted(tc.endpats.items())),
        ';'.join(S(x) for x in sorted(tc.single_quoted)), ';'.join(S(x) for x in sorted(tc.triple_quoted)),
        ';'.join('(%s,%s)'%(S(k),S(q)) for k,q in sorted(tc.fstring_pattern_map.items())),
        ';'.join(S(x) for x in sorted(tc.always_break_tokens)),
        translate(tk.fstring_string_single_line.pattern), translate(tk.fstring_string_multi_line.pattern),
        translate(tk.fstring_format_spec_single_line.pattern), translate(tk.fstring_format_spec_multi_line.pattern),
        translate(r'[ \f\t]*$')))
xs=ranges(lambda c:c.isidentifier()); xc=ranges(lambda c:('a'+c).isidentifier()); sp=ranges(str.isspace)
fmt=lambda r:'['+';'.join('(%d,%d)'%x for x in r)+']'
out.append('Definition xid_start : list (N*N) := %s.'%fmt(xs))
out.append('Definition xid_cont : list (N*N) := %s.'%fmt(xc))
out.append('Definition space_tab : list (N*N) := %s.'%fmt(sp))
out.append('''Definition inr (c:N) (t:list (N*N)) : bool := existsb (fun '(a,b) => (a <=? c) && (c <=? b)) t.
Definition isident (s:str) : bool := match s with [] => false | c :: t => inr c xid_start && forallb (fun x => inr x xid_cont) t end.
Definition isspace (c:N) : bool := inr c space_tab.
Definition colls : list coll := [%s].
Definition run (vi : nat) (lines : list str) (inds : list N) (sl sc : N) (first : bool) :=
  tokenize_lines (nth vi colls coll36) isident isspace lines inds sl sc first.
From Coq Require Extraction ExtrOcamlBasic.
Extraction "model.ml" run.'''%';'.join('coll'+v.replace('.','') for v in vers))
open('Tables.v','w').write('\n'.join(out)+'\n')
