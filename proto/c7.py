import sys; sys.path.insert(0,'/repo'); sys.path.insert(0,'/tmp/probe')
import parso, random, collections
from fuzz1 import gen
random.seed(int(sys.argv[1])); N=int(sys.argv[2])
versions=['3.6','3.7','3.8','3.9','3.10','3.11','3.12','3.13','3.14']
def first_error(m):
    # earliest leaf that is an error leaf or directly follows some (possibly nested) error node
    cands=[]
    def walk(n):
        if n.type=='error_leaf': cands.append(n)
        elif n.type=='error_node':
            nl=n.get_next_leaf()
            if nl is not None: cands.append(nl)
        if hasattr(n,'children'):
            for c in n.children: walk(c)
    walk(m)
    if not cands: return None
    return min(cands,key=lambda l:(l.start_pos, 0 if l.type=='error_leaf' else 1))
st=collections.Counter(); ex={}
for i in range(N):
    v=random.choice(versions); code=gen(); g=parso.load_grammar(version=v)
    m=g.parse(code)
    fe=first_error(m)
    try:
        m2=g.parse(code,error_recovery=False); err=None
    except parso.ParserSyntaxError as e: err=e.error_leaf
    if err is None:
        if fe is not None: k='strict ok but recover has error'
        elif m2.dump()!=m.dump(): k='trees differ'
        else: k='ok-both'
    else:
        if fe is None: k='strict raises but recover clean'
        else:
            tt = fe.token_type if fe.type=='error_leaf' else None
            same=(fe.value==err.value and fe.start_pos==err.start_pos)
            if not same and err.token_type.name in('DEDENT','INDENT') and err.value=='' and fe.start_pos==err.start_pos:
                same=True; st['(virtual block token vs next leaf)']+=1
                fe=err
            k='ok-same-error' if same else 'different error token'
            if same and fe.prefix!=err.prefix: k='same pos different prefix'
    st[k]+=1
    if not k.startswith('ok') and k not in ex: ex[k]=(v,code,fe,err)
for k,c in st.most_common(): print(c,k)
for k,e in ex.items(): print(k,repr(e)[:500])
