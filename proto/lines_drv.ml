open Lm
let rec pos_of_int n = if n = 1 then XH else if n land 1 = 0 then XO (pos_of_int (n lsr 1)) else XI (pos_of_int (n lsr 1))
let n_of_int n = if n = 0 then N0 else Npos (pos_of_int n)
let rec int_of_pos = function XH -> 1 | XO p -> 2 * int_of_pos p | XI p -> 2 * int_of_pos p + 1
let int_of_n = function N0 -> 0 | Npos p -> int_of_pos p
let () = try while true do
  let line = input_line stdin in
  let cps = List.map (fun s -> n_of_int (int_of_string s)) (List.filter (fun s -> s <> "") (String.split_on_char ' ' line)) in
  print_endline (String.concat "|" (List.map (fun l -> String.concat "," (List.map (fun c -> string_of_int (int_of_n c)) l)) (split_keep cps)))
done with End_of_file -> ()
