import sys, ast, glob, collections
sys.path.insert(0,'/repo')
import parso
files=sorted(glob.glob('/root/.pyenv/versions/3.12.1/lib/python3.12/**/*.py',recursive=True))
files=[f for f in files if '/test' not in f and 'site-packages' not in f and 'lib2to3' not in f][:int(sys.argv[1])]
g=parso.load_grammar(version='3.12'); st=collections.Counter(); ex={}
for f in files:
    try:
        src=open(f,encoding='utf-8').read(); tree=ast.parse(src)
    except Exception: continue
    m=g.parse(src)
    if 'Error' in m.dump()[:0] : pass
    # byte offset -> char col: ast col_offset is utf8 bytes; restrict to ascii lines
    lines=src.split('\n')
    store=set()
    for n in ast.walk(tree):
        if isinstance(n,ast.Name) and isinstance(n.ctx,(ast.Store,ast.Del)):
            if lines[n.lineno-1].isascii(): store.add((n.lineno,n.col_offset,n.id))
        if isinstance(n,ast.arg):
            if lines[n.lineno-1].isascii(): store.add((n.lineno,n.col_offset,n.arg))
    names={}
    for k,lst in m.get_used_names().items():
        for nm in lst: names[(nm.line,nm.column,nm.value)]=nm
    has_err=any(l for l in [1] if 'PythonError' in m.dump()) if False else None
    for key in store:
        nm=names.get(key)
        if nm is None: st['ast store name not found in tree']+=1; ex.setdefault('notfound',(f,key)); continue
        if nm.is_definition(): st['ok']+=1
        else:
            # context description
            anc=[]; p=nm.parent
            while p is not None and len(anc)<5: anc.append(p.type); p=p.parent
            k='MISS '+'>'.join(anc)
            st[k]+=1; ex.setdefault(k,(f.split('python3.12/')[-1],key))
    # reverse: parso says definition for a plain name in expr contexts where ast says Load
    load=set((n.lineno,n.col_offset,n.id) for n in ast.walk(tree) if isinstance(n,ast.Name) and isinstance(n.ctx,ast.Load) and lines[n.lineno-1].isascii())
    for key in load:
        nm=names.get(key)
        if nm is not None and nm.is_definition():
            anc=[]; p=nm.parent
            while p is not None and len(anc)<4: anc.append(p.type); p=p.parent
            k='FALSEDEF '+'>'.join(anc); st[k]+=1; ex.setdefault(k,(f.split('python3.12/')[-1],key))
for k,c in st.most_common(): print(c,k)
for k,e in ex.items(): print('  ',k,e)
