import sys, re, random, json, subprocess, time
pats=json.load(open('pats.json')); keys=list(pats)
comp=[re.compile(pats[k], re.UNICODE) for k in keys]
ATOMS=['def','class',' ','  ','\t','\f','\n','\r\n','\r','x','é','1','0x1f','1.5e3','1_0','1j','(',')','[',']','{','}',':',':=','->','**=','...','.','"','\'','"""',"'''",'f"','rb\'','\\','\\\n','#c','# \f x','$','﻿','\x0b','\xa0','{{','}}','\\N{DASH}','a"b','\\"','!','=']
random.seed(1)
cases=[]
for i in range(20000):
    s=''.join(random.choice(ATOMS) for _ in range(random.randint(0,12)))
    pi=random.randrange(len(keys)); pos=random.randint(0,len(s))
    cases.append((pi,pos,s))
t=time.time()
inp='\n'.join('%d %d %s'%(pi,pos,' '.join(str(ord(c)) for c in s)) for pi,pos,s in cases)+'\n'
out=subprocess.run(['./drv'],input=inp,capture_output=True,text=True).stdout.split('\n')
print('model time',time.time()-t)
bad=0
for (pi,pos,s),o in zip(cases,out):
    m=comp[pi].match(s,pos)
    if m is None: exp='None'
    else:
        exp=str(m.end())
        for g in range(1,(m.re.groups)+1):
            if m.start(g)!=-1: exp+=' %d:%d-%d'%(g,m.start(g),m.end(g))
    # model prints all bindings; reduce to last per group
    if o!='None':
        parts=o.split(); d={}
        for p in parts[1:]:
            g,ab=p.split(':'); d.setdefault(int(g),[]).append(ab)
        o2=parts[0]
    if (o=='None')!=(exp=='None') or (o!='None' and o.split()[0]!=exp.split()[0]):
        bad+=1
        if bad<10: print('MISMATCH',keys[pi],pos,repr(s),'re:',exp,'model:',o)
print('cases',len(cases),'end-mismatches',bad)
