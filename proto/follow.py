import sys, glob
sys.path.insert(0,'/repo')
from parso.pgen2 import generate_grammar
from parso.python.token import PythonTokenTypes as T
from parso.pgen2.generator import ReservedString
def name(t): return t.value if isinstance(t,ReservedString) else t.name
for f in sorted(glob.glob('/repo/parso/python/grammar*.txt')):
    g=generate_grammar(open(f).read(),T)
    dfas=g.nonterminal_to_dfas
    first={A:set(name(t) for t in d[0].transitions) for A,d in dfas.items()}
    # nullable? a rule is nullable if its start state is final
    nullable={A for A,d in dfas.items() if d[0].is_final}
    # reachable from file_input / eval_input
    for start in ('file_input','eval_input'):
        reach=set(); st=[start]
        while st:
            A=st.pop()
            if A in reach: continue
            reach.add(A)
            for s in dfas[A]:
                for B in s.nonterminal_arcs: st.append(B)
        # follow: per DFA state "what can come after leaving this state via final": compute FOLLOW(A)
        follow={A:set() for A in reach}
        changed=True
        # after(state) = tokens that can follow when in state s of rule A (direct transitions + if final: follow(A))
        def after(A,s):
            r=set(name(t) for t in s.transitions)
            if s.is_final: r|=follow[A]
            return r
        while changed:
            changed=False
            for A in reach:
                for s in dfas[A]:
                    for B,nxt in s.nonterminal_arcs.items():
                        add=after(A,nxt)
                        if not add<=follow[B]:
                            follow[B]|=add; changed=True
        conflicts=[]
        for A in reach:
            for i,s in enumerate(dfas[A]):
                if s.is_final:
                    c=set(name(t) for t in s.transitions)&follow[A]
                    if c: conflicts.append((A,i,sorted(c)))
        print(f.split('/')[-1],start,'nullable:',sorted(nullable&reach),'conflicts:',conflicts)
