import sys, glob, subprocess, time
sys.path.insert(0,'/tmp/probe/tok')
from lib2 import *
files=sorted(glob.glob('/repo/parso/**/*.py',recursive=True))+sorted(glob.glob('/repo/test/*.py'))+sorted(glob.glob('/repo/test/normalizer_issue_files/*.py'))
cases=[]
for f in files:
    try: code=open(f,encoding='utf-8').read()
    except Exception: continue
    for vi in (0,1):
        cases.append((vi,True,code)); 
t=time.time()
out=subprocess.run(['./drv2'],input='\n'.join(enc(c) for c in cases)+'\n',capture_output=True,text=True).stdout.split('\n')
print('model time %.1fs for %d files, %d chars'%(time.time()-t,len(cases),sum(len(c[2]) for c in cases)))
bad=0
for c,o,f in zip(cases,out,[f for f in files for _ in (0,1)]):
    e=impl(c)
    if e!=o:
        bad+=1
        if bad<4:
            k=next((i for i,(x,y) in enumerate(zip(e,o)) if x!=y),0); print('MISMATCH',f,c[0]); print(' impl ',e[max(0,k-100):k+100]); print(' model',o[max(0,k-100):k+100])
print('files*versions',len(cases),'mismatches',bad)
