import sys; sys.path.insert(0,'/repo'); sys.path.insert(0,'/tmp/probe')
import parso, random, collections, glob, traceback
from fuzz1 import gen
random.seed(int(sys.argv[1])); N=int(sys.argv[2])
st=collections.Counter(); ex={}
def rec(k,v,code,extra=None):
    st[k]+=1
    if k not in ex: ex[k]=(v,code[:150],extra)
files=sorted(glob.glob('/root/.pyenv/versions/3.12.1/lib/python3.12/*.py'))[:N]
g=parso.load_grammar(version='3.12')
def has_err(m): return 'Error' in m.dump()
inputs=[('file:'+f.split('/')[-1],open(f,encoding='utf-8',errors='replace').read()) for f in files]+[('garbage',gen()) for _ in range(N*3)]
for name,code in inputs:
    m=g.parse(code)
    d0=m.dump()
    try: issues=g._get_normalizer_issues(m)
    except Exception as e:
        tb=traceback.extract_tb(e.__traceback__)
        fr=[f for f in tb if '/repo/parso' in f.filename][-1]
        rec('raise %s at %s:%s:%d `%s`'%(type(e).__name__,fr.filename.split('/')[-1],fr.name,fr.lineno,fr.line[:50]),name,code); continue
    if m.dump()!=d0: rec('tree modified',name,code)
    seen=set()
    for i in issues:
        k=(i.code,i.start_pos)
        if k in seen: rec('duplicate',name,code,k)
        seen.add(k)
        if not isinstance(i.code,int): rec('non-int code',name,code,i.code)
        if i.start_pos[1]<0 or i.end_pos[1]<0: rec('negative column',name,code,(i.code,i.start_pos,i.end_pos))
        if not ((1,0)<=i.start_pos<=i.end_pos<=m.end_pos): rec('range outside/inverted',name,code,(i.code,i.start_pos,i.end_pos,m.end_pos))
    if not has_err(m):
        w292=any(i.code==292 for i in issues)
        ends=code.endswith('\n') or code.endswith('\r')
        if w292==ends and code!='': rec('W292 mismatch',name,code,(w292,ends))
        if code=='' and w292: rec('W292 on empty',name,code)
    i2=g._get_normalizer_issues(m)
    if [(i.code,i.start_pos,i.end_pos) for i in issues]!=[(i.code,i.start_pos,i.end_pos) for i in i2]: rec('nondeterministic',name,code)
    st['ok '+name.split(':')[0]]+=1
for k,c in st.most_common(): print(c,k)
for k,e in ex.items(): print(k,'::',repr(e)[:400])
