#!/bin/bash
# Offline build of the framework: translate tables from /repo, full .vo build, extraction, OCaml driver.
cd "$(dirname "$0")"
set -e
export PYTHONPATH=/repo PYTHONHASHSEED=0 PYTHONDONTWRITEBYTECODE=1
mkdir -p .work evidence replays coq/gen
/venv/bin/python harness/translator.py
/venv/bin/python - <<'PY'
import sys
sys.path.insert(0, '.')
from harness import common
bad = common.lint_coq()
if bad:
    print('LINT', bad); sys.exit(1)
b = common.build('setup.log')
failed = [v for v, ok in b['vo_ok'].items() if not ok]
print('build %.1fs, failed: %s, driver_ok=%s' % (b['wall'], failed, b['driver_ok']))
sys.exit(1 if failed or not b['driver_ok'] else 0)
PY
