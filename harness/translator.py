#!/venv/bin/python
"""Regenerates /verif/coq/gen/*.v (tables + table obligations) from the parso
source tree that is importable right now (PYTHONPATH decides: /repo).

Fail-closed: anything the translator does not understand raises
TranslatorError; the caller turns that into a VIOLATION ... no-failing-input-found.
Files are written only when their content changed, so `make` stays incremental.
"""
import sys, os, re, ast, json, inspect, hashlib, textwrap, glob
import re._parser as sp
from re._constants import (LITERAL, NOT_LITERAL, ANY, IN, BRANCH, SUBPATTERN, MAX_REPEAT,
                           ASSERT_NOT, AT, AT_END, AT_END_STRING, NEGATE, RANGE, MAXREPEAT,
                           CATEGORY, AT_BEGINNING)

HERE = os.path.dirname(os.path.abspath(__file__))
GEN = os.path.join(os.path.dirname(HERE), 'coq', 'gen')


class TranslatorError(Exception):
    pass


# ----------------------------------------------------------------------------
# regular expressions: sre parse tree -> Gallina `re`
ASCII_MODE = [False]
CATS = {'CATEGORY_SPACE': [(9, 13), (32, 32)], 'CATEGORY_WORD': [(48, 57), (65, 90), (95, 95), (97, 122)],
        'CATEGORY_DIGIT': [(48, 57)]}


def tr_in(av):
    neg = False
    items = []
    for op, a in av:
        if op is NEGATE:
            neg = True
        elif op is LITERAL:
            items.append((a, a))
        elif op is RANGE:
            items.append(tuple(a))
        elif op is CATEGORY and ASCII_MODE[0] and str(a) in CATS:
            items.extend(CATS[str(a)])
        else:
            raise TranslatorError('regex: unsupported class item %r %r' % (op, a))
    return 'CSet %s [%s]' % ('true' if neg else 'false', ';'.join('(%d,%d)' % x for x in items))


def tr_seq(p):
    items = [tr(op, av) for op, av in p]
    if not items:
        return 'Eps'
    out = items[-1]
    for x in reversed(items[:-1]):
        out = 'Cat (%s) (%s)' % (x, out)
    return out


def tr(op, av):
    if op is LITERAL:
        return 'Chr %d' % av
    if op is NOT_LITERAL:
        return 'NotChr %d' % av
    if op is ANY:
        return 'AnyNoNl'
    if op is IN:
        return tr_in(av)
    if op is BRANCH:
        alts = [tr_seq(x) for x in av[1]]
        out = alts[-1]
        for x in reversed(alts[:-1]):
            out = 'Alt (%s) (%s)' % (x, out)
        return out
    if op is SUBPATTERN:
        g, addf, delf, p = av
        if addf or delf:
            raise TranslatorError('regex: inline flags')
        inner = tr_seq(p)
        return inner if g is None else 'Group %d (%s)' % (g, inner)
    if op is MAX_REPEAT:
        lo, hi, p = av
        inner = tr_seq(p)
        if (lo, hi) == (0, 1):
            return 'Opt (%s)' % inner
        if (lo, hi) == (0, MAXREPEAT):
            return 'Star (%s)' % inner
        if (lo, hi) == (1, MAXREPEAT):
            return 'Plus (%s)' % inner
        if lo == 0 and isinstance(hi, int) and hi <= 4:
            out = 'Opt (%s)' % inner
            for _ in range(hi - 1):
                out = 'Opt (Cat (%s) (%s))' % (inner, out)
            return out
        raise TranslatorError('regex: repeat {%s,%s}' % (lo, hi))
    if op is ASSERT_NOT:
        d, p = av
        if d != 1:
            raise TranslatorError('regex: lookbehind')
        return 'NLook (%s)' % tr_seq(p)
    if op is AT:
        if av is AT_END:
            return 'AtEnd'
        if av is AT_END_STRING:
            return 'AtEndStr'
    raise TranslatorError('regex: unsupported opcode %r %r' % (op, av))


def translate_regex(pat):
    """pat: compiled pattern or str"""
    flags = re.UNICODE
    if hasattr(pat, 'pattern'):
        if pat.flags & ~(re.UNICODE):
            raise TranslatorError('regex flags %r not supported for %r' % (pat.flags, pat.pattern))
        pat = pat.pattern
    ASCII_MODE[0] = False
    if isinstance(pat, bytes):
        flags = 0
        ASCII_MODE[0] = True
    try:
        return tr_seq(sp.parse(pat, flags))
    finally:
        ASCII_MODE[0] = False


def S(s):
    return '[' + ';'.join(str(ord(c)) for c in s) + ']'


def ranges(pred):
    r = []
    s = None
    for c in range(0x110000):
        if pred(chr(c)):
            if s is None:
                s = c
        elif s is not None:
            r.append((s, c - 1))
            s = None
    if s is not None:
        r.append((s, 0x10ffff))
    return r


def fmt_ranges(r):
    return '[' + ';'.join('(%d,%d)' % x for x in r) + ']'


def write_if_changed(path, text):
    try:
        if open(path).read() == text:
            return False
    except OSError:
        pass
    tmp = path + '.tmp%d' % os.getpid()
    with open(tmp, 'w') as f:
        f.write(text)
    os.replace(tmp, path)
    return True


# ----------------------------------------------------------------------------
def inline_regex_literals(func, callee=('match',)):
    """string literals used as first argument of re.match/re.compile calls in func"""
    src = textwrap.dedent(inspect.getsource(func))
    out = []
    for node in ast.walk(ast.parse(src)):
        if isinstance(node, ast.Call) and isinstance(node.func, ast.Attribute) \
                and isinstance(node.func.value, ast.Name) and node.func.value.id == 're' \
                and node.func.attr in callee and node.args and isinstance(node.args[0], ast.Constant):
            out.append(node.args[0].value)
    return out


def versions():
    import parso
    d = os.path.join(os.path.dirname(parso.__file__), 'python')
    vs = []
    for f in sorted(glob.glob(os.path.join(d, 'grammar*.txt'))):
        m = re.match(r'grammar(\d)(\d+)\.txt$', os.path.basename(f))
        if not m:
            raise TranslatorError('unexpected grammar file ' + f)
        vs.append((int(m.group(1)), int(m.group(2))))
    vs.sort()
    return ['%d.%d' % v for v in vs]


def vn(v):
    return v.replace('.', '')


# ----------------------------------------------------------------------------
def gen_tables(vs):
    from parso.python import tokenize as tk
    from parso.python import prefix as pf
    from parso import utils
    from parso.utils import parse_version_string
    out = ['(* GENERATED by harness/translator.py from the running parso - do not edit *)',
           'Require Import Regex Tok.', 'From Coq Require Import List NArith Bool.',
           'Import ListNotations.', 'Open Scope N_scope.']
    wsd = inline_regex_literals(tk.tokenize_lines)
    if len(wsd) != 1:
        raise TranslatorError('tokenize_lines: expected exactly one inline re.match literal, got %r' % (wsd,))
    seen = {}
    meta = {'colls': {}}
    for v in vs:
        tc = tk._get_token_collection(parse_version_string(v))
        fields = set(tc._fields)
        want = {'pseudo_token', 'single_quoted', 'triple_quoted', 'endpats', 'whitespace',
                'fstring_pattern_map', 'always_break_tokens'}
        if fields != want:
            raise TranslatorError('TokenCollection fields changed: %r' % (fields ^ want,))
        body = 'mkColl (%s) (%s) [%s] [%s] [%s] [%s] [%s] (%s) (%s) (%s) (%s) (%s)' % (
            translate_regex(tc.pseudo_token), translate_regex(tc.whitespace),
            ';'.join('(%s, %s)' % (S(k), translate_regex(p)) for k, p in sorted(tc.endpats.items())),
            ';'.join(S(x) for x in sorted(tc.single_quoted)), ';'.join(S(x) for x in sorted(tc.triple_quoted)),
            ';'.join('(%s,%s)' % (S(k), S(q)) for k, q in sorted(tc.fstring_pattern_map.items())),
            ';'.join(S(x) for x in sorted(tc.always_break_tokens)),
            translate_regex(tk.fstring_string_single_line), translate_regex(tk.fstring_string_multi_line),
            translate_regex(tk.fstring_format_spec_single_line), translate_regex(tk.fstring_format_spec_multi_line),
            translate_regex(wsd[0]))
        if body in seen:
            out.append('Definition coll_%s : coll := coll_%s.' % (vn(v), seen[body]))
        else:
            seen[body] = vn(v)
            out.append('Definition coll_%s : coll := %s.' % (vn(v), body))
        meta['colls'][v] = seen[body]
    # the character set stripped before a closing f-string quote (_close_fstring_if_necessary)
    src = textwrap.dedent(inspect.getsource(tk._close_fstring_if_necessary))
    calls = [n for n in ast.walk(ast.parse(src)) if isinstance(n, ast.Call) and isinstance(n.func, ast.Attribute)
             and n.func.attr == 'lstrip']
    if len(calls) != 1:
        raise TranslatorError('_close_fstring_if_necessary: expected exactly one .lstrip call')
    if not calls[0].args:
        strip = ranges(str.isspace)
    elif len(calls[0].args) == 1 and isinstance(calls[0].args[0], ast.Constant) and isinstance(calls[0].args[0].value, str):
        strip = sorted((ord(c), ord(c)) for c in set(calls[0].args[0].value))
    else:
        raise TranslatorError('_close_fstring_if_necessary: lstrip argument is not a string literal')
    xs = ranges(lambda c: c.isidentifier())
    xc = ranges(lambda c: ('a' + c).isidentifier())
    spc = ranges(str.isspace)
    out.append('Definition xid_start : list (N*N) := %s.' % fmt_ranges(xs))
    out.append('Definition xid_cont : list (N*N) := %s.' % fmt_ranges(xc))
    out.append('Definition space_tab : list (N*N) := %s.' % fmt_ranges(spc))
    out.append('Definition fstring_strip_tab : list (N*N) := %s.' % fmt_ranges(strip))
    out.append('''Definition inr (c:N) (t:list (N*N)) : bool := existsb (fun '(a,b) => (a <=? c) && (c <=? b)) t.
Definition isident (s:str) : bool := match s with [] => false | c :: t => inr c xid_start && forallb (fun x => inr x xid_cont) t end.
Definition isspace (c:N) : bool := inr c fstring_strip_tab.
Definition py_isspace (c:N) : bool := inr c space_tab.''')
    out.append('Definition colls : list (N * coll) := [%s].' % ';'.join('(%s, coll_%s)' % (vn(v), vn(v)) for v in vs))
    out.append('Definition versions : list N := [%s].' % ';'.join(vn(v) for v in vs))
    # prefix lexer
    types = pf._types
    out.append('Definition prefix_re : re := %s.' % translate_regex(pf._regex))
    out.append('Definition prefix_types : list (N * N) := [%s].' % ';'.join(
        '(%d,%d)' % (ord(k), PREFIX_TYPES.index(t) if t in PREFIX_TYPES else _raise('prefix type %r' % t))
        for k, t in sorted(types.items())))
    # utils: split_lines pattern and _NON_LINE_BREAKS
    sl = inline_regex_literals(utils.split_lines, callee=('split',))
    if len(sl) != 1:
        raise TranslatorError('split_lines: expected one re.split literal, got %r' % (sl,))
    out.append('Definition split_lines_re : re := %s.' % translate_regex(sl[0]))
    out.append('Definition non_line_breaks : list N := [%s].' % ';'.join(str(ord(c)) for c in sorted(utils._NON_LINE_BREAKS)))
    # what str.splitlines considers a separator on this interpreter
    seps = [c for c in range(0x110000) if len(('a' + chr(c) + 'b').splitlines()) == 2]
    out.append('Definition py_splitlines_seps : list N := [%s].' % ';'.join(map(str, seps)))
    write_if_changed(os.path.join(GEN, 'Tables.v'), '\n'.join(out) + '\n')
    return meta


PREFIX_TYPES = ['comment', 'newline', 'backslash', 'bom', 'formfeed', 'spacing']


def _raise(msg):
    raise TranslatorError(msg)


# ----------------------------------------------------------------------------
# EBNF reader (independent of parso's own GrammarParser)
EBNF_TOK = re.compile(r"[ \t\f]*(?:(#[^\n]*)|([A-Za-z_][A-Za-z_0-9]*)|('(?:[^'\n\\]|\\.)*'|\"(?:[^\"\n\\]|\\.)*\")|([()\[\]|*+:])|(\n))")


def ebnf_lex(text):
    toks = []
    depth = 0
    pos = 0
    while pos < len(text):
        m = EBNF_TOK.match(text, pos)
        if not m or m.end() == pos:
            raise TranslatorError('EBNF: cannot lex %r' % text[pos:pos + 20])
        pos = m.end()
        if m.group(1):
            continue
        if m.group(2):
            toks.append(('NAME', m.group(2)))
        elif m.group(3):
            toks.append(('STR', m.group(3)))
        elif m.group(4):
            v = m.group(4)
            if v in '([':
                depth += 1
            if v in ')]':
                depth -= 1
            toks.append(('OP', v))
        else:
            if depth == 0:
                toks.append(('NL', '\n'))
    toks.append(('NL', '\n'))
    toks.append(('END', ''))
    return toks


class EbnfParser:
    def __init__(s, toks):
        s.t = toks
        s.i = 0

    def peek(s):
        return s.t[s.i]

    def nxt(s):
        s.i += 1
        return s.t[s.i - 1]

    def expect(s, tok):
        got = s.nxt()
        if got != tok:
            raise TranslatorError('EBNF: expected %r got %r' % (tok, got))

    def grammar(s):
        rules = []
        while s.peek()[0] != 'END':
            if s.peek()[0] == 'NL':
                s.nxt()
                continue
            k, name = s.nxt()
            if k != 'NAME':
                raise TranslatorError('EBNF: rule name expected, got %r' % (name,))
            s.expect(('OP', ':'))
            r = s.rhs()
            if s.nxt()[0] != 'NL':
                raise TranslatorError('EBNF: newline expected after rule ' + name)
            rules.append((name, r))
        return rules

    def rhs(s):
        alts = [s.items()]
        while s.peek() == ('OP', '|'):
            s.nxt()
            alts.append(s.items())
        return ('alt', alts) if len(alts) > 1 else alts[0]

    def items(s):
        its = [s.item()]
        while s.peek()[0] in ('NAME', 'STR') or s.peek() in (('OP', '('), ('OP', '[')):
            its.append(s.item())
        return ('seq', its) if len(its) > 1 else its[0]

    def item(s):
        if s.peek() == ('OP', '['):
            s.nxt()
            r = s.rhs()
            s.expect(('OP', ']'))
            return ('opt', r)
        a = s.atom()
        if s.peek() == ('OP', '*'):
            s.nxt()
            return ('star', a)
        if s.peek() == ('OP', '+'):
            s.nxt()
            return ('plus', a)
        return a

    def atom(s):
        if s.peek() == ('OP', '('):
            s.nxt()
            r = s.rhs()
            s.expect(('OP', ')'))
            return r
        k, v = s.nxt()
        if k not in ('NAME', 'STR'):
            raise TranslatorError('EBNF: atom expected, got %r' % (v,))
        return ('sym', v)


def parse_ebnf(text):
    return EbnfParser(ebnf_lex(text)).grammar()


def ebnf_symbols(a, out):
    if a[0] == 'sym':
        out.append(a[1])
    elif a[0] in ('seq', 'alt'):
        for x in a[1]:
            ebnf_symbols(x, out)
    else:
        ebnf_symbols(a[1], out)


def ebnf_rx(a, lid):
    k = a[0]
    if k == 'sym':
        return 'Sym %d' % lid(a[1])
    if k in ('seq', 'alt'):
        c = 'Cat' if k == 'seq' else 'Alt'
        out = ebnf_rx(a[1][-1], lid)
        for x in reversed(a[1][:-1]):
            out = '%s (%s) (%s)' % (c, ebnf_rx(x, lid), out)
        return out
    if k == 'opt':
        return 'Alt (%s) Eps' % ebnf_rx(a[1], lid)
    if k == 'star':
        return 'Star (%s)' % ebnf_rx(a[1], lid)
    if k == 'plus':
        t = ebnf_rx(a[1], lid)
        return 'Cat (%s) (Star (%s))' % (t, t)
    raise TranslatorError('EBNF node ' + k)


TTYPES = ['STRING', 'NUMBER', 'NAME', 'ERRORTOKEN', 'NEWLINE', 'INDENT', 'DEDENT', 'ERROR_DEDENT',
          'FSTRING_STRING', 'FSTRING_START', 'FSTRING_END', 'OP', 'ENDMARKER']


def canon_states(dfas):
    """states of one rule in canonical order: BFS from the start state, arcs sorted by label
    (the generator's own list/dict order depends on object addresses)"""
    order = [dfas[0]]
    seen = {id(dfas[0])}
    i = 0
    while i < len(order):
        s = order[i]
        i += 1
        for l in sorted(s.arcs):
            nx = s.arcs[l]
            if id(nx) not in seen:
                seen.add(id(nx))
                order.append(nx)
    if len(order) != len(dfas):
        raise TranslatorError('unreachable automaton state in rule %s' % dfas[0].from_rule)
    return order


def sorted_arcs(s):
    return sorted(s.arcs.items())


def grammar_info(v):
    """Everything the model needs about grammar v, from the *running* generator."""
    import parso
    from parso.pgen2.generator import ReservedString
    g = parso.load_grammar(version=v)
    pg = g._pgen_grammar
    rules = list(pg.nonterminal_to_dfas)
    rid = {r: i + 1 for i, r in enumerate(rules)}
    sid = {}
    for r in rules:
        for s in canon_states(pg.nonterminal_to_dfas[r]):
            sid[id(s)] = len(sid) + 1
    res = sorted(pg.reserved_syntax_strings)
    resid = {s: i + 1 for i, s in enumerate(res)}
    for s, rs in pg.reserved_syntax_strings.items():
        if not isinstance(rs, ReservedString) or rs.value != s:
            raise TranslatorError('reserved_syntax_strings shape')
    plans = {}
    for r in rules:
        for s in pg.nonterminal_to_dfas[r]:
            d = {}
            for t, p in s.transitions.items():
                key = ('R%d' % resid[t.value]) if isinstance(t, ReservedString) else t.name
                d[key] = [sid[id(p.next_dfa)]] + [sid[id(x)] for x in p.dfa_pushes]
            plans[sid[id(s)]] = dict(sorted(d.items()))
    return dict(grammar=g, pg=pg, rules=rules, rid=rid, sid=sid, res=res, resid=resid, plans=plans,
                text=open(g._text_path).read() if hasattr(g, '_text_path') else None)


def label_term(l, resid):
    if l[0].isalpha():
        if l not in TTYPES:
            raise TranslatorError('unknown token type label %r' % l)
        return 'T (LType %s)' % l
    return 'T (LRes %d)' % resid[ast.literal_eval(l)]


def gen_grammars(vs):
    out = ['(* GENERATED by harness/translator.py from the running parso - do not edit *)',
           'Require Import Regex Tok Engine.', 'From Coq Require Import List NArith ZArith Bool.',
           'Import ListNotations.', 'Open Scope N_scope.']
    meta = {}
    import parso
    pdir = os.path.join(os.path.dirname(parso.__file__), 'python')
    for v in vs:
        gi = grammar_info(v)
        pg, rules, rid, sid, res, resid = gi['pg'], gi['rules'], gi['rid'], gi['sid'], gi['res'], gi['resid']
        states = []
        for r in rules:
            for s in canon_states(pg.nonterminal_to_dfas[r]):
                if s.from_rule != r:
                    raise TranslatorError('DFAState.from_rule mismatch')
                arcs = ';'.join('(%s,%d)' % (('NT %d' % rid[l]) if l in rid else label_term(l, resid), sid[id(nx)])
                                for l, nx in sorted_arcs(s))
                states.append('mkD %d %d %s [%s]' % (sid[id(s)], rid[r], 'true' if s.is_final else 'false', arcs))
        starts = ';'.join('(%d,%d)' % (rid[r], sid[id(pg.nonterminal_to_dfas[r][0])]) for r in rules)
        R = lambda name: rid.get(name, 0)
        n = vn(v)
        out.append('Definition gram_%s : gram := mkG [%s] [%s] [%s] %d %d %d %d %d %d %d %d %d %d.' % (
            n, ';'.join(states), starts, ';'.join('(%s,%d)' % (S(s), resid[s]) for s in res),
            R('file_input'), R('suite'), R('simple_stmt'), R('stmt'), R('funcdef'), R('lambdef'),
            R('lambdef_nocond'), R('parameters'), R('tfpdef'), R('fpdef')))
        out.append('Definition tr_%s := match all_transitions gram_%s 200 (g_states gram_%s) with GOk t => t | GErr _ => [] end.' % (n, n, n))
        out.append('Definition start_%s : N := %d.' % (n, R(pg.start_nonterminal)))
        # candidate FOLLOW table (least fixpoint computed here, only CHECKED in Coq to be a post-fixpoint without conflicts);
        # LRes 0 is the end-of-input marker that may follow the start rules
        from parso.pgen2.generator import ReservedString as _RS
        tlab = lambda t: ('LRes %d' % resid[t.value]) if isinstance(t, _RS) else ('LType %s' % t.name)
        follow = {r: set() for r in rules}
        for r in ('file_input', 'eval_input', 'single_input'):
            if r in follow:
                follow[r].add('LRes 0')
        changed = True
        while changed:
            changed = False
            for A in rules:
                for s in pg.nonterminal_to_dfas[A]:
                    for B, nxt in s.nonterminal_arcs.items():
                        add = set(tlab(t) for t in nxt.transitions)
                        if nxt.is_final:
                            add |= follow[A]
                        if not add <= follow[B]:
                            follow[B] |= add
                            changed = True
        out.append('Definition fw_%s : list (N * list label) := [%s].' % (n, ';'.join(
            '(%d, [%s])' % (rid[r], ';'.join(sorted(follow[r]))) for r in rules)))
        meta[v] = {'rid': rid, 'plans': gi['plans'], 'res': resid, 'start': pg.start_nonterminal,
                   'nstates': len(sid)}
    out.append('Definition grams : list (N * (gram * list (N * list (label * plan)))) := [%s].' % ';'.join(
        '(%s, (gram_%s, tr_%s))' % (vn(v), vn(v), vn(v)) for v in vs))
    write_if_changed(os.path.join(GEN, 'Grammars.v'), '\n'.join(out) + '\n')
    return meta


def derivation_for(pg, toks, start='file_input'):
    """LL(1) parse WITHOUT single-child collapse: the derivation tree of a token list (type, value) over the rule automata"""
    from parso.pgen2.generator import ReservedString
    dfas = pg.nonterminal_to_dfas
    stack = [[start, dfas[start][0], []]]

    def key(tok):
        typ, val = tok
        if typ.name in ('NAME', 'OP') and val in pg.reserved_syntax_strings:
            return pg.reserved_syntax_strings[val]
        return typ
    for i, tok in enumerate(toks):
        k = key(tok)
        while True:
            rule, state, kids = stack[-1]
            plan = state.transitions.get(k)
            if plan is not None:
                stack[-1][1] = plan.next_dfa
                for push in plan.dfa_pushes:
                    stack.append([push.from_rule, push, []])
                stack[-1][2].append(('L', i))
                break
            if not state.is_final or len(stack) < 2:
                raise TranslatorError('example sentence is not derivable at token %d %r (stack %s)' % (i, tok, [f[0] for f in stack]))
            stack.pop()
            stack[-1][2].append(('N', rule, kids))
    while len(stack) > 1:
        rule, state, kids = stack.pop()
        if not state.is_final:
            raise TranslatorError('example sentence is incomplete')
        stack[-1][2].append(('N', rule, kids))
    return ('N', stack[0][0], stack[0][2])


EXAMPLE = 'if x:\n    pass\ny = f(1, *a)\n'


def gen_ll1(vs):
    """table obligation: the dumped automata + plan table + FOLLOW candidate satisfy the hypotheses of LL1.complete;
    corollary for this grammar; a concrete derivation as non-vacuity example"""
    import parso
    from parso.python.tokenize import tokenize
    from parso.utils import parse_version_string
    for v in vs:
        n = vn(v)
        gi = grammar_info(v)
        pg, rid, resid = gi['pg'], gi['rid'], gi['resid']
        toks = list(tokenize(EXAMPLE, version_info=parse_version_string(v)))
        d = derivation_for(pg, [(t.type, t.string) for t in toks])

        def lab(t):
            if t.type.name in ('NAME', 'OP') and t.string in pg.reserved_syntax_strings:
                return 'LRes %d' % resid[t.string]
            return 'LType %s' % t.type.name

        def emit(x):
            if x[0] == 'L':
                return 'DLeaf tree label N (%s) (convert_leaf gram_%s (nth %d ex_toks_%s ex_tok0))' % (lab(toks[x[1]]), n, x[1], n)
            return 'DNode tree label N %d [%s]' % (rid[x[1]], '; '.join(emit(k) for k in x[2]))
        F = rid['file_input']
        # holder rules (C05, error confinement): least set with file_input, suite and every rule that has an arc labelled by a holder
        hold = {'file_input', 'suite'}
        changed = True
        while changed:
            changed = False
            for r, dfas in pg.nonterminal_to_dfas.items():
                if r not in hold and any(l in hold for st in dfas for l in st.arcs):
                    hold.add(r)
                    changed = True
        hold_names = sorted(hold, key=lambda r: rid[r])
        out = ['(* GENERATED by harness/translator.py - do not edit *)', 'Require Import Regex Tok Engine LL1 LL1Inst LL1Engine EngineSound EngineConfine EngineRecover Grammars.',
               'From Coq Require Import List NArith ZArith Bool.', 'Import ListNotations.', 'Open Scope N_scope.',
               '(* table obligation: every hypothesis of the completeness theorem holds for the tables of this grammar *)',
               'Lemma ll1_tables_ok_%s : tables_ok gram_%s tr_%s fw_%s 200 = true.' % (n, n, n, n),
               'Proof. vm_compute. reflexivity. Qed.',
               '(* hence: strict parsing of any sentence of any rule of this grammar returns its collapsed derivation (or a conversion failure) *)',
               'Theorem C06_complete_%s : forall F kb t toks,' % n,
               '  wf tree N label N (arcT gram_%s) (arcN gram_%s) (startR gram_%s) (final gram_%s) (validR gram_%s) (DNode tree label N F kb) ->' % (n, n, n, n, n),
               '  FW fw_%s F t = true -> word_of gram_%s toks = yield tree label N (DNode tree label N F kb) ->' % (n, n),
               '  parse gram_%s tr_%s false F toks = convert_node gram_%s F (map (collapse tree label N (mk_node gram_%s)) kb)' % (n, n, n, n),
               '  \\/ exists e, conv_err e /\\ parse gram_%s tr_%s false F toks = PErr e.' % (n, n),
               'Proof. exact (engine_complete gram_%s tr_%s fw_%s 200 ll1_tables_ok_%s). Qed.' % (n, n, n, n),
               '(* non-vacuity: the derivation of %r (built outside Coq, checked here) meets every premise, and the engine returns exactly its collapse *)' % EXAMPLE,
               'Definition ex_tok0 : Token := mkTok ENDMARKER [] 0 0 [].',
               'Definition ex_toks_%s : list Token := [%s].' % (n, '; '.join(
                   'mkTok %s %s %d %d %s' % (t.type.name, S(t.string), t.start_pos[0], t.start_pos[1], S(t.prefix)) for t in toks)),
               'Definition ex_deriv_%s : dtree tree label N := %s.' % (n, emit(d)),
               'Example C06_nonvacuous_%s :' % n,
               '  wfb gram_%s tree ex_deriv_%s = true /\\ FW fw_%s %d (LRes 0) = true /\\' % (n, n, n, F),
               '  word_of gram_%s ex_toks_%s = yield tree label N ex_deriv_%s /\\' % (n, n, n),
               '  match ex_deriv_%s with DNode _ _ _ F kb => parse gram_%s tr_%s false F ex_toks_%s = convert_node gram_%s F (map (collapse tree label N (mk_node gram_%s)) kb) | _ => False end.' % (n, n, n, n, n, n),
               'Proof. vm_compute. repeat split. Qed.',
               '(* table obligation of the soundness theorem: every plan is an arc or an arc followed by a first chain, arcs name rules of the grammar *)',
               'Lemma ll1_tables_sound_ok_%s : tables_sound_ok gram_%s tr_%s = true.' % (n, n, n),
               'Proof. vm_compute. reflexivity. Qed.',
               '(* hence (C05, valid inputs): whatever the strict parser of this grammar accepts without the missing-newline repair is the converted collapse of a derivation of the token word *)',
               'Theorem C05_sound_%s : forall S0 toks t, toks <> [] -> parse_nr gram_%s tr_%s S0 toks = POk t ->' % (n, n, n),
               '  exists kb, wf tree N label N (arcT gram_%s) (arcN gram_%s) (startR gram_%s) (final gram_%s) (validR gram_%s) (DNode tree label N S0 kb) /\\' % (n, n, n, n, n),
               '    yield tree label N (DNode tree label N S0 kb) = word_of gram_%s toks /\\' % n,
               '    convert_node gram_%s S0 (map (collapse tree label N (mk_node gram_%s)) kb) = POk t /\\ parse gram_%s tr_%s false S0 toks = POk t.' % (n, n, n, n),
               'Proof. exact (engine_sound gram_%s tr_%s ll1_tables_sound_ok_%s). Qed.' % (n, n, n),
               '(* and (C05, every input, both modes): every tree this grammar\'s engine returns is the conversion of the collapsed form of a derivation with error markers',
               '   in which every rule node, also inside error nodes, is a complete instance of its rule - see EngineRecover.v for what an error marker may stand for *)',
               'Theorem C05_recovered_conform_%s : forall recover S0 toks t, parse gram_%s tr_%s recover S0 toks = POk t ->' % (n, n, n),
               '  exists R kb, rwf gram_%s (RNode R kb) /\\ convert_node gram_%s R (map (rcollapse gram_%s) kb) = POk t.' % (n, n, n),
               'Proof. exact (recovered_conform gram_%s tr_%s ll1_tables_sound_ok_%s). Qed.' % (n, n, n),
               '(* non-vacuity: the example token list is accepted without repair *)',
               'Example C05_nonvacuous_%s : match parse_nr gram_%s tr_%s %d ex_toks_%s with POk _ => True | PErr _ => False end.' % (n, n, n, F, n),
               'Proof. vm_compute. exact I. Qed.',
               '(* error confinement (C05, second sentence).  The holder set computed from the automata of this grammar is',
               '   {%s}: file_input, suite and the rules from which a suite can be reached through arcs - no expression and no simple statement rule. *)' % ', '.join(hold_names),
               'Definition holders_%s : list N := holders gram_%s.' % (n, n),
               'Lemma holders_%s_are : let expected := [%s] in' % (n, '; '.join(str(rid[r]) for r in hold_names)),
               '  forallb (fun r => existsb (N.eqb r) holders_%s) expected && forallb (fun r => existsb (N.eqb r) expected) holders_%s = true.' % (n, n),
               'Proof. vm_compute. reflexivity. Qed.',
               '(* table obligation: plans keep the rule they leave and push only chains that respect the holder set, arcs stay inside their rule,',
               '   file_input and suite are holders, parameters / lambdef are not *)',
               'Lemma confine_ok_%s : confine_ok gram_%s tr_%s holders_%s = true.' % (n, n, n, n),
               'Proof. vm_compute. reflexivity. Qed.',
               '(* hence: in every tree this grammar\'s engine returns for a file_input parse (strict or recovering, any token list) an error node / error leaf is a',
               '   child only of a node whose rule is a holder (or of an error node); param nodes never have one *)',
               'Theorem C05_errors_confined_%s : forall recover toks t, parse gram_%s tr_%s recover %d toks = POk t -> good holders_%s t = true.' % (n, n, n, F, n),
               'Proof.',
               '  intros recover toks t H. eapply (errors_confined gram_%s tr_%s holders_%s confine_ok_%s recover %d);' % (n, n, n, n, F),
               '    [vm_compute; reflexivity|vm_compute; reflexivity|exact H].',
               'Qed.',
               '(* non-vacuity: a recovering parse of a broken token list puts its error node under file_input and the tree is good; the same tree with the',
               '   error node moved under the expression statement is not *)',
               'Example C05_confined_nonvacuous_%s :' % n,
               '  match parse gram_%s tr_%s true %d (firstn 12 ex_toks_%s ++ [mkTok ENDMARKER [] 9 0 []]) with' % (n, n, F, n),
               '  | POk t => good holders_%s t = true /\\ no_error t = false' % n,
               '  | PErr _ => False end.',
               'Proof. vm_compute. split; reflexivity. Qed.']
        write_if_changed(os.path.join(GEN, 'LL1_%s.v' % n), '\n'.join(out) + '\n')


def gen_rules(vs):
    """EBNF right-hand sides + the automata the running generator built, with the
    DfaCheck table obligation, one file per version."""
    import parso
    from parso.pgen2 import generate_grammar
    from parso.python.token import PythonTokenTypes
    pdir = os.path.join(os.path.dirname(parso.__file__), 'python')
    meta = {}
    for v in vs:
        text = open(os.path.join(pdir, 'grammar%s.txt' % vn(v))).read()
        rules = parse_ebnf(text)
        pg = parso.load_grammar(version=v)._pgen_grammar
        if [r for r, _ in rules] != list(pg.nonterminal_to_dfas):
            raise TranslatorError('rule list of grammar%s.txt differs between EBNF reader and generator' % vn(v))
        labels = {}

        def lid(l):
            return labels.setdefault(l, len(labels) + 1)
        out = ['(* GENERATED by harness/translator.py - do not edit *)', 'Require Import Deriv DfaCheck.',
               'From Coq Require Import List NArith Bool.', 'Import ListNotations.', 'Open Scope N_scope.']
        names = []
        for name, a in rules:
            dfas = canon_states(pg.nonterminal_to_dfas[name])
            idx = {id(s): i for i, s in enumerate(dfas)}
            arcs = ';'.join('(%d,%d,%d)' % (i, lid(l), idx[id(nx)]) for i, s in enumerate(dfas) for l, nx in sorted_arcs(s))
            fin = ';'.join(str(i) for i, s in enumerate(dfas) if s.is_final)
            out.append('Definition r_%s : rx := %s.' % (name, ebnf_rx(a, lid)))
            out.append('Definition d_%s : dfa := {| arcs := [%s]; finals := [%s] |}.' % (name, arcs, fin))
            names.append(name)
        out.append('Definition all_rules : list (rx * dfa) := [%s].' % ';'.join('(r_%s,d_%s)' % (n, n) for n in names))
        out.append('(* table obligation: every automaton accepts exactly the language of its rule *)')
        out.append("Lemma dfas_faithful_%s : forallb (fun '(r,d) => check_rule 200000 r d) all_rules = true.\nProof. vm_compute. reflexivity. Qed." % vn(v))
        write_if_changed(os.path.join(GEN, 'Rules_%s.v' % vn(v)), '\n'.join(out) + '\n')
        meta[v] = {'labels': labels, 'rules': names}
    return meta


def main():
    os.makedirs(GEN, exist_ok=True)
    vs = versions()
    meta = {'versions': vs}
    meta['tables'] = gen_tables(vs)
    meta['grammars'] = gen_grammars(vs)
    meta['rules'] = gen_rules(vs)
    gen_ll1(vs)
    write_if_changed(os.path.join(GEN, 'meta.json'), json.dumps(meta, sort_keys=True))
    return meta


if __name__ == '__main__':
    try:
        main()
    except TranslatorError as e:
        print('TRANSLATOR-ERROR: %s' % e)
        sys.exit(2)
