"""Reference CPython interpreters present in the sandbox."""
import os, json, subprocess, glob
FULL = {}
for d in sorted(glob.glob('/root/.pyenv/versions/3.*')):
    b = os.path.basename(d)
    FULL['.'.join(b.split('.')[:2])] = b
HERE = os.path.dirname(os.path.abspath(__file__))


def interp(v):
    """interpreter that judges grammar version v (3.14 is judged by 3.13)"""
    if v not in FULL:
        v = max((x for x in FULL), key=lambda s: tuple(map(int, s.split('.'))))
    return '/root/.pyenv/versions/%s/bin/python' % FULL[v], v


CRASHED = []        # (version, source) on which a reference interpreter itself died (a CPython bug): outside every claim, reported in the coverage


def run_ref(script, v, sources, timeout=600):
    exe, rv = interp(v)
    head = []
    body = list(sources)
    if body and isinstance(body[0], str) and body[0].startswith('\x00'):
        head, body = body[:1], body[1:]           # a mode switch of the script, not a source

    def once(part):
        from harness import common
        common.keepalive()
        try:
            p = subprocess.run([exe, os.path.join(HERE, 'ref', script)], input=json.dumps(head + part), capture_output=True, text=True, timeout=timeout,
                               env={'PYTHONHASHSEED': '0', 'PATH': '/usr/bin:/bin'})
        except subprocess.TimeoutExpired:
            return None, 'timeout'
        if p.returncode != 0:
            return None, p.stderr[-500:]
        return json.loads(p.stdout), ''

    def rec(part):
        if not part:
            return []
        out, err = once(part)
        if out is not None:
            return out
        if len(part) == 1:
            # the reference interpreter crashes on this very program (e.g. `Fatal Python error: PyCompile_OpcodeStackEffect` of 3.8 on a
            # yield inside an asynchronous comprehension): it cannot judge it, the program counts as not accepted
            CRASHED.append((v, part[0][:200], err[-200:]))
            return [None]
        mid = len(part) // 2
        return rec(part[:mid]) + rec(part[mid:])
    # programs of the kind on which some reference interpreters are known to die go through in small batches, so that one crash does not cost a
    # bisection of the whole batch
    risky = [i for i, src in enumerate(body) if isinstance(src, str) and 'yield' in src and 'async' in src]
    if not risky or len(risky) == len(body):
        return rec(body)
    rs = set(risky)
    safe = [i for i in range(len(body)) if i not in rs]
    out = [None] * len(body)
    for i, o in zip(safe, rec([body[i] for i in safe])):
        out[i] = o
    for k in range(0, len(risky), 8):
        idx = risky[k:k + 8]
        for i, o in zip(idx, rec([body[i] for i in idx])):
            out[i] = o
    return out


def stdlib_files(v, n, rnd):
    exe, rv = interp(v)
    fs = sorted(glob.glob('/root/.pyenv/versions/%s/lib/python%s/*.py' % (FULL[rv], rv)))
    fs += sorted(glob.glob('/root/.pyenv/versions/%s/lib/python%s/*/*.py' % (FULL[rv], rv)))
    fs = [f for f in fs if '/test' not in f and 'site-packages' not in f and 'lib2to3/tests' not in f and 'idlelib' not in f]
    rnd.shuffle(fs)
    out = []
    for f in fs:
        if len(out) >= n:
            break
        try:
            s = open(f, encoding='utf-8').read()
        except Exception:
            continue
        if len(s) < 60000 and '\r' not in s:
            out.append((f, s))
    return out
