"""Reference CPython interpreters present in the sandbox."""
import os, json, subprocess, glob
FULL = {}
for d in sorted(glob.glob('/root/.pyenv/versions/3.*')):
    b = os.path.basename(d)
    FULL['.'.join(b.split('.')[:2])] = b
HERE = os.path.dirname(os.path.abspath(__file__))


def interp(v):
    """interpreter that judges grammar version v (3.14 is judged by 3.13)"""
    if v not in FULL:
        v = max((x for x in FULL), key=lambda s: tuple(map(int, s.split('.'))))
    return '/root/.pyenv/versions/%s/bin/python' % FULL[v], v


def run_ref(script, v, sources, timeout=600):
    exe, rv = interp(v)
    p = subprocess.run([exe, os.path.join(HERE, 'ref', script)], input=json.dumps(sources), capture_output=True, text=True, timeout=timeout,
                       env={'PYTHONHASHSEED': '0', 'PATH': '/usr/bin:/bin'})
    if p.returncode != 0:
        raise RuntimeError('reference interpreter %s failed: %s' % (exe, p.stderr[-500:]))
    return json.loads(p.stdout)


def stdlib_files(v, n, rnd):
    exe, rv = interp(v)
    fs = sorted(glob.glob('/root/.pyenv/versions/%s/lib/python%s/*.py' % (FULL[rv], rv)))
    fs += sorted(glob.glob('/root/.pyenv/versions/%s/lib/python%s/*/*.py' % (FULL[rv], rv)))
    fs = [f for f in fs if '/test' not in f and 'site-packages' not in f and 'lib2to3/tests' not in f and 'idlelib' not in f]
    rnd.shuffle(fs)
    out = []
    for f in fs:
        if len(out) >= n:
            break
        try:
            s = open(f, encoding='utf-8').read()
        except Exception:
            continue
        if len(s) < 60000 and '\r' not in s:
            out.append((f, s))
    return out
