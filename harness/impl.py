"""Canonical one-line answers computed by the *implementation* (parso imported from
PYTHONPATH=/repo), in the same syntax the OCaml driver prints for the model."""
import json, os
import parso
from harness import common
from parso.utils import split_lines, parse_version_string
from parso.python.tokenize import tokenize_lines, tokenize
from parso.python import prefix as pf

GEN = os.path.join(os.path.dirname(os.path.dirname(os.path.abspath(__file__))), 'coq', 'gen')
_meta = None


def meta():
    global _meta
    if _meta is None:
        _meta = json.load(open(os.path.join(GEN, 'meta.json')))
    return _meta


def reset_meta():
    global _meta
    _meta = None


def vn(v):
    return v.replace('.', '')


def cps(s):
    return ','.join(str(ord(x)) for x in s)


def enc_str(s):
    return '%d %s' % (len(s), ' '.join(str(ord(c)) for c in s))


# ---- requests -------------------------------------------------------------
def req_lines(s):
    return 'lines ' + enc_str(s)


def req_lines_drop(s):
    return 'linesdrop ' + enc_str(s)


def req_tok(v, lines, start=(1, 0), indents=None, first=True):
    inds = indents if indents is not None else [0]
    return 'tok %s %d %d %d %d %s %d %s' % (vn(v), start[0], start[1], int(first), len(inds), ' '.join(map(str, inds)),
                                            len(lines), ' '.join(enc_str(l) for l in lines))


def req_resume(v, lines, start=(1, 0), indents=None, first=True):
    return 'resume' + req_tok(v, lines, start, indents, first)[3:]


def req_text(v, recover, code, start_rule=0):
    return 'text %s %d %d %s' % (vn(v), int(recover), start_rule, enc_str(code))


def req_prefix(p, line, col):
    return 'prefix %d %d %s' % (line, col, enc_str(p))


def req_re(v, pid, pos, s):
    return 're %s %d %d %s' % (vn(v), pid, pos, enc_str(s))


# ---- implementation answers -----------------------------------------------
def ans_lines(s):
    return '|'.join(cps(l) for l in split_lines(s, keepends=True))


def ans_lines_drop(s):
    return '|'.join(cps(l) for l in split_lines(s))


def show_tokens(toks):
    return ';'.join('%s %d %d [%s] [%s]' % (t.type.name, t.start_pos[0], t.start_pos[1], cps(t.string), cps(t.prefix))
                    for t in toks)


def ans_tok(v, lines, start=(1, 0), indents=None, first=True):
    try:
        with common.time_limit(20):
            toks = list(tokenize_lines(lines, version_info=parse_version_string(v), indents=list(indents) if indents is not None else None,
                                       start_pos=start, is_first_token=first))
    except Exception as e:
        return 'ERR ' + type(e).__name__
    try:
        return show_tokens(toks)
    except Exception as e:
        return 'ERR malformed token (%s)' % type(e).__name__


def ser(n, rid):
    if hasattr(n, 'children'):
        t = n.type
        head = 'error_node' if t == 'error_node' else 'param' if t == 'param' else str(rid.get(t, '?' + t))
        return '(N %s%s)' % (head, ''.join(' ' + ser(c, rid) for c in n.children))
    k = n.type
    if k == 'error_leaf':
        k = 'error_leaf:' + n.token_type
    return '(L %s %d %d [%s] [%s])' % (k, n.line, n.column, cps(n.value), cps(n.prefix))


def ans_text(v, recover, code, start_symbol=None):
    g = parso.load_grammar(version=v)
    rid = meta()['grammars'][v]['rid']
    try:
        with common.time_limit(20):
            if start_symbol is None:
                m = g.parse(code, error_recovery=recover)
            else:
                m = g.parse(code, error_recovery=recover, start_symbol=start_symbol)
    except parso.ParserSyntaxError as e:
        l = e.error_leaf
        tt = l.token_type.name if hasattr(l.token_type, 'name') else l.token_type
        return 'SYNTAXERR %s %d %d [%s] [%s]' % (tt, l.line, l.column, cps(l.value), cps(l.prefix))
    except Exception as e:
        return 'ERR ' + type(e).__name__
    return ser(m, rid)


class _FakeLeaf:
    def __init__(self, prefix):
        self.prefix = prefix


def ans_prefix(p, line, col):
    try:
        parts = list(pf.split_prefix(_FakeLeaf(p), (line, col)))
    except Exception as e:
        return 'ERR ' + type(e).__name__
    out = []
    for pt in parts:
        el, ec = pt.end_pos
        out.append('%s %d %d %d %d [%s] [%s]' % (pt.type, pt.start_pos[0], pt.start_pos[1], el, ec, cps(pt.spacing), cps(pt.value)))
    return ';'.join(out)


def ans_re(pattern, pos, s):
    m = pattern.match(s, pos)
    if m is None:
        return 'None'
    out = [str(m.end())]
    for g in range(1, (pattern.groups or 0) + 1):
        if m.start(g) != -1:
            out.append('%d:%d-%d' % (g, m.start(g), m.end(g)))
    return ' '.join(out)


def ans_plans(v):
    plans = meta()['grammars'][v]['plans']
    out = []
    for q in sorted(plans, key=int):
        out.append(str(q) + ''.join(' %s=%s' % (k, ','.join(map(str, p))) for k, p in plans[q].items()))
    return '|'.join(out)
