"""Correspondence streams: the extracted model and the implementation answer the same
requests; answers are compared as canonical strings."""
import random, re
from harness import gens, impl
from harness.common import Driver
from parso.utils import split_lines, parse_version_string


from harness import common as common_mod


def versions():
    return impl.meta()['versions']


def _first_diff(a, b):
    k = next((i for i, (x, y) in enumerate(zip(a, b)) if x != y), min(len(a), len(b)))
    return k


class Mismatch:
    def __init__(self, stream, index, case, impl_ans, model_ans):
        self.stream, self.index, self.case, self.impl, self.model = stream, index, case, impl_ans, model_ans

    def replay(self):
        k = _first_diff(self.impl, self.model)
        return dict(kind='correspondence', stream=self.stream, index=self.index, case=self.case,
                    impl=self.impl[max(0, k - 200):k + 200], model=self.model[max(0, k - 200):k + 200])


def run_lines(ctx, n, drv=None):
    drv = drv or Driver()
    cases = [gens.lines_case(ctx.seed, 'lines', i) for i in range(n)]
    cases += [gens.text_case(ctx.seed, 'lines-text', i)[1] for i in range(n // 4)]
    outs = drv.run([impl.req_lines(s) for s in cases])
    douts = drv.run([impl.req_lines_drop(s) for s in cases])
    mm = []
    # keepends=False against the extracted split_plain (LinesDrop.v: re.split on \n | \r\n | \r)
    for i, (s, o) in enumerate(zip(cases, douts)):
        e = impl.ans_lines_drop(s)
        ctx.count('linesdrop')
        if e != o:
            mm.append(Mismatch('linesdrop', i, dict(text=s, cps=[ord(c) for c in s], path='keepends=False'), e, o))
    for i, (s, o) in enumerate(zip(cases, outs)):
        e = impl.ans_lines(s)
        ctx.count('lines')
        if len(e) > 3:
            ctx.nontrivial(('lines', e))
        if e != o:
            mm.append(Mismatch('lines', i, dict(text=s, cps=[ord(c) for c in s]), e, o))
        else:
            # the other path of split_lines (keepends=False) must be the same lines without their \n / \r\n / \r ending
            kept = split_lines(s, keepends=True)
            stripped = [l[:-2] if l.endswith('\r\n') else l[:-1] if l.endswith(('\n', '\r')) else l for l in kept]
            plain = split_lines(s)
            if plain != stripped:
                mm.append(Mismatch('lines', i, dict(text=s, cps=[ord(c) for c in s], path='keepends=False'), repr(stripped), repr(plain)))
    if cases:
        ctx.sample(dict(stream='lines', input=cases[0], answer=impl.ans_lines(cases[0])))
    return mm


def tok_cases(ctx, n, stream='tok'):
    vs = versions()
    cases = []
    for i in range(n):
        r = gens.rng(ctx.seed, stream + '-opt', i)
        kind, code = gens.text_case(ctx.seed, stream, i)
        v = r.choice(vs)
        lines = split_lines(code, keepends=True)
        if r.random() < 0.2:
            # diff-parser style entry
            start = (r.randint(1, 9), 0)
            inds = sorted(set([0] + [r.choice([2, 4, 8]) for _ in range(r.randint(0, 2))]))
            first = start == (1, 0)
            cases.append((v, lines, start, inds, first, kind))
        else:
            cases.append((v, lines, (1, 0), None, True, kind))
    return cases


def run_tok(ctx, n, drv=None, stream='tok'):
    drv = drv or Driver()
    cases = tok_cases(ctx, n, stream)
    outs = drv.run([impl.req_tok(v, lines, start, inds, first) for v, lines, start, inds, first, _ in cases])
    mm = []
    for i, (c, o) in enumerate(zip(cases, outs)):
        v, lines, start, inds, first, kind = c
        if common_mod.WD['timeouts'] >= 3 and i > 0:
            break           # the implementation keeps hanging: the mismatches collected so far carry the inputs
        e = impl.ans_tok(v, lines, start, inds, first)
        ctx.count(stream)
        if 'FSTRING' in e or 'INDENT' in e or 'ERRORTOKEN' in e or 'ERROR_DEDENT' in e:
            ctx.nontrivial((stream, e))
        if e != o:
            mm.append(Mismatch(stream, i, dict(version=v, text=''.join(lines), start=list(start), indents=inds, first=first,
                                               kind=kind), e, o))
    if cases:
        c = cases[0]
        ctx.sample(dict(stream=stream, version=c[0], text=''.join(c[1])[:200], tokens=impl.ans_tok(*c[:5])[:300]))
    return mm


def parse_cases(ctx, n, stream='parse', kinds=None, strict_share=0.3):
    vs = versions()
    cases = []
    for i in range(n):
        r = gens.rng(ctx.seed, stream + '-opt', i)
        kind, code = gens.text_case(ctx.seed, stream, i, kinds)
        cases.append((r.choice(vs), r.random() >= strict_share, code, kind))
    return cases


def run_parse(ctx, n, drv=None, stream='parse', kinds=None, cases=None):
    drv = drv or Driver()
    if cases is None:
        cases = parse_cases(ctx, n, stream, kinds)
    outs = drv.run([impl.req_text(v, rec, code) for v, rec, code, _ in cases])
    mm = []
    for i, (c, o) in enumerate(zip(cases, outs)):
        v, rec, code, kind = c
        if common_mod.WD['timeouts'] >= 3 and i > 0:
            break
        e = impl.ans_text(v, rec, code)
        ctx.count(stream)
        if 'error_' in e or e.startswith('SYNTAXERR') or 'fstring' in e:
            ctx.nontrivial((stream, e))
        if e != o:
            mm.append(Mismatch(stream, i, dict(version=v, recover=rec, text=code, kind=kind), e, o))
    if cases:
        c = cases[0]
        ctx.sample(dict(stream=stream, version=c[0], recover=c[1], text=c[2][:200], tree=impl.ans_text(c[0], c[1], c[2])[:300]))
    return mm


def run_plans(ctx, drv=None):
    drv = drv or Driver()
    vs = versions()
    outs = drv.run(['plans %s' % impl.vn(v) for v in vs], shards=len(vs))
    mm = []
    def canon(x):
        return '|'.join(' '.join([st.split(' ')[0]] + sorted(st.split(' ')[1:])) for st in x.split('|'))
    for v, o in zip(vs, outs):
        e = canon(impl.ans_plans(v))
        o = canon(o)
        n = e.count('=')
        ctx.count('plans', n)
        ctx.nontrivial(('plans', v))
        if e != o:
            el, ol = e.split('|'), o.split('|')
            k = next((i for i, (x, y) in enumerate(zip(el, ol)) if x != y), min(len(el), len(ol)))
            mm.append(Mismatch('plans', vs.index(v), dict(version=v), el[k] if k < len(el) else '', ol[k] if k < len(ol) else ''))
    return mm


def run_prefix(ctx, n, drv=None, extra=None):
    drv = drv or Driver()
    cases = [gens.prefix_case(ctx.seed, 'prefix', i) for i in range(n)] + list(extra or [])
    outs = drv.run([impl.req_prefix(p, l, c) for p, l, c in cases])
    mm = []
    for i, (c, o) in enumerate(zip(cases, outs)):
        e = impl.ans_prefix(*c)
        ctx.count('prefix')
        if ';' in e:
            ctx.nontrivial(('prefix', e))
        if e != o:
            mm.append(Mismatch('prefix', i, dict(prefix=c[0], cps=[ord(x) for x in c[0]], line=c[1], col=c[2]), e, o))
    if cases:
        ctx.sample(dict(stream='prefix', prefix=cases[0][0], parts=impl.ans_prefix(*cases[0])))
    return mm


def regex_table():
    """pattern id -> compiled pattern of the running implementation (same numbering as Model.regex_by_id)"""
    from parso.python import tokenize as tk, prefix as pf
    from harness import translator
    out = {}
    for v in versions():
        tc = tk._get_token_collection(parse_version_string(v))
        d = {0: tc.pseudo_token, 1: tc.whitespace, 2: tk.fstring_string_single_line, 3: tk.fstring_string_multi_line,
             4: tk.fstring_format_spec_single_line, 5: tk.fstring_format_spec_multi_line,
             6: re.compile(translator.inline_regex_literals(tk.tokenize_lines)[0]), 7: pf._regex}
        for k, (q, p) in enumerate(sorted(tc.endpats.items())):
            d[100 + k] = p
        out[v] = d
    return out


RE_ATOMS = ['a', '1', ' ', '\t', '\f', '\n', '\r', '\r\n', '"', "'", '"""', "'''", '\\', '\\\n', '{', '}', '{{', '}}', '#', 'x y',
            '\\N{A B}', '\\N', 'f"', 'rb\'', '0x1', '1e5', '.', '...', ':=', '**=', '﻿', '\xe9', '\x0b', '$', 'N{', '-']


def run_re(ctx, n, drv=None):
    drv = drv or Driver()
    tab = regex_table()
    vs = versions()
    cases = []
    for i in range(n):
        r = gens.rng(ctx.seed, 're', i)
        v = r.choice(vs)
        pid = r.choice(sorted(tab[v]))
        s = ''.join(r.choice(RE_ATOMS) for _ in range(r.randint(0, 10)))
        pos = r.randint(0, len(s)) if r.random() < 0.5 else 0
        cases.append((v, pid, pos, s))
    outs = drv.run([impl.req_re(v, pid, pos, s) for v, pid, pos, s in cases])
    mm = []
    for i, (c, o) in enumerate(zip(cases, outs)):
        v, pid, pos, s = c
        e = impl.ans_re(tab[v][pid], pos, s)
        ctx.count('re')
        if e != 'None' and not e.startswith(str(pos) + ' ') and e != str(pos):
            ctx.nontrivial(('re', pid, e, s))
        if e != o:
            mm.append(Mismatch('re', i, dict(version=v, pattern_id=pid, pattern=tab[v][pid].pattern[:200], pos=pos, text=s), e, o))
    return mm


# ---- refactor and issue-store streams (Refactor.v / Issues.v vs implementation) ----
def node_paths(m):
    out = []

    def rec(n, p):
        out.append((p, n))
        if hasattr(n, 'children'):
            for i, c in enumerate(n.children):
                rec(c, p + (i,))
    rec(m, ())
    return out


def run_refactor(ctx, n, drv=None):
    import parso
    drv = drv or Driver()
    cases = []
    for i in range(n):
        r = gens.rng(ctx.seed, 'refactor-opt', i)
        kind, code = gens.text_case(ctx.seed, 'refactor', i)
        v = r.choice(versions())
        g = parso.load_grammar(version=v)
        try:
            m = g.parse(code)
        except Exception:
            continue
        nodes = node_paths(m)
        chosen = {}
        for p, nd in nodes:
            if r.random() < 0.12 and not any(p[:len(q)] == q for q in chosen):
                chosen[p] = (nd, '<%d>' % len(chosen) if r.random() < 0.8 else '')
        try:
            e = g.refactor(m, {nd: s for p, (nd, s) in chosen.items()})
        except Exception as ex:
            e = 'ERR ' + type(ex).__name__
        req = 'refactor %s %s %d %s' % (impl.vn(v), impl.enc_str(code), len(chosen),
                                        ' '.join('%d %s %s' % (len(p), ' '.join(map(str, p)), impl.enc_str(s)) for p, (nd, s) in chosen.items()))
        cases.append((v, code, {p: s for p, (nd, s) in chosen.items()}, e, req))
    outs = drv.run([c[4] for c in cases])
    mm = []
    for i, (c, o) in enumerate(zip(cases, outs)):
        v, code, chosen, e, req = c
        ctx.count('refactor')
        exp = e if e.startswith('ERR ') else impl.cps(e)
        if chosen:
            ctx.nontrivial(('refactor', e))
        if exp != o:
            mm.append(Mismatch('refactor', i, dict(version=v, text=code, replacements={str(list(k)): s for k, s in chosen.items()}), exp, o))
    if cases:
        ctx.sample(dict(stream='refactor', text=cases[0][1][:120], replacements={str(list(k)): s for k, s in cases[0][2].items()}, result=cases[0][3][:120]))
    return mm


class _FakeNode:
    def __init__(self, line, col):
        self.start_pos = (line, col)
        self.end_pos = (line, col + 1)


def run_issues(ctx, n, drv=None):
    import parso
    from parso.normalizer import Normalizer
    from parso.python.errors import ErrorFinder
    drv = drv or Driver()
    g = parso.load_grammar()
    mod = g.parse('x\n')
    cases = []
    for i in range(n):
        r = gens.rng(ctx.seed, 'issues', i)
        kind = r.randrange(2)
        seq = [(r.choice([901, 903, 1, 2]), r.randint(1, 4), r.randint(0, 2)) for _ in range(r.randint(0, 10))]
        if kind == 0:
            nz = Normalizer(g, None)
            for j, (code, line, col) in enumerate(seq):
                nz.add_issue(_FakeNode(line, col), code, str(j))
            res = nz.issues
        else:
            ef = ErrorFinder(g, None)
            ef.initialize(mod)
            for j, (code, line, col) in enumerate(seq):
                ef.add_issue(_FakeNode(line, col), code, str(j))
            ef.finalize()
            res = ef.issues
        e = ';'.join('%d %d %d %s' % (x.code, x.start_pos[0], x.start_pos[1], x.message) for x in res)
        cases.append((kind, seq, e))
    outs = drv.run(['issues %d %d %s' % (k, len(seq), ' '.join('%d %d %d' % x for x in seq)) for k, seq, e in cases])
    mm = []
    for i, ((k, seq, e), o) in enumerate(zip(cases, outs)):
        ctx.count('issues')
        if len(seq) > len(e.split(';')):
            ctx.nontrivial(('issues', k, tuple(seq)))
        if e != o:
            mm.append(Mismatch('issues', i, dict(kind='Normalizer.add_issue' if k == 0 else 'ErrorFinder.add_issue+finalize', calls=seq), e, o))
    return mm


def run_nav(ctx, n, drv=None, max_pos=60):
    """Nav.v (zipper stepping, binary-search lookup) vs NodeOrLeaf.get_next_leaf / get_previous_leaf / get_leaf_for_position"""
    import parso
    drv = drv or Driver()
    cases = []
    for i in range(n):
        r = gens.rng(ctx.seed, 'nav-opt', i)
        kind, code = gens.text_case(ctx.seed, 'nav', i)
        code = code[:400]
        v = r.choice(versions())
        try:
            m = parso.load_grammar(version=v).parse(code)
        except Exception:
            continue
        paths = {}
        for p, nd in node_paths(m):
            paths[id(nd)] = p
        ps = lambda p: '.'.join(map(str, p))
        opt = lambda nd: 'None' if nd is None else ps(paths[id(nd)])
        leaves = [(p, nd) for p, nd in node_paths(m) if not hasattr(nd, 'children')]
        try:
            a = ';'.join('%s>%s<%s' % (ps(p), opt(nd.get_next_leaf()), opt(nd.get_previous_leaf())) for p, nd in leaves)
        except Exception as ex:
            # the implementation's navigation raises, or returns a node that is not in the tree (KeyError of the path table): that is the answer to compare
            a = 'NAVIGATION-RAISES:%s' % type(ex).__name__
        lines = split_lines(code)
        allpos = [(ln, col) for ln, text in enumerate(lines, 1) for col in range(len(text) + 2)] + [(0, 0), (len(lines) + 1, 0)]
        poss = r.sample(allpos, min(max_pos, len(allpos)))
        b = []
        for (l, c) in poss:
            for incl in (True, False):
                try:
                    res = opt(m.get_leaf_for_position((l, c), include_prefixes=incl))
                except ValueError:
                    res = 'ValueError'
                except Exception as ex:
                    res = 'RAISES:%s' % type(ex).__name__
                b.append('%d,%d,%d=%s' % (l, c, int(incl), res))
        try:
            fl = 'F:%s L:%s' % (ps(paths[id(m.get_first_leaf())]), ps(paths[id(m.get_last_leaf())]))
        except Exception as ex:
            fl = 'F/L-RAISES:%s' % type(ex).__name__
        e = '%s|%s|%s' % (fl, a, ';'.join(b))
        req = 'nav %s %s %d %s' % (impl.vn(v), impl.enc_str(code), len(poss), ' '.join('%d %d' % x for x in poss))
        cases.append((v, code, e, req))
    outs = drv.run([c[3] for c in cases])
    mm = []
    for i, ((v, code, e, req), o) in enumerate(zip(cases, outs)):
        ctx.count('nav')
        if ';' in e:
            ctx.nontrivial(('nav', e))
        if e != o:
            mm.append(Mismatch('nav', i, dict(version=v, text=code), e, o))
    if cases:
        ctx.sample(dict(stream='nav', text=cases[0][1][:100], answer=cases[0][2][:200]))
    return mm


def run_endpos(ctx, n, drv=None):
    """Leaf.end_pos of the implementation vs the Gallina model EndPos.end_pos (proved = walking the value) on leaves of parsed texts
    and on synthetic values full of line separators"""
    from parso.tree import Leaf
    drv = drv or Driver()
    cases = []
    for i in range(n):
        r = gens.rng(ctx.seed, 'endpos', i)
        if i % 3 == 0:
            v = gens.lines_case(ctx.seed, 'endpos-val', i)
            cases.append((v, r.randint(1, 9), r.randint(0, 12)))
        else:
            kind, code = gens.text_case(ctx.seed, 'endpos-text', i)
            try:
                m = parso.parse(code)
            except Exception:
                continue
            leaf = m.get_first_leaf()
            k = 0
            while leaf is not None and k < 40:
                if '\n' in leaf.value or '\r' in leaf.value or k % 7 == 0:
                    cases.append((leaf.value, leaf.start_pos[0], leaf.start_pos[1]))
                leaf = leaf.get_next_leaf()
                k += 1
    reqs = ['endpos %d %d %s' % (l, c, impl.enc_str(v)) for v, l, c in cases]
    outs = drv.run(reqs)
    mm = []
    for i, ((v, l, c), o) in enumerate(zip(cases, outs)):
        e = '%d %d' % Leaf(v, (l, c)).end_pos
        ctx.count('endpos')
        if '\n' in v or '\r' in v:
            ctx.nontrivial(('endpos', v, l, c))
        if e != o:
            mm.append(Mismatch('endpos', i, dict(value=v, cps=[ord(x) for x in v], line=l, column=c), e, o))
    return mm
