"""Write-set of parso: every statement inside a function body that can modify state which
outlives the call: module globals, class attributes, and attributes of the shared Grammar
object.  Purely syntactic (aliasing is not analysed)."""
import ast, os, glob

MUTATORS = {'append', 'extend', 'insert', 'pop', 'remove', 'clear', 'update', 'setdefault', 'add', 'discard', 'popitem', 'sort', 'reverse'}
SHARED_CLASSES = {'Grammar', 'PythonGrammar'}


def module_globals(tree):
    names = set()
    for n in tree.body:
        if isinstance(n, (ast.Assign, ast.AnnAssign)):
            for t in (n.targets if isinstance(n, ast.Assign) else [n.target]):
                for x in ast.walk(t):
                    if isinstance(x, ast.Name):
                        names.add(x.id)
        elif isinstance(n, (ast.ClassDef, ast.FunctionDef)):
            names.add(n.name)
        elif isinstance(n, ast.ImportFrom):
            for a in n.names:
                names.add((a.asname or a.name).split('.')[0])
        # names bound by a plain `import x` are modules (os.remove is a file-system call, not shared program state)
    return names


def base_name(e):
    while isinstance(e, (ast.Attribute, ast.Subscript)):
        e = e.value
    return e.id if isinstance(e, ast.Name) else None


class V(ast.NodeVisitor):
    def __init__(self, mod, globs):
        self.mod, self.globs = mod, globs
        self.stack = []
        self.cls = []
        self.out = []
        self.locals = []
        self.declared_global = []

    def visit_ClassDef(self, n):
        self.cls.append(n.name)
        self.generic_visit(n)
        self.cls.pop()

    def visit_FunctionDef(self, n):
        loc = set(a.arg for a in n.args.args + n.args.kwonlyargs + getattr(n.args, 'posonlyargs', []))
        if n.args.vararg:
            loc.add(n.args.vararg.arg)
        if n.args.kwarg:
            loc.add(n.args.kwarg.arg)
        gl = set()
        for x in ast.walk(n):
            if isinstance(x, ast.Global):
                gl.update(x.names)
        for x in ast.walk(n):
            if isinstance(x, ast.Name) and isinstance(x.ctx, ast.Store) and x.id not in gl:
                loc.add(x.id)
        self.stack.append(n.name)
        self.locals.append(loc)
        self.declared_global.append(gl)
        self.generic_visit(n)
        self.stack.pop()
        self.locals.pop()
        self.declared_global.pop()
    visit_AsyncFunctionDef = visit_FunctionDef

    def is_local(self, name):
        return any(name in l for l in self.locals) and not any(name in g for g in self.declared_global)

    def where(self):
        return '%s:%s' % (self.mod, '.'.join(self.cls + self.stack))

    def target(self, t, kind):
        if not self.stack:
            return
        if isinstance(t, ast.Name):
            if any(t.id in g for g in self.declared_global):
                self.out.append((self.where(), kind, t.id))
            return
        if isinstance(t, (ast.Tuple, ast.List)):
            for e in t.elts:
                self.target(e, kind)
            return
        if isinstance(t, ast.Starred):
            return self.target(t.value, kind)
        b = base_name(t)
        if b is None:
            return
        if b == 'self':
            if self.cls and self.cls[-1] in SHARED_CLASSES and self.stack[0] != '__init__':
                self.out.append((self.where(), kind, ast.unparse(t)))
            return
        if b == 'cls' and not self.is_local('cls'):
            return
        if b == 'cls':
            self.out.append((self.where(), kind, ast.unparse(t)))
            return
        if not self.is_local(b) and b in self.globs:
            self.out.append((self.where(), kind, ast.unparse(t)))

    def visit_Assign(self, n):
        for t in n.targets:
            self.target(t, 'assign')
        self.generic_visit(n)

    def visit_AugAssign(self, n):
        self.target(n.target, 'augassign')
        self.generic_visit(n)

    def visit_AnnAssign(self, n):
        if n.value is not None:
            self.target(n.target, 'assign')
        self.generic_visit(n)

    def visit_Delete(self, n):
        for t in n.targets:
            self.target(t, 'del')
        self.generic_visit(n)

    def visit_Call(self, n):
        if self.stack and isinstance(n.func, ast.Attribute) and n.func.attr in MUTATORS:
            b = base_name(n.func.value)
            if b is not None:
                if b == 'self':
                    if self.cls and self.cls[-1] in SHARED_CLASSES and self.stack[0] != '__init__' and isinstance(n.func.value, ast.Attribute):
                        self.out.append((self.where(), 'call.' + n.func.attr, ast.unparse(n.func.value)))
                elif b == 'cls' or (not self.is_local(b) and b in self.globs):
                    self.out.append((self.where(), 'call.' + n.func.attr, ast.unparse(n.func.value)))
        self.generic_visit(n)


def write_set(root='/repo/parso'):
    out = []
    for p in sorted(glob.glob(os.path.join(root, '**', '*.py'), recursive=True)):
        mod = os.path.relpath(p, os.path.dirname(root))
        tree = ast.parse(open(p).read())
        v = V(mod, module_globals(tree))
        v.visit(tree)
        out.extend(v.out)
    return sorted(set(out))


if __name__ == '__main__':
    for w in write_set():
        print(w)
