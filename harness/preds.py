"""Property predicates evaluated on the IMPLEMENTATION's outputs (the `search` of DESIGN.md
section 4.3).  Each returns None when the property holds on that input, otherwise a short
stable signature string (used to match known findings and to de-duplicate reports)."""
import traceback, collections
import parso
from parso.utils import split_lines, parse_version_string
from parso.python.tokenize import tokenize_lines
from parso.python.token import PythonTokenTypes as T
from parso.pgen2.generator import ReservedString


def crash_sig(e):
    if type(e).__name__ == 'CaseTimeout':
        return 'does-not-terminate (%s)' % e
    tb = traceback.extract_tb(e.__traceback__)
    fr = [f for f in tb if '/parso/' in f.filename]
    if fr:
        f = fr[-1]
        return 'crash:%s@%s:%s:`%s`' % (type(e).__name__, f.filename.split('/parso/')[-1], f.name, (f.line or '').strip()[:60])
    return 'crash:%s' % type(e).__name__


def leaves_of(m):
    out = []
    leaf = m.get_first_leaf()
    while leaf is not None:
        out.append(leaf)
        leaf = leaf.get_next_leaf()
    return out


def leaves_rec(n, out):
    if hasattr(n, 'children'):
        for c in n.children:
            leaves_rec(c, out)
    else:
        out.append(n)
    return out


def advance(line, col, s, bom_ok=False):
    i = 0
    n = len(s)
    while i < n:
        c = s[i]
        if c == '\r' and i + 1 < n and s[i + 1] == '\n':
            line += 1
            col = 0
            i += 2
            continue
        if c == '\r' or c == '\n':
            line += 1
            col = 0
            i += 1
            continue
        if c == '﻿' and bom_ok and i == 0 and (line, col) == (1, 0):
            i += 1
            continue
        col += 1
        i += 1
    return line, col


ZW = ('INDENT', 'DEDENT', 'ERROR_DEDENT')


def is_zw_error(l):
    return l.type == 'error_leaf' and l.token_type in ZW


# ---- C01 ---------------------------------------------------------------------
def c01_roundtrip(code, m):
    L = leaves_rec(m, [])
    if ''.join(l.prefix + l.value for l in L) != code:
        return 'C01:leaves-do-not-tile'
    if m.get_code() != code:
        return 'C01:get_code-differs'
    # offsets of leaves
    off = {}
    o = 0
    for l in L:
        off[id(l)] = (o, o + len(l.prefix), o + len(l.prefix) + len(l.value))
        o += len(l.prefix) + len(l.value)

    def span(n):
        if hasattr(n, 'children'):
            if not n.children:
                return None
            a = span(n.children[0])
            b = span(n.children[-1])
            if a is None or b is None:
                return None
            return (a[0], a[1], b[2])
        return off[id(n)]

    def walk(n):
        sp = span(n)
        if sp is None:
            return 'C01:empty-node'
        if n.get_code() != code[sp[0]:sp[2]]:
            return 'C01:subtree-code-not-slice:%s' % n.type
        if n.get_code(include_prefix=False) != code[sp[1]:sp[2]]:
            return 'C01:subtree-code-noprefix-not-slice:%s' % n.type
        if hasattr(n, 'children'):
            for c in n.children:
                r = walk(c)
                if r:
                    return r
        return None
    return walk(m)


# ---- C02 ---------------------------------------------------------------------
def c02_shape(code, m):
    if m.type != 'file_input':
        return 'C02:root-not-file_input'
    if not m.children or m.children[-1].type != 'endmarker':
        return 'C02:last-child-not-endmarker'

    def walk(n):
        if hasattr(n, 'children'):
            if not n.children:
                return 'C02:empty-interior-node:%s' % n.type
            for c in n.children:
                r = walk(c)
                if r:
                    return r
        return None
    return walk(m)


# ---- C03 ---------------------------------------------------------------------
def c03_positions(code, m):
    L = leaves_rec(m, [])
    pos = (1, 0)
    first_real = True
    for k, l in enumerate(L):
        if is_zw_error(l):
            if l.value != '' or l.prefix != '':
                return 'C03:zero-width-error-leaf-has-text'
            if not (pos <= l.start_pos):
                return 'C03:zero-width-leaf-before-previous-end'
            if l.end_pos != l.start_pos:
                return 'C03:zero-width-leaf-end'
            continue
        pos = advance(pos[0], pos[1], l.prefix, first_real)
        first_real = False
        if l.start_pos != pos:
            return 'C03:leaf-start:%s' % l.type
        pos = advance(pos[0], pos[1], l.value, False)
        if l.end_pos != pos:
            return 'C03:leaf-end:%s' % l.type
    if m.end_pos != pos:
        return 'C03:module-end'
    lines = split_lines(code)
    if m.end_pos[0] != len(lines):
        return 'C03:line-count'
    # zero-width leaves must not be after the next real leaf
    nxt = None
    for l in reversed(L):
        if is_zw_error(l):
            if nxt is not None and l.start_pos > nxt:
                return 'C03:zero-width-leaf-after-next-start'
        else:
            nxt = l.start_pos

    def walk(n):
        if hasattr(n, 'children'):
            if n.start_pos != n.children[0].start_pos or n.end_pos != n.children[-1].end_pos:
                return 'C03:node-span:%s' % n.type
            for c in n.children:
                r = walk(c)
                if r:
                    return r
        return None
    r = walk(m)
    if r:
        return r
    # start of prefix = end of previous non-zero-width leaf
    prev_end = (1, 0)
    for l in L:
        if is_zw_error(l):
            continue
        if l.get_start_pos_of_prefix() != prev_end:
            return 'C03:start-pos-of-prefix:%s' % l.type
        prev_end = l.end_pos
    # a node's prefix is the prefix of its first leaf
    def nodes(n):
        if hasattr(n, 'children'):
            yield n
            for c in n.children:
                yield from nodes(c)
    for n in nodes(m):
        fl = n.get_first_leaf()
        if is_zw_error(fl):
            continue
        if n.get_start_pos_of_prefix() != fl.get_start_pos_of_prefix():
            return 'C03:start-pos-of-prefix:node:%s' % n.type
    return None


# ---- C05 conformance -----------------------------------------------------------
LEAFTYPE = {'name': T.NAME, 'number': T.NUMBER, 'string': T.STRING, 'newline': T.NEWLINE, 'endmarker': T.ENDMARKER,
            'fstring_string': T.FSTRING_STRING, 'fstring_start': T.FSTRING_START, 'fstring_end': T.FSTRING_END}


class Virt:
    def __init__(self, typ, value=''):
        self.type = typ
        self.value = value


class Virt2:
    def __init__(self, t):
        self.type = t
        self.children = [None, None]


class Conf:
    def __init__(self, grammar):
        self.g = grammar._pgen_grammar
        self.dfas = self.g.nonterminal_to_dfas
        self.res = self.g.reserved_syntax_strings
        self.memo = {}

    def leaf_label(self, leaf):
        if leaf.type in ('keyword', 'operator'):
            if leaf.value in self.res:
                return self.res[leaf.value]
            return T.OP if leaf.type == 'operator' else T.NAME
        return LEAFTYPE.get(leaf.type)

    strict_newline = False     # True: a statement may lack its NEWLINE only when nothing but the end marker follows it

    @staticmethod
    def at_eof(child):
        last = child.get_last_leaf() if hasattr(child, 'children') else child
        nxt = last.get_next_leaf()
        while nxt is not None and nxt.type == 'error_leaf' and nxt.value == '':
            nxt = nxt.get_next_leaf()
        return nxt is None or nxt.type == 'endmarker'

    def stands_for(self, X, child, depth=0):
        if depth > 60:
            return False
        if hasattr(child, 'children'):
            t = child.type
            if t == X or (t == 'lambdef' and X == 'lambdef_nocond'):
                return True
        start = self.dfas[X][0]
        for label, nxt in start.arcs.items():
            if not nxt.is_final:
                if not (X == 'simple_stmt' and nxt.arcs.get('NEWLINE') is not None and nxt.arcs['NEWLINE'].is_final
                        and (not self.strict_newline or self.at_eof(child))):
                    continue
            if label in self.dfas:
                if self.stands_for(label, child, depth + 1):
                    return True
            else:
                if not hasattr(child, 'children') and self.term_matches(label, child):
                    return True
        return False

    def term_matches(self, label, leaf):
        if leaf.type == 'error_leaf':
            return False
        lab = self.leaf_label(leaf)
        if lab is None:
            return False
        if label[0].isalpha():
            return lab is getattr(T, label)
        import ast
        return isinstance(lab, ReservedString) and lab.value == ast.literal_eval(label)

    def run(self, rule, children, allow_missing_newline=False):
        states = [self.dfas[rule][0]]
        for c in children:
            nxt = []
            for s in states:
                for label, n in s.arcs.items():
                    if c == 'INDENT' or c == 'DEDENT':
                        ok = (label == c)
                    elif isinstance(c, Virt):
                        ok = (label == 'stmt')
                    elif isinstance(c, Virt2):
                        ok = (label == c.type)
                    elif label in self.dfas:
                        ok = self.stands_for(label, c) or (label == 'suite' and c.type == 'error_node')
                    else:
                        ok = (not hasattr(c, 'children')) and self.term_matches(label, c)
                    if ok and not any(n is x for x in nxt):
                        nxt.append(n)
            states = nxt
            if not states:
                return False
        if any(s.is_final for s in states):
            return True
        if allow_missing_newline:
            for s in states:
                n = s.arcs.get('NEWLINE')
                if n is not None and n.is_final:
                    return True
        return False


_confs = {}


def conf_for(v):
    if v not in _confs:
        _confs[v] = Conf(parso.load_grammar(version=v))
    return _confs[v]


def c05_conforms(v, m):
    # the conventions, with the final newline allowed to be absent only in front of the end marker; a tree that fails only for a statement without
    # NEWLINE inside the file is named so
    strict = _c05_conforms(v, m, True)
    if strict is None:
        return None
    if _c05_conforms(v, m, False) is None:
        return 'C05:statement-without-newline-inside-the-file'
    return strict


def _c05_conforms(v, m, strict_newline):
    conf = conf_for(v)
    conf.strict_newline = strict_newline
    problems = []

    def check(node):
        t = node.type
        if t == 'error_node':
            return
        ch = list(node.children)
        for c in ch:
            if c.type == 'error_leaf' and t not in ('file_input', 'suite'):
                problems.append('C05:error-leaf-inside:%s' % t)
            if c.type == 'error_node' and t not in ('file_input', 'suite'):
                # must stand for a suite: checked by the run (label suite)
                pass
        if t == 'file_input':
            seq = [c for c in ch if c.type not in ('error_node', 'error_leaf')]
            ok = conf.run('file_input', seq)
        elif t == 'suite':
            seq = []
            for c in ch:
                if c.type in ('error_node', 'error_leaf'):
                    seq.append(Virt('ERRSTMT'))
                else:
                    seq.append(c)
            if ch and ch[0].type == 'newline':
                seq = [seq[0], 'INDENT'] + seq[1:] + ['DEDENT']
            ok = conf.run('suite', seq)
        elif t == 'parameters':
            inner = []
            for c in ch[1:-1]:
                if c.type == 'param':
                    inner += c.children
                else:
                    inner.append(c)
            ok = (not inner) or conf.run('typedargslist', inner) or (len(inner) == 1 and conf.stands_for('typedargslist', inner[0]))
            ok = ok and ch[0].value == '(' and ch[-1].value == ')'
        elif t == 'lambdef':
            inner = []
            for c in ch[1:-2]:
                if c.type == 'param':
                    inner += c.children
                else:
                    inner.append(c)
            okp = (not inner) or conf.run('varargslist', inner) or (len(inner) == 1 and conf.stands_for('varargslist', inner[0]))
            mid = [Virt2('varargslist')] if inner else []
            ok = okp and (conf.run('lambdef', [ch[0]] + mid + ch[-2:])
                          or ('lambdef_nocond' in conf.dfas and conf.run('lambdef_nocond', [ch[0]] + mid + ch[-2:])))
        elif t == 'param':
            ok = True
        else:
            if t not in conf.dfas:
                problems.append('C05:unknown-rule:%s' % t)
                ok = True
            else:
                ok = conf.run(t, ch, allow_missing_newline=(t == 'simple_stmt' and (not strict_newline or conf.at_eof(node))))
        if not ok:
            problems.append('C05:nonconforming:%s' % t)
        for c in ch:
            if hasattr(c, 'children'):
                check(c)
    check(m)
    return problems[0] if problems else None


# ---- C07 -----------------------------------------------------------------------
def first_error(m):
    cands = []

    def walk(n):
        if n.type == 'error_leaf':
            cands.append(n)
        elif n.type == 'error_node':
            nl = n.get_next_leaf()
            if nl is not None:
                cands.append(nl)
        if hasattr(n, 'children'):
            for c in n.children:
                walk(c)
    walk(m)
    if not cands:
        return None
    return min(cands, key=lambda l: (l.start_pos, 0 if l.type == 'error_leaf' else 1))


def sig_tree(n):
    if hasattr(n, 'children'):
        return (type(n).__name__, n.type, [sig_tree(c) for c in n.children])
    return (type(n).__name__, n.type, n.value, n.prefix, n.start_pos, getattr(n, 'token_type', None))


def c07_agree(v, code, m=None):
    g = parso.load_grammar(version=v)
    if m is None:
        m = g.parse(code)
    fe = first_error(m)
    try:
        m2 = g.parse(code, error_recovery=False)
        err = None
    except parso.ParserSyntaxError as e:
        err = e.error_leaf
    if err is None:
        if fe is not None:
            return 'C07:strict-accepts-but-recovery-has-error'
        if sig_tree(m2) != sig_tree(m):
            return 'C07:trees-differ-on-accepted-input'
        return None
    if fe is None:
        return 'C07:strict-rejects-but-recovery-clean'
    same = (fe.value == err.value and fe.start_pos == err.start_pos)
    if err.token_type.name in ('DEDENT', 'INDENT') and err.value == '' and fe.start_pos == err.start_pos \
            and not (fe.type == 'error_leaf' and fe.token_type == err.token_type.name):
        # the strict parser stopped at a zero-width block token that recovery consumed as block structure:
        # the matching visible leaf is the next one at the same position (DESIGN.md C07 (ii))
        return None
    if not same:
        return 'C07:different-first-error-token'
    if fe.prefix != err.prefix:
        return 'C07:same-token-different-prefix'
    if fe.type == 'error_leaf' and fe.token_type != err.token_type.name:
        return 'C07:different-token-type'
    return None


# ---- C09 -----------------------------------------------------------------------
PURE_OK = set(' \t\f')


def pure_prefix(p, first=False):
    """prefix consists only of whitespace, comments, backslash-newline, newlines (+ leading BOM)"""
    i = 0
    n = len(p)
    if first and p.startswith('﻿'):
        i = 1
    while i < n:
        c = p[i]
        if c in ' \t\f':
            i += 1
        elif c == '#':
            while i < n and p[i] not in '\r\n':
                i += 1
        elif c == '\\':
            if p[i + 1:i + 3] == '\r\n':
                i += 3
            elif p[i + 1:i + 2] in ('\n', '\r') and i + 1 < n:
                i += 2
            else:
                return False
        elif c == '\r':
            i += 2 if p[i + 1:i + 2] == '\n' else 1
        elif c == '\n':
            i += 1
        else:
            return False
    return True


def c09_tokens(v, code):
    lines = split_lines(code, keepends=True)
    toks = list(tokenize_lines(lines, version_info=parse_version_string(v)))
    if ''.join(t.prefix + t.string for t in toks) != code:
        return 'C09:tokens-do-not-tile'
    if not toks or toks[-1].type is not T.ENDMARKER or sum(1 for t in toks if t.type is T.ENDMARKER) != 1:
        return 'C09:endmarker'
    depth = 0
    for t in toks:
        if t.type is T.INDENT:
            depth += 1
        elif t.type is T.DEDENT:
            depth -= 1
            if depth < 0:
                return 'C09:dedent-without-indent'
    if depth != 0:
        return 'C09:indent-dedent-unbalanced'
    pos = (1, 0)
    first = True
    for t in toks:
        if t.type in (T.INDENT, T.DEDENT, T.ERROR_DEDENT):
            if t.string != '' or t.prefix != '':
                return 'C09:indent-token-has-text'
            if t.start_pos < pos:
                return 'C09:indent-token-position'
            continue
        pos = advance(pos[0], pos[1], t.prefix, first)
        first = False
        if t.start_pos != pos:
            return 'C09:token-start:%s' % t.type.name
        pos = advance(pos[0], pos[1], t.string, False)
    first = True
    for t in toks:
        if t.type in (T.INDENT, T.DEDENT, T.ERROR_DEDENT):
            continue
        if not pure_prefix(t.prefix, first):
            return 'C09:impure-prefix:%s' % t.type.name
        first = False
    return None


def c09_split(m):
    """prefix splitting of every leaf: never fails, concatenates to the prefix, true positions"""
    L = leaves_rec(m, [])
    first = True
    for l in L:
        try:
            parts = list(l._split_prefix())
        except Exception as e:
            return crash_sig(e).replace('crash:', 'C09:split-crash:')
        txt = ''.join(p.spacing + p.value for p in parts)
        if txt != l.prefix:
            return 'C09:split-parts-do-not-tile'
        if is_zw_error(l):
            continue
        pos = l.get_start_pos_of_prefix()
        for p in parts:
            bom_here = first and pos == (1, 0)
            if p.type == 'spacing':
                if p.start_pos != pos:
                    return 'C09:split-position:spacing'
                pos = advance(pos[0], pos[1], p.value, bom_here)
            else:
                sp = p.create_spacing_part()
                if sp.start_pos != pos:
                    return 'C09:split-position:spacing-of-%s' % p.type
                pos = advance(pos[0], pos[1], p.spacing, bom_here)
                if p.start_pos != pos:
                    return 'C09:split-position:%s' % p.type
                pos = advance(pos[0], pos[1], p.value, bom_here)
            if p.end_pos != pos:
                return 'C09:split-end-position:%s' % p.type
        if pos != l.start_pos:
            return 'C09:split-does-not-reach-leaf-start'
        first = False
    return None


# ---- C11 -----------------------------------------------------------------------
def c11_nav(code, m, max_positions=400, rnd=None):
    L = []

    def rec(n):
        if hasattr(n, 'children'):
            for c in n.children:
                if c.parent is not n:
                    return 'C11:parent-pointer'
                r = rec(c)
                if r:
                    return r
        else:
            L.append(n)
        return None
    r = rec(m)
    if r:
        return r
    if m.parent is not None:
        return 'C11:root-has-parent'
    for k, l in enumerate(L):
        if l.get_next_leaf() is not (L[k + 1] if k + 1 < len(L) else None):
            return 'C11:next_leaf'
        if l.get_previous_leaf() is not (L[k - 1] if k > 0 else None):
            return 'C11:previous_leaf'
        if l.get_root_node() is not m:
            return 'C11:root_node'
    if m.get_first_leaf() is not L[0] or m.get_last_leaf() is not L[-1]:
        return 'C11:first/last_leaf'

    def sib(n):
        if hasattr(n, 'children'):
            ch = n.children
            for i, c in enumerate(ch):
                if c.get_next_sibling() is not (ch[i + 1] if i + 1 < len(ch) else None):
                    return 'C11:next_sibling'
                if c.get_previous_sibling() is not (ch[i - 1] if i > 0 else None):
                    return 'C11:previous_sibling'
                if hasattr(c, 'children'):
                    if c.get_first_leaf() is not leaves_rec(c, [])[0] or c.get_last_leaf() is not leaves_rec(c, [])[-1]:
                        return 'C11:first/last_leaf-of-node'
                r = sib(c)
                if r:
                    return r
        return None
    r = sib(m)
    if r:
        return r
    for l in L[:50]:
        p = l.parent
        anc = []
        while p is not None:
            anc.append(p)
            p = p.parent
        for t in set(a.type for a in anc):
            exp = next(a for a in anc if a.type == t)
            if l.search_ancestor(t) is not exp:
                return 'C11:search_ancestor'
        if l.search_ancestor('no_such_type') is not None:
            return 'C11:search_ancestor-none'
    for a, b in zip(L, L[1:]):
        if not (a.end_pos <= b.end_pos):
            return 'C11:leaf-ends-not-monotone'
    lines = split_lines(code)
    endp = m.end_pos
    positions = [(ln, col) for ln, text in enumerate(lines, 1) for col in range(len(text) + 2)]
    positions += [(0, 0), (len(lines) + 1, 0), (1, -1)]
    if len(positions) > max_positions and rnd is not None:
        positions = rnd.sample(positions, max_positions)
    for p in positions:
        for incl in (True, False):
            try:
                r = m.get_leaf_for_position(p, include_prefixes=incl)
                exc = False
            except ValueError:
                exc = True
                r = None
            inside = (1, 0) <= p <= endp
            if exc != (not inside):
                return 'C11:range-rejection'
            if not inside:
                continue
            exp = next(l for l in L if p <= l.end_pos)
            if not incl and p < exp.start_pos:
                exp = None
            if r is not exp:
                return 'C11:lookup-incl=%s' % incl
    return None


# ---- C13 -----------------------------------------------------------------------
def c13_errors(v, code, m):
    g = parso.load_grammar(version=v)
    d0 = sig_tree(m)
    try:
        issues = list(g.iter_errors(m))
    except Exception as e:
        return crash_sig(e).replace('crash:', 'C13:crash:')
    if sig_tree(m) != d0:
        return 'C13:tree-modified'
    lines = collections.Counter(i.start_pos[0] for i in issues)
    if any(c > 1 for c in lines.values()):
        return 'C13:two-issues-on-one-line'
    for i in issues:
        if i.code not in (901, 903):
            return 'C13:bad-code'
        if i.code == 901 and not i.message.startswith('SyntaxError: '):
            return 'C13:bad-message-prefix'
        if i.code == 903 and not i.message.startswith('IndentationError: '):
            return 'C13:bad-message-prefix'
        if not ((1, 0) <= i.start_pos <= i.end_pos <= m.end_pos):
            return 'C13:range-outside-file'
    vi = tuple(map(int, v.split('.')))
    res = []

    def walk(n):
        if n.type == 'error_leaf':
            if n.start_pos[0] not in lines:
                res.append('C13:error-leaf-line-unreported:%s' % n.token_type)
        elif n.type == 'error_node':
            nl = n.get_next_leaf()
            if nl is not None and nl.start_pos[0] not in lines:
                fstr = any(c.type == 'fstring_start' for c in n.children) or n.search_ancestor('fstring') is not None
                res.append('C13:error-node-next-leaf-line-unreported fstring=%s v>=3.9=%s ownline=%s' % (
                    fstr, vi >= (3, 9), n.start_pos[0] in lines))
            return
        if hasattr(n, 'children'):
            for c in n.children:
                walk(c)
    walk(m)
    if res:
        return res[0]
    has_err = first_error(m) is not None or any(n.type == 'error_node' for n in iter_nodes(m))
    if has_err and not issues:
        return 'C13:error-in-tree-but-no-issue'
    i2 = list(g.iter_errors(m))
    if [(i.code, i.message, i.start_pos, i.end_pos) for i in issues] != [(i.code, i.message, i.start_pos, i.end_pos) for i in i2]:
        return 'C13:nondeterministic'
    return None


def iter_nodes(n):
    yield n
    if hasattr(n, 'children'):
        for c in n.children:
            yield from iter_nodes(c)


# ---- C19 -----------------------------------------------------------------------
def parents_ok(n):
    if hasattr(n, 'children'):
        return all(c.parent is n and parents_ok(c) for c in n.children)
    return True


def c19_serial(v, code, m, rnd):
    import pickle
    from parso.python import tree as pt
    from parso import tree as bt
    g = parso.load_grammar(version=v)
    s0 = sig_tree(m)
    ns = dict(vars(bt))
    ns.update(vars(pt))
    for ind in (None, 0, 4, '\t', ''):
        try:
            m2 = eval(m.dump(indent=ind), ns)
        except RecursionError:
            continue
        except Exception as e:
            return 'C19:eval-dump-raises:%s' % type(e).__name__
        if sig_tree(m2) != s0:
            return 'C19:eval-dump-differs'
        if not parents_ok(m2) or m2.parent is not None:
            return 'C19:eval-dump-parents'
        if m2.get_code() != code:
            return 'C19:eval-dump-code'
    try:
        m3 = pickle.loads(pickle.dumps(m))
        if sig_tree(m3) != s0 or not parents_ok(m3) or m3.get_code() != code:
            return 'C19:pickle-differs'
    except RecursionError:
        pass
    except Exception as e:
        return 'C19:pickle-raises:%s' % type(e).__name__
    # the same after the tree has been USED: read-only API calls may fill per-tree caches, which must survive serialisation too
    used = []
    for name, call in (('get_used_names', lambda: m.get_used_names()), ('iter_errors', lambda: list(g.iter_errors(m))),
                       ('iter_funcdefs', lambda: [f.get_params() for f in m.iter_funcdefs()]), ('iter_imports', lambda: [i.get_defined_names() for i in m.iter_imports()]),
                       ('get_leaf_for_position', lambda: m.get_leaf_for_position((1, 0), include_prefixes=True)), ('get_code', lambda: m.get_code())):
        if rnd.random() < 0.5:
            try:
                call()
                used.append(name)
            except Exception:
                pass
    if used:
        if sig_tree(m) != s0:
            return 'C19:tree-changed-by-read-only-calls'
        try:
            m4 = pickle.loads(pickle.dumps(m))
            if sig_tree(m4) != s0 or not parents_ok(m4) or m4.get_code() != code:
                return 'C19:pickle-differs-after-use'
            leaf = m.get_first_leaf()
            l4 = pickle.loads(pickle.dumps(leaf))
            if (l4.type, l4.value, l4.prefix, l4.start_pos) != (leaf.type, leaf.value, leaf.prefix, leaf.start_pos):
                return 'C19:pickle-leaf-differs-after-use'
            m5 = eval(m.dump(), ns)
            if sig_tree(m5) != s0:
                return 'C19:eval-dump-differs-after-use'
        except RecursionError:
            pass
        except Exception as e:
            return 'C19:pickle-raises-after-use(%s):%s' % (used[0], type(e).__name__)
    if g.refactor(m, {}) != code:
        return 'C19:refactor-empty'
    chosen = {}

    def pick(n):
        if n is not m and rnd.random() < 0.15:
            chosen[n] = '<%d>' % len(chosen)
            return
        if hasattr(n, 'children'):
            for c in n.children:
                pick(c)
    pick(m)
    ids = {id(k): vv for k, vv in chosen.items()}

    def expect(n):
        if id(n) in ids:
            return ids[id(n)]
        if hasattr(n, 'children'):
            return ''.join(expect(c) for c in n.children)
        return n.prefix + n.value
    try:
        if g.refactor(m, chosen) != expect(m):
            return 'C19:refactor-splice'
    except Exception as e:
        return 'C19:refactor-raises:%s' % type(e).__name__
    if sig_tree(m) != s0:
        return 'C19:refactor-modified-tree'
    return None


# ---- C20 -----------------------------------------------------------------------
def c20_pep8(v, code, m):
    g = parso.load_grammar(version=v)
    d0 = sig_tree(m)
    try:
        issues = g._get_normalizer_issues(m)
    except Exception as e:
        return crash_sig(e).replace('crash:', 'C20:crash:')
    if sig_tree(m) != d0:
        return 'C20:tree-modified'
    seen = set()
    for i in issues:
        k = (i.code, i.start_pos)
        if k in seen:
            return 'C20:duplicate-issue'
        seen.add(k)
        if not isinstance(i.code, int):
            return 'C20:non-int-code'
        if i.start_pos[1] < 0 or i.end_pos[1] < 0:
            return 'C20:negative-column'
        if not ((1, 0) <= i.start_pos <= i.end_pos <= m.end_pos):
            return 'C20:range-outside-or-inverted'
    has_err = any(n.type in ('error_node', 'error_leaf') for n in iter_nodes(m))
    if not has_err:
        w292 = any(i.code == 292 for i in issues)
        ends = code.endswith('\n') or code.endswith('\r')
        if w292 == ends:
            return 'C20:W292-mismatch'
    try:
        i2 = g._get_normalizer_issues(m)
    except Exception as e:
        return crash_sig(e).replace('crash:', 'C20:crash-second-run:')
    if [(i.code, i.start_pos, i.end_pos) for i in issues] != [(i.code, i.start_pos, i.end_pos) for i in i2]:
        return 'C20:nondeterministic'
    return None
