"""Shared machinery of the checks: translate, build, drive the extracted model,
collect obligations / correspondence / search results, write evidence, report."""
import os, sys, subprocess, time, json, hashlib, re, fcntl, traceback, collections

ROOT = os.path.dirname(os.path.dirname(os.path.abspath(__file__)))
COQ = os.path.join(ROOT, 'coq')
OCAML = os.path.join(ROOT, 'ocaml')
GEN = os.path.join(COQ, 'gen')
WORK = os.path.join(ROOT, '.work')
PY = '/venv/bin/python'
ENV = dict(os.environ, PYTHONPATH='/repo', PYTHONHASHSEED='0', PYTHONDONTWRITEBYTECODE='1')
JOBS = int(os.environ.get('VERIF_JOBS', '16'))

LINT_RE = re.compile(r'\b(Admitted|admit|Axiom|Parameter|Conjecture|Hypothesis|Variable|bypass_check|type-in-type)\b|Unset\s+Guard|Admit\s+Obligations')


class Lock:
    def __init__(self, name='build'):
        os.makedirs(WORK, exist_ok=True)
        self.path = os.path.join(WORK, name + '.lock')

    def __enter__(self):
        self.f = open(self.path, 'w')
        fcntl.flock(self.f, fcntl.LOCK_EX)
        return self

    def __exit__(self, *a):
        fcntl.flock(self.f, fcntl.LOCK_UN)
        self.f.close()


def lint_coq():
    """Fail closed on anything that declares an axiom or weakens the kernel.  `Variable`
    and `Hypothesis` are allowed only inside a Section (checked textually)."""
    bad = []
    for dirpath, _, files in os.walk(COQ):
        for fn in files:
            if not fn.endswith('.v'):
                continue
            p = os.path.join(dirpath, fn)
            depth = 0
            text = open(p).read()
            text = re.sub(r'\(\*.*?\*\)', lambda m: '\n' * m.group(0).count('\n'), text, flags=re.S)
            for ln, line in enumerate(text.split('\n'), 1):
                if re.match(r'\s*Section\s', line):
                    depth += 1
                if re.match(r'\s*End\s+\w+\s*\.', line) and depth > 0:
                    # may also close a Module; modules are not used in this development
                    depth -= 1
                for m in LINT_RE.finditer(line):
                    w = m.group(0)
                    if w in ('Variable', 'Hypothesis') and depth > 0:
                        continue
                    bad.append('%s:%d: %s' % (os.path.relpath(p, ROOT), ln, w))
    return bad


def translate():
    """returns (ok, message)"""
    p = subprocess.run([PY, os.path.join(ROOT, 'harness', 'translator.py')], env=ENV, capture_output=True, text=True)
    if p.returncode != 0:
        return False, (p.stdout + p.stderr)[-2000:]
    return True, ''


def vfiles():
    out = []
    for line in open(os.path.join(COQ, '_CoqProject')):
        line = line.strip()
        if line.endswith('.v'):
            out.append(line)
    return out


def build(log_name='build.log'):
    """Full .vo build (incremental through make) + extraction + OCaml driver.
    Returns dict: vo_ok {file: bool}, log path, driver_ok."""
    os.makedirs(WORK, exist_ok=True)
    with Lock():
        t0 = time.time()
        if not os.path.exists(os.path.join(COQ, 'Makefile')) or \
                os.path.getmtime(os.path.join(COQ, 'Makefile')) < os.path.getmtime(os.path.join(COQ, '_CoqProject')):
            subprocess.run(['coq_makefile', '-f', '_CoqProject', '-o', 'Makefile'], cwd=COQ, capture_output=True)
        p = subprocess.run(['timeout', '3000', 'make', '-k', '-j%d' % JOBS], cwd=COQ, capture_output=True, text=True)
        log = p.stdout + p.stderr
        logp = os.path.join(WORK, log_name)
        open(logp, 'w').write(log)
        vo_ok = fresh_vo(log)
        driver_ok = True
        ml = os.path.join(COQ, 'model.ml')
        if os.path.exists(ml):
            for ext in ('ml', 'mli'):
                os.replace(os.path.join(COQ, 'model.' + ext), os.path.join(OCAML, 'model.' + ext))
        drv = os.path.join(OCAML, 'driver')
        srcs = [os.path.join(OCAML, f) for f in ('model.mli', 'model.ml', 'driver.ml')]
        if not all(os.path.exists(s) for s in srcs):
            driver_ok = False
        elif not os.path.exists(drv) or any(os.path.getmtime(s) > os.path.getmtime(drv) for s in srcs):
            q = subprocess.run(['ocamlfind', 'ocamlopt', '-w', '-a', 'model.mli', 'model.ml', 'driver.ml', '-o', 'driver'],
                               cwd=OCAML, capture_output=True, text=True)
            if q.returncode != 0:
                driver_ok = False
                open(logp, 'a').write('\nOCAML BUILD FAILED\n' + q.stdout + q.stderr)
        return dict(vo_ok=vo_ok, log=logp, driver_ok=driver_ok, wall=time.time() - t0, make_rc=p.returncode,
                    assumptions=parse_assumptions(log))


def fresh_vo(log=''):
    """A .vo counts only if it is up to date: newer than its source and than the .vo of everything it
    depends on (coqdep output in .Makefile.d), recursively - a stale .vo left by a failed compile does not count."""
    deps = {}
    try:
        text = open(os.path.join(COQ, '.Makefile.d')).read().replace('\\\n', ' ')
    except OSError:
        text = ''
    for line in text.split('\n'):
        if ':' not in line:
            continue
        lhs, rhs = line.split(':', 1)
        targets = [t for t in lhs.split() if t.endswith('.vo')]
        ds = [d for d in rhs.split() if d.endswith('.vo') and not d.startswith('/')]
        for t in targets:
            deps[t[:-1]] = [d[:-1] for d in ds]
    memo = {}

    def ok(v):
        if v in memo:
            return memo[v]
        memo[v] = False
        src = os.path.join(COQ, v)
        vo = src + 'o'
        if not (os.path.exists(src) and os.path.exists(vo)) or os.path.getmtime(vo) < os.path.getmtime(src):
            return False
        if v not in deps:
            return False
        for d in deps[v]:
            if not ok(d) or os.path.getmtime(vo) < os.path.getmtime(os.path.join(COQ, d) + 'o'):
                return False
        if ('File "./%s"' % v) in log and 'Error' in log.split('File "./%s"' % v, 1)[1][:3000]:
            return False
        memo[v] = True
        return True
    return {v: ok(v) for v in vfiles()}


def parse_assumptions(log):
    """collect `Print Assumptions` outputs that are not 'Closed under the global context'"""
    ax = set()
    for m in re.finditer(r'^Axioms:\n((?:.+\n)+?)(?=\S|\Z)', log, flags=re.M):
        for l in m.group(1).split('\n'):
            l = l.strip()
            if l and ':' in l:
                ax.add(l.split(':')[0].strip())
    return sorted(ax)


def coq_error_for(vfile, logp):
    try:
        log = open(logp).read()
    except OSError:
        return ''
    i = log.find('File "./%s"' % vfile)
    return log[i:i + 1500] if i >= 0 else ''


def theorems_in(vfile):
    """names of Qed-closed Theorem/Lemma/Example statements in a .v file"""
    try:
        text = open(os.path.join(COQ, vfile)).read()
    except OSError:
        return []
    text = re.sub(r'\(\*.*?\*\)', '', text, flags=re.S)
    return re.findall(r'^\s*(?:Theorem|Lemma|Example|Corollary)\s+([A-Za-z0-9_\']+)', text, flags=re.M)


class Driver:
    """batch interface to the extracted model"""

    def __init__(self):
        self.path = os.path.join(OCAML, 'driver')

    def run(self, requests, shards=None):
        if not requests:
            return []
        keepalive()
        shards = shards or min(JOBS, max(1, len(requests) // 200))
        chunks = [requests[i::shards] for i in range(shards)]
        procs = []
        for ch in chunks:
            p = subprocess.Popen([self.path], stdin=subprocess.PIPE, stdout=subprocess.PIPE, stderr=subprocess.DEVNULL, text=True)
            procs.append(p)
        # feed in threads to avoid pipe deadlocks
        import threading
        outs = [None] * shards

        limit = max(WD['limit'], 300)

        def work(i):
            # the extracted model follows the regenerated tables: a changed regex can make its backtracking matcher run (practically) for ever on an
            # input; the shard is then cut off, what it answered so far is kept and the rest counts as unanswered (a mismatch that is examined on the implementation)
            try:
                o, _ = procs[i].communicate('\n'.join(chunks[i]) + '\n', timeout=limit)
            except subprocess.TimeoutExpired:
                procs[i].kill()
                o, _ = procs[i].communicate()
            outs[i] = (o or '').split('\n')
        ths = [threading.Thread(target=work, args=(i,)) for i in range(shards)]
        for t in ths:
            t.start()
        for t in ths:
            while t.is_alive():
                t.join(30)
                keepalive()
        res = [None] * len(requests)
        for i in range(shards):
            for j, line in enumerate(outs[i][:len(chunks[i])]):
                res[i + j * shards] = line
        return ['<no answer>' if r is None else r for r in res]


class CaseTimeout(Exception):
    pass


WD = {'limit': 0, 'timeouts': 0}


def keepalive():
    """long steps of the harness itself (a batch in a reference interpreter, the OCaml driver) re-arm the check-wide watchdog: it is meant for
    implementation calls that do not come back, not for our own bookkeeping"""
    import signal, threading
    if WD['limit'] and threading.current_thread() is threading.main_thread():
        signal.setitimer(signal.ITIMER_REAL, WD['limit'])


class time_limit:
    """per-call limit for implementation calls (main thread only): the call is interrupted by CaseTimeout, which the callers report
    as a non-terminating case with the input as replay; afterwards the check-wide watchdog is re-armed"""
    def __init__(self, sec=20):
        self.sec = sec

    def __enter__(self):
        import signal, threading
        self.on = threading.current_thread() is threading.main_thread()
        if self.on:
            def handler(sig, frm):
                WD['timeouts'] += 1
                raise CaseTimeout('no result after %d s' % self.sec)
            self.old = signal.signal(signal.SIGALRM, handler)
            signal.setitimer(signal.ITIMER_REAL, self.sec)
        return self

    def __exit__(self, *a):
        import signal
        if self.on:
            signal.setitimer(signal.ITIMER_REAL, 0)
            signal.signal(signal.SIGALRM, self.old)
            if WD['limit']:
                signal.setitimer(signal.ITIMER_REAL, WD['limit'])
        return False


class Ctx:
    def __init__(self, pid, tier, seed, level='proof'):
        self.pid, self.tier, self.seed, self.level = pid, tier, seed, level
        self.t0 = time.time()
        self.obligations = []       # (name, ok, detail)
        self.violations = []        # dicts
        self.known = []             # (finding id, what)
        self.cov = collections.OrderedDict()
        self.samples = []
        self.distinct = set()
        self.evaluations = 0
        self.streams = collections.OrderedDict()
        self.assumptions = []
        self.trusted = []
        self.notes = []
        self.findings = load_findings()
        self.explanation = ''

    # ---- obligations
    def add_obligation(self, name, ok, detail=''):
        self.obligations.append((name, bool(ok), detail))

    def file_obligations(self, vfile, b, names=None):
        ok = b['vo_ok'].get(vfile, False)
        ths = names if names is not None else (theorems_in(vfile) if vfile.startswith(('Properties/', 'gen/')) else ['(file compiles: %d lemmas)' % len(theorems_in(vfile))])
        for t in ths:
            self.add_obligation('%s:%s' % (vfile, t), ok, '' if ok else coq_error_for(vfile, b['log'])[:600])
        return ok

    # ---- sampling / counting
    def count(self, stream, n=1):
        self.streams[stream] = self.streams.get(stream, 0) + n
        self.evaluations += n
        self.progress()

    def progress(self):
        """watchdog: every counted case re-arms a timer; an implementation call that does not come back within the limit is interrupted by
        CaseTimeout in the main thread, which the per-case handlers turn into a violation with the input as replay (termination is part of C02 / C09 / ...)"""
        import signal, threading
        if threading.current_thread() is not threading.main_thread():
            return
        if not getattr(self, '_wd', False):
            def handler(sig, frm):
                raise CaseTimeout('no result for %d s' % self.wd_limit)
            signal.signal(signal.SIGALRM, handler)
            self._wd = True
            self.wd_limit = 240 if self.tier == 'quick' else 900
            WD['limit'] = self.wd_limit
        signal.setitimer(signal.ITIMER_REAL, self.wd_limit)

    def nontrivial(self, key):
        self.distinct.add(hashlib.sha1(repr(key).encode('utf-8', 'surrogatepass')).hexdigest()[:16])

    def sample(self, s):
        if len(self.samples) < 6:
            self.samples.append(s)

    # ---- violations
    def violation(self, signature, replay, found_input=True):
        """signature: short stable string; replay: dict"""
        replay = dict(replay, property=self.pid, signature=signature)
        for fid, f in self.findings.items():
            if f.get('status') == 'known' and self.pid in f['property'] and match_finding(f, signature, replay):
                if (fid, f['what']) not in self.known:
                    self.known.append((fid, f['what']))
                return False
        if any(v['signature'] == signature for v in self.violations):
            return True
        replay = dict(replay, property=self.pid, signature=signature, seed=self.seed, tier=self.tier,
                      cmd='./check %s --replay <this file>' % self.pid)
        d = os.path.join(ROOT, 'replays', self.pid)
        os.makedirs(d, exist_ok=True)
        h = hashlib.sha1(json.dumps(replay, sort_keys=True, default=str).encode()).hexdigest()[:12]
        path = os.path.join(d, h + '.json')
        json.dump(replay, open(path, 'w'), indent=1, default=str)
        self.violations.append(dict(signature=signature, path=path, found_input=found_input))
        return True

    def finish(self):
        import signal
        signal.setitimer(signal.ITIMER_REAL, 0)
        wall = time.time() - self.t0
        nob = len(self.obligations)
        ndis = sum(1 for o in self.obligations if o[1])
        cov = collections.OrderedDict()
        cov['obligations'] = nob
        cov['discharged'] = ndis
        cov['checker_cmd'] = 'make -k -j%d (coq_makefile, coqc 8.16.1 full .vo build) in /verif/coq; ocamlfind ocamlopt for the extracted model' % JOBS
        cov['trusted_base'] = self.trusted + ['axioms reported by Print Assumptions in this build: ' + (', '.join(self.assumptions) or 'none (closed under the global context)')]
        cov['evaluations'] = self.evaluations
        cov['distinct_nontrivial'] = len(self.distinct)
        cov['rule'] = self.cov.pop('rule', '')
        cov['samples'] = self.samples or ['<none>']
        cov['streams'] = dict(self.streams)
        cov['obligation_list'] = [dict(name=n, ok=ok, **({'detail': d} if d else {})) for n, ok, d in self.obligations]
        cov['explanation'] = self.explanation
        cov['programs'] = self.evaluations
        cov['disagreements_checked'] = self.cov.pop('disagreements_checked', 0)
        cov['known_findings_observed'] = [k[0] for k in self.known]
        cov.update(self.cov)
        ev = dict(property_id=self.pid, tier=self.tier, seed=self.seed, level=self.level, coverage=cov,
                  assumptions=self.notes, wall_s=round(wall, 2), violations=len(self.violations))
        os.makedirs(os.path.join(ROOT, 'evidence'), exist_ok=True)
        tmp = os.path.join(ROOT, 'evidence', '%s.json.tmp%d' % (self.pid, os.getpid()))
        json.dump(ev, open(tmp, 'w'), indent=1, default=str)
        os.replace(tmp, os.path.join(ROOT, 'evidence', '%s.json' % self.pid))
        for fid, what in self.known:
            print('KNOWN-FINDING: property=%s %s: %s' % (self.pid, fid, what))
        for v in self.violations:
            print('VIOLATION property=%s replay=%s%s' % (self.pid, v['path'], '' if v['found_input'] else ' no-failing-input-found'))
        print('%s %s: obligations %d/%d, evaluations %d, distinct non-trivial %d, violations %d, known findings %d, %.1fs' % (
            self.pid, self.tier, ndis, nob, self.evaluations, len(self.distinct), len(self.violations), len(self.known), wall))
        return 1 if self.violations else 0


def load_findings():
    p = os.path.join(ROOT, 'known_findings.json')
    try:
        data = json.load(open(p))
    except OSError:
        return {}
    return {f['id']: f for f in data.get('findings', [])}


def match_finding(f, signature, replay):
    """A finding matches a violation when its signature regex matches the violation's
    signature string AND (if given) its `needs` predicate holds on the replay input."""
    sig = f.get('signature', {})
    pat = sig.get('match')
    if not pat or not re.search(pat, signature):
        return False
    needs = sig.get('needs')
    if needs:
        from harness import needs as needs_mod
        fn = getattr(needs_mod, needs, None)
        if fn is None:
            return False
        try:
            return bool(fn(replay))
        except Exception:
            return False
    return True
