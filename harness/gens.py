"""Input generators.  Every case is a pure function of (seed, stream name, index) so a
disagreement replays in isolation and shards can run in parallel."""
import random, os, glob

ATOMS = ['def ', 'class ', 'if ', 'else', 'elif ', 'for ', ' in ', 'while ', 'try', 'except', 'finally', 'with ', ' as ',
         'return ', 'yield ', 'lambda ', 'import ', 'from ', 'pass', 'break', 'continue', 'global ', 'nonlocal ', 'async ',
         'await ', 'del ', 'assert ', 'raise ', 'not ', 'and ', 'or ', 'is ', 'None', 'True', 'match ', 'case ', 'type ',
         'x', 'y', 'foo', '_a', '\xe9', '1', '0x1f', '1.5e3', '1_0', '1j', '0b1', '00', '.5', '1.', '0o7', '1e', '0xg',
         '(', ')', '[', ']', '{', '}', ':', ';', ',', '.', '...', '=', '==', '+=', '->', ':=', '*', '**', '@', '+', '-', '/',
         '//', '%', '<', '>', '<=', '!=', '~', '^', '|', '&', '<<', '!', '>>=', '**=', '<>',
         '"a"', "'b'", '"""c\n"""', "'''", '"', '\'', 'f"', 'f"{', '}"', 'f\'{x!r:>{w}}\'', 'rb"x"', 'b\'', "f'''", '{x}',
         '{{', '}}', '\\N{DASH}', '\\', 'rf"', 'F\'', 'u"u"', 'Rb\'\'\'', 'f"{x:{y}}"', 'f"""{\n', 'f"a{b}c"', '"\\\n',
         "'\\\r\n", 'f"\\N{', 'f"{x=}"', 'f"{a["b"]}"',
         ' ', '  ', '    ', '\t', '\n', '\n', '\n', '\r\n', '\r', '\f', '\x0b', '\x1c', '\x1d', '\x1e', '\x85', '\u2028',
         '\u2029', '\xa0', '\ufeff', '#c', '# c\n', '#\f x', '\\\n', '\\\r\n', '\\\r', '$', '?', '\x00', '`',
         '\U0001f600', '\xb2', '\u0660', 'a\u0301', '\ud800']

HEAD = ['if x: ', 'while 1: ', 'def f(): ', 'class C: ', 'for a in b: ', 'try: ', 'else: ', 'with a as b: ',
        'if x:\n  if y: ', 'async def g(): ', 'elif z: ', 'finally: ', 'except E: ', 'lambda: ', '@dec\n',
        'def f(a, *b, c=1, **d): ', 'class D(x, y=2): ', '  ', '    ', '\t', 'def f(a, /, b): ', 'lambda x, *y: ',
        'match x:\n  case 1: ', 'async for i in j: ', 'async with a: ']
BODY = ['foo(', 'x = (', 'return [', 'pass', 'a.b.', '1 +', 'x = 1', 'print(x)', ')', 'yield', 'import', 'from . import (',
        '"abc', 'f"{x', 'del', 'x: int =', 'a, *b = ', '[i for i in', '{1:', 'not', 'x if y else', 'await', 'global', '@',
        '$', '\\', '"""', 'x; y', 'pass;', 'f(x := 1)', 'a = b = c', 'import a.b as c', 'from .. import d as e, f',
        'x[1:2] = 3', 'with a as (b, c): pass', 'for (i, j) in k: pass', 'del a, b[0]', 'global g', 'nonlocal n',
        'return', 'raise E from e', 'assert x, y', 'lambda: (yield)', '[*a, b]', '{**k}', 'x @= y', 'print(f"{x!r}")']
TAIL = ['', '\n', '\n  y\n', '\nz = 2\n', '\n    w\n', ' ; q\n', '\nelse: pass\n', '\n\n', '\r\n', '\r', '\n\tq\n',
        '\n  \n', '\n# c\n', '\n\\\n', '  # trailing\n', '\n    x = 1\n  y = 2\n']

VALID = ['x = 1\n', 'def f(a, b=2, *c, d, **e):\n    return a\n', 'class A(B, metaclass=M):\n    x: int = 3\n    def m(self): pass\n',
         'for i in range(3):\n    if i:\n        continue\n    else:\n        break\nelse:\n    pass\n',
         'try:\n    x\nexcept E as e:\n    raise\nfinally:\n    pass\n', 'with a as b, c as d:\n    pass\n',
         'import a.b.c as d, e\nfrom . import f\nfrom ..g import (h as i, j)\n', 'x = [a for a in b if c]\ny = {k: v for k, v in z}\n',
         'lambda x, *y, z=1, **k: (x, y)\n', 'async def f():\n    await g()\n    async for i in j:\n        pass\n',
         '@d1\n@d2(3)\ndef f(): pass\n', 'a, (b, *c), d.e, f[0] = g\n', 'x = f"a{b!r:>{w}}c" "d" \'e\'\n',
         'while 1:\n    x += 1\n    del x, y\n    global g\n', 'if a:\n    pass\nelif b:\n    pass\nelse:\n    pass\n',
         'x = (1,\n     2)\ny = """a\nb"""\n', 'def f():\n    yield\n    x = yield 1\n    return (yield)\n', 'assert a, b; print(c)\n',
         'x = a if b else c\ny = not a or b and c\nz = a < b <= c != d\n', '\ufeffx = 1\n', 'x = 1  # c\n\n# d\ny = 2',
         'def f(a, /, b, *, c): pass\n', 'print((y := 1))\n', 'x = -1 ** ~2 @ 3 // 4\n', 'nonlocal_ = 0\ndef o():\n  n = 1\n  def i():\n    nonlocal n\n',
         'm @= n\nobj.w @= r\nq[0] //= 2\na **= b\nc >>= 1\nd |= e\n',
         's = R"\\x" + BR\'\\u12\'.decode() + r"\\N" + Rb\'\\x\'.decode()\nt = b"\\xff" b\'\\0\'\n',
         'def k(*, a, b=1): pass\nkk = lambda *, key: key\n', 'def p(a, /): pass\ndef q(a, /, b, *, c): pass\n',
         'w = 09j + 0_1j + 1_0.0_1e1_0 + 0xA_B\n',
         'try:\n    pass\nexcept (A, B) as e:\n    del e\nwith open(f) as (a, b), g as h.i:\n    pass\n',
         'for a.b, c[0] in d:\n    pass\nprint([(y := f(x)) for x in z])\n',
         'class K:\n    """doc"""\n    def m(self):\n        \'doc\'\n        return lambda: (yield)\n',
         'del a, (b, c), d[0], e.f\n[a, *b] = c\n(a) = 1\n', 'x = f"{a!r:>{w}} {b=} {c:%Y}"\n',
         'from __future__ import annotations\nimport os.path as p, sys\nfrom a.b import (c as d, e,)\nfrom . import *\n',
         'r = [(a := 1) for [i] in x]\ns = {(b := k) for (k, [m, n]) in y if (c := m)}\n', 't = [(u := z) for z in q if u]\n']


def rng(seed, stream, index):
    return random.Random('%s:%s:%s' % (seed, stream, index))


def garbage(r):
    n = r.randint(0, 30)
    return ''.join(r.choice(ATOMS) for _ in range(n))


def lines(r):
    out = []
    ind = 0
    for _ in range(r.randint(1, 8)):
        ind = max(0, ind + r.choice([-4, -2, 0, 0, 0, 2, 4, 1, 3]))
        ws = r.choice([' ' * ind, ' ' * ind, '\t' * (ind // 4) + ' ' * (ind % 4), ' ' * ind + '\f'])
        out.append(ws + ''.join(r.choice(ATOMS) for _ in range(r.randint(0, 6))) + r.choice(['\n', '\n', '\r\n', '\r', '']))
    return ''.join(out)


def oneliner(r):
    return ''.join(r.choice(HEAD) + r.choice(BODY) + r.choice(TAIL) for _ in range(r.randint(1, 4)))


def valid(r):
    return ''.join(r.choice(VALID) for _ in range(r.randint(1, 4)))


def mutate(r):
    s = valid(r)
    for _ in range(r.randint(1, 3)):
        if not s:
            break
        i = r.randrange(len(s))
        k = r.random()
        if k < 0.3:
            s = s[:i] + s[i + r.randint(1, 4):]
        elif k < 0.6:
            s = s[:i] + r.choice(ATOMS) + s[i:]
        elif k < 0.8:
            j = r.randrange(len(s))
            a, b = min(i, j), max(i, j)
            s = s[:a] + s[b:] + s[a:b]
        else:
            s = s[:i]
    return s


_CORPUS = None


def corpus_files():
    global _CORPUS
    if _CORPUS is None:
        fs = sorted(glob.glob('/repo/parso/**/*.py', recursive=True)) + sorted(glob.glob('/repo/test/*.py')) \
            + sorted(glob.glob('/repo/test/normalizer_issue_files/*.py'))
        _CORPUS = fs
    return _CORPUS


def corpus(r, maxlen=6000):
    fs = corpus_files()
    for _ in range(5):
        f = r.choice(fs)
        try:
            s = open(f, encoding='utf-8').read()
        except Exception:
            continue
        if len(s) > maxlen:
            # cut at a line boundary
            ls = s.splitlines(True)
            a = r.randrange(len(ls))
            out = ''
            while a < len(ls) and len(out) + len(ls[a]) < maxlen:
                out += ls[a]
                a += 1
            s = out
        return s
    return 'x = 1\n'


FS_OPEN = ['f"', "f'", 'F"""', "f\'\'\'", 'rf"', "Rf'", 'fr"""']
FS_BITS = ['{a', '{a!r', '{a:', '{a:{w', '{a:>{w}', '}', '}}', '{{', 'text', ' ', '\t', '\x0c', '\x0b', '\n', '\r\n', '\\\n', '\\N{DASH}', '#c', ':=', '=',
           '"', "'", '"""', "\'\'\'", '{f"', "{f'{b", '[0]', '(', ')', '\x1c', '\xa0', 'lambda', 'x', '1']


def fstrings(r):
    out = []
    for _ in range(r.randint(1, 3)):
        s = r.choice(['', 'x = ', 'print(', '    ']) + r.choice(FS_OPEN)
        for _ in range(r.randint(1, 7)):
            s += r.choice(FS_BITS)
        s += r.choice(['"', "'", '"""', "\'\'\'", '', '\n']) + r.choice(['\n', '', ')\n', '\r'])
        out.append(s)
    return ''.join(out)


BLOCKS = ['if a:\n    x = 1\nelif b:\n    y = 2\nelse:\n    z = 3\n', 'try:\n    pass\nexcept E:\n    pass\nfinally:\n    pass\n',
          '@dec\n@dec2(1)\ndef f(a):\n    return a\n', 'class C(B):\n    @property\n    def m(self):\n        return 1\n    x = 2\n',
          'for i in j:\n    try:\n        pass\n    except E:\n        continue\nelse:\n    pass\n', 'with a as b:\n    if c:\n        d()\n    e()\n',
          'while 1:\n    x = (1,\n         2)\n    break\n', 'async def g():\n    async with a:\n        await b\n', 'def h():\n    """doc"""\n    if x:\n        return\n    yield 1\n',
          'try:\n    a\nexcept:\n    b\n', 'if x: pass\nelse: pass\n', 'match x:\n    case 1:\n        pass\n    case _:\n        pass\n']


def reindent(r):
    """valid block-structured programs whose indentation is perturbed line by line: dedents to columns that are not on the
    indent stack, over-indented lines, whole blocks shifted - the inputs that drive error recovery through INDENT/ERROR_DEDENT"""
    out = []
    for _ in range(r.randint(1, 3)):
        blk = r.choice(BLOCKS)
        base = r.choice([0, 0, 4, 8, 2])
        if base:
            out.append(r.choice(['if a:\n', 'def w():\n', 'class W:\n', 'try:\n', 'for p in q:\n']))
        unit = r.choice([4, 4, 2, 8, 3])
        mode = r.random()
        for ln in blk.splitlines(True):
            body = ln.lstrip(' ')
            ind = (len(ln) - len(body)) // 4 * unit + base
            if mode < 0.6 and r.random() < 0.25:
                ind = max(0, ind + r.choice([-6, -4, -3, -2, -1, 1, 2, 4]))
            out.append(' ' * ind + body)
    s = ''.join(out)
    if r.random() < 0.2:
        s = s.replace('\n', r.choice(['\r\n', '\r']))
    return s


def derived_any(r):
    return derived(r, r.choice(['3.6', '3.8', '3.10', '3.12', '3.14']))


KINDS = [('garbage', garbage, 25), ('lines', lines, 15), ('oneliner', oneliner, 30), ('valid', valid, 10),
         ('mutate', mutate, 15), ('corpus', corpus, 5), ('derived', derived_any, 10), ('fstrings', fstrings, 20), ('reindent', reindent, 25)]


def text_case(seed, stream, index, kinds=None):
    """returns (kind, text)"""
    r = rng(seed, stream, index)
    ks = KINDS if kinds is None else [k for k in KINDS if k[0] in kinds]
    tot = sum(k[2] for k in ks)
    x = r.uniform(0, tot)
    for name, fn, w in ks:
        if x < w:
            return name, fn(r)
        x -= w
    return ks[-1][0], ks[-1][1](r)


PREFIX_ATOMS = [' ', '  ', '\t', '\f', '\n', '\r\n', '\r', '#c', '# x y', '\\\n', '\\\r\n', '\\\r', '\ufeff', '#\f x', '\x0b',
                '#', '\\', 'x', '\x1c', '#a\f']


def prefix_case(seed, stream, index):
    r = rng(seed, stream, index)
    p = ''.join(r.choice(PREFIX_ATOMS[:14] if r.random() < 0.8 else PREFIX_ATOMS) for _ in range(r.randint(0, 8)))
    return p, r.randint(1, 5), r.choice([0, 0, 0, 4])


SEPS = ['\n', '\r\n', '\r', '\x0b', '\x0c', '\x1c', '\x1d', '\x1e', '\x85', '\u2028', '\u2029', 'a', 'b ', '', '\n\n', '\r\r\n']


def lines_case(seed, stream, index):
    r = rng(seed, stream, index)
    return ''.join(r.choice(SEPS) for _ in range(r.randint(0, 12)))


# ---- grammar-derived programs -------------------------------------------------------
class Deriver:
    """random derivations from the rule automata of a grammar version, rendered as program text"""
    _cache = {}

    def __init__(self, version):
        import parso, collections
        self.g = parso.load_grammar(version=version)._pgen_grammar
        self.dfas = self.g.nonterminal_to_dfas
        big = 10 ** 9
        self.cost_rule = {r: big for r in self.dfas}
        self.cost_state = {}
        changed = True
        while changed:
            changed = False
            for r, states in self.dfas.items():
                for s in states:
                    best = 0 if s.is_final else big
                    for l, nx in s.arcs.items():
                        c = (self.cost_rule[l] if l in self.dfas else 1) + self.cost_state.get(id(nx), big)
                        best = min(best, c)
                    if best < self.cost_state.get(id(s), big):
                        self.cost_state[id(s)] = best
                        changed = True
                c = self.cost_state.get(id(states[0]), big)
                if c < self.cost_rule[r]:
                    self.cost_rule[r] = c
                    changed = True
        self.arc_use = collections.Counter()

    @classmethod
    def get(cls, version):
        if version not in cls._cache:
            cls._cache[version] = cls(version)
        return cls._cache[version]

    def derive(self, rnd, rule, budget, out):
        s = self.dfas[rule][0]
        while True:
            opts = sorted(s.arcs.items())
            if budget[0] <= 0:
                if s.is_final:
                    return
                l, nx = min(opts, key=lambda o: (self.cost_rule[o[0]] if o[0] in self.dfas else 1) + self.cost_state[id(o[1])])
            else:
                if s.is_final and (not opts or rnd.random() < 0.5):
                    return
                w = [1.0 / (1 + self.arc_use[(id(s), l)]) for l, _ in opts]
                l, nx = rnd.choices(opts, weights=w)[0]
            self.arc_use[(id(s), l)] += 1
            budget[0] -= 1
            if l in self.dfas:
                self.derive(rnd, l, budget, out)
            else:
                out.append(l)
            s = nx


NAMES = ['a', 'b', 'c', 'x', 'y', 'f', 'g', 'self', 'Cls', 'l', 'n', 'value']
NUMBERS = ['0', '1', '2', '10', '0x1F', '0b11', '0o7', '1_000', '3.14', '1e3', '2j', '09j', '0_0', '.5', '5.', '1e-2j', '0XaB', '1E5']
STRINGS = ['"s"', "'t'", '"""d"""', 'b"b"', "r'\\d'", 'R"\\x"', "BR'\\u12'", "rb'\\N'", 'u"u"', "'\\n'", '"\\x41"', "'\\N{DASH}'", "b'\\xff'",
           '"a" "b"', "Rb'\\x'", "'\\\n'", '"\\u00e9"']


def render(labels, rnd):
    """token labels of a derivation -> program text (indentation from INDENT/DEDENT)"""
    import ast as pyast
    out = []
    ind = 0
    at_line_start = True
    for l in labels:
        if l == 'INDENT':
            ind += 1
            continue
        if l == 'DEDENT':
            ind -= 1
            continue
        if l == 'ENDMARKER':
            continue
        if l == 'NEWLINE':
            out.append('\n')
            at_line_start = True
            continue
        if l[0].isalpha():
            if l == 'NAME':
                t = rnd.choice(NAMES)
            elif l == 'NUMBER':
                t = rnd.choice(NUMBERS)
            elif l == 'STRING':
                t = rnd.choice(STRINGS)
            elif l == 'FSTRING_START':
                t = 'f"'
            elif l == 'FSTRING_STRING':
                t = 'z'
            elif l == 'FSTRING_END':
                t = '"'
            else:
                t = ''
        else:
            t = pyast.literal_eval(l)
        if at_line_start:
            out.append('    ' * max(ind, 0))
            at_line_start = False
        elif l not in ('FSTRING_STRING', 'FSTRING_END') and (not out or not out[-1].endswith('f"')):
            out.append(' ')
        out.append(t)
    return ''.join(out)


def derived(r, version='3.10', start='file_input', budget=None):
    d = Deriver.get(version)
    if start != 'file_input':
        labels = []
        d.derive(r, start, [budget or r.choice([6, 10, 16, 25, 40])], labels)
        return render(labels, r)
    out = []
    for _ in range(r.randint(1, 4)):
        labels = []
        d.derive(r, 'stmt', [budget or r.choice([6, 10, 16, 25, 40])], labels)
        out.append(render(labels, r))
    return ''.join(out)
