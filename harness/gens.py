"""Input generators.  Every case is a pure function of (seed, stream name, index) so a
disagreement replays in isolation and shards can run in parallel."""
import random, os, glob

ATOMS = ['def ', 'class ', 'if ', 'else', 'elif ', 'for ', ' in ', 'while ', 'try', 'except', 'finally', 'with ', ' as ',
         'return ', 'yield ', 'lambda ', 'import ', 'from ', 'pass', 'break', 'continue', 'global ', 'nonlocal ', 'async ',
         'await ', 'del ', 'assert ', 'raise ', 'not ', 'and ', 'or ', 'is ', 'None', 'True', 'match ', 'case ', 'type ',
         'x', 'y', 'foo', '_a', '\xe9', '1', '0x1f', '1.5e3', '1_0', '1j', '0b1', '00', '.5', '1.', '0o7', '1e', '0xg',
         '(', ')', '[', ']', '{', '}', ':', ';', ',', '.', '...', '=', '==', '+=', '->', ':=', '*', '**', '@', '+', '-', '/',
         '//', '%', '<', '>', '<=', '!=', '~', '^', '|', '&', '<<', '!', '>>=', '**=', '<>',
         '"a"', "'b'", '"""c\n"""', "'''", '"', '\'', 'f"', 'f"{', '}"', 'f\'{x!r:>{w}}\'', 'rb"x"', 'b\'', "f'''", '{x}',
         '{{', '}}', '\\N{DASH}', '\\', 'rf"', 'F\'', 'u"u"', 'Rb\'\'\'', 'f"{x:{y}}"', 'f"""{\n', 'f"a{b}c"', '"\\\n',
         "'\\\r\n", 'f"\\N{', 'f"{x=}"', 'f"{a["b"]}"',
         ' ', '  ', '    ', '\t', '\n', '\n', '\n', '\r\n', '\r', '\f', '\x0b', '\x1c', '\x1d', '\x1e', '\x85', '\u2028',
         '\u2029', '\xa0', '\ufeff', '#c', '# c\n', '#\f x', '\\\n', '\\\r\n', '\\\r', '$', '?', '\x00', '`',
         '\U0001f600', '\xb2', '\u0660', 'a\u0301', '\ud800']

HEAD = ['if x: ', 'while 1: ', 'def f(): ', 'class C: ', 'for a in b: ', 'try: ', 'else: ', 'with a as b: ',
        'if x:\n  if y: ', 'async def g(): ', 'elif z: ', 'finally: ', 'except E: ', 'lambda: ', '@dec\n',
        'def f(a, *b, c=1, **d): ', 'class D(x, y=2): ', '  ', '    ', '\t', 'def f(a, /, b): ', 'lambda x, *y: ',
        'match x:\n  case 1: ', 'async for i in j: ', 'async with a: ']
BODY = ['foo(', 'x = (', 'return [', 'pass', 'a.b.', '1 +', 'x = 1', 'print(x)', ')', 'yield', 'import', 'from . import (',
        '"abc', 'f"{x', 'del', 'x: int =', 'a, *b = ', '[i for i in', '{1:', 'not', 'x if y else', 'await', 'global', '@',
        '$', '\\', '"""', 'x; y', 'pass;', 'f(x := 1)', 'a = b = c', 'import a.b as c', 'from .. import d as e, f',
        'x[1:2] = 3', 'with a as (b, c): pass', 'for (i, j) in k: pass', 'del a, b[0]', 'global g', 'nonlocal n',
        'return', 'raise E from e', 'assert x, y', 'lambda: (yield)', '[*a, b]', '{**k}', 'x @= y', 'print(f"{x!r}")']
TAIL = ['', '\n', '\n  y\n', '\nz = 2\n', '\n    w\n', ' ; q\n', '\nelse: pass\n', '\n\n', '\r\n', '\r', '\n\tq\n',
        '\n  \n', '\n# c\n', '\n\\\n', '  # trailing\n', '\n    x = 1\n  y = 2\n']

VALID = ['x = 1\n', 'def f(a, b=2, *c, d, **e):\n    return a\n', 'class A(B, metaclass=M):\n    x: int = 3\n    def m(self): pass\n',
         'for i in range(3):\n    if i:\n        continue\n    else:\n        break\nelse:\n    pass\n',
         'try:\n    x\nexcept E as e:\n    raise\nfinally:\n    pass\n', 'with a as b, c as d:\n    pass\n',
         'import a.b.c as d, e\nfrom . import f\nfrom ..g import (h as i, j)\n', 'x = [a for a in b if c]\ny = {k: v for k, v in z}\n',
         'lambda x, *y, z=1, **k: (x, y)\n', 'async def f():\n    await g()\n    async for i in j:\n        pass\n',
         '@d1\n@d2(3)\ndef f(): pass\n', 'a, (b, *c), d.e, f[0] = g\n', 'x = f"a{b!r:>{w}}c" "d" \'e\'\n',
         'while 1:\n    x += 1\n    del x, y\n    global g\n', 'if a:\n    pass\nelif b:\n    pass\nelse:\n    pass\n',
         'x = (1,\n     2)\ny = """a\nb"""\n', 'def f():\n    yield\n    x = yield 1\n    return (yield)\n', 'assert a, b; print(c)\n',
         'x = a if b else c\ny = not a or b and c\nz = a < b <= c != d\n', '\ufeffx = 1\n', 'x = 1  # c\n\n# d\ny = 2',
         'def f(a, /, b, *, c): pass\n', 'print((y := 1))\n', 'x = -1 ** ~2 @ 3 // 4\n', 'nonlocal_ = 0\ndef o():\n  n = 1\n  def i():\n    nonlocal n\n',
         'm @= n\nobj.w @= r\nq[0] //= 2\na **= b\nc >>= 1\nd |= e\n',
         's = R"\\x" + BR\'\\u12\'.decode() + r"\\N" + Rb\'\\x\'.decode()\nt = b"\\xff" b\'\\0\'\n',
         'def k(*, a, b=1): pass\nkk = lambda *, key: key\n', 'def p(a, /): pass\ndef q(a, /, b, *, c): pass\n',
         'w = 09j + 0_1j + 1_0.0_1e1_0 + 0xA_B\n',
         'try:\n    pass\nexcept (A, B) as e:\n    del e\nwith open(f) as (a, b), g as h.i:\n    pass\n',
         'for a.b, c[0] in d:\n    pass\nprint([(y := f(x)) for x in z])\n',
         'class K:\n    """doc"""\n    def m(self):\n        \'doc\'\n        return lambda: (yield)\n',
         'del a, (b, c), d[0], e.f\n[a, *b] = c\n(a) = 1\n', 'x = f"{a!r:>{w}} {b=} {c:%Y}"\n',
         'from __future__ import annotations\nimport os.path as p, sys\nfrom a.b import (c as d, e,)\nfrom . import *\n',
         'r = [(a := 1) for [i] in x]\ns = {(b := k) for (k, [m, n]) in y if (c := m)}\n', 't = [(u := z) for z in q if u]\n']


def rng(seed, stream, index):
    return random.Random('%s:%s:%s' % (seed, stream, index))


def garbage(r):
    n = r.randint(0, 30)
    return ''.join(r.choice(ATOMS) for _ in range(n))


def lines(r):
    out = []
    ind = 0
    for _ in range(r.randint(1, 8)):
        ind = max(0, ind + r.choice([-4, -2, 0, 0, 0, 2, 4, 1, 3]))
        ws = r.choice([' ' * ind, ' ' * ind, '\t' * (ind // 4) + ' ' * (ind % 4), ' ' * ind + '\f'])
        out.append(ws + ''.join(r.choice(ATOMS) for _ in range(r.randint(0, 6))) + r.choice(['\n', '\n', '\r\n', '\r', '']))
    return ''.join(out)


def oneliner(r):
    return ''.join(r.choice(HEAD) + r.choice(BODY) + r.choice(TAIL) for _ in range(r.randint(1, 4)))


def valid(r):
    return ''.join(r.choice(VALID) for _ in range(r.randint(1, 4)))


def mutate(r):
    s = valid(r)
    for _ in range(r.randint(1, 3)):
        if not s:
            break
        i = r.randrange(len(s))
        k = r.random()
        if k < 0.3:
            s = s[:i] + s[i + r.randint(1, 4):]
        elif k < 0.6:
            s = s[:i] + r.choice(ATOMS) + s[i:]
        elif k < 0.8:
            j = r.randrange(len(s))
            a, b = min(i, j), max(i, j)
            s = s[:a] + s[b:] + s[a:b]
        else:
            s = s[:i]
    return s


_CORPUS = None


def corpus_files():
    global _CORPUS
    if _CORPUS is None:
        fs = sorted(glob.glob('/repo/parso/**/*.py', recursive=True)) + sorted(glob.glob('/repo/test/*.py')) \
            + sorted(glob.glob('/repo/test/normalizer_issue_files/*.py'))
        _CORPUS = fs
    return _CORPUS


def corpus(r, maxlen=6000):
    fs = corpus_files()
    for _ in range(5):
        f = r.choice(fs)
        try:
            s = open(f, encoding='utf-8').read()
        except Exception:
            continue
        if len(s) > maxlen:
            # cut at a line boundary
            ls = s.splitlines(True)
            a = r.randrange(len(ls))
            out = ''
            while a < len(ls) and len(out) + len(ls[a]) < maxlen:
                out += ls[a]
                a += 1
            s = out
        return s
    return 'x = 1\n'


FS_OPEN = ['f"', "f'", 'F"""', "f\'\'\'", 'rf"', "Rf'", 'fr"""']
FS_BITS = ['{a', '{a!r', '{a:', '{a:{w', '{a:>{w}', '}', '}}', '{{', 'text', ' ', '\t', '\x0c', '\x0b', '\n', '\r\n', '\\\n', '\\N{DASH}', '#c', ':=', '=',
           '"', "'", '"""', "\'\'\'", '{f"', "{f'{b", '[0]', '(', ')', '\x1c', '\xa0', 'lambda', 'x', '1',
           # character names: closed, unclosed, long (a regex with nested quantifiers needs exponential time on the long unclosed ones), with spaces and hyphens
           '\\N{LATINSMALLLETTERAWITHGRAVEANDMACRONANDTILDE', '\\N{LATIN SMALL LETTER A WITH GRAVE', '\\N{' + 'A' * 60, '\\N{DASH', '\\N{EM DASH}', '\\N{HYPHEN-MINUS}',
           '\\N{' + 'AB-' * 20 + ' ', '\\N', '\\N{}', '\\N{ }']


def fstrings(r):
    out = []
    for _ in range(r.randint(1, 3)):
        s = r.choice(['', 'x = ', 'print(', '    ']) + r.choice(FS_OPEN)
        for _ in range(r.randint(1, 7)):
            s += r.choice(FS_BITS)
        s += r.choice(['"', "'", '"""', "\'\'\'", '', '\n']) + r.choice(['\n', '', ')\n', '\r'])
        out.append(s)
    return ''.join(out)


BLOCKS = ['if a:\n    x = 1\nelif b:\n    y = 2\nelse:\n    z = 3\n', 'try:\n    pass\nexcept E:\n    pass\nfinally:\n    pass\n',
          '@dec\n@dec2(1)\ndef f(a):\n    return a\n', 'class C(B):\n    @property\n    def m(self):\n        return 1\n    x = 2\n',
          'for i in j:\n    try:\n        pass\n    except E:\n        continue\nelse:\n    pass\n', 'with a as b:\n    if c:\n        d()\n    e()\n',
          'while 1:\n    x = (1,\n         2)\n    break\n', 'async def g():\n    async with a:\n        await b\n', 'def h():\n    """doc"""\n    if x:\n        return\n    yield 1\n',
          'try:\n    a\nexcept:\n    b\n', 'if x: pass\nelse: pass\n', 'match x:\n    case 1:\n        pass\n    case _:\n        pass\n']


def reindent(r):
    """valid block-structured programs whose indentation is perturbed line by line: dedents to columns that are not on the
    indent stack, over-indented lines, whole blocks shifted - the inputs that drive error recovery through INDENT/ERROR_DEDENT"""
    out = []
    for _ in range(r.randint(1, 3)):
        blk = r.choice(BLOCKS)
        base = r.choice([0, 0, 4, 8, 2])
        if base:
            out.append(r.choice(['if a:\n', 'def w():\n', 'class W:\n', 'try:\n', 'for p in q:\n']))
        unit = r.choice([4, 4, 2, 8, 3])
        mode = r.random()
        for ln in blk.splitlines(True):
            body = ln.lstrip(' ')
            ind = (len(ln) - len(body)) // 4 * unit + base
            if mode < 0.6 and r.random() < 0.25:
                ind = max(0, ind + r.choice([-6, -4, -3, -2, -1, 1, 2, 4]))
            out.append(' ' * ind + body)
    s = ''.join(out)
    if r.random() < 0.2:
        s = s.replace('\n', r.choice(['\r\n', '\r']))
    return s



# ---- programs near the boundary of every semantic check of errors.py (valid near-misses; the reference interpreter decides validity) ----
SEMANTIC = [
    # global / nonlocal bookkeeping
    'def f():\n    global x\n    x = 1\n', 'def f():\n    x = 1\n    def g():\n        nonlocal x\n        x = 2\n    return g\n',
    'x = 1\ndef f():\n    global x\n    print(x)\n', 'class C:\n    global y\n    y = 1\n', 'def f():\n    def g():\n        global a\n        a = 1\n    a = 2\n',
    'def f(a):\n    def g():\n        nonlocal a\n        a += 1\n', 'def f():\n    global a, b\n    a = b = 0\n',
    'def f():\n    x = 0\n    class C:\n        nonlocal x\n        x = 1\n', 'def f():\n    print(y)\n    def g():\n        global y\n',
    'def f():\n    for i in r:\n        pass\n    def g():\n        global i\n', 'def f():\n    import os\n    def g():\n        global os\n        os = 1\n',
    # await / async
    'async def f():\n    await g()\n', 'async def f():\n    return [await x for x in y]\n', 'async def f():\n    async with a as b:\n        pass\n',
    'async def f():\n    async for i in a:\n        pass\n    else:\n        pass\n', 'async def f():\n    def g():\n        pass\n    await g()\n',
    'async def f():\n    x = lambda: 1\n    return await x()\n', 'async def f():\n    return (await a) + (await b)\n', 'async def f():\n    f"{await x}"\n',
    # break / continue
    'for i in x:\n    try:\n        continue\n    finally:\n        pass\n', 'while 1:\n    with a:\n        break\n', 'for i in x:\n    try:\n        pass\n    finally:\n        continue\n',
    'for a in b:\n    def f():\n        pass\n    break\nelse:\n    pass\n', 'while x:\n    if y:\n        continue\n    else:\n        break\n',
    'for i in r:\n    class C:\n        pass\n    continue\n', 'for i in r:\n    for j in s:\n        break\n    else:\n        continue\n    break\n',
    'while 1:\n    try:\n        break\n    except E:\n        continue\n    else:\n        break\n',
    # yield / return
    'def f():\n    yield from g()\n', 'def f():\n    x = yield from g()\n', 'def f():\n    return 1\n    yield\n', 'async def f():\n    yield 1\n    return\n',
    'def f():\n    x = yield\n', 'lambda: (yield)\n', 'class C:\n    def m(self):\n        yield self\n', 'def f():\n    return (yield 1)\n', 'async def f():\n    return 1\n',
    'def f():\n    return [x for x in (yield)]\n', 'async def f():\n    async def g():\n        yield 1\n    return 2\n', 'def f():\n    x = [(yield 1), (yield 2)]\n',
    'def f():\n    yield\n    return None\n', 'def f():\n    return\n', 'def f():\n    g(x for x in (yield 1))\n', 'def f():\n    return {k: v for k, v in (yield)}\n',
    'async def f():\n    x = [y async for y in (yield)]\n', 'def f():\n    await_ = (yield)\n    return await_\n',
    # names / literals
    'x = __debug__\n', 'if __debug__:\n    pass\n', 'f(__debug__)\n', "b'abc' b'def'\n", "'a' 'b' \"c\"\n", "x = b'\\xff'\n", "u'x' 'y'\n", "rb'x' b'y'\n", "f'a' 'b'\n",
    "'\\N{BULLET}'\n", "'\\x41\\u0041\\U00000041'\n", "b'\\N{x}'\n", "r'\\N{'\n", "'\\777'\n", "b'\\d'\n", "'a' f'{b}' 'c'\n", "Rb'\\xz'\n",
    # stars
    'def f(*, a): pass\n', 'def f(*, a=1, **k): pass\n', 'def f(a, *, b): pass\n', 'lambda *, a: a\n', 'def f(*a, b): pass\n', '{**a}\n', "{**a, 'b': 1}\n", 'f(**a, **b)\n',
    "x = {'a': 1, **b}\n", 'a ** b\n', "f'{x:**}'\n", "f'{x:*^10}'\n", "f'{x:**>{w}}'\n", "f'{x!r:**}'\n", 'a, *b = c\n', '*a, = b\n', '[*a, b] = c\n', 'for *a, b in c: pass\n', 'f(*a)\n',
    'print(*a, *b)\n', 'x = *a, b\n', 'x = [*a, *b]\n', '{*a}\n', '(*a, b) = c\n', 'a, (*b, c) = d\n', 'def f():\n    return *a, b\n', 'for x in *a, b: pass\n', 'x[*a]\n',
    'del a, (b, c)\n', 'with a as (b, *c): pass\n', 'a, *b, c = d\n', '*a, b = *c, d\n', 'f(*a, *b, **c, **d)\n', 'def f():\n    yield *a, b\n',
    # imports
    'from a import (b, c,)\n', 'from a import b as c, d\n', 'from . import x\n', 'from .a import *\n', 'from a import *\n', 'def f():\n    from a import b\n',
    'from __future__ import annotations\n', 'from __future__ import division as d\n', 'from __future__ import (division, print_function as pf)\n',
    '"""doc"""\nfrom __future__ import generators\n', 'from __future__ import unicode_literals, absolute_import\nimport x\n', '# c\nfrom __future__ import with_statement\n',
    'from __future__ import barry_as_FLUFL\n', 'from __future__ import generator_stop\n', 'from __future__ import nested_scopes as n\n',
    "'d'\n# c\n\nfrom __future__ import division\nfrom __future__ import print_function as p\n", 'from .__future__ import x\n',
    'import a.b.c as d, e\n', 'from ... import a\n',
    # annotations
    'x: int\n', 'x: int = 1\n', 'a.b: int\n', 'a[0]: int = 2\n', '(x): int\n', 'class C:\n    x: int = 0\n', 'def f():\n    x: List[int] = []\n', '(a.b): int = 1\n',
    # calls
    'f(a=1)\n', 'f(a=lambda: 1)\n', 'f(x for x in y)\n', 'f(a, b=1, *c, d=2, **e)\n', 'f(a := 1)\n', 'f(a, (b := 2))\n', 'f(a, *b, c)\n', 'f(**a, b=1)\n', 'f(*a, **b)\n', 'f(a, b, c=1, *d)\n',
    'f(a)(b)(c=1)\n', 'class C(B, metaclass=M): pass\n', "f(a=1, **{'b': 2})\n", 'f(a=1, b=2, **c, d=3)\n', 'f(*a, b, *c)\n', 'f((x for x in y), z)\n', 'f(lambda: (x := 1))\n',
    'f(a=(b := 1))\n', 'f(x=1)(x=1)\n', 'class C(*a, **k): pass\n',
    # parameters
    'def f(a, b=1, *c, d, e=2, **g): pass\n', 'def f(a, /, b): pass\n', 'def f(a=1, /, b=2, *, c): pass\n', 'lambda a, b=1: a\n', 'lambda a, /, b: a\n', 'def f(a, b=1, *, c): pass\n',
    'def f(a: int = 1, *args: str, **kw: bytes) -> None: pass\n', 'def f(a, b=1, /, c=2): pass\n', 'lambda *a, b, **c: 0\n', 'def f(a, *, b=1, c): pass\n', 'def f(self, a=(1, 2), *b): pass\n',
    'lambda a=1, *, b: 0\n', 'def f(a, /): pass\n', 'def f(*, a, b=1): pass\n',
    # try
    'try:\n    pass\nexcept A:\n    pass\nexcept:\n    pass\n', 'try:\n    pass\nexcept (A, B) as e:\n    pass\nelse:\n    pass\nfinally:\n    pass\n', 'try:\n    pass\nexcept* A:\n    pass\n',
    'try:\n    pass\nfinally:\n    pass\n', 'try:\n    pass\nexcept A as e:\n    pass\nexcept B as e:\n    pass\n', 'try:\n    pass\nexcept* (A, B) as e:\n    pass\nelse:\n    pass\n',
    # f-strings
    "f'{a}'\n", "f'{a!r}'\n", "f'{a:{b}}'\n", "f'{a!s:>{w}.{p}}'\n", "f'{{}}'\n", "f'{a=}'\n", "f'{a = }'\n", 'f"""{\na}"""\n', "f'{a[\"b\"]}'\n", "f'{(lambda x: 1)}'\n", "rf'{a}\\d'\n",
    "f'{x!r:^{w}}'\n", 'f"{x:%Y-%m-%d}"\n', "def f():\n    return f'{(yield)}'\n", "f'{a:{b}{c}}'\n", "f'{a}{b!a}{c:d}'\n", "f'{a:>10}' f'{b}'\n", "f'{x:{y!r}}'\n", "f'{3.14:10.10}'\n",
    "f'{a,}'\n", "f'{*a,}'\n", "f'{a if b else c}'\n", "f'{a:=^5}'\n", "f'{(a:=1)}'\n", "f'{x:a{y}b{z}c}'\n", "f'{{{a}}}'\n", "f'{a}}}'\n", "F'{a!r:}'\n", "f'{ a }'\n", "f'{a!r }'\n",
    "f'{x:yield}'\n", "f'{x:return}'\n", "f'{x:*}'\n", "f'{x:from}'\n", "f'break {x:continue}'\n", "f'{x:await}'\n",
    # assignment targets
    'a = b = c\n', 'a, b = c\n', '[a, b] = c\n', '(a) = 1\n', 'a.b = 1\n', 'a[b] = 1\n', 'a[b:c] = 1\n', 'a += 1\n', 'a.b += 1\n', 'a[0] += 1\n', '(a) += 1\n', 'for a.b in c: pass\n', 'for a[0] in c: pass\n',
    'for (a, b), c in d: pass\n', 'with a as b.c: pass\n', 'with a as b[0], c as (d, e): pass\n', 'with (a as b, c as d): pass\n', 'del a\n', 'del a.b, c[0]\n', 'del (a, b)\n', 'del [a, b]\n', 'del (a), b\n',
    'a = (b := 1)\n', '[y := 1, y]\n', '[(y := x) for x in z]\n', '(a := 1)\n', 'if (n := len(a)) > 1: pass\n', 'while (x := f()): pass\n', 'lambda: (x := 1)\n', 'def f(a=(b := 1)): pass\n',
    '[[(z := y) for y in x] for x in w]\n', 'a = b, c = d\n', '(a, b) = [c, d] = e\n', 'a[b][c].d = 1\n', 'a = yield_ = 1\n', 'def f():\n    a = yield\n', '[a, [b, c]] = d\n', '() = a\n', '[] = a\n',
    'for () in a: pass\n', 'a @= b\n', 'a //= b; a **= c; a >>= 1; a <<= 1; a &= 1; a |= 1; a ^= 1; a %= 2\n', 'x = (yield) if 0 else 1\n', 'del a[0], b.c, (d, [e])\n',
    '[(a := 1) for [i] in x]\n', '[i for i in range(5) if (j := i)]\n', '{(k := 1): (v := 2)}\n', 'x = [y := 1]\n', 'print(a := 1, b := 2)\n', 'with (a := b): pass\n',
    # comprehensions
    'async def f():\n    return [x async for x in y]\n', 'async def f():\n    return (x async for x in y)\n', 'async def f():\n    return {x: y async for x, y in z}\n', '[x for x in y if x for z in x]\n',
    '[x for x, in y]\n', '[x for (x, y) in z]\n', '[x for x.a in y]\n', 'def f():\n    return (x async for x in y)\n', 'async def f():\n    return [await x async for x in y]\n',
    '{x for x in y}\n', '{x: y for x, y in z if x if y}\n', '(x for x in y)\n', '[x for x in y for y in z]\n', '[lambda: x for x in y]\n', '[x for x in y if lambda: x]\n', '[x for x in (lambda: y)()]\n',
    'async def f():\n    return [[y async for y in x] for x in z]\n', 'async def f():\n    return {x async for x in y if await x}\n', '[x async for x in y]\n',
    # match / misc
    'match x:\n    case [a, *b]:\n        pass\n    case {"k": v, **r}:\n        pass\n    case C(a, b=c) | D():\n        pass\n', 'match = 1\ncase = match\n', 'print(match(x))\n',
    'type X = int\n', 'def f[T](a: T) -> T: return a\n', 'class C[T]: pass\n', 'x = 1 if a else 2 if b else 3\n', 'assert (a, b)\n', 'raise A from B\n', 'with a, b as c: pass\n',
    '@a.b(c)\n@d\nclass C: pass\n', '@(a := b)\ndef f(): pass\n', 'x = not a in b\n',
]

# programs near numeric limits (CPython: at most 255 targets before a starred target; long argument lists; deep nesting)
def _limit_programs():
    out = []
    for n in (2, 100, 127, 128, 129, 200, 255):
        names = ', '.join('a%d' % i for i in range(n))
        out += ['%s, *r = x\n' % names, '(%s, *r) = x\n' % names, '[%s, *r, z] = x\n' % names]
    out.append('f(%s)\n' % ', '.join('a%d' % i for i in range(300)))
    out.append('f(%s)\n' % ', '.join('k%d=%d' % (i, i) for i in range(260)))
    out.append('def f(%s): pass\n' % ', '.join('p%d' % i for i in range(260)))
    out.append('x = ' + '(' * 60 + '1' + ')' * 60 + '\n')
    out.append('x = ' + '[' * 40 + ']' * 40 + '\n')
    out.append(''.join('    ' * i + 'if a%d:\n' % i for i in range(15)) + '    ' * 15 + 'pass\n')
    out.append(''.join('    ' * i + 'def f%d():\n' % i for i in range(12)) + '    ' * 12 + 'return 1\n')
    out.append('x = ' + ' + '.join('a%d' % i for i in range(400)) + '\n')
    out.append('x = [' + ', '.join(str(i) for i in range(500)) + ']\n')
    out.append('x = ' + 'not ' * 60 + 'y\n')
    out.append('x = ' + '-' * 80 + '1\n')
    out.append('lambda ' + ', '.join('q%d' % i for i in range(256)) + ': 0\n')
    return out


SEMANTIC += _limit_programs()

# found by reading a sub-agent's remarks (round 7): valid programs next to rules whose boundary no corpus program touched
# a lambda (a synchronous function of its own) inside an async function: yield / yield from are fine in it; nested functions and classes likewise
SEMANTIC += ['async def f():\n    g = lambda: (yield from x)\n', 'async def f():\n    return lambda: [(yield from x)]\n', 'async def f():\n    g = lambda: (yield)\n',
             'async def f():\n    def g():\n        yield from x\n', 'async def f():\n    class C:\n        g = lambda: (yield from x)\n',
             'async def f():\n    g = lambda a, b=1: (yield from a)\n    await z\n', 'async def f():\n    yield from x\n', 'async def f():\n    x = [(yield from y)]\n',
             'async def f():\n    g = lambda: (lambda: (yield from x))\n', 'async def f():\n    async def h():\n        g = lambda: (yield from x)\n']
SEMANTIC += ['f(x:=1, y)\n', 'f(a, x:=1, b)\n', 'f(x:=1, x=2)\n', 'f((x:=1), y)\n', 'f(x:=1, *y, **z)\n', 'f(a, b:=2, c=3)\n', 'print(n:=3, n)\n',
             "'a' 'b'\nfrom __future__ import division\n", "('a')\nfrom __future__ import division\n", "'d' 'e' 'f'\nfrom __future__ import annotations\nx: int\n",
             '"""a""" "b"\nfrom __future__ import print_function\n', "'a'\n'b'\nimport x\n",
             'try:\n    pass\nfinally:\n    for x in y:\n        continue\n', 'while 1:\n    try:\n        pass\n    finally:\n        while z:\n            continue\n',
             'for i in j:\n    try:\n        pass\n    finally:\n        def g():\n            for k in l:\n                continue\n',
             'for i in j:\n    try:\n        continue\n    finally:\n        pass\n', 'for i in j:\n    try:\n        pass\n    except E:\n        continue\n    finally:\n        pass\n',
             'def f():\n    g(a=1)\n    global a\n', 'def f():\n    g(**{"a": 1})\n    global a\n', 'def f():\n    x.a = 1\n    global a\n',
             'f"{x:{a:>5}{b}}"\n', 'f"{x:{a}{b}}"\n', 'f"{x:{a:{b}}}"\n', 'f"{x:{a:>5}}"\n', 'f"{x:>{a}<{b}}"\n', "f'{x:{a!r:>5}{b}}'\n", 'f"{x:{a:>5}{b:<3}c}"\n',
             'x = 1\n\x0cy = 2\n', 'def f():\n    a\n\x0c    b\n',
             # backslashes in every part of an f-string that is not an expression
             'f"{x:\\t>5}"\n', 'f"{x:\\x20<3}"\n', "f'{x:\\N{BULLET}^9}'\n", 'f"\\t{x}\\n"\n', 'f"{x!r:\\t>5}"\n', 'f"{x:{w}\\t}"\n', "rf'{x:\\d}'\n", 'f"{x}\\\n{y}"\n',
             "f'''{x:\\t>5}\n{y}'''\n", 'f"{{\\t}}{x}"\n']

def _comparison_programs():
    """every operand shape on either side of every comparison operator (E721 / `is` with literals / chained comparisons look at the operands)"""
    operands = ['x', 'x.y', 'x[0]', 'f()', 'type(a)', 'type(a).b', '(a or b).c', '(a)', '(a, b)', '[1][0]', '[1, 2]', '().__class__', '{}.get', '{1: 2}[1]', "''.join", '"s"', 'b"b"',
                '1', '1.5', 'None', 'True', '...', '(lambda: 0)()', 'lambda: 0', '-x', 'not x', 'x if y else z', 'await_', '(yield_)', 'f(a)(b)', 'f(a).b', 'x.y.z', '(p or q).name',
                '[i for i in j]', '(i for i in j)', '{a}', 'type', 'type(a) is type(b)', 'a < b']
    ops = ['==', '!=', '<', '<=', '>', '>=', 'is', 'is not', 'in', 'not in']
    out = []
    for i, a in enumerate(operands):
        for j, o in enumerate(ops):
            b = operands[(i * 7 + j * 3 + 1) % len(operands)]
            out.append('%s %s %s\n' % (a, o, b))
            if (i + j) % 4 == 0:
                out.append('if %s %s %s %s z:\n    pass\n' % (a, o, b, ops[(j + 3) % len(ops)]))
    return out


COMPARISONS = _comparison_programs()
SEMANTIC += COMPARISONS

# ---- programs that make each rule of errors.py fire (or sit just beyond its boundary): the error finder must list them without raising ----
INVALID = [
    "x = b'\udc80'\n", "y = '\udc80'\n", "z = rb'\udfff'\n", "w = b'''\ud800'''\n", "f'{a}\udc80'\n", "# \udc80\nq = 1\n", "\udc80 = 1\n", "v = b'a\udcff\\x'\n",
    'def f():\n    global x\n    nonlocal x\n', 'def f():\n    nonlocal x\n', 'def f():\n    x = 1\n    global x\n', 'def f():\n    print(x)\n    global x\n',
    'def f(x):\n    global x\n', 'def f(x):\n    def g():\n        nonlocal x\n    nonlocal y\n', 'def f():\n    x: int\n    global x\n', 'def f():\n    import x\n    global x\n',
    'def f():\n    for x in y: pass\n    nonlocal x\n', 'class C:\n    nonlocal x\n', 'nonlocal x\n', 'def f():\n    global x\n    x: int = 1\n',
    ' x\n', 'if 1:\n  x\n y\n', 'if 1:\n        x\n    y\n', 'def f():\n\tx\n        y\n', 'x = 1 \\ 2\n', 'x = (\n', '1 +\n', '?\n', 'x = $\n', "'abc\n", '"""abc\n', "x = f'abc\n", 'if x:\nfoo\n',
    'class C:\n\n', 'def f():\n# c\ny', 'while x:\n', 'if x:\n    pass\nelse:\nfoo\n', 'try:\n    pass\nfinally:\nx\n',
    'def f():\n    await x\n', 'await x\n', 'class C:\n    await x\n', 'lambda: await x\n', 'break\n', 'def f():\n    break\n', 'continue\n', 'for x in y:\n    def f():\n        continue\n',
    'while 1:\n    class C:\n        break\n', 'for x in y:\n    pass\nelse:\n    continue\n', 'async def f():\n    yield from x\n', '__debug__ = 1\n', 'def f(__debug__): pass\n', 'f(__debug__=1)\n',
    'import __debug__\n', "b'\\xe9\xe9'\n", "'a' b'b'\n", "b'a' f'{b}'\n", 'def f(*): pass\n', 'def f(*, **k): pass\n', 'lambda *: 0\n', 'def f(a, *, ): pass\n', '{**a for a in b}\n', '{**a: 1}\n',
    'async def f():\n    yield 1\n    return 2\n', 'return\n', 'yield\n', 'class C:\n    yield\n', 'class C:\n    return 1\n', 'x = yield\n', 'from a import b,\n', 'from a import (b, c),\n', 'def f():\n    from a import *\n',
    'class C:\n    from a import *\n', 'x=1\nfrom __future__ import division\n', 'from __future__ import nope\n', 'from __future__ import braces\n', 'from __future__ import *\n', 'from __future__ import (division, nope)\n',
    '*a\n', '*a = 1\n', 'a = *b\n', 'del *a\n', '*a, *b = c\n', '[*a for a in b]\n', 'print(*a for a in b)\n', 'f(**a, *b)\n', '*a, b += 1\n', 'for *a in b: pass\n', 'x = *a\n', '(*a)\n', 'a = (*b)\n', '[*a] = *b\n',
    ', '.join('a%d' % i for i in range(256)) + ', *r = x\n', ', '.join('a%d' % i for i in range(300)) + ', *r, z = x\n',
    '(a, b): int\n', '[a]: int\n', 'f(): int\n', 'a, b: int\n', '1: int\n', 'a + b: int = 1\n', '(a): int, b = 1\n',
    'f(a=1, a=2)\n', 'f(a=1, b)\n', 'f(**a, b)\n', 'f(lambda: 1=1)\n', 'f(a+b=1)\n', 'f(x for x in y, 1)\n', 'f(a, x for x in y)\n', 'f(a=1, *b, a=2)\n', 'f(1=2)\n', 'f(None=1)\n', 'f(True=1)\n', 'f((a)=1)\n',
    'f(a for a in b, c for c in d)\n', 'class C(x for x in y, z): pass\n', 'def f(a=1, b): pass\n', 'def f(a, a): pass\n', 'lambda a, a: 0\n', 'def f(a, *a): pass\n', 'def f(a, **a): pass\n', 'def f(a=1, /, b): pass\n',
    'def f(*a, b, a): pass\n', 'lambda a=1, b: 0\n', 'try:\n    pass\nexcept:\n    pass\nexcept E:\n    pass\n', 'try:\n    pass\nexcept:\n    pass\nexcept:\n    pass\n',
    "f'{}'\n", "f'{a!x}'\n", "f'{a:{b:{c}}}'\n", "f'{a:{b:{c:{d}}}}'\n", "f'{a!r:{b:{c}}}'\n", 'f"""{x:{x:{x:{x}}}}"""\n', "f'{\\\\}'\n", "f'{#}'\n", "f'{a'\n", "f'}'\n", "f'{a!}'\n", "f'{!r}'\n", "f'{a b}'\n",
    "f'{lambda x: 1}'\n", "f'{a:{}}'\n", "f'{a;b}'\n", "f'{a!rr}'\n", "f'{ }'\n", "f'{a=!}'\n", "f'{*a}'\n", "f'{**a}'\n", "f'{a:{b!}}'\n", "f'{a:{b:}}'\n", "f'{{a}'\n", "f'{a}}'\n", "f'{'\n", "f'{a[}'\n", "f'{(}'\n", "f'{a:{'\n",
    "f'{await x}'\n", "f'{yield}'\n", "f'{x:{yield}}'\n", "f'{return}'\n",
    '1 = a\n', 'f() = 1\n', 'a + b = 1\n', 'None = 1\n', 'True = 1\n', 'def f():\n    (yield) = 1\n', 'lambda: 1 = 2\n', '[a, 1] = b\n', 'a.b.c() = 1\n', "'s' = 1\n", '... = 1\n', '{a} = 1\n', '{a: b} = 1\n',
    'a if b else c = 1\n', 'not a = 1\n', 'a and b = 1\n', '-a = 1\n', 'a < b = 1\n', 'await x = 1\n', 'async def f():\n    await x = 1\n', 'def f():\n    global x\n    await x = 1\n', 'for await __debug__ in y: pass\n',
    'for 1 in x: pass\n', 'with a as 1: pass\n', 'with a as f(): pass\n', 'del 1\n', 'del f()\n', 'del (a, 1)\n', 'del a + b\n', 'del [a, f()]\n', 'del (yield)\n', 'del None\n', 'del ...\n', "del 's'\n", 'del a if b else c\n',
    '(a, b) += 1\n', '[a] += 1\n', 'f() += 1\n', 'a, b += 1\n', '() += 1\n', 'None += 1\n', '1 += 1\n', 'a += b += c\n', 'x = y += 1\n', "f'' = 1\n", "f'{a}' = 1\n", 'a = b = 1 = c\n', '(a := 1) = 2\n', 'a := 1\n',
    '(a.b := 1)\n', '(a[0] := 1)\n', '((a, b) := 1)\n', '[i := 0 for i in x]\n', '[x for x in (y := z)]\n', 'class C:\n    [y := 1 for x in z]\n', '(lambda: x := 1)\n', 'def f(a = b := 1): pass\n', '[(i := 1) for i in x]\n',
    '[[(j := 0) for i in x] for j in y]\n', '[i for i in x if (i := 1)]\n', '(x := 1, y := 2) = z\n', 'def f():\n    [x async for x in y]\n', '[x async for x in y]\n', 'def f():\n    {x: y async for x, y in z}\n',
    'async def f():\n    def g():\n        return [x async for x in y]\n', 'x = (yield)\n', 'def f():\n    x = yield = 1\n', 'print >>f, x\n', 'exec "x"\n', 'print "x"\n', 'a <> b\n', '`a`\n', 'def f((a, b)): pass\n',
    'raise E, v\n', 'try:\n    pass\nexcept E, e:\n    pass\n', '0777\n', '1L\n', "ur'x'\n", 'x = 1_\n', 'x = 0x\n', 'x = 1__0\n', 'x = 1.e\n', 'x = 0b2\n', 'x = 08\n', 'async = 1\n', 'await = 1\n', 'def async(): pass\n',
    'match x:\n    case 1 | a:\n        pass\n', 'match x:\n    case a:\n        pass\n    case b:\n        pass\n', 'match x:\ncase 1: pass\n', 'type X\n', 'def f[T, T](): pass\n', 'class C[*T, *U]: pass\n',
    'with (a as b): pass\n', 'with (a, b as c, ): pass\n', 'with (a as b, c): pass\n', 'x = [\n', 'x = {1: }\n', 'x = (1, ]\n', 'x = ]\n', 'def f(: pass\n', 'class : pass\n', 'if : pass\n', 'for in x: pass\n', 'import\n', 'from import x\n',
    'from . import\n', 'import a.\n', 'import a as\n', 'lambda\n', 'x = lambda: \n', '@\ndef f(): pass\n', '@a\nx = 1\n', '@a\n@b\n', 'else:\n    pass\n', 'elif x:\n    pass\n', 'except:\n    pass\n', 'finally:\n    pass\n',
    'try:\n    pass\n', 'try:\n    pass\nelse:\n    pass\n', 'if x:\n    pass\nelif:\n    pass\n', 'while x: pass\nelse\n', 'x = 1 if y\n', 'x = 1 if else 2\n', 'a = b if c else\n', 'def f():\n    return yield\n',
]



SEMANTIC += ['f().x += 1\n', "globals()['c'] += 1\n", 'super().total -= 1\n', '(g(a, b)[0].y) |= 4\n', 'a.b().c[d] *= 2\n', 'a[0]().b **= 2\n', 'f()[0] += 1\n', 'f().a.b += 1\n',
             'def f():\n    """Example:\n        \\"""inner\\"""\n    """\n', "s = '''a\n\\'''b\n'''\n", 'x = """a\\\n\\"""b"""\n', "t = rb'''x\\\\'''\n", 'u = f"""{a}\n\\"""{b}"""\n',
             "d = '''it\\'s\n\\\\'''\n", 's = "a\\"b" \'c\\\'d\'\n', "f'''{x:\n  >10}'''\n", 'f"""{x:{w}\n}"""\n', "f'''{x!r:\n^{w}}'''\n", "f'''a\n{x:>\n5}b'''\n"]
WRAPS = ['', '', '', 'def w():\n', 'async def w():\n', 'class W:\n', 'if c:\n', 'for q in p:\n', 'while c:\n', 'try:\n', 'with m:\n', 'def w():\n    def v():\n', 'class W:\n    def m(self):\n']



def _target_programs():
    """every expression shape in every target position (assignment, augmented, annotated, del, for, with-as, named expression, comprehension,
    import-as is not an expression): the rules about targets must list or accept them without raising"""
    shapes = ['x', 'x.y', 'x[0]', 'x[1:2]', 'f()', 'f().a', 'f()[0]', 'x ** y', 'a.b ** c', 'x ** -y', 'await x', 'await x.y', '-x', 'not x', '~x', 'x + y', 'x * y', 'x @ y',
              'x < y', 'x is y', 'x in y', 'x and y', 'x or y', 'x if y else z', 'lambda: x', 'lambda a: a', '(x)', '((x))', '(x.y)', '(x, y)', '(x,)', '()', '[]', '[x]', '[x, y]',
              '[x, *y]', '*x', '*x, y', '(*x, y)', 'x, y', 'x, (y, z)', '{}', '{x}', '{x: y}', '[a for a in b]', '(a for a in b)', '{a for a in b}', '{a: b for a in c}',
              '1', '1.5', '1j', '"s"', 'b"s"', 'f"{x}"', 'f"s"', '"a" "b"', 'None', 'True', 'False', '...', '__debug__', 'yield', 'yield x', '(yield)', '(yield x)',
              '*x.y, z', 'z, *x.y', '*(a, b), c', '*[a, b], c', '*x[0], y', '(*x.y, z)', '[*x.y]', '[*(a, b)]', '[*[a, b], c]', '*(a.b, c[0]), d', 'x := 1', '(x := 1)', 'x.y.z', 'x[0][1]', 'x()()', '(x)[0]', '(x).y', '[x][0]', 'x if y else z.a', '`x`', 'x!', 'print', 'x[y:=1]', 'x[*y]', '*x.y', '**x']
    ctxs = ['%s = 1\n', '%s: int\n', '%s: int = 1\n', '(%s): int = 1\n', '%s += 1\n', '%s @= 1\n', 'del %s\n', 'del (%s)\n', 'del [%s]\n', 'for %s in z: pass\n',
            'with z as %s: pass\n', 'with (z as %s): pass\n', '[1 for %s in z]\n', '(%s := 1)\n', 'a = %s = 1\n', '%s, b = 1, 2\n', '[%s, b] = 1, 2\n', 'async def f():\n    %s: int = 1\n',
            'async def f():\n    async for %s in z: pass\n', 'def f():\n    %s = yield\n', 'try: pass\nexcept E as %s: pass\n', 'import m as %s\n', 'f(%s=1)\n', 'def f(a=%s): pass\n',
            'x = %s = yield\n', 'match z:\n    case %s: pass\n']
    return [c % s for c in ctxs for s in shapes]


TARGETS = _target_programs()


def _comprehension_programs():
    """comprehension kind x element x loop clauses x enclosing scope: walrus, await, async for, nested loops, conditions, lambdas and yields in every
    combination (the rules about comprehensions look at several of these at once)"""
    elems = ['x', '(y := x)', 'await x', '(y := await x)', 'lambda: x', '(lambda: (y := x))()', 'x if x else (y := 1)', '[w for w in x]', '[(v := w) for w in x]',
             '[w async for w in x]', '(yield x)', 'f(y := x)', 'x[y := 0]']
    loops = ['for x in z', 'async for x in z', 'for x in z for w in x', 'async for x in z for w in x', 'for x in z async for w in x', 'for x in z if x', 'for x in z if (q := x)',
             'async for x in z if (q := x)', 'for x in z if x async for w in x', 'for x in z if x for w in x', 'async for x in z if x async for w in x', 'for x in z if x if w async for v in x', 'for x, *w in z', 'for x in (y := z)', 'for x in [k for k in z]', 'for x in await z', 'for x in lambda: z']
    kinds = ['[%s %s]', '{%s %s}', '{%s: 0 %s}', '(%s %s)', 'f(%s %s)', 'f(a, (%s %s))']
    scopes = ['%s\n', 'def f():\n    return %s\n', 'async def f():\n    return %s\n', 'class C:\n    v = %s\n', 'async def f():\n    def g():\n        return %s\n',
              'def f():\n    async def g():\n        return %s\n', 'lambda: %s\n']
    out = []
    for k in kinds:
        for e in elems:
            for l in loops:
                out.append(k % (e, l))
    progs = []
    for i, c in enumerate(out):
        progs.append(scopes[i % len(scopes)] % c)
        progs.append(scopes[(i * 3 + 2) % len(scopes)] % c)
    return progs


COMPS = _comprehension_programs()

TARGETS = TARGETS + COMPS


def semantic(r):
    """one to three near-miss programs, optionally nested inside a function / class / loop / try"""
    out = []
    for _ in range(r.randint(1, 3)):
        k = r.random()
        src = r.choice(SEMANTIC) if k < 0.6 else r.choice(INVALID) if k < 0.85 else r.choice(TARGETS)
        w = r.choice(WRAPS)
        if w:
            depth = w.count('\n')
            body = ''.join('    ' * depth + ln for ln in src.splitlines(True))
            src = w + body
            if w.startswith('try:'):
                src += 'finally:\n    pass\n'
        out.append(src)
    if r.random() < 0.3:
        r.shuffle(out)
    return ''.join(out)


def longlines(r):
    """programs whose lines straddle the line-length limit: padded comments (with and without words, URLs), long strings and expressions"""
    out = []
    for _ in range(r.randint(1, 4)):
        stmt = r.choice(['x = 1', 'def f():', '    return f(a, b)', 'class C: pass', 'y = [1, 2]', '', '    ', 'if a:', '        pass', 'v = g(a)'])
        pad = r.choice([0, 1, 2, 60, 70, 74, 76, 77, 78, 79, 80, 81, 90, 120])
        kind = r.random()
        if kind < 0.35:
            comment = r.choice(['#', '# ', '#  ', '#\t', '# x', '# ' + 'w' * r.choice([1, 10, 70, 100]), '# http://' + 'a' * r.choice([5, 60, 90]),
                                '#: ' + 'ab ' * r.choice([1, 30]), '#!' + 'x' * 85, '#' + ' ' * r.choice([1, 80, 100]), '# a ' + ' ' * 90])
            line = stmt + ' ' * max(0, pad - len(stmt)) + comment
        elif kind < 0.55:
            line = stmt.rstrip(':') + ' = "' + 's' * pad + '"' if '=' not in stmt and stmt.strip() and not stmt.endswith(':') else 's = "' + 's' * pad + '"'
        elif kind < 0.75:
            line = 'z = ' + ' + '.join('a%d' % i for i in range(max(1, pad // 5)))
        elif kind < 0.85:
            line = stmt + ' ' * pad                      # trailing white space beyond the limit
        else:
            line = ' ' * min(pad, 40) + 'call(' + ', '.join('arg%d' % i for i in range(max(1, pad // 8))) + ')'
        out.append(line + r.choice(['\n', '\n', '\n', '\r\n', '']))
        if stmt.endswith(':') and kind >= 0.35:
            out.append('    pass\n')
    return ''.join(out)


def derived_any(r):
    return derived(r, r.choice(['3.6', '3.8', '3.10', '3.12', '3.14']))


BREAK_KW = ['import', 'class', 'def', 'try', 'except', 'finally', 'while', 'with', 'return', 'continue', 'break', 'del', 'pass', 'global', 'assert', 'nonlocal',
            'async', 'await', 'if', 'else', 'elif', 'for', 'lambda', 'yield', 'raise', 'from', 'in', 'is', 'not', 'match', 'case']
KW_NAMES = ['delta', 'classes', 'passed', 'imports', 'defs', 'tryit', 'excepts', 'finallyx', 'whiles', 'withal', 'returned', 'continued', 'breaker',
            'globals_', 'asserts', 'nonlocals', 'iffy', 'elsewhere', 'forx', 'de', 'clas', 'impor', 'retur', 'Del', 'Class']


def brackbreak(r):
    """statements broken off inside open brackets / f-strings: continuation lines at every indentation relative to the block, starting with
    keywords that always break a bracket, identifiers that merely begin like one, and the keyword again later on the line"""
    out = []
    depth = r.choice([0, 0, 4, 8, 8, 12, 2])
    lvl = 0
    while lvl < depth:
        out.append(' ' * lvl + r.choice(['def f():\n', 'if a:\n', 'class K:\n', 'for i in j:\n', 'try:\n', 'while x:\n']))
        lvl = min(depth, lvl + r.choice([2, 4, 4, 8]))
    ind = ' ' * depth
    opener = r.choice(['x = foo(', 'y = [', 'z = {', 'print(a,', 'q = (1 +', 'f"{a +', 'w = f(b)[', 'v = {1: (', 'foo(bar(', "s = f'" + "''{"])
    out.append(ind + opener + r.choice(['\n', ' b,\n', ' # c\n', '\\\n']))
    for _ in range(r.randint(1, 4)):
        ci = max(0, depth + r.choice([-8, -6, -4, -3, -2, -1, 0, 0, 1, 2, 4, 4, 8]))
        kw = r.choice(BREAK_KW)
        first = r.choice([kw, kw, r.choice(KW_NAMES), kw + 'x', kw[:-1] if len(kw) > 2 else kw, 'a', '1', ')', ']'])
        rest = r.choice(['', ', ' + kw, ' ' + kw, ', ' + kw + ' b', ' = 1', ' x, y', '(c)', ': pass', ' a: ' + kw + ' b', ', b)', ' ]', ' import z', ''])
        out.append(' ' * ci + first + rest + r.choice(['\n', '\n', ' # t\n', ')\n', ']\n', '}\n']))
    if r.random() < 0.6:
        out.append(' ' * max(0, depth + r.choice([-4, 0, 0, 4])) + r.choice(['y = 2\n', 'return 1\n', 'pass\n', 'else:\n    z\n']))
    s = ''.join(out)
    if r.random() < 0.15:
        s = s.replace('\n', r.choice(['\r\n', '\r']))
    return s


KINDS = [('garbage', garbage, 25), ('lines', lines, 15), ('oneliner', oneliner, 30), ('valid', valid, 10),
         ('mutate', mutate, 15), ('corpus', corpus, 5), ('derived', derived_any, 10), ('fstrings', fstrings, 20), ('reindent', reindent, 25), ('semantic', semantic, 20), ('longlines', longlines, 8), ('brackbreak', brackbreak, 15)]


def text_case(seed, stream, index, kinds=None):
    """returns (kind, text)"""
    r = rng(seed, stream, index)
    ks = KINDS if kinds is None else [k for k in KINDS if k[0] in kinds]
    tot = sum(k[2] for k in ks)
    x = r.uniform(0, tot)
    for name, fn, w in ks:
        if x < w:
            return name, fn(r)
        x -= w
    return ks[-1][0], ks[-1][1](r)


PREFIX_ATOMS = [' ', '  ', '\t', '\f', '\n', '\r\n', '\r', '#c', '# x y', '\\\n', '\\\r\n', '\\\r', '\ufeff', '#\f x', '\x0b',
                '#', '\\', 'x', '\x1c', '#a\f']


def prefix_case(seed, stream, index):
    r = rng(seed, stream, index)
    p = ''.join(r.choice(PREFIX_ATOMS[:14] if r.random() < 0.8 else PREFIX_ATOMS) for _ in range(r.randint(0, 8)))
    return p, r.randint(1, 5), r.choice([0, 0, 0, 4])


SEPS = ['\n', '\r\n', '\r', '\x0b', '\x0c', '\x1c', '\x1d', '\x1e', '\x85', '\u2028', '\u2029', 'a', 'b ', '', '\n\n', '\r\r\n']


def lines_case(seed, stream, index):
    r = rng(seed, stream, index)
    return ''.join(r.choice(SEPS) for _ in range(r.randint(0, 12)))


# ---- grammar-derived programs -------------------------------------------------------
class Deriver:
    """random derivations from the rule automata of a grammar version, rendered as program text"""
    _cache = {}

    def __init__(self, version):
        import parso, collections
        self.g = parso.load_grammar(version=version)._pgen_grammar
        self.dfas = self.g.nonterminal_to_dfas
        big = 10 ** 9
        self.cost_rule = {r: big for r in self.dfas}
        self.cost_state = {}
        changed = True
        while changed:
            changed = False
            for r, states in self.dfas.items():
                for s in states:
                    best = 0 if s.is_final else big
                    for l, nx in s.arcs.items():
                        c = (self.cost_rule[l] if l in self.dfas else 1) + self.cost_state.get(id(nx), big)
                        best = min(best, c)
                    if best < self.cost_state.get(id(s), big):
                        self.cost_state[id(s)] = best
                        changed = True
                c = self.cost_state.get(id(states[0]), big)
                if c < self.cost_rule[r]:
                    self.cost_rule[r] = c
                    changed = True
        self.arc_use = collections.Counter()

    @classmethod
    def get(cls, version):
        if version not in cls._cache:
            cls._cache[version] = cls(version)
        return cls._cache[version]

    def derive(self, rnd, rule, budget, out):
        yield_labels(self.derive_tree(rnd, rule, budget), out)

    def min_arc(self, s):
        return min(sorted(s.arcs.items()), key=lambda o: (self.cost_rule[o[0]] if o[0] in self.dfas else 1) + self.cost_state[id(o[1])])

    def derive_tree(self, rnd, rule, budget):
        """('N', rule, kids) / ('L', label): a random derivation of `rule`, steered to rarely used arcs, closed at minimal cost once the budget is spent"""
        s = self.dfas[rule][0]
        kids = []
        while True:
            opts = sorted(s.arcs.items())
            if budget[0] <= 0:
                if s.is_final:
                    break
                l, nx = self.min_arc(s)
            else:
                if s.is_final and (not opts or rnd.random() < 0.5):
                    break
                w = [1.0 / (1 + self.arc_use[(id(s), l)]) for l, _ in opts]
                l, nx = rnd.choices(opts, weights=w)[0]
            self.arc_use[(id(s), l)] += 1
            budget[0] -= 1
            kids.append(self.derive_tree(rnd, l, budget) if l in self.dfas else ('L', l))
            s = nx
        return ('N', rule, kids)

    # ---- targeted derivations: a derivation of `root` that takes a given arc ----
    def all_arcs(self, root):
        """every (rule, state index, label) reachable from root"""
        seen, todo, out = set(), [root], []
        while todo:
            r = todo.pop()
            if r in seen:
                continue
            seen.add(r)
            for i, s in enumerate(self.dfas[r]):
                for l in sorted(s.arcs):
                    out.append((r, i, l))
                    if l in self.dfas:
                        todo.append(l)
        return sorted(out)

    def _rdist(self, target):
        """rule -> number of nonterminal steps needed to get from that rule down to `target`"""
        key = ('rdist', target)
        if key not in self.__dict__.setdefault('_memo', {}):
            dist = {target: 0}
            changed = True
            while changed:
                changed = False
                for r, states in self.dfas.items():
                    best = dist.get(r)
                    for s in states:
                        for l in s.arcs:
                            if l in dist and (best is None or dist[l] + 1 < best):
                                best = dist[l] + 1
                    if best is not None and best != dist.get(r):
                        dist[r] = best
                        changed = True
            self._memo[key] = dist
        return self._memo[key]

    def _path_to(self, rule, want):
        """shortest list of (label, next state) from the start state of `rule` to a state s for which want(s) holds; returns (path, s)"""
        import collections
        start = self.dfas[rule][0]
        prev = {id(start): None}
        q = collections.deque([start])
        byid = {id(start): start}
        while q:
            s = q.popleft()
            if want(s):
                path = []
                cur = s
                while prev[id(cur)] is not None:
                    ps, l = prev[id(cur)]
                    path.append((l, cur))
                    cur = ps
                return list(reversed(path)), s
            for l, nx in sorted(s.arcs.items()):
                if id(nx) not in prev:
                    prev[id(nx)] = (s, l)
                    byid[id(nx)] = nx
                    q.append(nx)
        return None, None

    def _close(self, rnd, s, kids, budget):
        """finish the current rule from state s"""
        while True:
            if s.is_final and (budget[0] <= 0 or not s.arcs or rnd.random() < 0.6):
                return
            if budget[0] <= 0:
                l, nx = self.min_arc(s)
            else:
                l, nx = rnd.choice(sorted(s.arcs.items()))
            budget[0] -= 1
            kids.append(self.derive_tree(rnd, l, budget) if l in self.dfas else ('L', l))
            s = nx

    def derive_with_arc(self, rnd, root, arc, budget=None):
        """a derivation of `root` that contains the arc (rule, state index, label); None when the arc is not reachable from root"""
        budget = budget or [0]
        rule, idx, label = arc
        dist = self._rdist(rule)
        if root not in dist:
            return None

        def go(r):
            kids = []
            if r == rule:
                target_state = self.dfas[rule][idx]
                path, s = self._path_to(r, lambda st: st is target_state)
                if path is None:
                    return None
                for l, nx in path:
                    kids.append(self.derive_tree(rnd, l, [0]) if l in self.dfas else ('L', l))
                nx = target_state.arcs[label]
                self.arc_use[(id(target_state), label)] += 1
                kids.append(self.derive_tree(rnd, label, budget) if label in self.dfas else ('L', label))
                self._close(rnd, nx, kids, budget)
                return ('N', r, kids)
            d = dist[r]
            path, s = self._path_to(r, lambda st: any(l in dist and dist[l] == d - 1 for l in st.arcs))
            if path is None:
                return None
            for l, nx in path:
                kids.append(self.derive_tree(rnd, l, [0]) if l in self.dfas else ('L', l))
            l = sorted(x for x in s.arcs if x in dist and dist[x] == d - 1)[0]
            sub = go(l)
            if sub is None:
                return None
            kids.append(sub)
            self._close(rnd, s.arcs[l], kids, budget)
            return ('N', r, kids)
        return go(root)


def yield_labels(t, out):
    if t[0] == 'L':
        out.append(t[1])
    else:
        for k in t[2]:
            yield_labels(k, out)


NAMES = ['a', 'b', 'c', 'x', 'y', 'f', 'g', 'self', 'Cls', 'l', 'n', 'value']
NUMBERS = ['0', '1', '2', '10', '0x1F', '0b11', '0o7', '1_000', '3.14', '1e3', '2j', '09j', '0_0', '.5', '5.', '1e-2j', '0XaB', '1E5',
           # every combination of (integer part / none) x (fraction / none) x (exponent / none) x (imaginary suffix / none), underscores, capital markers
           '.5j', '.5J', '.5e3', '.5e3j', '.0_1j', '.1e-5J', '5.j', '5.J', '5.e3', '5.e+3j', '0.5j', '1_0.0_1e1_0j', '1e+5', '1E-5J', '0e0', '00', '0_0.0', '0.', '.0',
           '0B1_0', '0O1_7', '0X_f', '0x_F_f', '0b_1', '1_2_3', '9_9.9_9', '1j', '1J', '0j', '00j', '0_7j', '1_000_000', '0xdeadBEEF', '007j', '1.e1', '1.E1J']
STRINGS = ['"s"', "'t'", '"""d"""', 'b"b"', "r'\\d'", 'R"\\x"', "BR'\\u12'", "rb'\\N'", 'u"u"', "'\\n'", '"\\x41"', "'\\N{DASH}'", "b'\\xff'",
           '"a" "b"', "Rb'\\x'", "'\\\n'", '"\\u00e9"']


def render(labels, rnd):
    """token labels of a derivation -> program text (indentation from INDENT/DEDENT)"""
    import ast as pyast
    out = []
    ind = 0
    at_line_start = True
    for l in labels:
        if l == 'INDENT':
            ind += 1
            continue
        if l == 'DEDENT':
            ind -= 1
            continue
        if l == 'ENDMARKER':
            continue
        if l == 'NEWLINE':
            out.append('\n')
            at_line_start = True
            continue
        if l[0].isalpha():
            if l == 'NAME':
                t = rnd.choice(NAMES)
            elif l == 'NUMBER':
                t = rnd.choice(NUMBERS)
            elif l == 'STRING':
                t = rnd.choice(STRINGS)
            elif l == 'FSTRING_START':
                t = 'f"'
            elif l == 'FSTRING_STRING':
                t = 'z'
            elif l == 'FSTRING_END':
                t = '"'
            else:
                t = ''
        else:
            t = pyast.literal_eval(l)
        if at_line_start:
            out.append('    ' * max(ind, 0))
            at_line_start = False
        elif l not in ('FSTRING_STRING', 'FSTRING_END') and (not out or not out[-1].endswith('f"')):
            out.append(' ')
        out.append(t)
    return ''.join(out)


def derived(r, version='3.10', start='file_input', budget=None):
    d = Deriver.get(version)
    if start != 'file_input':
        labels = []
        d.derive(r, start, [budget or r.choice([6, 10, 16, 25, 40])], labels)
        return render(labels, r)
    out = []
    for _ in range(r.randint(1, 4)):
        labels = []
        if r.random() < 0.5:
            # aim at one arc of the grammar, so that every rule and every alternative of every version is reached
            arcs = d.__dict__.setdefault('_stmt_arcs', None) or d.all_arcs('stmt')
            d._stmt_arcs = arcs
            t = d.derive_with_arc(r, 'stmt', r.choice(arcs), [budget or r.choice([0, 4, 10])])
            if t is not None:
                yield_labels(t, labels)
        if not labels:
            d.derive(r, 'stmt', [budget or r.choice([6, 10, 16, 25, 40])], labels)
        out.append(render(labels, r))
    return ''.join(out)

# indentation errors whose offending token carries a backslash continuation (and comments / blank lines) in its prefix, with every line-end style:
# the issue is reported at the last prefix part, whose position depends on the line counting of split_prefix
def _indent_after_continuation():
    out = []
    for nl in ('\n', '\r', '\r\n'):
        for bs in ('\\' + nl, '  \\' + nl, '\\' + nl + '\\' + nl, '# c' + nl + '\\' + nl, '\\' + nl + nl):
            out += ['x' + nl + bs + '  y' + nl, 'if a:' + nl + '    x' + nl + bs + '  y' + nl, 'def f():' + nl + '    pass' + nl + bs + '  z' + nl + 'w' + nl,
                    'class C:' + nl + bs + 'x' + nl, 'for i in j:' + nl + '        a' + nl + bs + '    b' + nl + bs + '      c' + nl]
    return out


INVALID += _indent_after_continuation()


# block statements nested up to CPython's limit (20 loop / try / with blocks; `if` is not counted)
def _nested_blocks():
    out = []
    for kw, n in (('while 1:', 19), ('while 1:', 20), ('for i in j:', 20), ('with a:', 20), ('if 1:', 20), ('if 1:', 26), ('for i in j:', 12)):
        out.append(''.join(' ' * i + kw + '\n' for i in range(n)) + ' ' * n + 'pass\n')
    out.append('def f():\n' + ''.join(' ' * (i + 1) + ('while 1:' if i % 2 else 'if 1:') + '\n' for i in range(22)) + ' ' * 23 + 'pass\n')
    return out


SEMANTIC += _nested_blocks()


# nonlocal declarations whose binding is found beyond a class body (class scopes are skipped), with and without a global declaration in the class
SEMANTIC += ['def a():\n    x = 1\n    class B:\n        global x\n        def c(self):\n            nonlocal x\n',
             'def a():\n    x = 1\n    class B:\n        def c(self):\n            nonlocal x\n            x = 2\n',
             'def a():\n    x = 1\n    class B:\n        global x\n        x = 2\n        def c(self):\n            nonlocal x\n            x = 3\n',
             'def a():\n    x = 1\n    def b():\n        global x\n        def c():\n            nonlocal x\n',
             'def a():\n    class B:\n        global x\n        def c(self):\n            nonlocal x\n',
             'def a(x):\n    class B:\n        class D:\n            global x\n            def c(self):\n                def d():\n                    nonlocal x\n']
