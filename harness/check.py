#!/venv/bin/python
"""./check <id> [quick|thorough] [--replay file]"""
import sys, os, json, time, importlib, traceback
ROOT = os.path.dirname(os.path.dirname(os.path.abspath(__file__)))
sys.path.insert(0, ROOT)
os.environ.setdefault('PYTHONHASHSEED', '0')
if '/repo' not in sys.path:
    sys.path.insert(1, '/repo')
sys.setrecursionlimit(3000)

from harness import common


def main():
    args = [a for a in sys.argv[1:] if not a.startswith('--')]
    pid = args[0]
    tier = os.environ.get('VERIF_TIER') or (args[1] if len(args) > 1 else 'quick')
    if tier not in ('quick', 'thorough'):
        tier = 'quick'
    seed = int(os.environ.get('VERIF_SEED', '0') or 0)
    replay = None
    if '--replay' in sys.argv:
        replay = sys.argv[sys.argv.index('--replay') + 1]
    mod = importlib.import_module('harness.props.' + pid)
    ctx = common.Ctx(pid, tier, seed, level=getattr(mod, 'LEVEL', 'proof'))
    ctx.trusted = list(getattr(mod, 'TRUSTED', [])) + common_trusted()
    ctx.notes = list(getattr(mod, 'ASSUMPTIONS', []))
    ctx.explanation = getattr(mod, 'EXPLANATION', '')
    try:
        ok, msg = common.translate()
        if not ok:
            ctx.add_obligation('translator', False, msg[-600:])
            # the tie to the source is broken: search the implementation alone for a concrete failing input before giving up
            found = fallback_search(mod, ctx)
            if not found:
                ctx.violation('translator-failed', dict(kind='theorem', obligation='harness/translator.py', detail=msg[-1500:]), found_input=False)
            sys.exit(ctx.finish())
        from harness import impl
        impl.reset_meta()
        bad = common.lint_coq()
        if bad:
            ctx.add_obligation('lint', False, '; '.join(bad[:10]))
            ctx.violation('lint-failed', dict(kind='theorem', obligation='lint', detail=bad[:20]), found_input=False)
            sys.exit(ctx.finish())
        b = common.build()
        ctx.assumptions = b['assumptions']
        if not b['driver_ok']:
            ctx.add_obligation('extraction+ocaml-driver', False, 'see ' + b['log'])
            ctx.violation('driver-build-failed', dict(kind='theorem', obligation='Extract.v / ocaml/driver.ml', log=b['log']), found_input=False)
            sys.exit(ctx.finish())
        drv = common.Driver()
        if replay:
            rp = json.load(open(replay))
            r = generic_replay(mod, ctx, rp)
            print('replay result:', r)
            if r:
                print('VIOLATION property=%s replay=%s' % (pid, replay))
            sys.exit(1 if r else 0)
        mod.run(ctx, b, drv)
    except SystemExit:
        raise
    except Exception as e:
        tb = traceback.format_exc()
        ctx.add_obligation('harness', False, tb[-800:])
        ctx.violation('harness-crashed:%s' % type(e).__name__, dict(kind='theorem', obligation='harness', detail=tb[-3000:]), found_input=False)
    code = ctx.finish()
    # leave without interpreter tear-down: objects left behind by deliberately damaged pickles (C17) make it slow and noisy
    sys.stdout.flush()
    sys.stderr.flush()
    os._exit(code)


def fallback_search(mod, ctx):
    """model unavailable (translator / build failed): evaluate the property's own predicate on generated inputs, implementation only.
    Returns the number of violations found (known findings are recognised as usual)."""
    if not hasattr(mod, 'pred'):
        return 0
    from harness.props import base
    before = len(ctx.violations)
    try:
        base.search_texts(ctx, base.scale(ctx, 6000), mod.pred, 'fallback-' + ctx.pid.lower(), None)
    except Exception:
        ctx.add_obligation('fallback-search', False, traceback.format_exc()[-600:])
    return len(ctx.violations) - before


def generic_replay(mod, ctx, rp):
    """re-evaluate a replay file against the current /repo: returns the signature observed now, or None when the input passes.
    Replays without a concrete input (kind `theorem`: a broken obligation / correspondence stream) are re-decided by the whole check."""
    import parso
    from harness import preds
    if hasattr(mod, 'replay'):
        return mod.replay(ctx, rp)
    text = None
    if rp.get('input_cps'):
        try:
            cps = rp['input_cps'] if isinstance(rp['input_cps'], list) else json.loads(rp['input_cps'])
            text = ''.join(chr(c) for c in cps)
        except Exception:
            text = None
    if text is None:
        text = rp.get('input_text') or rp.get('text')
    if rp.get('kind') == 'theorem' or text is None:
        return 'not-an-input-replay: run ./check %s to re-decide (%s)' % (ctx.pid if hasattr(ctx, 'pid') else '', rp.get('obligation', rp.get('kind')))
    if hasattr(mod, 'recheck'):
        r = mod.recheck(rp, text)
        return None if r in (None, 'not-accepted') else r
    if hasattr(mod, 'pred'):
        v = rp.get('version') or '3.10'
        try:
            m = parso.load_grammar(version=v).parse(text)
        except RecursionError:
            return None
        except Exception as e:
            return preds.crash_sig(e)
        try:
            return mod.pred(v, text, m)
        except RecursionError:
            return None
        except Exception as e:
            return preds.crash_sig(e)
    return 'not-replayable'


def common_trusted():
    return ['Coq 8.16.1 kernel incl. its VM (vm_compute); no native_compute',
            'harness/translator.py (tables regenerated from the running parso) and CPython re._parser/inspect/ast it uses',
            'extraction (ExtrOcamlBasic only, no Extract Constant) + ocaml/driver.ml + OCaml 4.13.1',
            'correspondence harness (generators, canonical forms, comparison) in /verif/harness',
            'hand transcription of the modelled functions (DESIGN.md section 3); CPython semantics of re/str methods are modelled, validated differentially']


if __name__ == '__main__':
    main()
