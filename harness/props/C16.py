import os, shutil, time, re, tempfile
from harness.props import base
from harness import gens, common, preds
import parso
from parso import cache as pcache
from parso.file_io import FileIO

LEVEL = 'proof'
TECHNIQUE = ('Coq invariant proof on a protocol state machine of the cache (non-atomic parse, environment writes between its I/O points) + '
             'vm_compute refutations; extracted model vs implementation on real-file histories with a controlled clock')
EXPLANATION = ('Cache.v models Grammar.parse/load_module/_load_from_file_system/try_to_save_module as a state machine with the parse split at its '
               'I/O points. Theorem C16_cache_transparent: for every history (writes between any two I/O points, memory drops, cache deletion) no parse '
               'serves a version older than the one current when it started. The implementation is run on the same histories with real files; the '
               'version it serves must equal the model prediction, and the not_stale predicate is evaluated on it.')
LEVEL_TEXT = EXPLANATION
# which variant of the model the code currently is: (record mtime sampled before the read, judge disk entry by recorded time)
MODEL_FLAGS = (1, 1)
ASSUMPTIONS = ['every observable write advances the modification time strictly (the property says so)',
               'a pickle file gets the modification time of the moment it is written (>= mtime of the last write before it)',
               'keys (path, grammar, cache directory) are projected onto the single-key Coq model; key independence is what the correspondence checks']


def content(k, f):
    return 'x = %d\nname_%s = (y := %d)\n' % (k, f, k)


class HookedIO(FileIO):
    """public file_io parameter of Grammar.parse: lets the environment write between the I/O points"""

    def __init__(self, path, world, fname, w):
        super().__init__(path)
        self.world, self.fname, self.w = world, fname, list(w)
        self.stats = 0

    def get_last_modified(self):
        r = super().get_last_modified()
        self.stats += 1
        if self.stats == 1:
            for _ in range(self.w[0]):
                self.world.write(self.fname)
            self.w[0] = 0
        return r

    def read(self):
        for _ in range(self.w[0]):          # parse without cache never stats first
            self.world.write(self.fname)
        self.w[0] = 0
        for _ in range(self.w[1]):
            self.world.write(self.fname)
        data = super().read()
        for _ in range(self.w[2]):
            self.world.write(self.fname)
        return data


class World:
    def __init__(self, root, epoch=False, step=1.0):
        self.root = root
        # virtual clock of the files: normally recent times; with epoch=True version k has modification time k
        # (the first version exactly 0.0, as in epoch-normalised checkouts and archives)
        self.base = 0 if epoch else int(time.time()) - 100000
        self.epoch = epoch
        self.step = step
        self.ver = {}
        self.touch_of = {}
        os.makedirs(root, exist_ok=True)
        self.pickles = {}

    def path(self, f):
        # f2 and f3 are DIFFERENT files whose path strings coincide once `x/..` is collapsed textually:
        #   f2 = root/m.py          f3 = root/link/../m.py  with  link -> root/real/sub,  i.e. root/real/m.py
        # (a cache keyed by a normalised path string would confuse them; the OS does not)
        if f == 'f2':
            return os.path.join(self.root, 'm.py')
        if f == 'f3':
            real = os.path.join(self.root, 'real', 'sub')
            link = os.path.join(self.root, 'link')
            if not os.path.islink(link):
                os.makedirs(real, exist_ok=True)
                os.symlink(real, link)
            return os.path.join(self.root, 'link', '..', 'm.py')
        return os.path.join(self.root, f + '.py')

    def cdir(self, c):
        return os.path.join(self.root, 'cache_' + c)

    def mt(self, k):
        if self.epoch:
            return float(self.base + k)
        # a few saves per second: modification times that differ only below the second must count as different
        return float(self.base) + k * self.step

    def write(self, f, touch=False, revert=False):
        k = self.ver.get(f, -1) + 1
        self.ver[f] = k
        ck = self.touch_of.get((f, k - 1), k - 1) if touch else k
        if revert and k >= 2:
            # the content the file had before its last change comes back (an undo in an editor, a checkout), under a newer modification time
            touch = True
            ck = self.touch_of[(f, k - 2)]
        self.touch_of[(f, k)] = ck if touch else k
        with open(self.path(f), 'w') as fh:
            fh.write(content(self.touch_of[(f, k)], f))
        os.utime(self.path(f), (time.time(), self.mt(k)))

    def content_version(self, f, k):
        return self.touch_of[(f, k)]

    def fix_pickles(self, f):
        """give freshly written pickles the (virtual) time of the moment they were written"""
        for c in ('a', 'b'):
            d = self.cdir(c)
            if not os.path.isdir(d):
                continue
            for dirpath, _, files in os.walk(d):
                for fn in files:
                    if not fn.endswith('.pkl'):
                        continue
                    p = os.path.join(dirpath, fn)
                    st = os.stat(p)
                    if self.pickles.get(p) != st.st_mtime_ns:
                        os.utime(p, (time.time(), self.mt(self.ver[f])))
                        self.pickles[p] = os.stat(p).st_mtime_ns


def gen_history(r, mixed):
    files = ['f0', 'f1'] + (['f2', 'f3'] if mixed else [])
    grams = ['3.7', '3.10']
    cds = ['a', 'b']
    h = []
    # the in-memory cache is keyed by (grammar, path) only, the disk cache additionally by directory: for the
    # single-key model correspondence every (file, grammar) pair uses one directory; mixed histories use any
    cd_of = {(f, g): r.choice(cds) for f in files for g in grams}

    def mk():
        f, g = r.choice(files), r.choice(grams)
        return (f, g, r.choice(cds) if mixed else cd_of[(f, g)])
    main = mk()
    p_main = r.choice([0.7, 0.7, 0.3, 0.0])
    one_grammar = r.random() < 0.4
    for _ in range(r.randint(3, 12)):
        k = r.random()
        key = main if r.random() < p_main else mk()
        if one_grammar:
            key = (key[0], main[1], key[2] if mixed else cd_of[(key[0], main[1])])
        if k < 0.5:
            w = [0, 0, 0]
            if r.random() < 0.35:
                w[r.randrange(3)] = r.choice([1, 1, 2])
            mode = 'cache'
            if mixed:
                mode = r.choice(['cache', 'cache', 'diff', 'cache+diff', 'nocache'])
            h.append(('parse',) + key + (mode,) + tuple(w))
        elif k < 0.75:
            h.append(('write', key[0]))
        elif k < 0.8 and mixed:
            h.append((r.choice(['touch', 'revert', 'revert']), key[0]))
        elif k < 0.92:
            h.append(('drop',))
        else:
            h.append(('rmcache', key[2]))
    return h


def gen_history_motif(r):
    """use - change - incremental parse - undo - incremental parse, around a garbage collection of the memory cache: the entry of a file is hit (so it
    survives the collection), other files of the same grammar are not (so they are collected when the next entry is stored), the file changes and is
    parsed incrementally, then gets its old content back and is parsed again; random operations in between"""
    files = ['f0', 'f1', 'f2', 'f3']
    g = r.choice(['3.7', '3.10'])
    f = r.choice(files)
    others = [x for x in files if x != f]
    c = r.choice(['a', 'b'])
    inc = lambda: r.choice(['diff', 'cache+diff', 'cache+diff'])
    core = [('parse', f, g, c, 'cache', 0, 0, 0)]
    for o in r.sample(others, r.randint(1, 3)):
        core.append(('parse', o, g, r.choice(['a', 'b']), 'cache', 0, 0, 0))
    core += [('parse', f, g, c, r.choice(['cache', 'cache+diff']), 0, 0, 0), ('write', f), ('parse', f, g, c, inc(), 0, 0, 0),
             ('revert', f), ('parse', f, g, c, inc(), 0, 0, 0)]
    if r.random() < 0.5:
        core += [('revert', f), ('parse', f, g, c, inc(), 0, 0, 0)]
    h = []
    for op in core:
        if r.random() < 0.15:
            h.append(r.choice([('parse', r.choice(files), r.choice(['3.7', '3.10']), r.choice(['a', 'b']), r.choice(['cache', 'diff', 'nocache']), 0, 0, 0),
                               ('touch', r.choice(files)), ('write', r.choice(others))]))
        h.append(op)
    return h


def run_history(h, root, gc_trigger=None, epoch=False, step=1.0):
    """returns list of observations for parse steps: (step index, key, start version, end version, served content version or None, fresh_equal)"""
    shutil.rmtree(root, ignore_errors=True)
    W = World(root, epoch, step)
    for f in ('f0', 'f1', 'f2', 'f3'):
        W.write(f)
    pcache.parser_cache.clear()
    obs = []
    old_trigger = pcache._CACHED_SIZE_TRIGGER
    if gc_trigger is not None:
        # make the in-memory garbage collection (normally at 600 entries) reachable: every entry whose file was not
        # modified during the last 10 minutes is then evicted whenever a new one is stored
        pcache._CACHED_SIZE_TRIGGER = gc_trigger
    try:
        return _run_history(h, W, obs)
    finally:
        pcache._CACHED_SIZE_TRIGGER = old_trigger
        pcache.parser_cache.clear()


def _run_history(h, W, obs):
    for i, op in enumerate(h):
        if op[0] == 'write':
            W.write(op[1])
        elif op[0] == 'touch':
            W.write(op[1], touch=True)
        elif op[0] == 'revert':
            W.write(op[1], revert=True)
        elif op[0] == 'drop':
            pcache.parser_cache.clear()
        elif op[0] == 'rmcache':
            shutil.rmtree(W.cdir(op[1]), ignore_errors=True)
        else:
            _, f, g, c, mode, w1, w2, w3 = op
            gr = parso.load_grammar(version=g)
            start = W.ver[f]
            io = HookedIO(W.path(f), W, f, (w1, w2, w3))
            try:
                m = gr.parse(file_io=io, cache=mode in ('cache', 'cache+diff'), diff_cache=mode in ('diff', 'cache+diff'),
                             cache_path=W.cdir(c))
            except Exception as e:
                obs.append((i, (f, g, c), start, W.ver[f], None, preds.crash_sig(e)))
                continue
            W.fix_pickles(f)
            code = m.get_code()
            mm = re.match(r'x = (\d+)\n', code)
            served = int(mm.group(1)) if mm and code == content(int(mm.group(1)), f) else None
            fresh = gr.parse(code)
            same = preds.sig_tree(fresh) == preds.sig_tree(m)
            obs.append((i, (f, g, c), start, W.ver[f], served, 'ok' if same else 'tree-differs-from-fresh-parse'))
    pcache.parser_cache.clear()
    return obs, W


def project(h, key, performed):
    """single-key view of a multi-key history for the Coq model (cache-only histories);
    performed[i] = number of environment writes that actually happened during parse step i"""
    f, g, c = key
    ops = []
    for i, op in enumerate(h):
        if op[0] in ('write', 'touch', 'revert'):
            if op[1] == f:
                ops.append([1])
        elif op[0] == 'drop':
            ops.append([2])
        elif op[0] == 'rmcache':
            if op[1] == c:
                ops.append([3])
        else:
            _, f2, g2, c2, mode, w1, w2, w3 = op
            if (f2, g2, c2) == key:
                ops.append([0, w1, w2, w3])
            elif f2 == f:
                ops.extend([[1]] * performed.get(i, 0))
    return ops


def check_obs(ctx, h, obs, W, stream, index):
    for (i, key, start, end, served, status) in obs:
        f = key[0]
        sig = None
        if served is None:
            sig = 'C16:parse-failed-or-foreign-content:%s' % status
        elif status != 'ok':
            sig = 'C16:' + status
        else:
            lo = W.content_version(f, start)
            allowed = set(W.content_version(f, k) for k in range(start, end + 1))
            if served not in allowed:
                sig = 'C16:stale-tree-served' if served < lo else 'C16:unexpected-version-served'
        if sig:
            inflight = any(op[0] == 'parse' and sum(op[5:8]) > 0 for op in h[:i + 1])
            ctx.violation(sig + (':in-flight-write' if inflight else ''),
                          dict(kind='history', stream=stream, index=index, steps=[list(o) for o in h], failing_step=i, key=list(key),
                               version_at_start=start, version_at_end=end, served=served))
            return True
    return False


def run(ctx, b, drv):
    pend = base.Pending(ctx)
    base.obligations(ctx, b, pend, ['Cache.v', 'Properties/C16.v'])
    root = os.path.join(common.WORK, 'c16-%d' % os.getpid())
    try:
        n = 400 if ctx.tier == 'quick' else 8000
        reqs, keys, hs, allobs = [], [], [], []
        for i in range(n):
            r = gens.rng(ctx.seed, 'cache', i)
            h = gen_history(r, mixed=False)
            obs, W = run_history(h, root)
            ctx.count('cache-histories')
            if any(op[0] == 'parse' and sum(op[5:8]) for op in h):
                ctx.nontrivial(('cache', tuple(h)))
            if i == 0:
                ctx.sample(dict(stream='cache', history=[list(o) for o in h], observations=[list(o) for o in obs]))
            check_obs(ctx, h, obs, W, 'cache', i)
            for key in sorted(set(o[1] for o in obs)):
                ops = project(h, key, {o[0]: o[3] - o[2] for o in obs})
                reqs.append('cache %d %d %d %s' % (MODEL_FLAGS[0], MODEL_FLAGS[1], len(ops), ' '.join(' '.join(map(str, o)) for o in ops)))
                keys.append((i, key))
                hs.append(h)
                allobs.append([(o[2], o[4]) for o in obs if o[1] == key])
        outs = drv.run(reqs)
        bad = 0
        for (i, key), h, ob, o in zip(keys, hs, allobs, outs):
            ctx.count('cache-model-correspondence')
            exp = ' '.join('%d:%s' % (c, v) for c, v in ob)
            if exp != o:
                bad += 1
                if bad <= 3:
                    pend.add('correspondence-broken:cache', dict(kind='theorem', obligation='correspondence stream `cache` (Cache.v model with flags %s vs implementation)' % (MODEL_FLAGS,),
                                                                 steps=[list(x) for x in h], key=list(key), impl=exp, model=o))
        ctx.cov['disagreements_checked'] = bad
        for i in range(800 if ctx.tier == 'quick' else 16000):
            r = gens.rng(ctx.seed, 'cache-mixed', i)
            h = gen_history_motif(r) if r.random() < 0.25 else gen_history(r, mixed=True)
            obs, W = run_history(h, root, gc_trigger=r.choice([None, 1, 2, 3, 4]), epoch=r.random() < 0.3, step=r.choice([1.0, 1.0, 0.25, 0.125, 0.001]))
            ctx.count('cache-mixed-histories')
            ctx.nontrivial(('cache-mixed', tuple(h)))
            check_obs(ctx, h, obs, W, 'cache-mixed', i)
    finally:
        shutil.rmtree(root, ignore_errors=True)
    pend.flush()
    ctx.cov['rule'] = ('histories of 3-12 operations over {parse (cache / diff_cache / both / none) with 0-2 environment writes at one of the three I/O points, '
                       'write, touch, drop memory cache, delete cache dir} x 2 files x 2 grammar versions x 2 cache directories; '
                       'non-trivial = history with an in-flight write (cache stream) / any mixed history')
